(* C15, histories on one controller and one scheduler (Model/C15_Hist.v): the refresh of a period's
   duties cancels the jobs of that period's slots only; a slot's job, once scheduled, stays until
   the slot fires or its own period is refreshed, so the slot messages whatever else happens; the
   check's history predicate is sound for that and never stronger than the model. *)
From Verif Require Import Lib.Base Lib.JobTab Model.C15_Sync Model.C15_Hist Proofs.C15 Proofs.C15_Fire Check.C15
  Proofs.C15_Check Proofs.C15_Pass.
From Coq Require Import ZifyBool ZifyN ZifyNat Permutation.
Local Open Scope N_scope.

(* -------------------------------------------------------------------------------------------- *)
(* the range cancelled by a refresh, exactly *)

(* the slots of the period of [epoch] that carry a message: from the slot before its first slot to
   the slot before its last *)
Definition in_period_window (p : params) (epoch s : N) : Prop :=
  period_start p epoch - 1 <= s <= period_end p epoch - 2.

(* the refresh is for a period that does not begin at slot 0 (it is asked for the period after the
   current one), and the period fits uint64 *)
Definition refresh_ok (p : params) (epoch : N) : Prop :=
  in_range p epoch 0 /\ 0 < period_start p epoch.

Lemma refresh_range_exact : forall p epoch,
  chain_ok p -> refresh_ok p epoch ->
  refresh_range p epoch = (period_start p epoch - 1, period_end p epoch - 2).
Proof.
  intros p epoch Hok (Hr & Hpos).
  destruct (bounds p epoch 0 Hok Hr) as (B1 & B2 & B3 & B4 & B5 & B6 & B7 & B8 & B9).
  destruct (period_end_ge_2 p epoch 0 Hok Hr) as (E1 & E2 & E3 & E4).
  unfold refresh_range.
  rewrite (first_epoch_exact p epoch 0 Hok Hr), (next_epoch_exact p epoch 0 Hok Hr).
  set (fe0 := period_first_epoch p epoch) in *.
  set (ne := period_next_epoch p epoch) in *.
  assert (Hfe0 : fe0 * spe p < two64).
  { unfold fe0, period_first_epoch. rewrite <- N.mul_max_distr_r.
    destruct Hr as (Hc & Hf & Hq). lia. }
  assert (Hsub1 : sub64 ne 1 = ne - 1) by (unfold sub64; destruct (N.leb_spec 1 ne); lia).
  rewrite Hsub1.
  assert (Hadd : add64 (ne - 1) 1 = ne) by (unfold add64; rewrite wrap64_small by lia; lia).
  rewrite Hadd.
  unfold first_slot_of_epoch, mul64.
  rewrite (wrap64_small (fe0 * spe p)) by exact Hfe0.
  unfold period_end in E1, E2. fold ne in E1, E2.
  rewrite (wrap64_small (ne * spe p)) by exact E2.
  unfold period_start in Hpos. fold fe0 in Hpos.
  f_equal.
  - unfold period_start. fold fe0. unfold sub64. destruct (N.leb_spec 1 (fe0 * spe p)); lia.
  - unfold period_end. fold ne. unfold sub64. destruct (N.leb_spec 2 (ne * spe p)); lia.
Qed.

Lemma in_rangeb_spec : forall lo hi s, in_rangeb lo hi s = true <-> lo <= s <= hi.
Proof. intros. unfold in_rangeb. rewrite andb_true_iff, !N.leb_le. tauto. Qed.

Lemma refresh_cancels_spec : forall p epoch s,
  chain_ok p -> refresh_ok p epoch ->
  (in_rangeb (fst (refresh_range p epoch)) (snd (refresh_range p epoch)) s = true <-> in_period_window p epoch s).
Proof.
  intros p epoch s Hok Hrf. rewrite (refresh_range_exact p epoch Hok Hrf). cbn [fst snd].
  apply in_rangeb_spec.
Qed.

(* the same range, as the check writes it *)
Lemma spec_period_window_spec : forall p epoch s,
  chain_ok p -> (spec_period_window p epoch s = true <-> in_period_window p epoch s).
Proof.
  intros p epoch s Hok. pose proof (period_end_ge_2_exact p epoch Hok) as HE.
  unfold spec_period_window, in_period_window, period_start, period_end, period_first_epoch, period_next_epoch in *.
  rewrite andb_true_iff, !N.leb_le. lia.
Qed.

Lemma cancel_pred_eq : forall p epoch s,
  chain_ok p -> refresh_ok p epoch ->
  in_rangeb (fst (refresh_range p epoch)) (snd (refresh_range p epoch)) s = spec_period_window p epoch s.
Proof.
  intros p epoch s Hok Hrf.
  pose proof (refresh_cancels_spec p epoch s Hok Hrf) as H1.
  pose proof (spec_period_window_spec p epoch s Hok) as H2.
  destruct (in_rangeb _ _ s), (spec_period_window p epoch s); try reflexivity.
  - assert (false = true) by tauto. discriminate.
  - assert (false = true) by tauto. discriminate.
Qed.

(* -------------------------------------------------------------------------------------------- *)
(* the slots of a call: the model's list is the check's list *)

Lemma upto_seq : forall n lo, upto lo n = map (fun i => lo + N.of_nat i) (seq 0 n).
Proof.
  induction n as [|n IH]; intros lo; [reflexivity|].
  cbn [upto seq map]. f_equal; [lia|].
  rewrite IH, <- seq_shift, map_map. apply map_ext. intros i. lia.
Qed.

Lemma sched_slots_ready : forall p i, ready p i ->
  sched_slots p i = window_slots true p (si_epoch i) (si_cur i) (si_notcur i).
Proof.
  intros p i Hrd. unfold sched_slots. destruct (schedule_ready p i Hrd) as (Hj & _). rewrite Hj.
  rewrite map_map. cbn. apply map_id.
Qed.

Lemma sched_slots_not_ready : forall p i, ~ ready p i -> sched_slots p i = [].
Proof.
  intros p i Hn. unfold sched_slots. destruct (schedule_not_ready p i Hn) as (Hj & _). rewrite Hj. reflexivity.
Qed.

Lemma sched_slots_eq : forall p i,
  chain_ok p -> in_range p (si_epoch i) (si_cur i) ->
  sched_slots p i = spec_sched_slots p i.
Proof.
  intros p i Hok Hr. unfold spec_sched_slots.
  destruct (ready_dec p i) as [Hrd|Hn].
  - rewrite (sched_slots_ready p i Hrd).
    pose proof Hrd as Hrd'. apply sched_ready_spec in Hrd'. destruct Hrd' as ((ds & Hds) & Hfork). rewrite Hds.
    unfold window_slots. rewrite (window_exact p _ _ Hok Hr). cbn [w_first w_last].
    pose proof (period_end_ge_2_exact p (si_epoch i) Hok) as HE.
    unfold spec_slots, spec_first, spec_last, period_start, period_end, period_first_epoch, period_next_epoch in *.
    destruct (N.ltb_spec (si_cur i / spe p) (fork p)) as [Hlt|_]; [lia|].
    set (E := N.max ((si_epoch i / epp p + 1) * epp p) (fork p) * spe p) in *.
    set (lo := N.max (N.max (si_epoch i / epp p * epp p) (fork p) * spe p - 1) (si_cur i)).
    destruct (N.ltb_spec E (lo + 2)) as [Hlt|Hge].
    + unfold range. destruct (N.ltb_spec (E - 2) lo) as [_|Hc]; [reflexivity | lia].
    + unfold range. destruct (N.ltb_spec (E - 2) lo) as [Hc|_]; [lia|].
      rewrite upto_seq. replace (N.to_nat (E - 2 - lo + 1)) with (N.to_nat (E - 1 - lo)) by lia.
      apply filter_ext. intros s. rewrite andb_comm. reflexivity.
  - rewrite (sched_slots_not_ready p i Hn).
    destruct (sched_ready i) as [ds|] eqn:Hds; [|reflexivity].
    (* the duties and accounts are there but the clock is before the fork: no slot either *)
    unfold spec_slots. destruct (N.ltb_spec (si_cur i / spe p) (fork p)) as [_|Hge]; [reflexivity|].
    exfalso. apply Hn. apply sched_ready_spec. split; [eauto | exact Hge].
Qed.

Lemma sched_slots_NoDup : forall p i, NoDup (sched_slots p i).
Proof.
  intros p i. destruct (ready_dec p i) as [Hrd|Hn].
  - rewrite (sched_slots_ready p i Hrd). apply window_slots_NoDup.
  - rewrite (sched_slots_not_ready p i Hn). constructor.
Qed.

(* -------------------------------------------------------------------------------------------- *)
(* what one operation does to a slot's job *)

Lemma existsb_eqb_In : forall s l, existsb (N.eqb s) l = true <-> In s l.
Proof.
  intros s l. rewrite existsb_exists. split.
  - intros (x & Hx & He). apply N.eqb_eq in He. subst. exact Hx.
  - intros H. exists s. split; [exact H | apply N.eqb_refl].
Qed.

(* a call never displaces a job that is there; it adds its own for the slots of its window *)
Lemma sched_keeps : forall p t i s i0,
  tab_get t s = Some i0 -> tab_get (fst (hstep p t (HSched i))) s = Some i0.
Proof. intros p t i s i0 H. cbn. rewrite tab_get_add, H. reflexivity. Qed.

Lemma sched_adds : forall p t i s,
  tab_get t s = None -> In s (sched_slots p i) -> tab_get (fst (hstep p t (HSched i))) s = Some i.
Proof.
  intros p t i s H Hin. cbn. rewrite tab_get_add, H.
  apply existsb_eqb_In in Hin. rewrite Hin. reflexivity.
Qed.

(* THE REFRESH OF ANOTHER PERIOD LEAVES THE SLOT'S JOB IN PLACE: for a slot outside the message
   window of the refreshed period, the refresh acts like a plain call *)
Lemma refresh_keeps : forall p t e i s i0,
  chain_ok p -> refresh_ok p e -> ~ in_period_window p e s ->
  tab_get t s = Some i0 -> tab_get (fst (hstep p t (HRefresh e i))) s = Some i0.
Proof.
  intros p t e i s i0 Hok Hrf Hout H. cbn [hstep fst]. rewrite tab_get_add, tab_get_del.
  destruct (in_rangeb _ _ s) eqn:Hc.
  - exfalso. apply Hout. apply (refresh_cancels_spec p e s Hok Hrf). exact Hc.
  - rewrite H. reflexivity.
Qed.

(* ... and inside the refreshed period every job is replaced by one for the refreshed call (or
   goes, if the refreshed call's window no longer holds the slot) *)
Lemma refresh_replaces : forall p t e i s,
  chain_ok p -> refresh_ok p e -> in_period_window p e s ->
  tab_get (fst (hstep p t (HRefresh e i))) s = if existsb (N.eqb s) (sched_slots p i) then Some i else None.
Proof.
  intros p t e i s Hok Hrf Hin. cbn [hstep fst]. rewrite tab_get_add, tab_get_del.
  apply (refresh_cancels_spec p e s Hok Hrf) in Hin. rewrite Hin. reflexivity.
Qed.

Lemma fire_other_keeps : forall p t f s i0,
  f_slot f <> s -> tab_get t s = Some i0 -> tab_get (fst (hstep p t (HFire f))) s = Some i0.
Proof.
  intros p t f s i0 Hne H. cbn. destruct (tab_get t (f_slot f)); cbn [fst]; [|exact H].
  rewrite tab_get_del. destruct (N.eqb_spec (f_slot f) s); [contradiction | exact H].
Qed.

(* an operation that leaves slot s alone: any call, the refresh of a period whose message window
   does not hold s, the firing of another slot *)
Definition keeps (p : params) (s : N) (o : hop) : Prop :=
  match o with
  | HSched _ => True
  | HRefresh e _ => refresh_ok p e /\ ~ in_period_window p e s
  | HFire f => f_slot f <> s
  end.

Lemma history_keeps : forall p s ops t i0,
  chain_ok p -> Forall (keeps p s) ops ->
  tab_get t s = Some i0 -> tab_get (hfinal p t ops) s = Some i0.
Proof.
  intros p s ops. induction ops as [|o ops IH]; intros t i0 Hok Hall H; [exact H|].
  inversion Hall as [|? ? Ho Hrest]; subst. unfold hfinal. cbn [fold_left]. apply IH; [exact Hok | exact Hrest|].
  destruct o as [i|e i|f]; cbn [keeps] in Ho.
  - apply sched_keeps, H.
  - destruct Ho as (Hrf & Hout). apply refresh_keeps; assumption.
  - apply fire_other_keeps; assumption.
Qed.

(* EVERY SLOT STILL MESSAGES.  Once a ready call [i] has scheduled slot [s] (the slot is in its
   window and had no job), then after any further history that leaves the slot alone -- calls for
   this or other periods, refreshes of other periods, other slots firing -- the slot's jobs do
   exactly what they do right after the call: [fire_scheduled p i f], to which
   C15_message_every_slot, C15_independence and the contribution theorems apply. *)
Theorem history_message_every_slot : forall p t i ops f,
  chain_ok p ->
  tab_get t (f_slot f) = None -> In (f_slot f) (sched_slots p i) ->
  Forall (keeps p (f_slot f)) ops ->
  let t' := hfinal p (fst (hstep p t (HSched i))) ops in
  snd (hstep p t' (HFire f)) = Some (fire_scheduled p i f)
  /\ tab_get (fst (hstep p t' (HFire f))) (f_slot f) = None.
Proof.
  intros p t i ops f Hok Hnone Hin Hall t'.
  assert (Hget : tab_get t' (f_slot f) = Some i).
  { apply history_keeps; [exact Hok | exact Hall|]. apply sched_adds; assumption. }
  cbn. rewrite Hget. cbn [fst snd]. split; [reflexivity|].
  rewrite tab_get_del, N.eqb_refl. reflexivity.
Qed.

(* the same when the job comes from a refresh of the slot's own period *)
Theorem history_message_after_refresh : forall p t e i ops f,
  chain_ok p -> refresh_ok p e -> in_period_window p e (f_slot f) ->
  In (f_slot f) (sched_slots p i) ->
  Forall (keeps p (f_slot f)) ops ->
  let t' := hfinal p (fst (hstep p t (HRefresh e i))) ops in
  snd (hstep p t' (HFire f)) = Some (fire_scheduled p i f).
Proof.
  intros p t e i ops f Hok Hrf Hw Hin Hall t'.
  assert (Hget : tab_get t' (f_slot f) = Some i).
  { apply history_keeps; [exact Hok | exact Hall|].
    rewrite (refresh_replaces p t e i _ Hok Hrf Hw).
    apply existsb_eqb_In in Hin. rewrite Hin. reflexivity. }
  cbn. rewrite Hget. reflexivity.
Qed.

(* Had the refresh cancelled by job-name prefix (every slot), the slot's job would be gone: the
   table operation that does so loses the job -- the seeded change this part of the check is for *)
Lemma cancel_everything_loses : forall (t : jtab) s, tab_get (tab_del t (fun _ => true)) s = None.
Proof. intros. rewrite tab_get_del. reflexivity. Qed.

(* -------------------------------------------------------------------------------------------- *)
(* the check's history predicate on the model's own run *)

(* every call of the history is in range; every refresh is for a period that does not begin at slot 0 *)
Definition hop_ok (p : params) (o : hop) : Prop :=
  match o with
  | HSched i => in_range p (si_epoch i) (si_cur i)
  | HRefresh e i => in_range p (si_epoch i) (si_cur i) /\ refresh_ok p e
  | HFire _ => True
  end.

(* the table only ever holds calls in range, under unique keys *)
Definition tab_ok (p : params) (t : jtab) : Prop :=
  NoDup (map fst t) /\ forall s i, In (s, i) t -> in_range p (si_epoch i) (si_cur i).

Lemma tab_ok_nil : forall p, tab_ok p [].
Proof. intros p. split; [constructor | intros s i []]. Qed.

Lemma tab_ok_add : forall p t keys i, tab_ok p t -> NoDup keys -> in_range p (si_epoch i) (si_cur i) ->
  tab_ok p (tab_add t keys i).
Proof.
  intros p t keys i (Hnd & Hin) Hk Hr. split; [apply tab_add_keys; assumption|].
  intros s i' H. unfold tab_add in H. apply in_app_or in H. destruct H as [H|H]; [exact (Hin s i' H)|].
  apply in_map_iff in H. destruct H as (k & Heq & _). injection Heq as _ <-. exact Hr.
Qed.

Lemma tab_ok_del : forall p t pred, tab_ok p t -> tab_ok p (tab_del t pred).
Proof.
  intros p t pred (Hnd & Hin). split; [apply tab_del_keys, Hnd|].
  intros s i H. unfold tab_del in H. apply filter_In in H. exact (Hin s i (proj1 H)).
Qed.

Lemma spec_hstep_eq : forall p t o, chain_ok p -> hop_ok p o -> fst (hstep p t o) = spec_hstep p t o.
Proof.
  intros p t o Hok Ho. destruct o as [i|e i|f]; cbn [hop_ok] in Ho; cbn [hstep spec_hstep fst].
  - rewrite (sched_slots_eq p i Hok Ho). reflexivity.
  - destruct Ho as (Hr & Hrf). rewrite (sched_slots_eq p i Hok Hr). f_equal.
    apply tab_del_ext. intros s. apply cancel_pred_eq; assumption.
  - destruct (tab_get t (f_slot f)); reflexivity.
Qed.

Lemma hstep_tab_ok : forall p t o, hop_ok p o -> tab_ok p t -> tab_ok p (fst (hstep p t o)).
Proof.
  intros p t o Ho Ht. destruct o as [i|e i|f]; cbn [hop_ok] in Ho; cbn [hstep fst].
  - apply tab_ok_add; [exact Ht | apply sched_slots_NoDup | exact Ho].
  - apply tab_ok_add; [apply tab_ok_del, Ht | apply sched_slots_NoDup | exact (proj1 Ho)].
  - destruct (tab_get t (f_slot f)); cbn [fst]; [apply tab_ok_del, Ht | exact Ht].
Qed.

Lemma tab_jobs_pass : forall p t, (0 <= slot_ns p)%Z -> NoDup (map fst t) ->
  set_eqb job_eqb (map (fun e => (JPrepare, fst e, (Z.of_N (fst e) * slot_ns p - slot_ns p * 6 / 4)%Z)) t) (tab_jobs p t) = true
  /\ nodupb job_eqb (tab_jobs p t) = true.
Proof.
  intros p t Hns Hnd. unfold tab_jobs. split.
  - apply (set_eqb_spec job_eqb job_eqb_spec). intros j. rewrite !in_map_iff. split.
    + intros (e & <- & He). exists e. split; [rewrite prepare_time_floor by exact Hns; reflexivity | apply sort_by_In, He].
    + intros (e & <- & He). exists e. split; [rewrite prepare_time_floor by exact Hns; reflexivity | apply sort_by_In in He; exact He].
  - apply (NoDup_nodupb job_eqb job_eqb_spec).
    assert (Hk : NoDup (map fst (sort_by fst t))).
    { apply (Permutation_NoDup (l := map fst t)); [|exact Hnd]. apply Permutation_map, Permutation_sym, sort_by_perm. }
    revert Hk. generalize (sort_by fst t). intros l Hk.
    induction l as [|e l IH]; cbn; [constructor|]. inversion Hk as [|? ? Hn Hd]; subst.
    constructor; [|apply IH, Hd]. intro Hin. apply Hn. apply in_map_iff in Hin.
    destruct Hin as (e' & Heq & He'). injection Heq as Heq _. apply in_map_iff. exists e'. auto.
Qed.

Lemma model_passes_hist : forall p ops t,
  chain_ok p -> (0 <= slot_ns p)%Z -> Forall (hop_ok p) ops -> tab_ok p t ->
  hist_ok p t ops (hrun p t ops) = true.
Proof.
  intros p ops. induction ops as [|o ops IH]; intros t Hok Hns Hall Ht; [reflexivity|].
  inversion Hall as [|? ? Ho Hrest]; subst.
  cbn [hrun hist_ok]. cbv zeta.
  pose proof (hstep_tab_ok p t o Ho Ht) as Ht'.
  rewrite <- (spec_hstep_eq p t o Hok Ho).
  destruct (tab_jobs_pass p (fst (hstep p t o)) Hns (proj1 Ht')) as (Hset & Hnd).
  rewrite Hset, Hnd, (IH (fst (hstep p t o)) Hok Hns Hrest Ht'). rewrite andb_true_r. cbn [andb].
  destruct o as [i|e i|f]; cbn [hstep snd]; try reflexivity.
  destruct (tab_get t (f_slot f)) as [i|] eqn:Hg; cbn [snd].
  - apply model_passes_fire; [exact Hok|]. destruct Ht as (Hndt & Hin). apply (Hin (f_slot f) i).
    apply (tab_get_In t _ _ Hndt). exact Hg.
  - reflexivity.
Qed.

Lemma hobs_eqb_eq : forall a b, hobs_eqb a b = true <-> a = b.
Proof.
  intros [j1 f1] [j2 f2]. unfold hobs_eqb. cbn [fst snd].
  rewrite andb_true_iff, (list_eqb_spec job_eqb job_eqb_spec), (option_eqb_spec fire_out_eqb fire_out_eqb_eq).
  split; [intros [-> ->]; reflexivity | intros H; injection H as -> ->; auto].
Qed.

(* The model's own outputs pass the whole check on every input in range. *)
Theorem model_passes_check : forall c,
  chain_ok (c_par c) -> in_range (c_par c) (si_epoch (c_in c)) (si_cur (c_in c)) -> (0 <= slot_ns (c_par c))%Z ->
  (forall a o, c_agg c = Some (a, o) -> NoDup (agg_items a)) ->
  Forall (hop_ok (c_par c)) (c_hist c) ->
  agree c = true -> P_b c = true.
Proof.
  intros c Hok Hr Hns Hagg Hh Ha. unfold agree in Ha. apply andb_true_iff in Ha as [Hb Hl].
  unfold P_b. apply andb_true_iff. split.
  - apply model_passes_check_base; assumption.
  - apply (list_eqb_spec hobs_eqb hobs_eqb_eq) in Hl. rewrite <- Hl.
    apply model_passes_hist; [exact Hok | exact Hns | exact Hh | apply tab_ok_nil].
Qed.

(* -------------------------------------------------------------------------------------------- *)
(* the check's history predicate is sound: what it accepts is the history property *)

(* the table the specification keeps after the first k operations *)
Definition spec_tab (p : params) (ops : list hop) : jtab := fold_left (spec_hstep p) ops [].

Lemma hist_ok_app : forall p ops1 t ops2 obs,
  hist_ok p t (ops1 ++ ops2) obs = true ->
  exists obs1 obs2, obs = obs1 ++ obs2 /\ length obs1 = length ops1
    /\ hist_ok p (fold_left (spec_hstep p) ops1 t) ops2 obs2 = true.
Proof.
  intros p ops1. induction ops1 as [|o ops1 IH]; intros t ops2 obs H.
  - exists [], obs. auto.
  - cbn [app hist_ok] in H. destruct obs as [|[jobs fo] obs]; [discriminate|].
    apply andb_true_iff in H as [_ H].
    destruct (IH _ _ _ H) as (obs1 & obs2 & -> & Hlen & Hrest).
    exists ((jobs, fo) :: obs1), obs2. cbn. auto.
Qed.

(* P_b accepts a history only if, at every fired slot that the specification's table owes under a
   call i, the observed outcome passes the per-slot predicate for that call (so fire_check_sound
   and contrib_check_sound apply: the members of i message and contribute), and the observed job
   list after every operation is one prepare job per owed slot. *)
Theorem hist_check_sound : forall p ops1 f ops2 obs,
  hist_ok p [] (ops1 ++ HFire f :: ops2) obs = true ->
  exists jobs out, nth_error obs (length ops1) = Some (jobs, Some out)
    /\ (forall i, tab_get (spec_tab p ops1) (f_slot f) = Some i -> spec_fire_ok p i f out = true)
    /\ (tab_get (spec_tab p ops1) (f_slot f) = None -> opt_list (o_submitted out) = [])
    /\ (forall k s tm, In (k, s, tm) jobs <->
          k = JPrepare /\ tm = (Z.of_N s * slot_ns p - slot_ns p * 6 / 4)%Z
          /\ In s (map fst (spec_tab p (ops1 ++ [HFire f])))).
Proof.
  intros p ops1 f ops2 obs H.
  destruct (hist_ok_app p ops1 [] _ _ H) as (obs1 & obs2 & -> & Hlen & Hrest).
  cbn [hist_ok] in Hrest. destruct obs2 as [|[jobs fo] obs2]; [discriminate|].
  apply andb_true_iff in Hrest as [Hrest _]. apply andb_true_iff in Hrest as [Hrest Hfire].
  apply andb_true_iff in Hrest as [Hset _].
  destruct fo as [out|]; [|discriminate].
  exists jobs, out. split; [|split; [|split]].
  - rewrite nth_error_app2 by lia. rewrite Hlen, Nat.sub_diag. reflexivity.
  - intros i Hi. unfold spec_tab in Hi. rewrite Hi in Hfire. exact Hfire.
  - intros Hn. unfold spec_tab in Hn. rewrite Hn in Hfire. destruct (opt_list (o_submitted out)); [reflexivity | discriminate].
  - intros k s tm. rewrite (set_eqb_spec job_eqb job_eqb_spec) in Hset. rewrite <- Hset.
    unfold spec_tab. rewrite fold_left_app. cbn [fold_left].
    rewrite !in_map_iff. split.
    + intros (e & Heq & He). injection Heq as <- <- <-. split; [reflexivity|]. split; [reflexivity|]. eauto.
    + intros (-> & -> & (e & <- & He)). exists e. auto.
Qed.
