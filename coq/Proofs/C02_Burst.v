(* C02 -- bursts (Model/C02_Burst.v): the counting laws of the table of names over EVERY order in
   which the calls of a burst can take effect, and what an observation accepted by
   [Check.C02.burst_agree] therefore satisfies. *)
From Coq Require Import Lia ZifyBool ZifyN ZifyNat.
From Verif Require Import Lib.Base Model.C02_Scheduler Model.C02_Script Model.C02_TableOps Model.C02_Burst.
From Verif Require Import Check.C02.

Definition hN (s : bstate) : N := if held s then 1 else 0.

(* weights of one call with the code it returned *)
Definition w_acc (x : ocall) : N := match x with (BoSched, _, Nil) => 1 | _ => 0 end.
Definition w_claim (per : bool) (x : ocall) : N :=
  match x with
  | (BoCancel, _, Nil) => 1
  | (BoRun, _, Nil) => if per then 0 else 1
  | _ => 0
  end.
Definition w_run (x : ocall) : N := match x with (BoRun, _, Nil) => 1 | _ => 0 end.
Definition w_rel (x : ocall) : N := match x with (BoRelease _, _, _) => 1 | _ => 0 end.

Fixpoint wt (f : ocall -> N) (l : list ocall) : N :=
  match l with [] => 0 | x :: l' => f x + wt f l' end.

Lemma wt_app : forall f a b, wt f (a ++ b) = wt f a + wt f b.
Proof. induction a; simpl; intros; [reflexivity | rewrite IHa; lia]. Qed.

Lemma wt_mid : forall f p x l q, wt f (concat (p ++ (x :: l) :: q)) = f x + wt f (concat (p ++ l :: q)).
Proof. intros. rewrite !concat_app. simpl. rewrite !wt_app. simpl. rewrite !wt_app. lia. Qed.

Lemma all_done_wt : forall f lanes, all_done lanes = true -> wt f (concat lanes) = 0.
Proof.
  induction lanes as [|l ls IH]; simpl; intros H; [reflexivity|].
  apply andb_prop in H as [Hl Hs]. destruct l; [|discriminate]. simpl. auto.
Qed.

(* --- the table ------------------------------------------------------------------------------ *)
Lemma t_get_del : forall t n, t_get (t_del t n) n = None.
Proof.
  induction t as [|[n' j] t IH]; intros n; simpl; [reflexivity|].
  destruct (n' =? n) eqn:E; simpl; [apply IH|].
  rewrite N.eqb_sym, E. apply IH.
Qed.

Lemma total_runs_bump : forall l k, total_runs (bump l k) = total_runs l + 1.
Proof.
  induction l as [|[k' v] l IH]; intros k; simpl; [lia|].
  destruct (k =? k'); simpl; [lia | rewrite IH; lia].
Qed.

Lemma code_eqb_eq : forall a b, code_eqb a b = true -> a = b.
Proof. destruct a, b; simpl; intros H; try reflexivity; discriminate. Qed.

(* the three laws, from [s] to [s'] over the calls [l] *)
Definition law (per : bool) (s s' : bstate) (l : list ocall) : Prop :=
  hN s' + wt (w_claim per) l <= hN s + wt w_acc l
  /\ hN s + wt w_acc l <= hN s' + wt (w_claim per) l + wt w_rel l
  /\ total_runs (bs_runs s') = total_runs (bs_runs s) + wt w_run l.

Lemma law_nil : forall per s, law per s s [].
Proof. intros; unfold law; simpl; lia. Qed.

Lemma b_step_law : forall per s o id s' c, b_step per s o id = (s', c) -> law per s s' [(o, id, c)].
Proof.
  intros per s o id s' c H. unfold law, hN, held. simpl wt.
  destruct o; unfold b_step, t_schedule, t_run, t_cancel, holder, t_exists in H.
  - (* ScheduleJob *)
    destruct (t_get (bs_table s) bname) eqn:E; inversion H; subst; clear H; simpl; unfold t_exists; simpl.
    + rewrite ?E. lia.
    + rewrite ?E. lia.
  - (* CancelJob *)
    destruct (t_get (bs_table s) bname) eqn:E; inversion H; subst; clear H; simpl; unfold t_exists; simpl.
    + rewrite ?E, ?t_get_del. lia.
    + rewrite ?E. lia.
  - (* RunJob *)
    destruct (t_get (bs_table s) bname) eqn:E; inversion H; subst; clear H; simpl; unfold t_exists; simpl.
    + rewrite ?E, total_runs_bump. destruct per; rewrite ?E, ?t_get_del; lia.
    + rewrite ?E. lia.
  - (* the call that cancels the context *)
    inversion H; subst; clear H. simpl. lia.
  - (* the goroutine's removal *)
    destruct (t_get (bs_table s) bname) eqn:E; inversion H; subst; clear H; unfold t_exists.
    + destruct (n <? below); simpl.
      * unfold t_release. rewrite ?E, ?N.eqb_refl, ?t_get_del, ?E. lia.
      * rewrite ?E. lia.
    + simpl. rewrite ?E. lia.
Qed.

Lemma law_cons : forall per s s1 s' x l, law per s s1 [x] -> law per s1 s' l -> law per s s' (x :: l).
Proof. unfold law; simpl; intros; lia. Qed.

(* every order of calls, of any length: accepted = claimed + still listed (+ at most the removals
   by goroutines whose context was cancelled); runs = run requests that reported success *)
Lemma b_run_law : forall per l s s' cs, b_run per s l = (s', cs) ->
  exists ocs, law per s s' ocs /\ map (fun x => fst x) ocs = l /\ map (fun x => snd x) ocs = cs.
Proof.
  induction l as [|[o id] l IH]; simpl; intros s s' cs H.
  - inversion H; subst. exists []. split; [apply law_nil | split; reflexivity].
  - destruct (b_step per s o id) as [s1 c] eqn:E1. destruct (b_run per s1 l) as [s2 cs'] eqn:E2.
    inversion H; subst; clear H.
    destruct (IH _ _ _ E2) as (ocs & Hl & Hm & Hc).
    exists ((o, id, c) :: ocs). split; [|split; simpl; f_equal; assumption].
    eapply law_cons; [apply b_step_law; exact E1 | exact Hl].
Qed.

(* the jobs' time passes: the listed job, and only it, runs once more; the name is free *)
Lemma b_fire_law : forall s,
  held (b_fire s) = false /\ total_runs (bs_runs (b_fire s)) = total_runs (bs_runs s) + hN s.
Proof.
  intros s. unfold b_fire, hN, held, holder, t_exists.
  destruct (t_get (bs_table s) bname) eqn:E; simpl.
  - unfold t_exists. rewrite t_get_del, total_runs_bump. split; [reflexivity | lia].
  - unfold t_exists. rewrite E. split; [reflexivity | lia].
Qed.

(* --- the linearisation search is sound ---------------------------------------------------------- *)
Lemma try_lanes_true : forall step after before, try_lanes step before after = true ->
  exists p x l' q, rev before ++ after = p ++ (x :: l') :: q /\ step x (p ++ l' :: q) = true.
Proof.
  induction after as [|l after IH]; simpl; intros before H; [discriminate|].
  destruct l as [|x l'].
  - apply IH in H as (p & x & l' & q & He & Hs). simpl in He. rewrite <- app_assoc in He. simpl in He.
    exists p, x, l', q. split; assumption.
  - destruct (step x (rev before ++ l' :: after)) eqn:Es.
    + exists (rev before), x, l', after. split; [reflexivity | exact Es].
    + apply IH in H as (p & y & m & q & He & Hs). simpl in He. rewrite <- app_assoc in He. simpl in He.
      exists p, y, m, q. split; assumption.
Qed.

Lemma lin_sound : forall fuel per s lanes k, lin fuel per s lanes k = true ->
  exists s', k s' = true /\ law per s s' (concat lanes).
Proof.
  induction fuel as [|f IH]; simpl; intros per s lanes k H; [discriminate|].
  destruct (all_done lanes) eqn:D.
  - exists s. split; [exact H|]. unfold law. rewrite !all_done_wt by exact D. lia.
  - apply try_lanes_true in H as (p & [[o id] c] & l' & q & He & Hs). simpl in He. subst lanes.
    destruct (b_step per s o id) as [s1 c1] eqn:E1.
    destruct (code_eqb c c1) eqn:Ec; [|discriminate].
    apply code_eqb_eq in Ec. subst c1.
    apply IH in Hs as (s' & Hk & Hl).
    exists s'. split; [exact Hk|].
    pose proof (b_step_law _ _ _ _ _ _ E1) as H1.
    unfold law in *. rewrite !wt_mid. cbn [wt] in H1. lia.
Qed.
