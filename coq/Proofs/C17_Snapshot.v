(* Lemmas for Model/C17_Snapshot.v: one-section lookups answer with the sequential lookup on the
   store of ONE refresh (and so never miss an account); the two-section shape does not. *)
From Verif Require Import Lib.Base Model.C17_Snapshot.

Lemma assoc_in k l : In k (map fst l) -> exists a, assoc k l = Some a.
Proof.
  induction l as [|[k' a] l IH]; cbn; [tauto|].
  intros [H|H].
  - subst k'. rewrite N.eqb_refl. eauto.
  - destruct (k' =? k); eauto.
Qed.

Lemma lookup_install_whole l : whole (lookup_at (install l)) = true.
Proof.
  unfold whole, lookup_at, lookup_in, install. cbn. apply forallb_forall. intros [k o] Hin.
  apply in_map_iff in Hin as [k' [E Hk]]. injection E as <- <-. cbn.
  destruct (assoc_in k' l Hk) as [a ->]. reflexivity.
Qed.

Lemma run_cons e sch c : run (e :: sch) c = run sch (step c e).
Proof. reflexivity. Qed.

Lemma one_section_answers : forall sch c seen,
  In (c_store c) seen ->
  (forall t r, In (t, r) (c_out c) -> exists s, In s seen /\ r = lookup_at s) ->
  forallb one_section sch = true ->
  forall t r, In (t, r) (c_out (run sch c)) -> exists s, In s (seen ++ stores_of sch) /\ r = lookup_at s.
Proof.
  induction sch as [|e sch IH]; intros c seen Hst Hout Hone t r Hin.
  - cbn in Hin. rewrite app_nil_r. apply (Hout t r Hin).
  - cbn [forallb] in Hone. apply andb_true_iff in Hone as [He Hone]. rewrite run_cons in Hin.
    destruct e as [listing|t0|t0|t0]; try discriminate.
    + (* refresh *)
      cbn [stores_of]. replace (seen ++ install listing :: stores_of sch) with ((seen ++ [install listing]) ++ stores_of sch)
        by (rewrite <- app_assoc; reflexivity).
      apply (IH (step c (ERefresh listing)) (seen ++ [install listing])) with (t := t); auto.
      * cbn. apply in_or_app. right. left. reflexivity.
      * cbn. intros t' r' H'. destruct (Hout t' r' H') as [s [Hs ->]]. exists s. split; [apply in_or_app; left; exact Hs | reflexivity].
    + (* one-section lookup *)
      cbn [stores_of]. apply (IH (step c (ESnap t0)) seen) with (t := t); auto.
      cbn. intros t' r' [H'|H'].
      * injection H' as <- <-. exists (c_store c). auto.
      * apply (Hout t' r' H').
Qed.

Lemma snapshot_sequential_lemma listing0 sch :
  forallb one_section sch = true ->
  forall t r, In (t, r) (c_out (run sch (init listing0))) ->
    exists s, In s (install listing0 :: stores_of sch) /\ r = lookup_at s.
Proof.
  intros Hone t r Hin.
  apply (one_section_answers sch (init listing0) [install listing0]) with (t := t); auto.
  - left. reflexivity.
  - intros t' r' [].
Qed.

Lemma stores_installed sch s : In s (stores_of sch) -> exists l, s = install l.
Proof.
  induction sch as [|e sch IH]; cbn; [tauto|].
  destruct e; cbn; auto. intros [H|H]; eauto.
Qed.

Lemma snapshot_whole_lemma listing0 sch :
  forallb one_section sch = true ->
  forall t r, In (t, r) (c_out (run sch (init listing0))) -> whole r = true.
Proof.
  intros Hone t r Hin. destruct (snapshot_sequential_lemma listing0 sch Hone t r Hin) as [s [Hs ->]].
  destruct Hs as [<-|Hs]; [apply lookup_install_whole|].
  destruct (stores_installed sch s Hs) as [l ->]. apply lookup_install_whole.
Qed.

(* the two-section shape: keys of the old store, accounts of the new one *)
Definition torn_listing0 : list (key * account) := [(1, 10); (2, 20)].
Definition torn_schedule : list event := [EKeys 0; ERefresh [(1, 10)]; EAccounts 0].
Definition torn_answer : result := [(1, Some 10); (2, None)].

Lemma two_section_refuted_lemma :
  In (0%nat, torn_answer) (c_out (run torn_schedule (init torn_listing0))) /\
  whole torn_answer = false /\
  forall s, In s (install torn_listing0 :: stores_of torn_schedule) -> torn_answer <> lookup_at s.
Proof.
  split; [|split].
  - vm_compute. left. reflexivity.
  - reflexivity.
  - intros s [<-|[<-|[]]]; vm_compute; discriminate.
Qed.
