(* C02 -- (1) real-time cases: what the flake policy's acceptance buys; (2) the clause "every start
   has a cause of its own" of [Check.C02.P_b]: what [justified] means. *)
From Coq Require Import Lia.
From Verif Require Import Lib.Base Lib.Sched Lib.Reach Model.C02_Scheduler Model.C02_Script.
From Verif Require Import Proofs.C02 Proofs.C02_Script Proofs.C02_ScriptExact Proofs.C02_ScriptMore Proofs.C02_ScriptCancel.
From Verif Require Import Check.C02 Proofs.C02_Check.

(* a real-time case is accepted when one of its serial repetitions is what the model predicts; that
   repetition is the outcome of a final state of the model's script, and no call of it returned an
   error outside the scheduler's set *)
Lemma agree_real : forall c sc os, agree c = true -> c_body c = Real sc os ->
    exists ob, In ob os /\ obs_match (finals sc) ob = true /\ any_foreign ob = false.
Proof.
  intros c sc os Ha Hb. unfold agree in Ha. rewrite Hb in Ha.
  apply existsb_exists in Ha as [ob [Hob H]]. unfold timed_ok in H.
  apply andb_prop in H as [H1 H2]. apply andb_prop in H2 as [_ H3]. apply Bool.negb_true_iff in H3.
  exists ob. auto.
Qed.

Lemma checked_real_never_twice : forall c sc os, agree c = true -> c_body c = Real sc os ->
    exists ob, In ob os /\ o_panic (ob_out ob) = false /\ o_overlap (ob_out ob) <= 1
      /\ (sc_kind sc = OneOff -> (length (o_starts (ob_out ob)) <= 1)%nat).
Proof.
  intros c sc os Ha Hb. destruct (agree_real c sc os Ha Hb) as [ob [Hob [Hm _]]].
  exists ob. split; [exact Hob|].
  destruct (obs_match_final _ _ Hm) as [t [Ht [_ [_ [Hs [Hp Ho]]]]]].
  assert (Hin : In (outcome_of t) (outcomes sc)) by (unfold outcomes; apply in_map; exact Ht).
  destruct (script_never_twice sc _ Hin) as [H1 [H2 H3]].
  rewrite Hs, Hp, Ho. auto.
Qed.

(* a timed (bubble) case that is accepted has no call with a result outside the scheduler's set,
   whatever contexts the callers used *)
Lemma checked_no_foreign : forall c sc os, agree c = true -> c_body c = Timed sc os ->
    forall ob, In ob os -> any_foreign ob = false.
Proof.
  intros c sc os Ha Hb ob Hob. unfold agree in Ha. rewrite Hb in Ha.
  destruct os as [|o os']; [discriminate Ha|].
  rewrite forallb_forall in Ha. specialize (Ha ob Hob). unfold timed_ok in Ha.
  apply andb_prop in Ha as [_ Ha]. apply andb_prop in Ha as [_ Ha]. apply Bool.negb_true_iff in Ha. exact Ha.
Qed.

(* --- [justified] ------------------------------------------------------------------------------ *)

Lemma pick_length : forall {X} (l : list X) p, In p (pick l) -> Datatypes.S (length (snd p)) = length l.
Proof.
  intros X l; induction l as [|x l IH]; intros p H; cbn in H; [contradiction|].
  destruct H as [<- | H]; [reflexivity|].
  apply in_map_iff in H as [q [<- Hq]]. cbn. rewrite (IH q Hq). reflexivity.
Qed.

Lemma pick_in : forall {X} (l : list X) p, In p (pick l) -> In (fst p) l /\ (forall y, In y (snd p) -> In y l).
Proof.
  intros X l; induction l as [|x l IH]; intros p H; cbn in H; [contradiction|].
  destruct H as [<- | H].
  - cbn. split; [left; reflexivity | intros y Hy; right; exact Hy].
  - apply in_map_iff in H as [q [<- Hq]]. destruct (IH q Hq) as [H1 H2]. cbn. split.
    + right; exact H1.
    + intros y [<- | Hy]; [left; reflexivity | right; exact (H2 y Hy)].
Qed.

(* no cause serves two starts: there are at most as many starts as instances and run requests that
   (possibly) succeeded together *)
Lemma justified_count : forall dur sts prev insts runs, justified dur prev sts insts runs = true ->
    (length sts <= length insts + length runs)%nat.
Proof.
  intros dur sts; induction sts as [|s sts IH]; intros prev insts runs H; cbn [justified] in H; [cbn; lia|].
  apply orb_prop in H as [H | H]; apply existsb_exists in H as [p [Hp H]].
  - apply andb_prop in H as [_ H]. apply IH in H. apply pick_length in Hp. cbn [length]. lia.
  - apply andb_prop in H as [_ H]. apply IH in H. apply pick_length in Hp. cbn [length]. lia.
Qed.

(* without a run request that may have succeeded, every start is AT the time of an instance, and two
   starts never share an instance: the starts are a sub-multiset of the instance times *)
Lemma justified_no_runs : forall dur sts prev insts, justified dur prev sts insts [] = true ->
    forall s, In s sts -> In s insts.
Proof.
  intros dur sts; induction sts as [|s0 sts IH]; intros prev insts H s Hs; [contradiction|].
  cbn [justified] in H. apply orb_prop in H as [H | H].
  - apply existsb_exists in H as [p [Hp H]]. apply andb_prop in H as [He H].
    apply N.eqb_eq in He. destruct (pick_in _ _ Hp) as [H1 H2].
    destruct Hs as [<- | Hs]; [rewrite <- He; exact H1|].
    apply H2. exact (IH _ _ H s Hs).
  - cbn in H. discriminate H.
Qed.

(* a start that is not at the time of any instance needs a run request that (possibly) succeeded, issued
   no later than the start *)
Lemma justified_off_schedule : forall dur sts prev insts runs, justified dur prev sts insts runs = true ->
    forall s, In s sts -> ~ In s insts -> exists r, In r runs /\ r <= s.
Proof.
  intros dur sts; induction sts as [|s0 sts IH]; intros prev insts runs H s Hs Hn; [contradiction|].
  cbn [justified] in H. apply orb_prop in H as [H | H]; apply existsb_exists in H as [p [Hp H]].
  - apply andb_prop in H as [He H]. apply N.eqb_eq in He. destruct (pick_in _ _ Hp) as [H1 H2].
    destruct Hs as [<- | Hs]; [exfalso; apply Hn; rewrite <- He; exact H1|].
    apply (IH _ _ _ H s Hs). intro Hi. apply Hn. exact (H2 _ Hi).
  - apply andb_prop in H as [H Hj]. apply andb_prop in H as [Hle _]. apply N.leb_le in Hle.
    destruct (pick_in _ _ Hp) as [H1 H2].
    destruct Hs as [<- | Hs]; [exists (fst p); split; assumption|].
    destruct (IH _ _ _ Hj s Hs Hn) as [r [Hr Hrs]]. exists r. split; [exact (H2 _ Hr) | exact Hrs].
Qed.
