(* C12: the configuration data under concurrency.  For EVERY interleaving of the scenario machine
   (Model/C12_ConfigLock.v Part 4: any number of lookups, auctions, registration rounds and
   refreshes, gates opened at any time, threads advanced in any order), provided refreshes do not
   overlap each other, the active configuration is the last good one of the refreshes that have
   written so far, and every lookup/auction was answered from the last good configuration of a
   prefix of those writes. *)
From Verif Require Import Lib.Base Lib.Sched Lib.Lockset Proofs.Lockset Model.C12_ConfigLock Proofs.C12.
From Coq Require Import Arith Lia.

Local Open Scope nat_scope.

(* ------------------------------------------------------------------------------------------- *)
(* layout facts                                                                                 *)

(* program [p] occupies positions e .. e + length p - 1 of (mprog, g) *)
Definition node_at (e : nat) (p : list mstep) (j : nat) (m : mstep) : pnode :=
  {| p_op := op_of_mstep m;
     p_succ := if S j =? length p then []
               else match m with MBranchErr => [S (e + j); e + length p - 1] | _ => [S (e + j)] end |}.

Definition laid (mprog : list mstep) (g : prog) (e : nat) (p : list mstep) : Prop :=
  forall j m, nth_error p j = Some m ->
    nth_error mprog (e + j) = Some m /\ nth_error g (e + j) = Some (node_at e p j m).

Lemma chain_spec : forall ms base last j m,
  nth_error ms j = Some m ->
  nth_error (chain base last ms) j =
    Some {| p_op := op_of_mstep m;
            p_succ := if S j =? length ms then []
                      else match m with MBranchErr => [S (base + j); last] | _ => [S (base + j)] end |}.
Proof.
  induction ms as [|m0 ms IH]; intros base last j m Hj; [destruct j; discriminate|].
  destruct ms as [|m1 ms'].
  - destruct j as [|j]; cbn in Hj; [|destruct j; discriminate]. injection Hj as ->. reflexivity.
  - destruct j as [|j].
    + cbn in Hj. injection Hj as ->. cbn [chain nth_error length Nat.eqb]. rewrite Nat.add_0_r. reflexivity.
    + cbn [nth_error] in Hj. change (chain base last (m0 :: m1 :: ms')) with
        ({| p_op := op_of_mstep m0; p_succ := match m0 with MBranchErr => [S base; last] | _ => [S base] end |}
           :: chain (S base) last (m1 :: ms')).
      cbn [nth_error]. rewrite (IH (S base) last j m Hj).
      replace (S base + j) with (base + S j) by lia.
      cbn [length Nat.eqb]. reflexivity.
Qed.

Lemma chain_length : forall ms base last, length (chain base last ms) = length ms.
Proof.
  induction ms as [|m0 ms IH]; intros; [reflexivity|].
  destruct ms as [|m1 ms']; [reflexivity|].
  change (chain base last (m0 :: m1 :: ms')) with
    ({| p_op := op_of_mstep m0; p_succ := match m0 with MBranchErr => [S base; last] | _ => [S base] end |}
       :: chain (S base) last (m1 :: ms')).
  cbn [length]. rewrite IH. reflexivity.
Qed.

Lemma layout_spec : forall ps base,
  let '(ms, g, es) := layout base ps in
  length ms = length g /\ length es = length ps /\
  forall k p e, nth_error ps k = Some p -> nth_error es k = Some e ->
    base <= e /\
    forall j m, nth_error p j = Some m ->
      nth_error ms (e - base + j) = Some m /\ nth_error g (e - base + j) = Some (node_at e p j m).
Proof.
  induction ps as [|p0 ps IH]; intro base; cbn [layout].
  - split; [reflexivity|]. split; [reflexivity|]. intros k p e Hk. destruct k; discriminate.
  - specialize (IH (base + length p0)). destruct (layout (base + length p0) ps) as [[ms g] es].
    destruct IH as (Hlen & Hes & IH). split; [|split].
    + rewrite !app_length, chain_length, Hlen. reflexivity.
    + cbn. rewrite Hes. reflexivity.
    + intros k p e Hk He. destruct k as [|k]; cbn in Hk, He.
      * injection Hk as ->. injection He as <-. split; [lia|]. intros j m Hj.
        assert (Hlt : j < length p) by (apply nth_error_Some; congruence).
        replace (base - base + j) with j by lia.
        rewrite !nth_error_app1 by (rewrite ?chain_length; exact Hlt).
        split; [exact Hj|]. rewrite (chain_spec p base (base + length p - 1) j m Hj). reflexivity.
      * destruct (IH k p e Hk He) as (Hle & Hj). split; [lia|]. intros j m Hjm.
        destruct (Hj j m Hjm) as (H1 & H2).
        replace (e - base + j) with (length p0 + (e - (base + length p0) + j)) by lia.
        rewrite nth_error_app2 by lia. rewrite nth_error_app2 by (rewrite chain_length; lia).
        rewrite chain_length. replace (length p0 + (e - (base + length p0) + j) - length p0) with (e - (base + length p0) + j) by lia.
        split; assumption.
Qed.

Lemma layout_laid ps :
  let '(ms, g, es) := layout 0 ps in
  forall k p e, nth_error ps k = Some p -> nth_error es k = Some e -> laid ms g e p.
Proof.
  pose proof (layout_spec ps 0) as H. destruct (layout 0 ps) as [[ms g] es].
  destruct H as (_ & _ & H). intros k p e Hk He j m Hj.
  destruct (H k p e Hk He) as (_ & Hjm). specialize (Hjm j m Hj). rewrite Nat.sub_0_r in Hjm. exact Hjm.
Qed.

(* ------------------------------------------------------------------------------------------- *)
(* the scenario machine under arbitrary schedules                                               *)

Inductive xact :=
| XAdv (i : nat)                    (* thread i takes its next step if it can *)
| XSpawn (sp : spawn) (e : nat)     (* a new request starts at entry e *)
| XRel (k : nat).                   (* the gate of thread k is opened *)

(* ghost state: the entry of every thread, and the refreshes in the order of their writes *)
Record gst := { g_x : xstate; g_ents : list nat; g_log : list refresh }.

Section Data.
  Variables (url : bool) (mprog : list mstep) (g : prog) (init : cfgstate).

  Definition thread_mstep (x : xstate) (i : nat) : option mstep :=
    match nth_error (s_threads (x_sys x)) i with
    | Some t => match t_pc t with PAt pc => nth_error mprog pc | _ => None end
    | None => None
    end.

  Definition gstep (s : gst) (a : xact) : gst :=
    match a with
    | XAdv i =>
        match advance url mprog g (g_x s) i with
        | Some x' =>
            {| g_x := x'; g_ents := g_ents s;
               g_log := match thread_mstep (g_x s) i, nth_error (x_info (g_x s)) i with
                        | Some MWrite, Some ti => g_log s ++ [sp_ref (ti_sp ti)]
                        | _, _ => g_log s
                        end |}
        | None => s
        end
    | XSpawn sp e => {| g_x := spawn_thread (g_x s) sp e; g_ents := g_ents s ++ [e]; g_log := g_log s |}
    | XRel k => {| g_x := open_gate (g_x s) k; g_ents := g_ents s; g_log := g_log s |}
    end.

  Definition grun (acts : list xact) (s : gst) : gst := fold_left gstep acts s.

  Definition g0 : gst := {| g_x := {| x_sys := init_sys []; x_cfg := init; x_info := [] |}; g_ents := []; g_log := [] |}.

  (* a refresh that fetches (accounts present) *)
  Definition fetching (ti : tinfo) : bool :=
    match sp_kind (ti_sp ti), rf_acc (sp_ref (ti_sp ti)) with KRefresh, AccSome => true | _, _ => false end.

  (* between its start (MStart done) and its write (MWrite not yet done) *)
  Definition active_at (e : nat) (t : thr) : bool :=
    match t_pc t with
    | PAt pc => (e + 2 <=? pc) && (pc <=? e + 5)
    | PAnn _ => true
    | PDone => false
    end.

  Definition active (s : gst) (i : nat) : Prop :=
    exists t ti e, nth_error (s_threads (x_sys (g_x s))) i = Some t /\ nth_error (x_info (g_x s)) i = Some ti /\
                   nth_error (g_ents s) i = Some e /\ fetching ti = true /\ active_at e t = true.

  Definition no_overlap (s : gst) : Prop := forall i j, active s i -> active s j -> i = j.

  Definition answer (k : kind) (c : cfgstate) (v : N) : result := answer_of k c v.

  Definition is_reader_kind (k : kind) : bool :=
    match k with KLookup | KAuction | KLookupNA | KBid | KFwd | KUnblind => true | _ => false end.
End Data.

Section DataProof.
  Variables (url : bool) (mprog : list mstep) (g : prog) (init : cfgstate).

  (* what one advance does *)
  Lemma advance_inv x i x' :
    advance url mprog g x i = Some x' ->
    exists t ti, nth_error (s_threads (x_sys x)) i = Some t /\ nth_error (x_info x) i = Some ti /\
      ((exists pc s', t_pc t = PAnn pc /\ cstep g (x_sys x) (i, 0) = Some s' /\
                      x' = {| x_sys := s'; x_cfg := x_cfg x; x_info := x_info x |}) \/
       (exists pc c s', t_pc t = PAt pc /\ cstep g (x_sys x) (i, c) = Some s' /\
           match nth pc mprog MNop with
           | MLock => x' = {| x_sys := s'; x_cfg := x_cfg x; x_info := x_info x |}
           | m => x' = {| x_sys := s'; x_cfg := fst (data_action url m (x_cfg x) ti);
                          x_info := update (x_info x) i (snd (data_action url m (x_cfg x) ti)) |}
           end)).
  Proof.
    unfold advance. intro H.
    destruct (nth_error (s_threads (x_sys x)) i) as [t|] eqn:Et; [|discriminate].
    destruct (nth_error (x_info x) i) as [ti|] eqn:Eti; [|discriminate].
    exists t, ti. split; [reflexivity|]. split; [reflexivity|].
    destruct (t_pc t) as [pc|pc|] eqn:Epc; [| |discriminate].
    - right.
      destruct (match nth pc mprog MNop with MGate => gate_closed x ti | MRelay => relay_closed ti | _ => false end); [discriminate|].
      match type of H with context [cstep g (x_sys x) (i, ?c)] => set (c0 := c) in * end.
      destruct (cstep g (x_sys x) (i, c0)) as [s'|] eqn:Es; [|discriminate].
      exists pc, c0, s'. split; [reflexivity|]. split; [exact Es|].
      destruct (nth pc mprog MNop) eqn:Em;
        try (destruct (data_action url _ (x_cfg x) ti) as [cfg' ti'] eqn:Ed; injection H as <-; cbn [fst snd]; reflexivity).
      injection H as <-. reflexivity.
    - left. destruct (cstep g (x_sys x) (i, 0)) as [s'|] eqn:Es; [|discriminate].
      injection H as <-. exists pc, s'. auto.
  Qed.

  Lemma op_lock_only m : op_of_mstep m = OLock -> m = MLock.
  Proof. destruct m; cbn; congruence. Qed.

  (* where a thread standing inside its program goes *)
  Lemma step_pos e p i t L t' L' :
    laid mprog g e p -> tstep_spec g i t L t' L' ->
    (forall j m, t_pc t = PAt (e + j) -> nth_error p j = Some m ->
       (m = MLock /\ t_pc t' = PAnn (e + j)) \/
       (m <> MLock /\ (t_pc t' = PDone /\ S j = length p \/
                       t_pc t' = PAt (e + S j) /\ S j < length p \/
                       m = MBranchErr /\ t_pc t' = PAt (e + length p - 1) /\ S j < length p))) /\
    (forall j, t_pc t = PAnn (e + j) -> nth_error p j = Some MLock ->
       t_pc t' = PDone /\ S j = length p \/ t_pc t' = PAt (e + S j) /\ S j < length p).
  Proof.
    intros Hl Hspec.
    assert (Hnext : forall j m nd c pc', nth_error p j = Some m -> nd = node_at e p j m -> next_pc nd c = Some pc' ->
               pc' = PDone /\ S j = length p \/
               pc' = PAt (e + S j) /\ S j < length p \/
               m = MBranchErr /\ pc' = PAt (e + length p - 1) /\ S j < length p).
    { intros j m nd c pc' Hj -> Hn.
      assert (Hlt : j < length p) by (apply nth_error_Some; congruence).
      destruct (next_pc_cases _ _ _ Hn) as [[-> Hs]|(s & -> & Hs)]; cbn [node_at p_succ] in Hs.
      - left. split; [reflexivity|]. destruct (Nat.eqb_spec (S j) (length p)); [assumption|]. destruct m; discriminate.
      - right. destruct (Nat.eqb_spec (S j) (length p)); [destruct Hs|].
        assert (S j < length p) by lia.
        destruct m; cbn in Hs; (destruct Hs as [<-|Hs]; [left; split; [f_equal; lia|assumption]|]);
          try (destruct Hs; fail).
        destruct Hs as [<-|[]]. right. auto. }
    split.
    - intros j m Hpc Hj. destruct (Hl j m Hj) as (_ & Hg).
      destruct Hspec as [pc nd pc' c0 Epc End Eop En
                        |pc nd pc' c0 Epc End Eop En Ew
                        |pc nd pc' c0 r Epc End Eop En Er
                        |pc nd Epc End Eop Ew
                        |pc nd pc' c0 Epc End Eop En Ew Etw
                        |pc nd pc' c0 Epc End En Er Ew];
        rewrite Hpc in Epc; try discriminate; injection Epc as <-; rewrite Hg in End; injection End as <-;
        cbn [t_pc].
      + right. split; [intros ->; cbn in Eop; destruct Eop; discriminate|]. eapply Hnext; eauto.
      + right. split; [intros ->; cbn in Eop; discriminate|]. eapply Hnext; eauto.
      + right. split; [intros ->; cbn in Eop; discriminate|]. eapply Hnext; eauto.
      + left. split; [apply op_lock_only; exact Eop | reflexivity].
      + right. split; [intros ->; cbn in Eop; discriminate|]. eapply Hnext; eauto.
    - intros j Hpc Hj. destruct (Hl j MLock Hj) as (_ & Hg).
      destruct Hspec as [pc nd pc' c0 Epc End Eop En
                        |pc nd pc' c0 Epc End Eop En Ew
                        |pc nd pc' c0 r Epc End Eop En Er
                        |pc nd Epc End Eop Ew
                        |pc nd pc' c0 Epc End Eop En Ew Etw
                        |pc nd pc' c0 Epc End En Er Ew];
        rewrite Hpc in Epc; try discriminate; injection Epc as <-; rewrite Hg in End; injection End as <-;
        cbn [t_pc].
      destruct (Hnext j MLock _ c0 pc' Hj eq_refl En) as [H|[H|(H & _)]]; [left; exact H | right; exact H | discriminate].
  Qed.
End DataProof.

Section DataInv.
  Variables (url : bool) (mprog : list mstep) (g : prog) (init : cfgstate).

  Definition prog_of (ti : tinfo) : list mstep := program false (ti_sp ti).

  Definition pos_ok (e : nat) (p : list mstep) (t : thr) : Prop :=
    match t_pc t with
    | PAt pc => exists j, pc = e + j /\ j < length p
    | PAnn pc => exists j, pc = e + j /\ nth_error p j = Some MLock
    | PDone => True
    end.

  Definition at_pc (t : thr) (pc : nat) : Prop := t_pc t = PAt pc \/ t_pc t = PAnn pc.

  Definition data_ok (cfg : cfgstate) (e : nat) (t : thr) (ti : tinfo) : Prop :=
    fetching ti = true ->
    ((at_pc t (e + 2) \/ at_pc t (e + 3)) -> ti_local ti = cfg) /\
    ((at_pc t (e + 4) \/ at_pc t (e + 5)) -> ti_local ti = fetch_execution_config url (sp_ref (ti_sp ti)) cfg).

  Definition reader_ok (log : list refresh) (ti : tinfo) : Prop :=
    is_reader_kind (sp_kind (ti_sp ti)) = true ->
    ti_res ti = RAny \/
    exists pre post, log = pre ++ post /\
      ti_res ti = answer (sp_kind (ti_sp ti)) (refresh_all url pre init) (sp_v (ti_sp ti)).

  Definition thread_ok (s : gst) (i : nat) : Prop :=
    forall t ti e,
      nth_error (s_threads (x_sys (g_x s))) i = Some t -> nth_error (x_info (g_x s)) i = Some ti ->
      nth_error (g_ents s) i = Some e ->
      laid mprog g e (prog_of ti) /\ pos_ok e (prog_of ti) t /\
      data_ok (x_cfg (g_x s)) e t ti /\ reader_ok (g_log s) ti.

  Definition GI (s : gst) : Prop :=
    length (s_threads (x_sys (g_x s))) = length (x_info (g_x s)) /\
    length (s_threads (x_sys (g_x s))) = length (g_ents s) /\
    x_cfg (g_x s) = refresh_all url (g_log s) init /\
    forall i, thread_ok s i.

  Lemma fetching_prog ti : fetching ti = true ->
    prog_of ti = [MRLock; MStart; MRUnlock; MObtain; MLock; MWrite; MUnlock] /\
    sp_kind (ti_sp ti) = KRefresh /\ rf_acc (sp_ref (ti_sp ti)) = AccSome.
  Proof.
    unfold fetching, prog_of, program. destruct (sp_kind (ti_sp ti)); try discriminate.
    destruct (rf_acc (sp_ref (ti_sp ti))); try discriminate. auto.
  Qed.

  Lemma mwrite_fetching ti j : nth_error (prog_of ti) j = Some MWrite -> fetching ti = true /\ j = 5.
  Proof.
    unfold fetching, prog_of, program.
    destruct (sp_kind (ti_sp ti)); try destruct (rf_acc (sp_ref (ti_sp ti)));
      repeat (destruct j as [|j]; cbn; try discriminate); auto.
  Qed.

  Lemma mlock_fetching ti j : nth_error (prog_of ti) j = Some MLock -> fetching ti = true /\ j = 4.
  Proof.
    unfold fetching, prog_of, program.
    destruct (sp_kind (ti_sp ti)); try destruct (rf_acc (sp_ref (ti_sp ti)));
      repeat (destruct j as [|j]; cbn; try discriminate); auto.
  Qed.

  Lemma prog_nonempty sp : 0 < length (program false sp).
  Proof. unfold program. destruct (sp_kind sp); try destruct (rf_acc (sp_ref sp)); cbn; lia. Qed.

  Lemma mstep_eq_dec_write (m : mstep) : m = MWrite \/ m <> MWrite.
  Proof. destruct m; (left; reflexivity) || (right; discriminate). Qed.

  Lemma mstep_eq_dec_lock (m : mstep) : m = MLock \/ m <> MLock.
  Proof. destruct m; (left; reflexivity) || (right; discriminate). Qed.

  Lemma data_action_sp m cfg ti : ti_sp (snd (data_action url m cfg ti)) = ti_sp ti.
  Proof. destruct m; reflexivity. Qed.

  Lemma data_action_cfg m cfg ti : m <> MWrite -> fst (data_action url m cfg ti) = cfg.
  Proof. destruct m; try reflexivity. congruence. Qed.

  Lemma refresh_all_snoc log r : refresh_all url (log ++ [r]) init = fetch_execution_config url r (refresh_all url log init).
  Proof. unfold refresh_all. rewrite fold_left_app. reflexivity. Qed.

  Lemma nth_error_nth_default {A} (l : list A) n d x : nth_error l n = Some x -> nth n l d = x.
  Proof. revert n. induction l as [|a l IH]; intros [|n] H; cbn in *; try discriminate; [congruence | auto]. Qed.

  Lemma not_active_data cfg cfg' e t ti :
    (fetching ti = true -> active_at e t = false) -> data_ok cfg e t ti -> data_ok cfg' e t ti.
  Proof.
    intros Hna _ Hf. specialize (Hna Hf). unfold active_at in Hna. unfold at_pc.
    destruct (t_pc t) as [pc|pc|]; try discriminate.
    - apply andb_false_iff in Hna. rewrite Nat.leb_gt, Nat.leb_gt in Hna.
      split; intros [[H|H]|[H|H]]; try discriminate; injection H as ->; lia.
    - split; intros [[H|H]|[H|H]]; discriminate.
  Qed.

  (* the thread that moves *)
  Lemma moved_thread_ok cfg log e t t' ti i L L' pcx :
    laid mprog g e (prog_of ti) -> pos_ok e (prog_of ti) t -> data_ok cfg e t ti -> reader_ok log ti ->
    cfg = refresh_all url log init ->
    tstep_spec g i t L t' L' ->
    (* the data action that goes with the step *)
    forall ti' cfg' log',
      ((t_pc t = PAnn pcx \/ (t_pc t = PAt pcx /\ nth pcx mprog MNop = MLock)) /\ ti' = ti /\ cfg' = cfg /\ log' = log) \/
      (t_pc t = PAt pcx /\ nth pcx mprog MNop <> MLock /\
       ti' = snd (data_action url (nth pcx mprog MNop) cfg ti) /\ cfg' = fst (data_action url (nth pcx mprog MNop) cfg ti) /\
       log' = match nth pcx mprog MNop with MWrite => log ++ [sp_ref (ti_sp ti)] | _ => log end) ->
      laid mprog g e (prog_of ti') /\ pos_ok e (prog_of ti') t' /\ data_ok cfg' e t' ti' /\ reader_ok log' ti' /\
      cfg' = refresh_all url log' init.
  Proof.
    intros Hl Hpos Hdata Hrd Hcfg Hspec ti' cfg' log' Hact.
    destruct (step_pos mprog g e (prog_of ti) i t L t' L' Hl Hspec) as [Hp1 Hp2].
    destruct Hact as [([Hpc|[Hpc Hm]] & -> & -> & ->)|(Hpc & Hm & -> & -> & ->)].
    - (* acquire *)
      unfold pos_ok in Hpos. rewrite Hpc in Hpos. destruct Hpos as (j & -> & Hj).
      destruct (mlock_fetching ti j Hj) as [Hf ->].
      destruct (fetching_prog ti Hf) as (Hp & _ & _).
      split; [exact Hl|]. split; [|split; [|split; [exact Hrd|exact Hcfg]]].
      + unfold pos_ok. destruct (Hp2 4 Hpc Hj) as [[-> _]|[-> Hlt]]; [exact I|]. exists 5. split; [reflexivity|exact Hlt].
      + intros _. destruct (Hdata Hf) as [_ H2]. unfold at_pc in *.
        destruct (Hp2 4 Hpc Hj) as [[E _]|[E _]]; rewrite E;
          split; intros [[H|H]|[H|H]]; try discriminate; try (injection H; lia).
        apply H2. left. right. exact Hpc.
    - (* announce *)
      unfold pos_ok in Hpos. rewrite Hpc in Hpos. destruct Hpos as (j & -> & Hj).
      apply nth_error_Some in Hj. destruct (nth_error (prog_of ti) j) as [m|] eqn:Ej; [|congruence]. clear Hj.
      destruct (Hl j m Ej) as (Hm1 & _). rewrite (nth_error_nth_default _ _ MNop _ Hm1) in Hm. subst m.
      destruct (mlock_fetching ti j Ej) as [Hf ->].
      destruct (Hp1 4 MLock Hpc Ej) as [[_ E]|[Hne _]]; [|congruence].
      split; [exact Hl|]. split; [|split; [|split; [exact Hrd|exact Hcfg]]].
      + unfold pos_ok. rewrite E. exists 4. auto.
      + intros _. destruct (Hdata Hf) as [H1 H2]. unfold at_pc in *. rewrite E.
        split; intros [[H|H]|[H|H]]; try discriminate; try (injection H; lia).
        apply H2. left. left. exact Hpc.
    - (* an ordinary step with its data action *)
      unfold pos_ok in Hpos. rewrite Hpc in Hpos. destruct Hpos as (j & -> & Hj).
      apply nth_error_Some in Hj. destruct (nth_error (prog_of ti) j) as [m|] eqn:Ej; [|congruence]. clear Hj.
      destruct (Hl j m Ej) as (Hm1 & _). rewrite (nth_error_nth_default _ _ MNop _ Hm1) in *.
      subst cfg.
      set (ti' := snd (data_action url m (refresh_all url log init) ti)).
      assert (Hsp : ti_sp ti' = ti_sp ti) by apply data_action_sp.
      assert (Hprog : prog_of ti' = prog_of ti) by (unfold prog_of; rewrite Hsp; reflexivity).
      assert (Hfe : fetching ti' = fetching ti) by (unfold fetching; rewrite Hsp; reflexivity).
      rewrite Hprog.
      destruct (Hp1 j m Hpc Ej) as [[-> _]|[_ Hnext]]; [congruence|].
      split; [exact Hl|]. split; [|split; [|split]].
      + unfold pos_ok. destruct Hnext as [[-> _]|[[-> Hlt]|(_ & -> & Hlt)]]; [exact I | exists (S j); auto | exists (length (prog_of ti) - 1); split; lia].
      + (* data *)
        intro Hf. rewrite Hfe in Hf. destruct (fetching_prog ti Hf) as (Hp & Hk & Hacc).
        rewrite Hp in Ej. rewrite Hp in Hnext. cbn [length] in Hnext.
        destruct (Hdata Hf) as [H1 H2]. unfold at_pc in *.
        destruct j as [|[|[|[|[|[|[|j]]]]]]]; cbn in Ej; try (destruct j; discriminate); injection Ej as <-;
          try congruence;
          (destruct Hnext as [[E Hlen]|[[E Hlt]|(Hb & _)]]; try discriminate; try lia; rewrite E;
           (split; intros [[H|H]|[H|H]]; try discriminate; try (injection H; lia))).
        * (* MStart *) subst ti'. reflexivity.
        * (* MRUnlock *) subst ti'. cbn. apply H1. left. left. exact Hpc.
        * (* MObtain *)
          subst ti'. cbn [data_action snd ti_local ti_sp fst].
          rewrite (H1 (or_intror (or_introl Hpc))).
          unfold fetch_execution_config. rewrite Hacc. reflexivity.
      + (* reader *)
        intro Hr. rewrite Hsp in Hr.
        destruct m; try (subst ti'; cbn [data_action snd ti_res ti_sp];
                         destruct (Hrd Hr) as [Ha|(pre & post & -> & Ha)]; [left; exact Ha | right; exists pre, post; split; [reflexivity|exact Ha]]; fail).
        * (* MRead *)
          right. exists log, []. split; [rewrite app_nil_r; reflexivity|].
          subst ti'. cbn [data_action snd ti_res ti_sp]. unfold answer.
          destruct (sp_kind (ti_sp ti)); try discriminate; reflexivity.
        * (* MWrite: not a reader *)
          destruct (mwrite_fetching ti j Ej) as [Hf _]. destruct (fetching_prog ti Hf) as (_ & Hk & _).
          rewrite Hk in Hr. discriminate.
      + (* the configuration is the fold of the writes *)
        destruct (mstep_eq_dec_write m) as [->|Hnw].
        * destruct (mwrite_fetching ti j Ej) as [Hf ->].
          destruct (Hdata Hf) as [_ H2]. cbn [data_action fst].
          rewrite refresh_all_snoc. apply H2. right. left. exact Hpc.
        * rewrite data_action_cfg by exact Hnw. destruct m; try reflexivity. congruence.
  Qed.
End DataInv.

Section DataMain.
  Variables (url : bool) (mprog : list mstep) (g : prog) (init : cfgstate).

  Definition act_ok (a : xact) : Prop :=
    match a with XSpawn sp e => laid mprog g e (program false sp) | _ => True end.

  Lemma update_length {A} (l : list A) i a : length (update l i a) = length l.
  Proof. revert i. induction l as [|b l IH]; intros [|i]; cbn; auto. Qed.

  Lemma reader_ok_mono log l ti : reader_ok url init log ti -> reader_ok url init (log ++ l) ti.
  Proof.
    intros H Hr. destruct (H Hr) as [Ha|(pre & post & -> & Ha)]; [left; exact Ha|].
    right. exists pre, (post ++ l). split; [rewrite app_assoc; reflexivity | exact Ha].
  Qed.

  Notation GI' := (GI url mprog g init).

  Lemma GI_adv s i : GI' s -> no_overlap s -> GI' (gstep url mprog g s (XAdv i)).
  Proof.
    intros (Hlen1 & Hlen2 & Hcfg & Hall) Hno. cbn [gstep].
    destruct (advance url mprog g (g_x s) i) as [x'|] eqn:Ea; [|exact (conj Hlen1 (conj Hlen2 (conj Hcfg Hall)))].
    destruct (advance_inv url mprog g _ _ _ Ea) as (t & ti & Ht & Hti & Hcase).
    assert (exists e, nth_error (g_ents s) i = Some e) as [e He].
    { destruct (nth_error (g_ents s) i) as [e|] eqn:Ee; [eauto|].
      apply nth_error_None in Ee. assert (i < length (s_threads (x_sys (g_x s)))) by (apply nth_error_Some; congruence). lia. }
    destruct (Hall i t ti e Ht Hti He) as (Hl & Hpos & Hdata & Hrd).
    (* common shape of the new state *)
    assert (Hmain : forall c s' ti' cfg' log' pcx,
      cstep g (x_sys (g_x s)) (i, c) = Some s' ->
      (((t_pc t = PAnn pcx \/ (t_pc t = PAt pcx /\ nth pcx mprog MNop = MLock)) /\ ti' = ti /\ cfg' = x_cfg (g_x s) /\ log' = g_log s) \/
       (t_pc t = PAt pcx /\ nth pcx mprog MNop <> MLock /\
        ti' = snd (data_action url (nth pcx mprog MNop) (x_cfg (g_x s)) ti) /\
        cfg' = fst (data_action url (nth pcx mprog MNop) (x_cfg (g_x s)) ti) /\
        log' = match nth pcx mprog MNop with MWrite => g_log s ++ [sp_ref (ti_sp ti)] | _ => g_log s end)) ->
      GI' {| g_x := {| x_sys := s'; x_cfg := cfg'; x_info := update (x_info (g_x s)) i ti' |};
             g_ents := g_ents s; g_log := log' |}).
    { intros c s' ti' cfg' log' pcx Hcs Hact.
      destruct (cstep_inv _ _ _ _ _ Hcs) as (t0 & t' & L' & Ht0 & Hspec & ->).
      rewrite Ht in Ht0. injection Ht0 as <-.
      destruct (moved_thread_ok url mprog g init (x_cfg (g_x s)) (g_log s) e t t' ti i _ L' pcx Hl Hpos Hdata Hrd Hcfg Hspec ti' cfg' log' Hact)
        as (Hl' & Hpos' & Hdata' & Hrd' & Hcfg').
      unfold GI; cbn [g_x g_ents g_log x_sys x_cfg x_info set_thread s_threads].
      rewrite !update_length. split; [exact Hlen1|]. split; [exact Hlen2|]. split; [exact Hcfg'|].
      intros k tk tik ek Hk1 Hk2 Hk3. unfold set_thread in Hk1. cbn [g_x g_ents g_log x_sys x_cfg x_info s_threads] in Hk1, Hk2, Hk3 |- *.
      rewrite (nth_update_cases _ _ _ _ _ Ht) in Hk1. rewrite (nth_update_cases _ _ _ _ _ Hti) in Hk2.
      destruct (Nat.eqb_spec k i) as [->|Hne].
      - injection Hk1 as <-. injection Hk2 as <-. rewrite He in Hk3. injection Hk3 as <-. auto.
      - destruct (Hall k tk tik ek Hk1 Hk2 Hk3) as (Hlk & Hposk & Hdatak & Hrdk).
        split; [exact Hlk|]. split; [exact Hposk|]. split.
        + (* the data of another refresh: only a write changes the configuration, and then nobody else is active *)
          destruct Hact as [(_ & _ & -> & _)|(Hpc & Hm & _ & -> & _)]; [exact Hdatak|].
          destruct (mstep_eq_dec_write (nth pcx mprog MNop)) as [Hw|Hnw].
          * eapply not_active_data; [|exact Hdatak]. intro Hfk.
            destruct (active_at ek tk) eqn:Eact; [|reflexivity]. exfalso. apply Hne.
            apply (Hno k i).
            -- exists tk, tik, ek. auto.
            -- unfold pos_ok in Hpos. rewrite Hpc in Hpos. destruct Hpos as (j & -> & Hj).
               apply nth_error_Some in Hj. destruct (nth_error (prog_of ti) j) as [m|] eqn:Ej; [|congruence].
               destruct (Hl j m Ej) as (Hm1 & _). rewrite (nth_error_nth_default _ _ MNop _ Hm1) in Hw. subst m.
               destruct (mwrite_fetching ti j Ej) as [Hf ->].
               exists t, ti, e. repeat split; auto. unfold active_at. rewrite Hpc.
               apply andb_true_iff. split; apply Nat.leb_le; lia.
          * rewrite data_action_cfg by exact Hnw. exact Hdatak.
        + destruct Hact as [(_ & _ & _ & ->)|(_ & _ & _ & _ & ->)]; [exact Hrdk|].
          destruct (nth pcx mprog MNop); try exact Hrdk. apply reader_ok_mono. exact Hrdk. }
    destruct Hcase as [(pc & s' & Hpc & Hcs & ->)|(pc & c & s' & Hpc & Hcs & Hx')].
    - (* the second half of Lock *)
      assert (Hlog : match thread_mstep mprog (g_x s) i, nth_error (x_info (g_x s)) i with
                     | Some MWrite, Some ti0 => g_log s ++ [sp_ref (ti_sp ti0)] | _, _ => g_log s end = g_log s).
      { unfold thread_mstep. rewrite Ht, Hpc. reflexivity. }
      rewrite Hlog.
      pose proof (Hmain 0 s' ti (x_cfg (g_x s)) (g_log s) pc Hcs (or_introl (conj (or_introl Hpc) (conj eq_refl (conj eq_refl eq_refl))))) as H.
      assert (Hupd : update (x_info (g_x s)) i ti = x_info (g_x s)).
      { clear -Hti. revert i Hti. induction (x_info (g_x s)) as [|a l IH]; intros [|i] H; cbn in *; try discriminate; [congruence|]. f_equal. auto. }
      rewrite Hupd in H. exact H.
    - unfold pos_ok in Hpos. pose proof Hpos as Hpos0. rewrite Hpc in Hpos0. destruct Hpos0 as (j & Hpcj & Hj).
      apply nth_error_Some in Hj. destruct (nth_error (prog_of ti) j) as [m|] eqn:Ej; [|congruence]. clear Hj.
      destruct (Hl j m Ej) as (Hm1 & _). rewrite <- Hpcj in Hm1.
      pose proof (nth_error_nth_default _ _ MNop _ Hm1) as Hm2.
      assert (Hlog : match thread_mstep mprog (g_x s) i, nth_error (x_info (g_x s)) i with
                     | Some MWrite, Some ti0 => g_log s ++ [sp_ref (ti_sp ti0)] | _, _ => g_log s end =
                     match m with MWrite => g_log s ++ [sp_ref (ti_sp ti)] | _ => g_log s end).
      { unfold thread_mstep. rewrite Ht, Hpc, Hm1, Hti. reflexivity. }
      rewrite Hlog. rewrite Hm2 in Hx'.
      destruct (mstep_eq_dec_lock m) as [->|Hnl].
      + subst x'.
        pose proof (Hmain c s' ti (x_cfg (g_x s)) (g_log s) pc Hcs
                      (or_introl (conj (or_intror (conj Hpc Hm2)) (conj eq_refl (conj eq_refl eq_refl))))) as H.
        assert (Hupd : update (x_info (g_x s)) i ti = x_info (g_x s)).
        { clear -Hti. revert i Hti. induction (x_info (g_x s)) as [|a l IH]; intros [|i] H; cbn in *; try discriminate; [congruence|]. f_equal. auto. }
        rewrite Hupd in H. exact H.
      + assert (x' = {| x_sys := s'; x_cfg := fst (data_action url m (x_cfg (g_x s)) ti);
                        x_info := update (x_info (g_x s)) i (snd (data_action url m (x_cfg (g_x s)) ti)) |}) as ->
            by (destruct m; try exact Hx'; congruence).
        apply (Hmain c s' _ _ _ pc Hcs). right. rewrite Hm2. repeat split; auto.
  Qed.

  Lemma GI_spawn s sp e : GI' s -> laid mprog g e (program false sp) -> GI' (gstep url mprog g s (XSpawn sp e)).
  Proof.
    intros (Hlen1 & Hlen2 & Hcfg & Hall) Hl. unfold GI. cbn [gstep spawn_thread g_x g_ents g_log x_sys x_cfg x_info s_threads].
    rewrite !app_length. cbn [length]. split; [lia|]. split; [lia|]. split; [exact Hcfg|].
    intros k tk tik ek Hk1 Hk2 Hk3. cbn [gstep spawn_thread g_x g_ents g_log x_sys x_cfg x_info s_threads] in Hk1, Hk2, Hk3 |- *.
    destruct (Nat.lt_ge_cases k (length (s_threads (x_sys (g_x s))))) as [Hlt|Hge].
    - rewrite nth_error_app1 in Hk1 by exact Hlt. rewrite nth_error_app1 in Hk2 by lia. rewrite nth_error_app1 in Hk3 by lia.
      exact (Hall k tk tik ek Hk1 Hk2 Hk3).
    - rewrite nth_error_app2 in Hk1 by exact Hge. rewrite nth_error_app2 in Hk2 by lia. rewrite nth_error_app2 in Hk3 by lia.
      destruct (k - length (s_threads (x_sys (g_x s)))) as [|d] eqn:Ed; [|destruct d; discriminate].
      replace (k - length (x_info (g_x s))) with 0 in Hk2 by lia. replace (k - length (g_ents s)) with 0 in Hk3 by lia.
      cbn in Hk1, Hk2, Hk3. injection Hk1 as <-. injection Hk2 as <-. injection Hk3 as <-.
      split; [exact Hl|]. split; [|split].
      + unfold pos_ok; cbn. exists 0. split; [lia|]. apply prog_nonempty.
      + intros _. unfold at_pc; cbn. split; intros [[H|H]|[H|H]]; try discriminate; injection H; lia.
      + intro Hr. left. cbn in *. destruct (sp_kind sp); try discriminate; reflexivity.
  Qed.

  Lemma GI_rel s k : GI' s -> GI' (gstep url mprog g s (XRel k)).
  Proof.
    intros (Hlen1 & Hlen2 & Hcfg & Hall). cbn [gstep]. unfold open_gate.
    destruct (nth_error (x_info (g_x s)) k) as [ti|] eqn:Eti; [|destruct s as [[? ? ?] ? ?]; exact (conj Hlen1 (conj Hlen2 (conj Hcfg Hall)))].
    unfold GI. cbn [g_x g_ents g_log x_sys x_cfg x_info]. rewrite update_length.
    split; [exact Hlen1|]. split; [exact Hlen2|]. split; [exact Hcfg|].
    intros j tj tij ej Hj1 Hj2 Hj3. cbn [g_x g_ents g_log x_sys x_cfg x_info] in Hj1, Hj2, Hj3 |- *.
    rewrite (nth_update_cases _ _ _ _ _ Eti) in Hj2.
    destruct (Nat.eqb_spec j k) as [->|Hne]; [|exact (Hall j tj tij ej Hj1 Hj2 Hj3)].
    injection Hj2 as <-. destruct (Hall k tj ti ej Hj1 Eti Hj3) as (H1 & H2 & H3 & H4).
    split; [exact H1|]. split; [exact H2|]. split; [exact H3 | exact H4].
  Qed.

  Lemma GI_step s a : GI' s -> no_overlap s -> act_ok a -> GI' (gstep url mprog g s a).
  Proof.
    intros HI Hno Ha. destruct a as [i|sp e|k].
    - apply GI_adv; assumption.
    - apply GI_spawn; assumption.
    - apply GI_rel; assumption.
  Qed.

  Lemma GI_run : forall acts s,
    GI' s -> (forall n, no_overlap (grun url mprog g (firstn n acts) s)) -> Forall act_ok acts ->
    GI' (grun url mprog g acts s).
  Proof.
    induction acts as [|a acts IH]; intros s HI Hno Hok; [exact HI|].
    inversion Hok as [|? ? Ha Hrest]; subst. cbn [grun fold_left].
    apply IH; [|intro n; exact (Hno (S n))|exact Hrest].
    apply GI_step; [exact HI|exact (Hno 0)|exact Ha].
  Qed.

  Lemma GI_init : GI' (g0 init).
  Proof.
    unfold GI, g0; cbn. split; [reflexivity|]. split; [reflexivity|]. split; [reflexivity|].
    intros k t ti e H. destruct k; discriminate.
  Qed.
End DataMain.

(* a boolean test of the no-overlap hypothesis, for examples *)
Definition active_b (s : gst) (i : nat) : bool :=
  match nth_error (s_threads (x_sys (g_x s))) i, nth_error (x_info (g_x s)) i, nth_error (g_ents s) i with
  | Some t, Some ti, Some e => fetching ti && active_at e t
  | _, _, _ => false
  end.

Definition no_overlap_b (s : gst) : bool :=
  length (filter (active_b s) (seq 0 (length (s_threads (x_sys (g_x s)))))) <=? 1.

Lemma two_members {A} (l : list A) x y : In x l -> In y l -> x <> y -> 2 <= length l.
Proof.
  destruct l as [|a [|b l]]; cbn; intros Hx Hy Hne; try lia; try tauto.
  destruct Hx as [<-|[]], Hy as [<-|[]]. congruence.
Qed.

Lemma no_overlap_b_sound s : no_overlap_b s = true -> no_overlap s.
Proof.
  unfold no_overlap_b, no_overlap. intros H i j Hi Hj.
  destruct (Nat.eq_dec i j) as [|Hne]; [assumption|]. exfalso.
  assert (Hin : forall k, active s k -> In k (filter (active_b s) (seq 0 (length (s_threads (x_sys (g_x s))))))).
  { intros k (t & ti & e & H1 & H2 & H3 & H4 & H5). apply filter_In. split.
    - apply in_seq. split; [lia|]. cbn. apply nth_error_Some. congruence.
    - unfold active_b. rewrite H1, H2, H3, H4, H5. reflexivity. }
  pose proof (two_members _ i j (Hin i Hi) (Hin j Hj) Hne) as H2. apply Nat.leb_le in H. lia.
Qed.
