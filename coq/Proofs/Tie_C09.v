(* C09: the hand-written model equals the gotrans transcription of the builder-bid score
   (coq/Gen/Pure_C09.v, regenerated from the repository's source on every run).  When the Go source
   changes its meaning, a lemma here stops compiling and only C09's tie is affected. *)
From Coq Require Import ZArith NArith Lia Bool List.
From Coq Require Import ZifyBool ZifyN.
From Verif Require Import Lib.Base Lib.GoInt Proofs.TieLib Gen.Pure_C09.
From Verif Require Model.C09_Auction.
Local Open Scope Z_scope.

Lemma tie_score (cfgs : C09_Auction.bconfs) (b : C09_Auction.bid) :
  let c := C09_Auction.conf_of cfgs b in
  C09_Auction.score cfgs b =
  builderbid_score (Z.of_N (C09_Auction.b_value b))
                   (match C09_Auction.bc_offset c with Some _ => true | None => false end)
                   (match C09_Auction.bc_offset c with Some o => o | None => 0 end)
                   (match C09_Auction.bc_factor c with Some _ => true | None => false end)
                   (match C09_Auction.bc_factor c with Some f => f | None => 0 end).
Proof.
  cbv zeta. unfold C09_Auction.score, builderbid_score.
  destruct (C09_Auction.bc_offset (C09_Auction.conf_of cfgs b)) as [o|];
  destruct (C09_Auction.bc_factor (C09_Auction.conf_of cfgs b)) as [f|];
  try reflexivity; rewrite ediv_pos by lia; reflexivity.
Qed.

(* the deadline strategy has its own copy of the computation: same transcription *)

Lemma tie_score_deadline : forall v ho o hf f, builderbid_deadline_score v ho o hf f = builderbid_score v ho o hf f.
Proof. reflexivity. Qed.
