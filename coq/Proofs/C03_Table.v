(* C03 — lemmas about the abstract scheduler table (tget / tsched / tremove / filters), about
   [dedup], [sort_by] and [slot_range]. *)
From Verif Require Import Lib.Base Model.C03_ChainTime Model.C03_Controller Model.C03_Spec.
From Coq Require Import ZifyBool ZifyN ZifyNat Permutation.
Open Scope N_scope.

(* ------------------------------------------------------------------------------------------- *)
(* names *)

Lemma jname_eqb_spec : forall a b, jname_eqb a b = true <-> a = b.
Proof.
  destruct a, b; cbn; split; intro H; try discriminate;
    try (apply N.eqb_eq in H; subst; reflexivity);
    try (injection H as ->; apply N.eqb_refl).
Qed.

Lemma jname_eqb_refl : forall a, jname_eqb a a = true.
Proof. intro a. apply jname_eqb_spec. reflexivity. Qed.

Lemma jname_eqb_neq : forall a b, a <> b -> jname_eqb a b = false.
Proof.
  intros a b H. destruct (jname_eqb a b) eqn:E; [|reflexivity].
  apply jname_eqb_spec in E. contradiction.
Qed.

Lemma jname_eqb_false : forall a b, jname_eqb a b = false -> a <> b.
Proof. intros a b H E. subst. rewrite jname_eqb_refl in H. discriminate. Qed.

Lemma jname_eq_dec : forall a b : jname, {a = b} + {a <> b}.
Proof.
  intros a b. destruct (jname_eqb a b) eqn:E.
  - left. apply jname_eqb_spec. exact E.
  - right. apply jname_eqb_false. exact E.
Qed.

(* ------------------------------------------------------------------------------------------- *)
(* tget *)

Lemma tget_some : forall t n j, tget t n = Some j -> j_name j = n /\ In j t.
Proof.
  induction t as [|x t IH]; cbn; intros n j H; [discriminate|].
  destruct (jname_eqb (j_name x) n) eqn:E.
  - injection H as <-. apply jname_eqb_spec in E. split; [exact E | left; reflexivity].
  - destruct (IH n j H) as [H1 H2]. split; [exact H1 | right; exact H2].
Qed.

Lemma tget_none : forall t n, tget t n = None <-> ~ In n (map j_name t).
Proof.
  induction t as [|x t IH]; cbn; intro n.
  - split; [intros _ [] | reflexivity].
  - destruct (jname_eqb (j_name x) n) eqn:E.
    + apply jname_eqb_spec in E. split; [discriminate | intro H; exfalso; apply H; left; exact E].
    + apply jname_eqb_false in E. rewrite IH. split.
      * intros H [H1|H1]; [contradiction | apply H; exact H1].
      * intros H H1. apply H. right. exact H1.
Qed.

Lemma tget_in : forall t j, NoDup (map j_name t) -> In j t -> tget t (j_name j) = Some j.
Proof.
  induction t as [|x t IH]; cbn; intros j Hnd Hin; [destruct Hin|].
  inversion Hnd as [|? ? Hx Hnd']; subst.
  destruct Hin as [->|Hin].
  - rewrite jname_eqb_refl. reflexivity.
  - destruct (jname_eqb (j_name x) (j_name j)) eqn:E.
    + apply jname_eqb_spec in E. exfalso. apply Hx. rewrite E. apply in_map. exact Hin.
    + apply IH; assumption.
Qed.

Lemma texists_tget : forall t n, texists t n = true <-> tget t n <> None.
Proof.
  intros t n. unfold texists. destruct (tget t n); split; intro H; try reflexivity; try discriminate.
  exfalso. apply H. reflexivity.
Qed.

Lemma texists_false : forall t n, texists t n = false <-> tget t n = None.
Proof.
  intros t n. unfold texists. destruct (tget t n); split; intro H; try reflexivity; discriminate.
Qed.

Lemma tget_app1 : forall t j n,
  tget (t ++ [j]) n = match tget t n with Some x => Some x | None => if jname_eqb (j_name j) n then Some j else None end.
Proof.
  induction t as [|x t IH]; cbn; intros j n; [reflexivity|].
  destruct (jname_eqb (j_name x) n); [reflexivity | apply IH].
Qed.

(* ScheduleJob: an existing name wins *)
Lemma tget_tsched : forall t j n,
  tget (tsched t j) n = match tget t n with Some x => Some x | None => if jname_eqb (j_name j) n then Some j else None end.
Proof.
  intros t j n. unfold tsched. destruct (texists t (j_name j)) eqn:E.
  - destruct (tget t n) eqn:G; [reflexivity|].
    destruct (jname_eqb (j_name j) n) eqn:E2; [|reflexivity].
    apply jname_eqb_spec in E2. subst n. apply texists_tget in E. contradiction.
  - apply tget_app1.
Qed.

Lemma tget_filter : forall (f : jname -> bool) t n,
  tget (filter (fun j => f (j_name j)) t) n = if f n then tget t n else None.
Proof.
  intros f. induction t as [|x t IH]; cbn; intro n; [destruct (f n); reflexivity|].
  destruct (f (j_name x)) eqn:Fx; cbn.
  - destruct (jname_eqb (j_name x) n) eqn:E.
    + apply jname_eqb_spec in E. subst n. rewrite Fx. reflexivity.
    + apply IH.
  - destruct (jname_eqb (j_name x) n) eqn:E.
    + apply jname_eqb_spec in E. subst n. rewrite Fx. rewrite IH, Fx. reflexivity.
    + apply IH.
Qed.

Lemma tget_tremove : forall t m n,
  tget (tremove t m) n = if jname_eqb m n then None else tget t n.
Proof.
  intros t m n. unfold tremove.
  rewrite (tget_filter (fun x => negb (jname_eqb x m))).
  destruct (jname_eqb m n) eqn:E.
  - apply jname_eqb_spec in E. subst. rewrite jname_eqb_refl. reflexivity.
  - destruct (jname_eqb n m) eqn:E2; [|reflexivity].
    apply jname_eqb_spec in E2. subst. rewrite jname_eqb_refl in E. discriminate.
Qed.

(* ------------------------------------------------------------------------------------------- *)
(* well-formed tables: one job per name *)


Lemma twf_nil : twf [].
Proof. constructor. Qed.

Lemma NoDup_snoc {A} : forall (l : list A) x, NoDup l -> ~ In x l -> NoDup (l ++ [x]).
Proof.
  induction l as [|y l IH]; cbn; intros x Hnd Hx.
  - constructor; [intros [] | constructor].
  - inversion Hnd as [|? ? Hy Hnd']; subst. constructor.
    + intro H. apply in_app_or in H. destruct H as [H|[H|[]]]; [contradiction|].
      apply Hx. left. symmetry. exact H.
    + apply IH; [exact Hnd' | intro H; apply Hx; right; exact H].
Qed.

Lemma twf_tsched : forall t j, twf t -> twf (tsched t j).
Proof.
  intros t j H. unfold tsched. destruct (texists t (j_name j)) eqn:E; [exact H|].
  unfold twf. rewrite map_app. cbn.
  apply texists_false in E. apply tget_none in E.
  apply NoDup_snoc; assumption.
Qed.

Lemma NoDup_map_filter {A B} (f : A -> B) (g : A -> bool) : forall l, NoDup (map f l) -> NoDup (map f (filter g l)).
Proof.
  induction l as [|x l IH]; cbn; intro H; [constructor|].
  inversion H as [|? ? Hx Hnd]; subst.
  destruct (g x); cbn.
  - constructor; [|apply IH; exact Hnd].
    intro Hin. apply Hx. apply in_map_iff in Hin. destruct Hin as [y [Hy Hin]].
    apply filter_In in Hin. rewrite <- Hy. apply in_map. apply Hin.
  - apply IH; exact Hnd.
Qed.

Lemma twf_filter : forall g t, twf t -> twf (filter g t).
Proof. intros g t H. apply NoDup_map_filter. exact H. Qed.

Lemma twf_tremove : forall t n, twf t -> twf (tremove t n).
Proof. intros t n H. apply twf_filter. exact H. Qed.

Lemma twf_fold_tsched : forall js t, twf t -> twf (fold_left tsched js t).
Proof.
  induction js as [|j js IH]; cbn; intros t H; [exact H|].
  apply IH. apply twf_tsched. exact H.
Qed.

(* in a well-formed table a name has at most one job *)
Lemma twf_unique : forall t j1 j2, twf t -> In j1 t -> In j2 t -> j_name j1 = j_name j2 -> j1 = j2.
Proof.
  intros t j1 j2 Hwf H1 H2 Hn.
  pose proof (tget_in t j1 Hwf H1) as G1. pose proof (tget_in t j2 Hwf H2) as G2.
  rewrite Hn in G1. rewrite G1 in G2. injection G2 as ->. reflexivity.
Qed.

(* ------------------------------------------------------------------------------------------- *)
(* scheduling a list of jobs *)

Lemma tget_fold_tsched : forall js t n,
  tget (fold_left tsched js t) n =
  match tget t n with
  | Some x => Some x
  | None => find (fun j => jname_eqb (j_name j) n) js
  end.
Proof.
  induction js as [|j js IH]; cbn; intros t n.
  - destruct (tget t n); reflexivity.
  - rewrite IH, tget_tsched. destruct (tget t n); [reflexivity|].
    destruct (jname_eqb (j_name j) n); reflexivity.
Qed.

Lemma find_name_none : forall js n,
  find (fun j => jname_eqb (j_name j) n) js = None <-> ~ In n (map j_name js).
Proof.
  induction js as [|j js IH]; cbn; intro n.
  - split; [intros _ [] | reflexivity].
  - destruct (jname_eqb (j_name j) n) eqn:E.
    + apply jname_eqb_spec in E. split; [discriminate | intro H; exfalso; apply H; left; exact E].
    + apply jname_eqb_false in E. rewrite IH. split.
      * intros H [H1|H1]; [contradiction | apply H; exact H1].
      * intros H H1. apply H. right. exact H1.
Qed.

Lemma find_name_some : forall js n j,
  find (fun j => jname_eqb (j_name j) n) js = Some j -> In j js /\ j_name j = n.
Proof.
  intros js n j H. apply find_some in H. destruct H as [H1 H2].
  apply jname_eqb_spec in H2. split; assumption.
Qed.

Lemma find_name_in : forall js j,
  NoDup (map j_name js) -> In j js -> find (fun x => jname_eqb (j_name x) (j_name j)) js = Some j.
Proof.
  induction js as [|x js IH]; cbn; intros j Hnd Hin; [destruct Hin|].
  inversion Hnd as [|? ? Hx Hnd']; subst.
  destruct Hin as [->|Hin].
  - rewrite jname_eqb_refl. reflexivity.
  - destruct (jname_eqb (j_name x) (j_name j)) eqn:E.
    + apply jname_eqb_spec in E. exfalso. apply Hx. rewrite E. apply in_map. exact Hin.
    + apply IH; assumption.
Qed.

(* ------------------------------------------------------------------------------------------- *)
(* dedup *)

Lemma memb_N_spec : forall x l, memb N.eqb x l = true <-> In x l.
Proof. intros x l. apply memb_spec. intros a b. apply N.eqb_eq. Qed.

Lemma dedup_in : forall l x, In x (dedup l) <-> In x l.
Proof.
  induction l as [|y l IH]; cbn; intro x; [reflexivity|].
  destruct (memb N.eqb y l) eqn:E.
  - rewrite IH. split; [intro H; right; exact H|].
    intros [->|H]; [apply memb_N_spec; exact E | exact H].
  - cbn. rewrite IH. reflexivity.
Qed.

Lemma dedup_nodup : forall l, NoDup (dedup l).
Proof.
  induction l as [|y l IH]; cbn; [constructor|].
  destruct (memb N.eqb y l) eqn:E; [exact IH|].
  constructor; [|exact IH].
  rewrite dedup_in. intro H. apply memb_N_spec in H. rewrite H in E. discriminate.
Qed.

(* ------------------------------------------------------------------------------------------- *)
(* sort_by is a permutation *)

Lemma insert_by_perm {A} (key : A -> N) : forall x l, Permutation (insert_by key x l) (x :: l).
Proof.
  induction l as [|y l IH]; cbn; [apply Permutation_refl|].
  destruct (key x <=? key y); [apply Permutation_refl|].
  eapply Permutation_trans; [apply perm_skip; exact IH | apply perm_swap].
Qed.

Lemma sort_by_perm {A} (key : A -> N) : forall l, Permutation (sort_by key l) l.
Proof.
  induction l as [|x l IH]; cbn; [apply Permutation_refl|].
  eapply Permutation_trans; [apply insert_by_perm | apply perm_skip; exact IH].
Qed.

Lemma sort_by_in {A} (key : A -> N) : forall l x, In x (sort_by key l) <-> In x l.
Proof.
  intros l x. split; intro H.
  - eapply Permutation_in; [apply sort_by_perm | exact H].
  - eapply Permutation_in; [apply Permutation_sym; apply sort_by_perm | exact H].
Qed.

(* sortedness *)
Fixpoint sorted_by {A} (key : A -> N) (l : list A) : Prop :=
  match l with
  | [] => True
  | x :: l' => (forall y, In y l' -> key x <= key y) /\ sorted_by key l'
  end.

Lemma insert_by_sorted {A} (key : A -> N) : forall x l, sorted_by key l -> sorted_by key (insert_by key x l).
Proof.
  induction l as [|y l IH]; cbn; intro H.
  - split; [intros ? [] | exact I].
  - destruct H as [H1 H2]. destruct (key x <=? key y) eqn:E.
    + cbn. split; [|split; assumption].
      intros z [<-|Hz]; [lia|]. specialize (H1 z Hz). lia.
    + cbn. split; [|apply IH; exact H2].
      intros z Hz. eapply Permutation_in in Hz; [|apply insert_by_perm].
      destruct Hz as [<-|Hz]; [lia | apply H1; exact Hz].
Qed.

Lemma sort_by_sorted {A} (key : A -> N) : forall l, sorted_by key (sort_by key l).
Proof.
  induction l as [|x l IH]; cbn; [exact I|]. apply insert_by_sorted. exact IH.
Qed.

(* ------------------------------------------------------------------------------------------- *)
(* slot_range: exactly the slots first..last *)

Lemma slot_range_in : forall first last s, In s (slot_range first last) <-> first <= s <= last.
Proof.
  intros first last s. unfold slot_range.
  destruct (last <? first) eqn:E.
  - split; [intros [] | lia].
  - rewrite in_map_iff. split.
    + intros [i [Hi Hin]]. apply in_seq in Hin. lia.
    + intro H. exists (N.to_nat (s - first)). split; [lia|]. apply in_seq. lia.
Qed.

Lemma slot_range_nodup : forall first last, NoDup (slot_range first last).
Proof.
  intros first last. unfold slot_range. destruct (last <? first); [constructor|].
  apply FinFun.Injective_map_NoDup; [|apply seq_NoDup].
  intros a b H. lia.
Qed.
