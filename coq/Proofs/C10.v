From Verif Require Import Lib.Base Model.C10_ExecConfig.
