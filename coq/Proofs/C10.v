(* C10 lemmas, part 1: the procedural resolution of the execution configuration (the mutation order
   of v2 ProposerConfig, the v1 lookup) is the documented precedence [resolve]. *)
From Verif Require Import Lib.Base Model.C10_ExecConfig.
From Coq Require Import Lia Permutation.
Local Open Scope list_scope.

(* ------------------------------------------------------------------------------------------- *)
(* Well-formedness: Go maps have unique keys *)

Definition keys {A} (m : list (N * A)) : list N := map fst m.

Definition wf_proposer (p : proposer) : Prop := NoDup (keys (p_relays p)).
Definition wf_config2 (c : config2) : Prop :=
  NoDup (keys (e_relays c)) /\ Forall wf_proposer (e_props c).
Definition wf_config1 (c : config1) : Prop := NoDup (keys (c1_props c)).
Definition wf_config (c : config) : Prop :=
  match c with CV1 c1 => wf_config1 c1 | CV2 c2 => wf_config2 c2 end.

(* ------------------------------------------------------------------------------------------- *)
(* Association lists *)

Lemma Neqb_memb_spec : forall x l, memb N.eqb x l = true <-> In x l.
Proof. intros x l. apply memb_spec. intros a b. apply N.eqb_eq. Qed.

Lemma memb_false_not_In : forall x l, memb N.eqb x l = false <-> ~ In x l.
Proof.
  intros x l. rewrite <- Neqb_memb_spec. destruct (memb N.eqb x l); split; intro H; congruence.
Qed.

Lemma nodupb_sound : forall l, nodupb l = true -> NoDup l.
Proof.
  induction l as [|x l IH]; cbn; intro H; [constructor|].
  apply andb_true_iff in H as [H1 H2]. constructor; [|apply IH, H2].
  apply memb_false_not_In, negb_true_iff, H1.
Qed.

Lemma aget_Some_In {A} : forall (m : list (N * A)) k x, aget m k = Some x -> In (k, x) m.
Proof.
  induction m as [|[k' y] m IH]; intros k x H; cbn in H; [discriminate|].
  destruct (k' =? k) eqn:E.
  - apply N.eqb_eq in E. injection H as ->. subst. left; reflexivity.
  - right. apply IH, H.
Qed.

Lemma aget_None_iff {A} : forall (m : list (N * A)) k, aget m k = None <-> ~ In k (keys m).
Proof.
  induction m as [|[k' y] m IH]; intros k; cbn.
  - split; auto.
  - destruct (k' =? k) eqn:E.
    + apply N.eqb_eq in E. split; [discriminate | intro H; exfalso; apply H; left; exact E].
    + apply N.eqb_neq in E. rewrite IH. split; intro H.
      * intros [H1 | H1]; [exact (E H1) | exact (H H1)].
      * intro H1. apply H. right. exact H1.
Qed.

Lemma aget_In {A} : forall (m : list (N * A)) k x,
  NoDup (keys m) -> In (k, x) m -> aget m k = Some x.
Proof.
  induction m as [|[k' y] m IH]; intros k x Hnd Hin; cbn in *; [destruct Hin|].
  inversion Hnd as [|? ? Hnotin Hnd']; subst.
  destruct Hin as [Heq | Hin].
  - injection Heq as -> ->. rewrite N.eqb_refl. reflexivity.
  - destruct (k' =? k) eqn:E.
    + apply N.eqb_eq in E. subst k'. exfalso. apply Hnotin.
      change k with (fst (k, x)). apply in_map. exact Hin.
    + apply IH; assumption.
Qed.

Lemma aget_memb_false {A} : forall (m : list (N * A)) k,
  memb N.eqb k (keys m) = false -> aget m k = None.
Proof. intros m k H. apply aget_None_iff. apply memb_false_not_In. exact H. Qed.

Lemma aget_Some_key {A} : forall (m : list (N * A)) k x, aget m k = Some x -> In k (keys m).
Proof. intros m k x H. apply aget_Some_In in H. change k with (fst (k, x)). apply in_map, H. Qed.

(* lookups in key-unique association lists do not depend on the order of the entries *)
Lemma aget_perm {A} : forall (m m' : list (N * A)) k,
  NoDup (keys m) -> Permutation m m' -> aget m k = aget m' k.
Proof.
  intros m m' k Hnd Hp.
  assert (Hnd' : NoDup (keys m')).
  { unfold keys. eapply Permutation_NoDup; [apply Permutation_map, Hp | exact Hnd]. }
  destruct (aget m k) as [x|] eqn:E.
  - symmetry. apply aget_In; [exact Hnd'|]. eapply Permutation_in; [exact Hp|]. apply aget_Some_In, E.
  - symmetry. apply aget_None_iff. rewrite aget_None_iff in E. intro H. apply E.
    unfold keys in *. eapply Permutation_in; [apply Permutation_map, Permutation_sym, Hp | exact H].
Qed.

(* ------------------------------------------------------------------------------------------- *)
(* One inherited relay: base options, proposer-level overwrite, proposer-relay update *)

Ltac crush_fields :=
  cbv [or_opt or_else obind first_some];
  repeat match goal with
         | |- context [match ?x with _ => _ end] => destruct x
         end; reflexivity.

Lemma existing_relay : forall c p fbfee fbgas a br,
  p_reset p = false ->
  aget (e_relays c) a = Some br ->
  update_existing p (apply_proposer_level p (initial_relay c (or_else (e_fee c) fbfee) fbgas a br)) =
    if relay_disabled p a then [] else [resolve_relay c p fbfee fbgas a].
Proof.
  intros c p fbfee fbgas a br Hr Hbr.
  unfold update_existing, relay_disabled, resolve_relay, inherited.
  rewrite Hr, Hbr. cbn [apply_proposer_level initial_relay set_relay_config rc_addr].
  destruct (aget (p_relays p) a) as [pr|] eqn:Epr.
  - destruct (pr_disabled pr); [reflexivity|]. f_equal.
    destruct c as [efee egas egrace emin erelays eprops], p as [sel pfee pgas pgrace pmin prst prel],
             br as [bpk bfee bgas bgrace bmin], pr as [pdis ppk ppfee ppgas ppgrace ppmin].
    cbv [update_relay_config apply_proposer_level initial_relay set_relay_config
         rc_addr rc_pk rc_fee rc_gas rc_grace rc_min e_fee e_gas e_grace e_min
         p_fee p_gas p_grace p_min br_pk br_fee br_gas br_grace br_min
         pr_pk pr_fee pr_gas pr_grace pr_min].
    f_equal; crush_fields.
  - f_equal.
    destruct c as [efee egas egrace emin erelays eprops], p as [sel pfee pgas pgrace pmin prst prel],
             br as [bpk bfee bgas bgrace bmin].
    cbv [apply_proposer_level initial_relay set_relay_config
         rc_addr rc_pk rc_fee rc_gas rc_grace rc_min e_fee e_gas e_grace e_min
         p_fee p_gas p_grace p_min br_pk br_fee br_gas br_grace br_min].
    f_equal; crush_fields.
Qed.

Lemma existing_relays : forall c p fbfee fbgas (l : list (N * base_relay)),
  p_reset p = false ->
  (forall a br, In (a, br) l -> aget (e_relays c) a = Some br) ->
  flat_map (update_existing p)
           (map (apply_proposer_level p)
                (map (fun ab => initial_relay c (or_else (e_fee c) fbfee) fbgas (fst ab) (snd ab)) l)) =
    map (resolve_relay c p fbfee fbgas) (filter (fun a => negb (relay_disabled p a)) (keys l)).
Proof.
  intros c p fbfee fbgas l Hr. induction l as [|[a br] l IH]; intro H; [reflexivity|].
  cbn [map flat_map keys fst snd filter].
  rewrite (existing_relay c p fbfee fbgas a br Hr (H a br (or_introl eq_refl))).
  fold (keys l). rewrite IH by (intros a' br' Hin; apply H; right; exact Hin).
  destruct (relay_disabled p a); reflexivity.
Qed.

Lemma updated_addrs : forall c p fee fbgas (l : list (N * base_relay)),
  map rc_addr (map (apply_proposer_level p)
                   (map (fun ab => initial_relay c fee fbgas (fst ab) (snd ab)) l)) = keys l.
Proof. intros. rewrite !map_map. reflexivity. Qed.

(* one relay only the proposer names *)
Lemma new_relay : forall c p fbfee fbgas a pr,
  aget (p_relays p) a = Some pr ->
  aget (inherited c p) a = None ->
  generate_relay_config c p a pr fbfee fbgas = resolve_relay c p fbfee fbgas a.
Proof.
  intros c p fbfee fbgas a pr Hpr Hbr. unfold resolve_relay, generate_relay_config.
  rewrite Hpr, Hbr.
  destruct c as [efee egas egrace emin erelays eprops], p as [sel pfee pgas pgrace pmin prst prel],
           pr as [pdis ppk ppfee ppgas ppgrace ppmin].
  cbv [rc_addr rc_pk rc_fee rc_gas rc_grace rc_min e_fee e_gas e_grace e_min
       p_fee p_gas p_grace p_min pr_pk pr_fee pr_gas pr_grace pr_min].
  f_equal; crush_fields.
Qed.

Lemma added_relays : forall c p fbfee fbgas (l : list (N * prop_relay)),
  (forall a pr, In (a, pr) l -> aget (p_relays p) a = Some pr) ->
  flat_map (add_new c p (keys (inherited c p)) fbfee fbgas) l =
    map (resolve_relay c p fbfee fbgas)
        (filter (fun a => negb (relay_disabled p a))
                (filter (fun a => negb (memb N.eqb a (keys (inherited c p)))) (keys l))).
Proof.
  intros c p fbfee fbgas l. induction l as [|[a pr] l IH]; intro H; [reflexivity|].
  cbn [flat_map keys map fst filter]. fold (keys l).
  rewrite IH by (intros a' pr' Hin; apply H; right; exact Hin).
  unfold add_new at 1. cbn [fst snd].
  pose proof (H a pr (or_introl eq_refl)) as Hpr.
  destruct (memb N.eqb a (keys (inherited c p))) eqn:Em; cbn [orb negb]; [reflexivity|].
  cbn [filter]. unfold relay_disabled at 2. rewrite Hpr.
  destruct (pr_disabled pr); cbn [negb app map]; [reflexivity|].
  rewrite (new_relay c p fbfee fbgas a pr Hpr (aget_memb_false _ _ Em)). reflexivity.
Qed.

(* ------------------------------------------------------------------------------------------- *)
(* setProposerConfigOptions on the base configuration = the precedence with that entry *)

Definition base_cfg (c : config2) (fbfee fbgas : N) : prop_cfg :=
  let fee := or_else (e_fee c) fbfee in
  {| pc_fee := fee; pc_relays := set_initial_relay_options c fee fbgas |}.

Lemma options_is_resolve_with : forall c p fbfee fbgas,
  NoDup (keys (e_relays c)) -> wf_proposer p ->
  set_proposer_config_options c (base_cfg c fbfee fbgas) p fbfee fbgas = resolve_with c p fbfee fbgas.
Proof.
  intros c p fbfee fbgas Hc Hp.
  unfold set_proposer_config_options, resolve_with, base_cfg, set_initial_relay_options.
  cbn [pc_fee pc_relays].
  assert (Hfee : or_else (p_fee p) (or_else (e_fee c) fbfee) = first_some [p_fee p; e_fee c] fbfee)
    by (destruct (p_fee p), (e_fee c); reflexivity).
  rewrite Hfee. apply f_equal.
  - unfold resolve_addrs. rewrite filter_app, map_app.
    assert (Hupd : map rc_addr (if p_reset p then []
                     else map (apply_proposer_level p)
                            (map (fun ab => initial_relay c (or_else (e_fee c) fbfee) fbgas (fst ab) (snd ab))
                                 (e_relays c))) = keys (inherited c p)).
    { unfold inherited. destruct (p_reset p); [reflexivity | apply updated_addrs]. }
    rewrite Hupd. f_equal.
    + unfold inherited. destruct (p_reset p) eqn:Er; [reflexivity|].
      apply existing_relays; [exact Er|]. intros a br Hin. apply aget_In; assumption.
    + apply added_relays. intros a pr Hin. apply aget_In; assumption.
Qed.

(* without a matching entry nothing is changed: the base configuration is the precedence with an
   entry that says nothing *)
Lemma base_is_resolve_with_empty : forall c fbfee fbgas,
  NoDup (keys (e_relays c)) ->
  base_cfg c fbfee fbgas = resolve_with c empty_proposer fbfee fbgas.
Proof.
  intros c fbfee fbgas Hc.
  rewrite <- (options_is_resolve_with c empty_proposer fbfee fbgas Hc) by constructor.
  unfold set_proposer_config_options, base_cfg. cbn [p_fee p_reset p_relays empty_proposer pc_fee pc_relays or_else flat_map].
  rewrite app_nil_r. f_equal.
  induction (set_initial_relay_options c (or_else (e_fee c) fbfee) fbgas) as [|rc l IH]; [reflexivity|].
  cbn [map flat_map]. rewrite <- IH. unfold update_existing. cbn [p_relays aget apply_proposer_level rc_addr app].
  destruct rc; reflexivity.
Qed.

(* ------------------------------------------------------------------------------------------- *)
(* setProposerSpecificOptions: the scan stops at the first match *)

Lemma specific_is_first_match : forall c cfg ps v fbfee fbgas,
  set_proposer_specific_options c cfg ps v fbfee fbgas =
    match first_match ps v with
    | None => None
    | Some None => Some cfg
    | Some (Some p) => Some (set_proposer_config_options c cfg p fbfee fbgas)
    end.
Proof.
  intros c cfg ps v fbfee fbgas. induction ps as [|p ps IH]; cbn; [reflexivity|].
  destruct (matches p v); [reflexivity | exact IH | reflexivity].
Qed.

Lemma first_match_In : forall ps v p, first_match ps v = Some (Some p) -> In p ps /\ matches p v = MYes.
Proof.
  induction ps as [|q ps IH]; intros v p H; cbn in H; [discriminate|].
  destruct (matches q v) eqn:E.
  - injection H as ->. split; [left; reflexivity | exact E].
  - destruct (IH v p H) as [H1 H2]. split; [right; exact H1 | exact H2].
  - discriminate.
Qed.

(* The mutation order of the code computes the documented precedence. *)
Lemma v2_is_resolve : forall c v fbfee fbgas,
  wf_config2 c -> proposer_config_v2 c v fbfee fbgas = resolve_v2 c v fbfee fbgas.
Proof.
  intros c v fbfee fbgas [Hc Hps]. unfold proposer_config_v2, resolve_v2.
  rewrite specific_is_first_match. fold (base_cfg c fbfee fbgas).
  destruct (first_match (e_props c) v) as [[p|]|] eqn:E; [| |reflexivity].
  - f_equal. apply options_is_resolve_with; [exact Hc|].
    apply first_match_In in E as [Hin _]. rewrite Forall_forall in Hps. apply Hps, Hin.
  - f_equal. apply base_is_resolve_with_empty, Hc.
Qed.

(* ------------------------------------------------------------------------------------------- *)
(* First match only *)

Lemma first_match_app : forall pre p post v,
  Forall (fun q => matches q v = MNo) pre -> matches p v = MYes ->
  first_match (pre ++ p :: post) v = Some (Some p).
Proof.
  induction pre as [|q pre IH]; intros p post v Hpre Hp; cbn.
  - rewrite Hp. reflexivity.
  - inversion Hpre as [|? ? Hq Hpre']; subst. rewrite Hq. apply IH; assumption.
Qed.

Lemma first_match_none : forall ps v,
  Forall (fun q => matches q v = MNo) ps -> first_match ps v = Some None.
Proof.
  induction ps as [|q ps IH]; intros v H; cbn; [reflexivity|].
  inversion H as [|? ? Hq H']; subst. rewrite Hq. apply IH, H'.
Qed.

(* the converse decompositions *)
Lemma first_match_Some_inv : forall ps v p,
  first_match ps v = Some (Some p) ->
  exists pre post, ps = pre ++ p :: post /\ Forall (fun q => matches q v = MNo) pre /\ matches p v = MYes.
Proof.
  induction ps as [|q ps IH]; intros v p H; cbn in H; [discriminate|].
  destruct (matches q v) eqn:E.
  - injection H as ->. exists [], ps. repeat split; [constructor | exact E].
  - destruct (IH v p H) as [pre [post [-> [H1 H2]]]].
    exists (q :: pre), post. repeat split; [constructor; assumption | exact H2].
  - discriminate.
Qed.

Lemma first_match_None_inv : forall ps v,
  first_match ps v = None <->
  exists pre q post, ps = pre ++ q :: post /\ Forall (fun q => matches q v = MNo) pre /\ matches q v = MInvalid.
Proof.
  induction ps as [|q ps IH]; intros v; cbn.
  - split; [discriminate|]. intros [pre [q [post [H _]]]]. destruct pre; discriminate.
  - destruct (matches q v) eqn:E.
    + split; [discriminate|]. intros [pre [q' [post [H [H1 H2]]]]].
      destruct pre as [|x pre]; cbn in H; injection H as -> ->.
      * congruence.
      * inversion H1; congruence.
    + rewrite IH. split.
      * intros [pre [q' [post [-> [H1 H2]]]]]. exists (q :: pre), q', post.
        repeat split; [constructor; assumption | exact H2].
      * intros [pre [q' [post [H [H1 H2]]]]].
        destruct pre as [|x pre]; cbn in H; injection H as -> ->; [congruence|].
        inversion H1; subst. exists pre, q', post. repeat split; assumption.
    + split; [intros _|reflexivity]. exists [], q, ps. repeat split; [constructor | exact E].
Qed.

Lemma matches_invalid_iff : forall p v, matches p v = MInvalid <-> p_sel p = SelKey 0.
Proof.
  intros p v. unfold matches. destruct (p_sel p) as [k|r].
  - destruct (k =? 0) eqn:E.
    + apply N.eqb_eq in E. subst. split; reflexivity.
    + apply N.eqb_neq in E. destruct (k =? v_key v); split; try discriminate; intro H; injection H; congruence.
  - destruct (memb N.eqb r (v_accts v)); split; discriminate.
Qed.

(* [resolve_with] does not look at the list of proposer entries at all *)
Definition with_props (c : config2) (ps : list proposer) : config2 :=
  {| e_fee := e_fee c; e_gas := e_gas c; e_grace := e_grace c; e_min := e_min c;
     e_relays := e_relays c; e_props := ps |}.

Lemma resolve_with_props : forall c ps p fbfee fbgas,
  resolve_with (with_props c ps) p fbfee fbgas = resolve_with c p fbfee fbgas.
Proof. reflexivity. Qed.

Lemma v2_first_match_only : forall c pre p post v fbfee fbgas,
  wf_config2 c -> e_props c = pre ++ p :: post ->
  Forall (fun q => matches q v = MNo) pre -> matches p v = MYes ->
  proposer_config_v2 c v fbfee fbgas = Some (resolve_with c p fbfee fbgas).
Proof.
  intros c pre p post v fbfee fbgas Hwf He Hpre Hp.
  rewrite v2_is_resolve by exact Hwf. unfold resolve_v2. rewrite He.
  rewrite (first_match_app pre p post v Hpre Hp). reflexivity.
Qed.

Lemma v2_no_match : forall c v fbfee fbgas,
  wf_config2 c -> Forall (fun q => matches q v = MNo) (e_props c) ->
  proposer_config_v2 c v fbfee fbgas = Some (resolve_with c empty_proposer fbfee fbgas).
Proof.
  intros c v fbfee fbgas Hwf H. rewrite v2_is_resolve by exact Hwf. unfold resolve_v2.
  rewrite (first_match_none _ _ H). reflexivity.
Qed.

Lemma v2_error_iff : forall c v fbfee fbgas,
  wf_config2 c ->
  (proposer_config_v2 c v fbfee fbgas = None <->
   exists pre q post, e_props c = pre ++ q :: post /\
                      Forall (fun q => matches q v = MNo) pre /\ p_sel q = SelKey 0).
Proof.
  intros c v fbfee fbgas Hwf. rewrite v2_is_resolve by exact Hwf. unfold resolve_v2.
  destruct (first_match (e_props c) v) as [[p|]|] eqn:E.
  - split; [discriminate|]. intros H.
    assert (E' : first_match (e_props c) v = None).
    { apply first_match_None_inv. destruct H as [pre [q [post [H1 [H2 H3]]]]].
      exists pre, q, post. repeat split; try assumption. apply matches_invalid_iff, H3. }
    congruence.
  - split; [discriminate|]. intros H.
    assert (E' : first_match (e_props c) v = None).
    { apply first_match_None_inv. destruct H as [pre [q [post [H1 [H2 H3]]]]].
      exists pre, q, post. repeat split; try assumption. apply matches_invalid_iff, H3. }
    congruence.
  - split; [intros _|reflexivity]. apply first_match_None_inv in E.
    destruct E as [pre [q [post [H1 [H2 H3]]]]]. exists pre, q, post.
    repeat split; try assumption. apply (matches_invalid_iff q v), H3.
Qed.

(* ------------------------------------------------------------------------------------------- *)
(* The relay set of the precedence, as a set *)

Lemma resolve_relay_addr : forall c p fbfee fbgas a, rc_addr (resolve_relay c p fbfee fbgas a) = a.
Proof. reflexivity. Qed.

Lemma resolve_addrs_In : forall c p a,
  In a (resolve_addrs c p) <->
  (In a (keys (inherited c p)) \/ In a (keys (p_relays p))) /\ relay_disabled p a = false.
Proof.
  intros c p a. unfold resolve_addrs. fold (keys (inherited c p)) (keys (p_relays p)).
  rewrite filter_In, in_app_iff, filter_In, negb_true_iff, negb_true_iff, memb_false_not_In.
  split.
  - intros [[H | [H _]] Hd]; split; auto.
  - intros [[H | H] Hd]; split; auto.
    destruct (in_dec N.eq_dec a (keys (inherited c p))) as [Hi | Hi]; [left; exact Hi | right; split; assumption].
Qed.

Lemma NoDup_filter {A} (f : A -> bool) : forall l, NoDup l -> NoDup (filter f l).
Proof.
  induction l as [|x l IH]; intro H; cbn; [constructor|].
  inversion H as [|? ? Hx Hl]; subst. destruct (f x); [constructor|]; auto.
  intro Hin. apply filter_In in Hin as [Hin _]. exact (Hx Hin).
Qed.

Lemma NoDup_app_intro {A} : forall (l1 l2 : list A),
  NoDup l1 -> NoDup l2 -> (forall x, In x l1 -> ~ In x l2) -> NoDup (l1 ++ l2).
Proof.
  induction l1 as [|x l1 IH]; intros l2 H1 H2 Hd; cbn; [exact H2|].
  inversion H1 as [|? ? Hx Hl]; subst. constructor.
  - rewrite in_app_iff. intros [H | H]; [exact (Hx H) | exact (Hd x (or_introl eq_refl) H)].
  - apply IH; try assumption. intros y Hy. apply Hd. right. exact Hy.
Qed.

Lemma inherited_NoDup : forall c p, NoDup (keys (e_relays c)) -> NoDup (keys (inherited c p)).
Proof. intros c p H. unfold inherited. destruct (p_reset p); [constructor | exact H]. Qed.

Lemma resolve_addrs_NoDup : forall c p,
  NoDup (keys (e_relays c)) -> wf_proposer p -> NoDup (resolve_addrs c p).
Proof.
  intros c p Hc Hp. unfold resolve_addrs. apply NoDup_filter.
  fold (keys (inherited c p)) (keys (p_relays p)). apply NoDup_app_intro.
  - apply inherited_NoDup, Hc.
  - apply NoDup_filter, Hp.
  - intros x Hx Hin. apply filter_In in Hin as [_ Hin].
    rewrite negb_true_iff, memb_false_not_In in Hin. exact (Hin Hx).
Qed.

(* Exactly the relays the precedence names, each once, each with the values of the precedence. *)
Lemma resolve_with_relays : forall c p fbfee fbgas,
  NoDup (keys (e_relays c)) -> wf_proposer p ->
  let out := resolve_with c p fbfee fbgas in
  pc_fee out = first_some [p_fee p; e_fee c] fbfee /\
  NoDup (map rc_addr (pc_relays out)) /\
  forall r, In r (pc_relays out) <->
            ((In (rc_addr r) (keys (inherited c p)) \/ In (rc_addr r) (keys (p_relays p))) /\
             relay_disabled p (rc_addr r) = false /\
             r = resolve_relay c p fbfee fbgas (rc_addr r)).
Proof.
  intros c p fbfee fbgas Hc Hp out. subst out. unfold resolve_with. cbn [pc_fee pc_relays].
  split; [reflexivity|]. split.
  - rewrite map_map. cbn [resolve_relay rc_addr]. rewrite map_id. apply resolve_addrs_NoDup; assumption.
  - intro r. rewrite in_map_iff. split.
    + intros [a [<- Ha]]. rewrite resolve_relay_addr. apply resolve_addrs_In in Ha as [H1 H2]. auto.
    + intros [H1 [H2 H3]]. exists (rc_addr r). split; [symmetry; exact H3|].
      apply resolve_addrs_In. split; assumption.
Qed.

(* reset_relays: what the relay level says is discarded altogether *)
Definition with_relays (c : config2) (rs : list (N * base_relay)) : config2 :=
  {| e_fee := e_fee c; e_gas := e_gas c; e_grace := e_grace c; e_min := e_min c;
     e_relays := rs; e_props := e_props c |}.

Lemma reset_discards_inherited : forall c p rs fbfee fbgas,
  p_reset p = true ->
  resolve_with (with_relays c rs) p fbfee fbgas = resolve_with c p fbfee fbgas.
Proof.
  intros c p rs fbfee fbgas Hr. unfold resolve_with, resolve_addrs, resolve_relay, inherited.
  rewrite Hr. reflexivity.
Qed.

Lemma disabled_removed : forall c p fbfee fbgas a pr,
  aget (p_relays p) a = Some pr -> pr_disabled pr = true ->
  ~ In a (map rc_addr (pc_relays (resolve_with c p fbfee fbgas))).
Proof.
  intros c p fbfee fbgas a pr Hpr Hd. unfold resolve_with. cbn [pc_relays].
  rewrite map_map. cbn [resolve_relay rc_addr]. rewrite map_id. rewrite resolve_addrs_In.
  intros [_ H]. unfold relay_disabled in H. rewrite Hpr in H. congruence.
Qed.

Lemma named_relay_present : forall c p fbfee fbgas a pr,
  aget (p_relays p) a = Some pr -> pr_disabled pr = false ->
  In (resolve_relay c p fbfee fbgas a) (pc_relays (resolve_with c p fbfee fbgas)).
Proof.
  intros c p fbfee fbgas a pr Hpr Hd. unfold resolve_with. cbn [pc_relays].
  apply in_map. apply resolve_addrs_In. split.
  - right. eapply aget_Some_key, Hpr.
  - unfold relay_disabled. rewrite Hpr. exact Hd.
Qed.

Lemma inherited_relay_present : forall c p fbfee fbgas a,
  In a (keys (e_relays c)) -> p_reset p = false -> relay_disabled p a = false ->
  In (resolve_relay c p fbfee fbgas a) (pc_relays (resolve_with c p fbfee fbgas)).
Proof.
  intros c p fbfee fbgas a Ha Hr Hd. unfold resolve_with. cbn [pc_relays].
  apply in_map. apply resolve_addrs_In. split; [|exact Hd].
  left. unfold inherited. rewrite Hr. exact Ha.
Qed.

(* ------------------------------------------------------------------------------------------- *)
(* Go map iteration order is irrelevant: permuting the entries of every relay map permutes the
   resulting relay list and changes nothing else. *)

Record proposer_equiv (p p' : proposer) : Prop := {
  pe_sel : p_sel p = p_sel p';
  pe_fee : p_fee p = p_fee p'; pe_gas : p_gas p = p_gas p';
  pe_grace : p_grace p = p_grace p'; pe_min : p_min p = p_min p';
  pe_reset : p_reset p = p_reset p';
  pe_relays : Permutation (p_relays p) (p_relays p') }.

Record config2_equiv (c c' : config2) : Prop := {
  ce_fee : e_fee c = e_fee c'; ce_gas : e_gas c = e_gas c';
  ce_grace : e_grace c = e_grace c'; ce_min : e_min c = e_min c';
  ce_relays : Permutation (e_relays c) (e_relays c');
  ce_props : Forall2 proposer_equiv (e_props c) (e_props c') }.

Definition prop_cfg_equiv (a b : prop_cfg) : Prop :=
  pc_fee a = pc_fee b /\ Permutation (pc_relays a) (pc_relays b).

Definition opt_cfg_equiv (a b : option prop_cfg) : Prop :=
  match a, b with
  | Some x, Some y => prop_cfg_equiv x y
  | None, None => True
  | _, _ => False
  end.

Lemma filter_perm {A} (f : A -> bool) : forall l l', Permutation l l' -> Permutation (filter f l) (filter f l').
Proof.
  intros l l' H. induction H as [|x l l' H IH|x y l|l l' l'' H1 IH1 H2 IH2]; cbn.
  - constructor.
  - destruct (f x); [constructor|]; exact IH.
  - destruct (f x), (f y); try reflexivity. apply perm_swap.
  - eapply perm_trans; eassumption.
Qed.

Lemma memb_perm : forall (l l' : list N) a, Permutation l l' -> memb N.eqb a l = memb N.eqb a l'.
Proof.
  intros l l' a H. destruct (memb N.eqb a l') eqn:E.
  - apply Neqb_memb_spec. apply Neqb_memb_spec in E. eapply Permutation_in; [apply Permutation_sym, H | exact E].
  - apply memb_false_not_In. apply memb_false_not_In in E. intro Hin. apply E. eapply Permutation_in; eassumption.
Qed.

Lemma first_match_equiv : forall ps ps' v,
  Forall2 proposer_equiv ps ps' ->
  match first_match ps v, first_match ps' v with
  | None, None => True
  | Some None, Some None => True
  | Some (Some p), Some (Some p') => proposer_equiv p p' /\ In p ps
  | _, _ => False
  end.
Proof.
  intros ps ps' v H. induction H as [|p p' ps ps' Hp H IH]; cbn; [exact I|].
  assert (Hm : matches p v = matches p' v) by (unfold matches; rewrite (pe_sel _ _ Hp); reflexivity).
  rewrite <- Hm. destruct (matches p v).
  - split; [exact Hp | left; reflexivity].
  - destruct (first_match ps v) as [[q|]|], (first_match ps' v) as [[q'|]|]; try exact IH.
    destruct IH as [H1 H2]. split; [exact H1 | right; exact H2].
  - exact I.
Qed.

Lemma resolve_with_equiv : forall c c' p p' fbfee fbgas,
  NoDup (keys (e_relays c)) -> wf_proposer p ->
  config2_equiv c c' -> proposer_equiv p p' ->
  prop_cfg_equiv (resolve_with c p fbfee fbgas) (resolve_with c' p' fbfee fbgas).
Proof.
  intros c c' p p' fbfee fbgas Hc Hp Hcc Hpp.
  destruct Hcc as [Hf Hg Hgr Hm Hr _]. destruct Hpp as [_ Hpf Hpg Hpgr Hpm Hprs Hprel].
  assert (Hinh : Permutation (inherited c p) (inherited c' p')).
  { unfold inherited. rewrite <- Hprs. destruct (p_reset p); [constructor | exact Hr]. }
  assert (HinhND : NoDup (keys (inherited c p))) by (apply inherited_NoDup, Hc).
  assert (Hgb : forall a, aget (inherited c p) a = aget (inherited c' p') a)
    by (intro a; apply aget_perm; assumption).
  assert (Hgp : forall a, aget (p_relays p) a = aget (p_relays p') a)
    by (intro a; apply aget_perm; assumption).
  assert (Hrel : forall a, resolve_relay c p fbfee fbgas a = resolve_relay c' p' fbfee fbgas a).
  { intro a. unfold resolve_relay. rewrite (Hgb a), (Hgp a), Hf, Hg, Hgr, Hm, Hpf, Hpg, Hpgr, Hpm. reflexivity. }
  split.
  - unfold resolve_with. cbn [pc_fee]. rewrite Hf, Hpf. reflexivity.
  - unfold resolve_with. cbn [pc_relays].
    rewrite (map_ext _ _ Hrel). apply Permutation_map. unfold resolve_addrs.
    assert (Hk : Permutation (map fst (inherited c p)) (map fst (inherited c' p'))) by (apply Permutation_map, Hinh).
    assert (Hkp : Permutation (map fst (p_relays p)) (map fst (p_relays p'))) by (apply Permutation_map, Hprel).
    rewrite (filter_ext (fun a => negb (relay_disabled p a)) (fun a => negb (relay_disabled p' a)))
      by (intro a; unfold relay_disabled; rewrite (Hgp a); reflexivity).
    apply filter_perm. apply Permutation_app; [exact Hk|].
    rewrite (filter_ext (fun a => negb (memb N.eqb a (map fst (inherited c p))))
                        (fun a => negb (memb N.eqb a (map fst (inherited c' p')))))
      by (intro a; rewrite (memb_perm _ _ a Hk); reflexivity).
    apply filter_perm, Hkp.
Qed.

Lemma resolve_v2_order_irrelevant : forall c c' v fbfee fbgas,
  wf_config2 c -> config2_equiv c c' ->
  opt_cfg_equiv (resolve_v2 c v fbfee fbgas) (resolve_v2 c' v fbfee fbgas).
Proof.
  intros c c' v fbfee fbgas [Hc Hps] Hcc. unfold resolve_v2.
  pose proof (first_match_equiv _ _ v (ce_props _ _ Hcc)) as H.
  destruct (first_match (e_props c) v) as [[p|]|], (first_match (e_props c') v) as [[p'|]|];
    try contradiction; cbn [opt_cfg_equiv]; try exact I.
  - destruct H as [H1 H2]. apply resolve_with_equiv; try assumption.
    rewrite Forall_forall in Hps. apply Hps, H2.
  - apply resolve_with_equiv; try assumption; [constructor|].
    constructor; reflexivity.
Qed.

Lemma wf_config2_equiv : forall c c', wf_config2 c -> config2_equiv c c' -> wf_config2 c'.
Proof.
  intros c c' [Hc Hps] Hcc. split.
  - unfold keys. eapply Permutation_NoDup; [apply Permutation_map, (ce_relays _ _ Hcc) | exact Hc].
  - pose proof (ce_props _ _ Hcc) as H. induction H as [|p p' ps ps' Hp H IH]; [constructor|].
    inversion Hps as [|? ? Hwp Hps']; subst. constructor; [|apply IH, Hps'].
    unfold wf_proposer, keys in *. eapply Permutation_NoDup; [apply Permutation_map, (pe_relays _ _ Hp) | exact Hwp].
Qed.

Lemma v2_order_irrelevant : forall c c' v fbfee fbgas,
  wf_config2 c -> config2_equiv c c' ->
  opt_cfg_equiv (proposer_config_v2 c v fbfee fbgas) (proposer_config_v2 c' v fbfee fbgas).
Proof.
  intros c c' v fbfee fbgas Hwf Hcc.
  rewrite (v2_is_resolve c) by exact Hwf.
  rewrite (v2_is_resolve c') by (eapply wf_config2_equiv; eassumption).
  apply resolve_v2_order_irrelevant; assumption.
Qed.

(* ------------------------------------------------------------------------------------------- *)
(* Version 1 *)

Lemma v1_is_resolve : forall c key fbfee fbgas,
  proposer_config_v1 c key fbfee fbgas = resolve_v1 c key fbfee fbgas.
Proof.
  intros c key fbfee fbgas. unfold proposer_config_v1, resolve_v1, select1.
  destruct (aget (c1_props c) key) as [[q|]|].
  - destruct (q_builder q) as [b|]; reflexivity.
  - destruct (c1_default c) as [q|]; cbn [or_else]; [|reflexivity].
    destruct (q_builder q) as [b|]; reflexivity.
  - destruct (c1_default c) as [q|]; cbn [or_else]; [|reflexivity].
    destruct (q_builder q) as [b|]; reflexivity.
Qed.

(* the legacy lookup spelled out: the entry of the key, else the default, else the fallback *)
Lemma v1_lookup_cases : forall c key fbfee fbgas,
  let out := proposer_config_v1 c key fbfee fbgas in
  let of_entry (q : proposer1) :=
    pc_fee out = q_fee q /\
    forall r, In r (pc_relays out) <->
      exists b, q_builder q = Some b /\ b_enabled b = true /\ In (rc_addr r) (b_relays b) /\
                r = {| rc_addr := rc_addr r; rc_pk := None; rc_fee := q_fee q;
                       rc_gas := if q_gas q =? 0 then fbgas else q_gas q;
                       rc_grace := b_grace b; rc_min := dec_zero |} in
  match aget (c1_props c) key with
  | Some (Some q) => of_entry q
  | Some None | None =>
      match c1_default c with
      | Some q => of_entry q
      | None => out = {| pc_fee := fbfee; pc_relays := [] |}
      end
  end.
Proof.
  intros c key fbfee fbgas out of_entry.
  assert (Hentry : forall q, out = resolve_v1 {| c1_props := [(key, Some q)]; c1_default := None |} key fbfee fbgas -> of_entry q).
  { intros q Hq. unfold of_entry. rewrite Hq. unfold resolve_v1, select1. cbn [aget c1_props]. rewrite N.eqb_refl.
    cbn [pc_fee pc_relays]. split; [reflexivity|]. intro r.
    destruct (q_builder q) as [b|].
    - destruct (b_enabled b) eqn:Eb.
      + rewrite in_map_iff. split.
        * intros [a [<- Ha]]. exists b. cbn [rc_addr]. auto.
        * intros [b' [Hb' [_ [Hin Hr]]]]. injection Hb' as <-. exists (rc_addr r). split; [symmetry; exact Hr | exact Hin].
      + split; [intros []|]. intros [b' [Hb' [He _]]]. injection Hb' as <-. congruence.
    - split; [intros []|]. intros [b' [Hb' _]]. discriminate. }
  subst out. rewrite v1_is_resolve in *. unfold resolve_v1, select1 in *. cbn [aget c1_props] in Hentry.
  rewrite N.eqb_refl in Hentry.
  destruct (aget (c1_props c) key) as [[q|]|].
  - apply Hentry. reflexivity.
  - destruct (c1_default c) as [q|]; cbn [or_else].
    + apply Hentry. reflexivity.
    + reflexivity.
  - destruct (c1_default c) as [q|]; cbn [or_else].
    + apply Hentry. reflexivity.
    + reflexivity.
Qed.

(* the order of the proposer_config map is irrelevant *)
Lemma v1_order_irrelevant : forall c ps' key fbfee fbgas,
  wf_config1 c -> Permutation (c1_props c) ps' ->
  proposer_config_v1 {| c1_props := ps'; c1_default := c1_default c |} key fbfee fbgas =
  proposer_config_v1 c key fbfee fbgas.
Proof.
  intros c ps' key fbfee fbgas Hwf Hp. unfold proposer_config_v1. cbn [c1_props c1_default].
  rewrite <- (aget_perm (c1_props c) ps' key Hwf Hp). reflexivity.
Qed.

(* The per-value reading of docs/execlayer.md: the code agrees with it on every lookup whose key
   has no entry or a complete entry (gas limit and builder present) ... *)
Lemma v1_fieldwise_partial : forall c key fbfee fbgas,
  v1_entry_complete c key = true ->
  proposer_config_v1 c key fbfee fbgas = resolve_v1_doc c key fbfee fbgas.
Proof.
  intros c key fbfee fbgas H. unfold v1_entry_complete in H.
  unfold proposer_config_v1, resolve_v1_doc.
  destruct (aget (c1_props c) key) as [[q|]|].
  - apply andb_true_iff in H as [Hg Hb]. apply negb_true_iff in Hg.
    destruct (q_builder q) as [b|] eqn:Eb; [|discriminate].
    unfold gas_of1. cbn [option_map obind first_some or_opt]. rewrite Eb, Hg. reflexivity.
  - destruct (c1_default c) as [d|]; cbn [option_map obind first_some or_opt]; [|reflexivity].
    unfold gas_of1. destruct (q_gas d =? 0); destruct (q_builder d) as [b|]; reflexivity.
  - destruct (c1_default c) as [d|]; cbn [option_map obind first_some or_opt]; [|reflexivity].
    unfold gas_of1. destruct (q_gas d =? 0); destruct (q_builder d) as [b|]; reflexivity.
Qed.

(* ... and not otherwise: the example of the document itself. *)
Lemma v1_fieldwise_refuted :
  exists c key fbfee fbgas,
    proposer_config_v1 c key fbfee fbgas <> resolve_v1_doc c key fbfee fbgas.
Proof.
  exists {| c1_props := [(1, Some {| q_fee := 11; q_gas := 0; q_builder := None |})];
            c1_default := Some {| q_fee := 12; q_gas := 0;
                                  q_builder := Some {| b_enabled := true; b_grace := 0; b_relays := [1; 2] |} |} |},
         1, 99, 30000000.
  cbv. discriminate.
Qed.

(* ------------------------------------------------------------------------------------------- *)
(* Both versions *)

Lemma lookup_is_resolve : forall c v fbfee fbgas,
  wf_config c -> lookup c v fbfee fbgas = resolve c v fbfee fbgas.
Proof.
  intros [c1|c2] v fbfee fbgas Hwf; cbn [lookup resolve].
  - rewrite v1_is_resolve. reflexivity.
  - rewrite v2_is_resolve by exact Hwf. reflexivity.
Qed.
