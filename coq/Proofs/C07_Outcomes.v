(* C07 lemmas, part 4: the statements of the property on the model's outcomes. *)
From Verif Require Import Lib.Base Model.C07_Strategies Model.C07_Spec Proofs.C07 Proofs.C07_Acc Proofs.C07_Timed.
From Coq Require Import ZifyBool ZifyN ZifyNat Permutation Sorting.Sorted QArith.
Open Scope N_scope.

Lemma prefix_cmp : forall {A} (c rest a rest' : list A), c ++ rest = a ++ rest' ->
  (exists d, a = c ++ d) \/ (exists d, d <> [] /\ c = a ++ d).
Proof.
  intros A. induction c as [|x c IH]; intros rest a rest' H.
  - left. exists a. reflexivity.
  - destruct a as [|y a].
    + right. exists (x :: c). split; [discriminate | reflexivity].
    + cbn in H. injection H as -> H. destruct (IH _ _ _ H) as [[d ->]|[d [Hd ->]]].
      * left. exists d. reflexivity.
      * right. exists d. split; [exact Hd | reflexivity].
Qed.

Lemma existsb_resp_resps : forall {V} (es : list (event V)), existsb is_resp es = false <-> resps es = [].
Proof.
  intros V es. rewrite <- nresp_zero_iff. unfold nresp. destruct (resps es); cbn; split; intro H; try reflexivity; try discriminate; lia.
Qed.

(* ------------------------------------------------------------------------------------------- *)
(* best: an error exactly when no response was delivered before the hard timeout.
   [msgs es1 <= requests]: every node sends one message at most. *)
Section BestError.
  Context {V A : Type}.
  Variable acc : A -> V -> A.
  Variable requests : Z.
  Hypothesis req_nonneg : (0 <= requests)%Z.
  Variable a0 : A.
  Notation stop := (b_stop acc no_early requests a0).

  Lemma best_consumed_resps : forall es1 es2,
    existsb is_hard es1 = false -> (msgs es1 <= requests)%Z ->
    let c := consumed stop (es1 ++ EHard :: es2) in
    (resps c = [] <-> resps es1 = []).
  Proof.
    intros es1 es2 Hnh Hm c.
    destruct (consumed_spec stop (es1 ++ EHard :: es2)) as [rest (Hc & Hmin & Hstop)]. fold c in Hc, Hmin, Hstop. clearbody c.
    assert (Hsa : stop (es1 ++ [EHard]) = true).
    { unfold b_stop. rewrite existsb_app. cbn. rewrite !orb_true_r. reflexivity. }
    replace (es1 ++ EHard :: es2) with ((es1 ++ [EHard]) ++ es2) in Hc by (rewrite <- app_assoc; reflexivity).
    symmetry in Hc. destruct (prefix_cmp _ _ _ _ Hc) as [[d Hd]|[d [Hd Hcd]]].
    - (* c is a prefix of es1 ++ [EHard] *)
      induction d as [|x d' _] using rev_ind.
      + rewrite app_nil_r in Hd. rewrite <- Hd, resps_app. cbn. rewrite app_nil_r. tauto.
      + rewrite app_assoc in Hd. apply app_inj_tail in Hd as [Hd <-].
        (* c ++ d' = es1: c stops without the hard timeout *)
        destruct Hstop as [Hstop | ->].
        2:{ exfalso. apply (f_equal (@length _)) in Hc, Hd. rewrite !app_length in *. cbn in *. lia. }
        subst es1. rewrite existsb_app in Hnh. apply orb_false_iff in Hnh as [Hnh _].
        unfold b_stop, no_early in Hstop. rewrite Hnh in Hstop. cbn [orb] in Hstop. rewrite orb_false_r in Hstop.
        apply orb_true_iff in Hstop as [Hstop|Hstop].
        * (* every node was heard of: nothing more can come *)
          rewrite msgs_app in Hm. assert (Hd0 : msgs d' = 0%Z).
          { pose proof (nresp_nonneg d'). pose proof (nerr_nonneg d'). unfold msgs in *. lia. }
          assert (Hr : resps d' = []).
          { pose proof (nresp_nonneg d'). pose proof (nerr_nonneg d'). unfold msgs in Hd0.
            assert (Q : nresp d' = 0%Z) by lia. unfold nresp in Q. destruct (resps d'); [reflexivity | cbn in Q; lia]. }
          rewrite resps_app, Hr, app_nil_r. tauto.
        * (* the soft timeout found a response in hand *)
          apply soft_resp_spec in Hstop as [p1 [p2 (Hp & _ & Hr)]].
          assert (Hne : resps c <> []).
          { rewrite Hp, resps_app. intro Q. apply app_eq_nil in Q as [Q _]. apply existsb_resp_resps in Q. congruence. }
          split; [tauto|]. intro Q. rewrite resps_app in Q. apply app_eq_nil in Q as [Q _]. tauto.
    - exfalso. rewrite (Hmin (es1 ++ [EHard]) d Hcd Hd) in Hsa. discriminate.
  Qed.
End BestError.

(* ------------------------------------------------------------------------------------------- *)
(* the decision point of a timed run *)

Section Decision.
  Context {S : Type}.
  Variable step : S -> event value -> S.
  Variable finished : S -> bool.
  Hypothesis absorbing : forall s e, finished s = true -> step s e = s.

  Lemma finished_mono : forall c1 c2 s0, finished (fold_left step c1 s0) = true ->
    finished (fold_left step (c1 ++ c2) s0) = true.
  Proof. intros c1 c2 s0 H. rewrite fold_left_app, (fold_finished step finished absorbing) by exact H. exact H. Qed.

  (* the events consumed ([pre]) are those up to the instant of return, the others come no earlier,
     and the run was not finished before the last consumed event *)
  Lemma trun_decision : forall sch s0,
    ksorted (@fst N (event value)) sch ->
    finished (fst (trun step finished s0 sch)) = true ->
    exists pre post, sch = pre ++ post
      /\ fst (trun step finished s0 sch) = fold_left step (map snd pre) s0
      /\ (forall x, In x pre -> fst x <= snd (trun step finished s0 sch))
      /\ (forall x, In x post -> snd (trun step finished s0 sch) <= fst x)
      /\ (forall c1 c2, map snd pre = c1 ++ c2 -> c2 <> [] -> finished (fold_left step c1 s0) = false)
      /\ ((pre = [] /\ snd (trun step finished s0 sch) = 0)
          \/ exists pre' te, pre = pre' ++ [te] /\ snd (trun step finished s0 sch) = fst te).
  Proof.
    intros sch s0 Hso Hfin. unfold trun in *. destruct (finished s0) eqn:Hf0.
    - rewrite (trun_finished step finished) in * by exact Hf0. exists [], sch. cbn. repeat split; auto.
      + intros x []. 
      + intros x _. lia.
      + intros c1 c2 H Hn. destruct c1, c2; try discriminate. congruence.
    - destruct (trun_cases step finished sch s0 0 Hf0) as [[H1 H2] | [pre [te [post (H1 & H2 & H3 & H4 & H5)]]]].
      + congruence.
      + exists (pre ++ [te]), post. subst sch. rewrite <- app_assoc. cbn [app].
        apply ksorted_split in Hso as [Hpre Hpost]. rewrite Forall_forall in Hpre, Hpost. rewrite H5.
        repeat split; auto.
        * intros x Hx. apply in_app_or in Hx as [Hx|[<-|[]]]; [apply Hpre; exact Hx | lia].
        * intros c1 c2 Hc Hn. rewrite map_app in Hc. cbn in Hc.
          destruct c2 as [|y c2] using rev_ind; [congruence|]. clear IHc2.
          rewrite app_assoc in Hc. apply app_inj_tail in Hc as [Hc _].
          destruct (finished (fold_left step c1 s0)) eqn:E; [|reflexivity].
          pose proof (finished_mono c1 c2 s0 E) as Q. rewrite <- Hc in Q. exact (eq_trans (eq_sym Q) H2).
        * right. exists pre, te. auto.
  Qed.
End Decision.

(* the messages of a schedule: one per node *)
Lemma msgs_filter : forall {V} (es : list (event V)),
  msgs es = Z.of_nat (length (filter (fun e => is_resp e || is_err e) es)).
Proof.
  intros V es. unfold msgs, nresp, nerr. induction es as [|e es IH]; [reflexivity|].
  destruct e; cbn [resps filter is_resp is_err orb length] in *; lia.
Qed.

Lemma msgs_perm : forall {V} (es es' : list (event V)), Permutation es es' -> msgs es = msgs es'.
Proof.
  intros V es es' H. rewrite !msgs_filter. f_equal. apply Permutation_length.
  induction H; cbn; try reflexivity.
  - destruct (is_resp x || is_err x); [constructor|]; exact IHPermutation.
  - destruct (is_resp x || is_err x), (is_resp y || is_err y); try reflexivity; try (constructor; reflexivity).
  - etransitivity; eassumption.
Qed.

Lemma deliver_msgs : forall st pr p0, msgs (map snd (deliver st pr p0)) = 1%Z.
Proof.
  intros st pr p0. unfold deliver. destruct (pv_beh p0) as [v| |].
  - destruct ((pv_time p0 <=? p_timeout pr) || pv_deaf p0); [destruct (accepts st pr (v_raw v))|]; reflexivity.
  - destruct ((pv_time p0 <=? p_timeout pr) || pv_deaf p0); reflexivity.
  - reflexivity.
Qed.

Lemma sch_msgs : forall st pr ps sch, In sch (schedules (timeline st pr ps)) ->
  msgs (map snd sch) = Z.of_nat (length ps).
Proof.
  intros st pr ps sch H. apply schedules_spec in H as [P _]. unfold timeline in P. rewrite sort_by_perm in P.
  rewrite (msgs_perm _ _ (Permutation_map snd P)). rewrite map_app, msgs_app. clear P.
  assert (G : msgs (map snd (flat_map (deliver st pr) ps)) = Z.of_nat (length ps)).
  { induction ps as [|p0 ps IH]; [reflexivity|]. cbn [flat_map length]. rewrite map_app, msgs_app, deliver_msgs. unfold tevent in *. rewrite IH. lia. }
  unfold tevent in *.
  rewrite G. destruct (template_of st); cbn; lia.
Qed.

(* a decision reached on [pre] where no shorter prefix is finished: the loop consumed all of [pre] *)
Lemma b_whole : forall {V A} (acc : A -> V -> A) early requests a0 es, (0 <= requests)%Z ->
  (forall c1 c2, es = c1 ++ c2 -> c2 <> [] -> b_phase (brun acc early requests a0 c1) <> Done) ->
  consumed (b_stop acc early requests a0) es = es.
Proof.
  intros V A acc early requests a0 es Hr Hmin.
  destruct (consumed_spec (b_stop acc early requests a0) es) as [rest (Hc & Hm & Hs)].
  destruct Hs as [Hs | ->]; [|rewrite app_nil_r in Hc; congruence].
  destruct rest as [|x rest]; [rewrite app_nil_r in Hc; congruence|]. exfalso.
  apply (Hmin _ _ Hc); [discriminate|].
  pose proof (consumed_unique _ _ [] Hs Hm) as U. rewrite app_nil_r in U.
  apply (b_refines acc early requests Hr a0). rewrite U. exact Hs.
Qed.

Lemma m_whole : forall {V A} (acc : A -> V -> A) early requests a0 es, (0 <= requests)%Z ->
  (forall c1 c2, es = c1 ++ c2 -> c2 <> [] -> m_phase (mrun acc early requests a0 c1) <> Done) ->
  consumed (m_stop acc early requests a0) es = es.
Proof.
  intros V A acc early requests a0 es Hr Hmin.
  destruct (consumed_spec (m_stop acc early requests a0) es) as [rest (Hc & Hm & Hs)].
  destruct Hs as [Hs | ->]; [|rewrite app_nil_r in Hc; congruence].
  destruct rest as [|x rest]; [rewrite app_nil_r in Hc; congruence|]. exfalso.
  apply (Hmin _ _ Hc); [discriminate|].
  pose proof (consumed_unique _ _ [] Hs Hm) as U. rewrite app_nil_r in U.
  apply (m_refines acc early requests Hr a0). rewrite U. exact Hs.
Qed.

(* the decision of a timed run of the best/latest/root-majority loop over a schedule *)
Lemma b_decision : forall {A} (acc : A -> value -> A) early a0 st pr ps sch,
  In sch (schedules (timeline st pr ps)) ->
  let requests := Z.of_nat (length ps) in
  let r := trun (bstep acc early requests) (fun s => phase_eqb (b_phase s) Done) (b_init early requests a0) sch in
  exists pre post, sch = pre ++ post
    /\ b_phase (fst r) = Done /\ b_acc (fst r) = accf acc a0 (map snd pre)
    /\ b_stop acc early requests a0 (map snd pre) = true
    /\ (forall c1 c2, map snd pre = c1 ++ c2 -> c2 <> [] -> b_stop acc early requests a0 c1 = false)
    /\ (forall x, In x pre -> fst x <= snd r) /\ (forall x, In x post -> snd r <= fst x)
    /\ snd r <= p_timeout pr
    /\ ((pre = [] /\ snd r = 0) \/ exists pre' te, pre = pre' ++ [te] /\ snd r = fst te).
Proof.
  intros A acc early a0 st pr ps sch Hs requests r.
  assert (Hreq : (0 <= requests)%Z) by (unfold requests; lia).
  assert (Habs : forall s e, phase_eqb (b_phase s) Done = true -> bstep acc early requests s e = s).
  { intros s e H. apply bstep_done. apply phase_eqb_done. exact H. }
  pose proof (sch_hard _ _ _ _ Hs) as Hh. pose proof (proj1 (timeline_schedule _ _ _ _ Hs)) as Hso.
  destruct (trun_within (bstep acc early requests) (fun s => phase_eqb (b_phase s) Done) Habs (p_timeout pr) sch
              (b_init early requests a0)) as [H1 H2]; auto.
  { intros es He. apply phase_eqb_done. apply in_hard_b; assumption. }
  destruct (trun_decision _ _ Habs sch _ Hso H1) as [pre [post (E & Hf & Hpre & Hpost & Hmin & Hlast)]].
  fold r in H1, H2, Hf, Hpre, Hpost, Hlast.
  assert (Hw : consumed (b_stop acc early requests a0) (map snd pre) = map snd pre).
  { apply b_whole; [exact Hreq|]. intros c1 c2 Hc Hn Q. specialize (Hmin c1 c2 Hc Hn).
    unfold brun in Q. apply phase_eqb_done in Q. congruence. }
  destruct (b_refines acc early requests Hreq a0 (map snd pre)) as [Ra Rd]. rewrite Hw in Ra, Rd.
  apply phase_eqb_done in H1. unfold brun in Ra, Rd. rewrite <- Hf in Ra, Rd.
  exists pre, post. repeat split; auto.
  - apply Rd. exact H1.
  - intros c1 c2 Hc Hn. destruct (consumed_spec (b_stop acc early requests a0) (map snd pre)) as [rest (Hc' & Hm' & _)].
    rewrite Hw in Hm'. apply (Hm' c1 c2 Hc Hn).
Qed.

Lemma m_decision : forall {A} (acc : A -> value -> A) early a0 st pr ps sch,
  In sch (schedules (timeline st pr ps)) ->
  let requests := Z.of_nat (length ps) in
  let r := trun (mstep acc early requests) (fun s => phase_eqb (m_phase s) Done) (m_init early requests a0) sch in
  exists pre post, sch = pre ++ post
    /\ m_phase (fst r) = Done /\ m_acc (fst r) = accf acc a0 (map snd pre)
    /\ m_stop acc early requests a0 (map snd pre) = true
    /\ (forall c1 c2, map snd pre = c1 ++ c2 -> c2 <> [] -> m_stop acc early requests a0 c1 = false)
    /\ (forall x, In x pre -> fst x <= snd r) /\ (forall x, In x post -> snd r <= fst x)
    /\ snd r <= p_timeout pr
    /\ ((pre = [] /\ snd r = 0) \/ exists pre' te, pre = pre' ++ [te] /\ snd r = fst te).
Proof.
  intros A acc early a0 st pr ps sch Hs requests r.
  assert (Hreq : (0 <= requests)%Z) by (unfold requests; lia).
  assert (Habs : forall s e, phase_eqb (m_phase s) Done = true -> mstep acc early requests s e = s).
  { intros s e H. apply mstep_done. apply phase_eqb_done. exact H. }
  pose proof (sch_hard _ _ _ _ Hs) as Hh. pose proof (proj1 (timeline_schedule _ _ _ _ Hs)) as Hso.
  destruct (trun_within (mstep acc early requests) (fun s => phase_eqb (m_phase s) Done) Habs (p_timeout pr) sch
              (m_init early requests a0)) as [H1 H2]; auto.
  { intros es He. apply phase_eqb_done. apply in_hard_m; assumption. }
  destruct (trun_decision _ _ Habs sch _ Hso H1) as [pre [post (E & Hf & Hpre & Hpost & Hmin & Hlast)]].
  fold r in H1, H2, Hf, Hpre, Hpost, Hlast.
  assert (Hw : consumed (m_stop acc early requests a0) (map snd pre) = map snd pre).
  { apply m_whole; [exact Hreq|]. intros c1 c2 Hc Hn Q. specialize (Hmin c1 c2 Hc Hn).
    unfold mrun in Q. apply phase_eqb_done in Q. congruence. }
  destruct (m_refines acc early requests Hreq a0 (map snd pre)) as [Ra Rd]. rewrite Hw in Ra, Rd.
  apply phase_eqb_done in H1. unfold mrun in Ra, Rd. rewrite <- Hf in Ra, Rd.
  exists pre, post. repeat split; auto.
  - apply Rd. exact H1.
  - intros c1 c2 Hc Hn. destruct (consumed_spec (m_stop acc early requests a0) (map snd pre)) as [rest (Hc' & Hm' & _)].
    rewrite Hw in Hm'. apply (Hm' c1 c2 Hc Hn).
Qed.

(* ------------------------------------------------------------------------------------------- *)
(* where the special events of a schedule are *)

Lemma sch_hard_time : forall st pr ps sch t, In sch (schedules (timeline st pr ps)) -> In (t, EHard) sch -> t = p_timeout pr.
Proof.
  intros st pr ps sch t Hs Hin. apply (timeline_schedule st pr ps sch Hs) in Hin.
  apply in_app_or in Hin as [Hin|Hin].
  - destruct (template_of st); cbn in Hin; intuition congruence.
  - exfalso. apply in_flat_map in Hin as [p0 [_ Hin]]. unfold deliver in Hin.
    destruct (pv_beh p0) as [v| |]; [destruct ((pv_time p0 <=? p_timeout pr) || pv_deaf p0); [destruct (accepts st pr (v_raw v))|]
                                    | destruct ((pv_time p0 <=? p_timeout pr) || pv_deaf p0) |];
      cbn in Hin; intuition congruence.
Qed.

Lemma sch_soft_time : forall st pr ps sch t, In sch (schedules (timeline st pr ps)) -> In (t, ESoft) sch -> t = p_timeout pr / 2.
Proof.
  intros st pr ps sch t Hs Hin. apply (timeline_schedule st pr ps sch Hs) in Hin.
  apply in_app_or in Hin as [Hin|Hin].
  - destruct (template_of st); cbn in Hin; intuition congruence.
  - exfalso. apply in_flat_map in Hin as [p0 [_ Hin]]. unfold deliver in Hin.
    destruct (pv_beh p0) as [v| |]; [destruct ((pv_time p0 <=? p_timeout pr) || pv_deaf p0); [destruct (accepts st pr (v_raw v))|]
                                    | destruct ((pv_time p0 <=? p_timeout pr) || pv_deaf p0) |];
      cbn in Hin; intuition congruence.
Qed.

Lemma sch_has_soft : forall st pr ps sch, template_of st <> TFirst -> In sch (schedules (timeline st pr ps)) ->
  In (p_timeout pr / 2, ESoft) sch.
Proof.
  intros st pr ps sch Ht H. apply (timeline_schedule st pr ps sch H). apply in_or_app. left.
  destruct (template_of st); cbn; auto; congruence.
Qed.

Lemma msgs_in_resp : forall {V} (es : list (event V)) p v, In (EResp p v) es -> (1 <= msgs es)%Z.
Proof.
  intros V es p v H. apply in_split in H as [a [b ->]]. rewrite msgs_app. 
  pose proof (nresp_nonneg a). pose proof (nerr_nonneg a). pose proof (nresp_nonneg b). pose proof (nerr_nonneg b).
  unfold msgs in *. unfold nresp at 2, nerr at 2. cbn [resps filter is_err length]. fold (nresp b) (nerr b). lia.
Qed.

Lemma msgs_nonneg : forall {V} (es : list (event V)), (0 <= msgs es)%Z.
Proof. intros. unfold msgs. pose proof (nresp_nonneg es). pose proof (nerr_nonneg es). lia. Qed.

Lemma gives_ok_event : forall st pr ps sch p0 v, In sch (schedules (timeline st pr ps)) -> In p0 ps ->
  gives_ok st pr p0 v -> In (pv_time p0, EResp (pv_id p0) v) sch.
Proof. intros st pr ps sch p0 v Hs Hp [[Hb Hg] Ha]. apply (resp_sch st pr ps); assumption. Qed.

Lemma event_gives_ok : forall st pr ps sch t p v, In sch (schedules (timeline st pr ps)) -> In (t, EResp p v) sch ->
  exists p0, In p0 ps /\ gives_ok st pr p0 v /\ t = pv_time p0.
Proof.
  intros st pr ps sch t p v Hs Hin. destruct (sch_resp _ _ _ _ _ _ _ Hs Hin) as [p0 (H1 & H2 & H3 & H4 & H5)].
  exists p0. unfold gives_ok, gives. auto.
Qed.

(* ------------------------------------------------------------------------------------------- *)
(* best / latest on the timed layer *)

Lemma best_outcome_spec : forall st pr ps r t,
  template_of st = TBest -> In (r, t) (outcomes st pr ps) ->
  t <= p_timeout pr /\
  ((exists p0 v, r = result_of (Some v) /\ In p0 ps /\ gives_ok st pr p0 v /\ pv_time p0 <= t
      /\ forall p1 v1, In p1 ps -> gives_ok st pr p1 v1 -> pv_time p1 < t ->
                       sgt (vscore st pr v1) (vscore st pr v) = false)
   \/ (r = RErr /\ forall p1 v1, In p1 ps -> gives_ok st pr p1 v1 -> p_timeout pr <= pv_time p1)).
Proof.
  intros st pr ps r t Et H. unfold outcomes in H. rewrite Et in H.
  apply in_map_iff in H as [sch [H Hs]].
  destruct (b_decision (upd_best (vscore st pr) sgt) no_early None st pr ps sch Hs)
    as [pre [post (E & Hd & Ha & Hst & Hmin & Hpre & Hpost & HT & _)]].
  destruct (trun _ _ _ sch) as [s t']. cbn [fst snd] in *. rewrite Hd in H. injection H as <- <-.
  split; [exact HT|].
  assert (Hin_sch : forall x, In x pre -> In x sch) by (intros x Hx; rewrite E; apply in_or_app; left; exact Hx).
  rewrite Ha. unfold accf. destruct (fold_left _ (resps (map snd pre)) None) as [v|] eqn:Eb.
  - left. pose proof (best_in _ _ _ _ Eb) as Hv. apply in_resps_map in Hv as [tv [p Hv]].
    destruct (event_gives_ok _ _ _ _ _ _ _ Hs (Hin_sch _ Hv)) as [p0 (Hp0 & Hg & ->)].
    exists p0, v. split; [reflexivity|]. split; [exact Hp0|]. split; [exact Hg|]. split.
    + apply (Hpre _ Hv).
    + intros p1 v1 Hp1 Hg1 Hlt.
      pose proof (gives_ok_event _ _ _ _ _ _ Hs Hp1 Hg1) as Hx. rewrite E in Hx. apply in_app_or in Hx as [Hx|Hx].
      * assert (Hv1 : In v1 (resps (map snd pre))).
        { apply in_resps. exists (pv_id p1). apply in_map_iff. exists (pv_time p1, EResp (pv_id p1) v1). auto. }
        destruct (best_unbeaten (vscore st pr) sgt (resps (map snd pre)) v) as [_ Hun]; auto.
        -- intros x y z _ _ _. apply sgt_trans.
        -- intros x _. apply sgt_irrefl.
      * apply Hpost in Hx. cbn in Hx. lia.
  - right. split; [reflexivity|]. apply best_none_iff in Eb.
    intros p1 v1 Hp1 Hg1.
    pose proof (gives_ok_event _ _ _ _ _ _ Hs Hp1 Hg1) as Hx. rewrite E in Hx. apply in_app_or in Hx as [Hx|Hx].
    + exfalso. assert (Hv1 : In v1 (resps (map snd pre))).
      { apply in_resps. exists (pv_id p1). apply in_map_iff. exists (pv_time p1, EResp (pv_id p1) v1). auto. }
      rewrite Eb in Hv1. destruct Hv1.
    + pose proof (Hpost _ Hx) as Ht. cbn in Ht.
      destruct (N.le_gt_cases (p_timeout pr) (pv_time p1)) as [Q|Q]; [exact Q|]. exfalso.
      unfold b_stop, no_early in Hst. cbn [orb] in Hst. rewrite orb_false_r in Hst.
      apply orb_true_iff in Hst as [Hst|Hst]; [apply orb_true_iff in Hst as [Hst|Hst]|].
      * (* all nodes heard of, although this one's answer is still to come *)
        pose proof (sch_msgs _ _ _ _ Hs) as Hm. rewrite E, map_app, msgs_app in Hm.
        assert (G : (1 <= msgs (map snd post))%Z).
        { apply (msgs_in_resp _ (pv_id p1) v1). apply in_map_iff. exists (pv_time p1, EResp (pv_id p1) v1). auto. }
        unfold tevent in *. lia.
      * apply existsb_exists in Hst as [e [He Hh]]. destruct e; try discriminate.
        apply in_map_iff in He as [[th e] [He Hin]]. cbn in He. subst e.
        pose proof (sch_hard_time _ _ _ _ _ Hs (Hin_sch _ Hin)) as ->.
        apply Hpre in Hin. cbn in Hin. lia.
      * apply soft_resp_spec in Hst as [p1' [p2' (Hp & _ & Hr)]].
        assert (Hne : existsb is_resp (map snd pre) = true) by (rewrite Hp, existsb_app, Hr; reflexivity).
        apply existsb_resp_resps in Eb. congruence.
Qed.

(* ------------------------------------------------------------------------------------------- *)
(* first on the timed layer *)

Lemma accepts_first : forall st pr r, template_of st = TFirst -> accepts st pr r = true.
Proof. intros st pr r H. destruct st; try discriminate H; destruct r; reflexivity. Qed.

Definition f_finished (s : @fst_state value) : bool := match s with FDone _ => true | FWait => false end.

Lemma first_outcome_spec : forall st pr ps r t,
  template_of st = TFirst -> In (r, t) (outcomes st pr ps) ->
  t <= p_timeout pr /\
  ((exists p0 v, r = result_of (Some v) /\ In p0 ps /\ gives pr p0 v /\ pv_time p0 = t
      /\ forall p1 v1, In p1 ps -> gives pr p1 v1 -> t <= pv_time p1)
   \/ (r = RErr /\ t = p_timeout pr /\ forall p1 v1, In p1 ps -> gives pr p1 v1 -> p_timeout pr <= pv_time p1)).
Proof.
  intros st pr ps r t Et H. unfold outcomes in H. rewrite Et in H.
  apply in_map_iff in H as [sch [H Hs]].
  assert (Habs : forall (s : @fst_state value) e, f_finished s = true -> fstep s e = s).
  { intros [|o] e Hf; [discriminate | reflexivity]. }
  pose proof (sch_hard _ _ _ _ Hs) as Hh. pose proof (proj1 (timeline_schedule _ _ _ _ Hs)) as Hso.
  destruct (trun_within fstep f_finished Habs (p_timeout pr) sch FWait) as [H1 H2]; auto.
  { intros es He. destruct (in_hard_f es He) as [o Ho]. unfold frun in Ho. rewrite Ho. reflexivity. }
  destruct (trun_decision _ _ Habs sch _ Hso H1) as [pre [post (E & Hf & Hpre & Hpost & Hmin & Hlast)]].
  change (fun s : fst_state => match s with FDone _ => true | FWait => false end) with f_finished in H.
  destruct (trun fstep f_finished FWait sch) as [s t']. cbn [fst snd] in *.
  assert (Hin_sch : forall x, In x pre -> In x sch) by (intros x Hx; rewrite E; apply in_or_app; left; exact Hx).
  assert (Hall : forall p1 v1, In p1 ps -> gives pr p1 v1 -> In (pv_time p1, EResp (pv_id p1) v1) sch).
  { intros p1 v1 Hp1 Hg. apply (gives_ok_event st pr ps sch p1 v1 Hs Hp1). split; [exact Hg | apply accepts_first; exact Et]. }
  destruct s as [|o]; [discriminate|]. injection H as <- <-. split; [exact H2|].
  destruct Hlast as [[-> _] | [pre' [te (-> & Ht)]]]; [discriminate Hf|].
  assert (Hpre' : existsb is_resp (map snd pre') = false /\ existsb is_hard (map snd pre') = false).
  { apply frun_wait_iff. specialize (Hmin (map snd pre') [snd te]). rewrite map_app in Hmin.
    specialize (Hmin eq_refl ltac:(discriminate)). unfold frun. destruct (fold_left fstep (map snd pre') FWait); [reflexivity | discriminate]. }
  destruct Hpre' as [Hnr Hnh].
  assert (Hlast : fstep FWait (snd te) = FDone o).
  { rewrite map_app, fold_left_app in Hf. cbn [map fold_left] in Hf.
    rewrite (frun_wait _ Hnr Hnh) in Hf. symmetry. exact Hf. }
  assert (Hnot_pre' : forall p1 v1, In (pv_time p1, EResp (pv_id p1) v1) pre' -> False).
  { intros p1 v1 Hx. assert (G : existsb is_resp (map snd pre') = true); [|congruence].
    apply existsb_exists. exists (EResp (pv_id p1) v1). split; [|reflexivity].
    apply in_map_iff. exists (pv_time p1, EResp (pv_id p1) v1). auto. }
  destruct te as [tt e]. cbn [fst snd] in *. subst t'.
  destruct e as [p v|p| |]; cbn in Hlast; try discriminate; injection Hlast as <-.
  - left. assert (Hte : In (tt, EResp p v) sch) by (apply Hin_sch; apply in_or_app; right; left; reflexivity).
    destruct (event_gives_ok _ _ _ _ _ _ _ Hs Hte) as [p0 (Hp0 & [Hg _] & ->)].
    exists p0, v. split; [reflexivity|]. split; [exact Hp0|]. split; [exact Hg|]. split; [reflexivity|].
    intros p1 v1 Hp1 Hg1. pose proof (Hall p1 v1 Hp1 Hg1) as Hx. rewrite E in Hx.
    apply in_app_or in Hx as [Hx|Hx]; [apply in_app_or in Hx as [Hx|[Hx|[]]]|].
    + exfalso. apply (Hnot_pre' _ _ Hx).
    + injection Hx as <- _ _. lia.
    + apply Hpost in Hx. exact Hx.
  - right. assert (Hte : In (tt, EHard) sch) by (apply Hin_sch; apply in_or_app; right; left; reflexivity).
    pose proof (sch_hard_time _ _ _ _ _ Hs Hte) as ->. split; [reflexivity|]. split; [reflexivity|].
    intros p1 v1 Hp1 Hg1. pose proof (Hall p1 v1 Hp1 Hg1) as Hx. rewrite E in Hx.
    apply in_app_or in Hx as [Hx|Hx]; [apply in_app_or in Hx as [Hx|[Hx|[]]]|].
    + exfalso. apply (Hnot_pre' _ _ Hx).
    + discriminate Hx.
    + apply Hpost in Hx. exact Hx.
Qed.
