(* C13: partially failing refreshes of the validator set -- the node fails the requests that name
   one key -- and the batched refresh that the code is NOT (why it asks once, all or nothing). *)
From Verif Require Import Lib.Base Lib.RegexM Model.C13_Accounts Proofs.C13 Proofs.C13_Store.
From Coq Require Import String ZifyBool ZifyN ZifyNat.
Open Scope N_scope.

Section Partial.
  Variable parse : string -> option (list re).
  Variable cfg : config.
  Notation refresh := (refresh parse cfg).
  Notation refresh_accounts := (refresh_accounts parse cfg).

  (* the node fails on a key that is among those asked for: the validator store is left alone *)
  Lemma fail_on_known_key_keeps_validators : forall s offered pk l,
    In pk (refresh_accounts (st_accounts s) offered) ->
    st_vals (refresh s offered (VFailOn pk l)) = st_vals s.
  Proof.
    intros s offered pk l H. apply empty_answer_keeps_validators.
    unfold answers_nothing. cbn. apply mem_N_In in H. rewrite H. exact I.
  Qed.

  (* ... on a key that is not asked for: as if the node were healthy *)
  Lemma fail_on_other_key_is_healthy : forall s offered pk l,
    ~ In pk (refresh_accounts (st_accounts s) offered) ->
    refresh s offered (VFailOn pk l) = refresh s offered (VOk l).
  Proof.
    intros s offered pk l H. unfold C13_Accounts.refresh, C13_Accounts.refresh_validators. cbn [node_reply].
    destruct (mem_N pk _) eqn:E; [apply mem_N_In in E; contradiction | reflexivity].
  Qed.

  (* a known validator is lost by a refresh only if the node answered the (one) request for the
     accounts' keys, with a non-empty answer that does not contain it *)
  Lemma known_validator_lost_only_by_answer : forall s offered vo pk v,
    find_val (st_vals s) pk = Some v ->
    find_val (st_vals (refresh s offered vo)) pk = None ->
    exists got, node_reply vo (refresh_accounts (st_accounts s) offered) = Some got /\
                got <> [] /\ find_val got pk = None /\ st_vals (refresh s offered vo) = got.
  Proof.
    intros s offered vo pk v Hk Hl. unfold C13_Accounts.refresh in *. cbn [st_vals] in *.
    unfold C13_Accounts.refresh_validators in *.
    set (accs := refresh_accounts (st_accounts s) offered) in *.
    assert (H : forall old, old = st_vals s ->
              find_val (match node_reply vo accs with None => old | Some got => if isnil got then old else got end) pk = None ->
              exists got, node_reply vo accs = Some got /\ got <> [] /\ find_val got pk = None /\
                          match node_reply vo accs with None => old | Some got => if isnil got then old else got end = got).
    { intros old -> H. destruct (node_reply vo accs) as [[|g got]|]; cbn [isnil] in *; [congruence | | congruence].
      exists (g :: got). repeat split; [discriminate | exact H]. }
    destruct (c_mgr cfg); [destruct (isnil accs); [congruence|]|]; apply (H _ eq_refl Hl).
  Qed.
End Partial.

(* The seeded class: the keys are asked for in batches, a failed batch is skipped, and what the
   other batches returned REPLACES the maps. *)
Fixpoint chunks_fuel (fuel : nat) (size : nat) (l : list N) : list (list N) :=
  match fuel with
  | O => []
  | S f => match l with
           | [] => []
           | _ => firstn size l :: chunks_fuel f size (skipn size l)
           end
  end.
Definition chunks (size : nat) (l : list N) : list (list N) :=
  match l with [] => [[]] | _ => chunks_fuel (List.length l) size l end.

Definition refresh_validators_batched (size : nat) (old : list val) (pubkeys : list N) (vo : vout) : list val :=
  let replies := map (node_reply vo) (chunks size pubkeys) in
  if forallb (fun r => match r with None => true | Some _ => false end) replies then old
  else let got := flat_map (fun r => match r with Some g => g | None => [] end) replies in
       if isnil got then old else got.

Definition ex_v (pk : N) : val := Build_val pk (70 + pk) 0 1 100 200 false 32.

Lemma chunks_one : forall size l, (List.length l <= size)%nat -> chunks size l = [l].
Proof.
  intros size [|x l] H; [reflexivity|]. unfold chunks. cbn [List.length chunks_fuel].
  rewrite firstn_all2 by exact H. rewrite skipn_all2 by exact H.
  destruct (List.length l); reflexivity.
Qed.

(* with a single batch (no more keys than the batch size) the batched refresh is the code's: this
   is why the seeded change is invisible below the batch size *)
Lemma batched_with_one_batch_is_the_code : forall size old pubkeys vo,
  (List.length pubkeys <= size)%nat ->
  refresh_validators_batched size old pubkeys vo = refresh_validators old pubkeys vo.
Proof.
  intros size old pubkeys vo Hl. unfold refresh_validators_batched, refresh_validators.
  rewrite chunks_one by exact Hl. cbn.
  destruct (node_reply vo pubkeys) as [g|]; cbn; rewrite ?app_nil_r; reflexivity.
Qed.

Lemma batched_replace_wipes : 
  let old := [ex_v 1; ex_v 2; ex_v 3] in
  let vo := VFailOn 3 old in
  find_val old 3 = Some (ex_v 3)
  /\ find_val (refresh_validators old [1; 2; 3] vo) 3 = Some (ex_v 3)
  /\ find_val (refresh_validators_batched 2 old [1; 2; 3] vo) 3 = None
  /\ refresh_validators_batched 2 old [1; 2; 3] vo = [ex_v 1; ex_v 2].
Proof. repeat split; vm_compute; reflexivity. Qed.
