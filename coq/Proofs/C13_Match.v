(* C13 — specifier patterns of Model.C13_Accounts: for specifiers without top-level alternation
   "admitted" is "the whole wallet/account name matches (wallet part)/(account part)"; with a
   top-level alternation it is not. *)
From Verif Require Import Lib.Base Lib.RegexM Model.C13_Accounts Proofs.C13 Proofs.C13_Store.
From Coq Require Import String Ascii ZifyBool ZifyN ZifyNat.
Open Scope N_scope.

(* ---------------------------------------------------------------------------------------------
   Regular-expression facts. *)
Definition lang_equiv (r r' : re) : Prop := forall b e s, lang r b e s <-> lang r' b e s.

Lemma search_lang_equiv : forall r r', lang_equiv r r' -> forall s, search_lang r s <-> search_lang r' s.
Proof.
  intros r r' H s; unfold search_lang; split; intros (pre & mid & post & Hs & Hl);
    exists pre, mid, post; (split; [assumption|]); apply H; assumption.
Qed.

Lemma anchored_parts_equiv : forall rw ra,
  lang_equiv (Seq Bol (Seq rw (Seq slash (Seq ra Eol)))) (Seq Bol (Seq (Seq rw (Seq slash ra)) Eol)).
Proof.
  intros rw ra b e s. apply lang_seq_congr_r. clear b e s. intros b e s.
  rewrite lang_seq_assoc. apply lang_seq_congr_r. clear b e s. intros b e s.
  symmetry. apply lang_seq_assoc.
Qed.

(* ^wallet/account$ found anywhere in the name = wallet/account matching the whole name *)
Lemma anchored_parts_full : forall rw ra s,
  search_lang (Seq Bol (Seq rw (Seq slash (Seq ra Eol)))) s <-> full_lang (Seq rw (Seq slash ra)) s.
Proof.
  intros rw ra s. rewrite (search_lang_equiv _ _ (anchored_parts_equiv rw ra)).
  apply anchored_search_is_full_match.
Qed.

Lemma lang_slash : forall b e s, lang slash b e s <-> s = [47].
Proof.
  intros b e s; unfold slash, Chr; cbn [lang]; split.
  - intros (c & -> & Hc). unfold in_cls in Hc; cbn in Hc. f_equal. lia.
  - intros ->. exists 47. split; reflexivity.
Qed.

(* the whole name matches wallet/account: it splits at a slash into a text the wallet part
   matches from the beginning of the name and a text the account part matches up to its end *)
Lemma full_parts_split : forall rw ra s,
  full_lang (Seq rw (Seq slash ra)) s <->
  exists w n, s = w ++ 47 :: n /\ lang rw true false w /\ lang ra false true n.
Proof.
  intros rw ra s; unfold full_lang; cbn [lang]; split.
  - intros (s1 & s2 & -> & H1 & (t1 & t2 & -> & Hs & H2)). apply lang_slash in Hs. subst t1.
    exists s1, t2. split; [reflexivity|]. cbn in H1, H2. rewrite andb_false_r in H2. auto.
  - intros (w & n & -> & H1 & H2). exists w, (47 :: n). split; [reflexivity|]. split; [exact H1|].
    exists [47], n. split; [reflexivity|]. split; [apply lang_slash; reflexivity|].
    cbn. rewrite andb_false_r. exact H2.
Qed.

(* expressions that can only match up to the end of the text (they end with a `$`) *)
Definition ends_anchored (r : re) : Prop := forall b e s, lang r b e s -> e = true.

Lemma ends_anchored_eol : ends_anchored Eol.
Proof. intros b e s [_ H]; exact H. Qed.

Lemma ends_anchored_seq : forall r1 r2, ends_anchored r2 -> ends_anchored (Seq r1 r2).
Proof. intros r1 r2 H b e s (s1 & s2 & _ & _ & H2). exact (H _ _ _ H2). Qed.

Lemma ends_anchored_alt : forall r1 r2, ends_anchored r1 -> ends_anchored r2 -> ends_anchored (Alt r1 r2).
Proof. intros r1 r2 H1 H2 b e s [H | H]; [exact (H1 _ _ _ H) | exact (H2 _ _ _ H)]. Qed.

(* ^wallet/account where the account part brings its own `$` *)
Lemma anchored_parts_own_dollar : forall rw ra s,
  ends_anchored ra ->
  (search_lang (Seq Bol (Seq rw (Seq slash ra))) s <-> full_lang (Seq rw (Seq slash ra)) s).
Proof.
  intros rw ra s Hra; unfold search_lang, full_lang; split.
  - intros (pre & mid & post & -> & H). cbn [lang] in H.
    destruct H as (s1 & s2 & -> & [-> Hb] & H2).
    destruct pre; [|discriminate]. cbn in H2 |- *.
    assert (He : isnil post = true).
    { apply (ends_anchored_seq rw _ (ends_anchored_seq slash _ Hra)) in H2. exact H2. }
    destruct post; [|discriminate]. rewrite app_nil_r. exact H2.
  - intro H. exists [], s, []. rewrite app_nil_r. split; [reflexivity|]. cbn [lang isnil].
    exists [], s. split; [reflexivity|]. split; [auto|]. exact H.
Qed.

(* ---------------------------------------------------------------------------------------------
   Strings. *)
Lemma mem_str_In : forall x l, mem_str x l = true <-> In x l.
Proof. intros; unfold mem_str; apply memb_spec; apply String.eqb_eq. Qed.

Lemma append_inj_l : forall a b c : string, (a ++ b = a ++ c)%string -> b = c.
Proof. induction a as [|x a IH]; cbn; intros b c H; [exact H | injection H as H; auto]. Qed.

Lemma append_one_inj_r : forall (b c : string) (x : ascii),
  (b ++ String x EmptyString = c ++ String x EmptyString)%string -> b = c.
Proof.
  induction b as [|y b IH]; destruct c as [|z c]; cbn; intros x H; try reflexivity.
  - injection H as _ H. destruct c; discriminate.
  - injection H as _ H. destruct b; discriminate.
  - injection H as -> H. f_equal. eapply IH; exact H.
Qed.

(* what a list of alternatives matches *)
Lemma lang_fold_alt : forall l r0 b e s,
  lang (fold_left Alt l r0) b e s <-> lang r0 b e s \/ exists r, In r l /\ lang r b e s.
Proof.
  induction l as [|x l IH]; intros r0 b e s; cbn [fold_left].
  - split; [auto | intros [H | (r & [] & _)]; exact H].
  - rewrite IH. cbn [lang]. split.
    + intros [[H | H] | (r & Hin & H)]; [left; exact H | right; exists x; cbn; auto | right; exists r; cbn; auto].
    + intros [H | (r & [<- | Hin] & H)]; [left; left; exact H | left; right; exact H | right; exists r; auto].
Qed.

Lemma lang_alts : forall l b e s, lang (alts l) b e s <-> exists r, In r l /\ lang r b e s.
Proof.
  intros [|r0 l] b e s; cbn [alts].
  - cbn. split; [tauto | intros (r & [] & _)].
  - rewrite lang_fold_alt. split.
    + intros [H | (r & Hin & H)]; [exists r0; cbn; auto | exists r; cbn; auto].
    + intros (r & [<- | Hin] & H); [left; exact H | right; exists r; auto].
Qed.

(* ---------------------------------------------------------------------------------------------
   Patterns. *)
Section Match.
  Variable parse : string -> option (list re).

  (* soundness of the oracle with respect to the character test the code uses: a text without
     any `|` has no top-level alternation *)
  Definition bar_sound (t : string) : Prop :=
    has_bar t = false -> forall l, parse t = Some l -> exists r, l = [r].

  Lemma group_alts : forall t l, bar_sound t -> parse t = Some l -> group t l = [alts l].
  Proof.
    intros t l Hs Hp. unfold group. destruct (has_bar t) eqn:E; [reflexivity|].
    destruct (Hs E l Hp) as [r ->]. reflexivity.
  Qed.

  (* ---- dirk ---- *)
  Definition dirk_sound (path : string) : Prop :=
    forall p0 p1, dirk_parts path = Some (p0, p1) -> bar_sound p0 /\ bar_sound p1.

  (* the declarative reading: the specifier is about this wallet, and the whole name matches
     (wallet part)/(account part), each part with its alternatives grouped *)
  Definition dirk_covers (path : string) (a : account) : Prop :=
    exists p0 p1 ws accs,
      dirk_parts path = Some (p0, p1) /\ p0 = a_wallet a /\
      parse p0 = Some ws /\ parse p1 = Some accs /\
      full_lang (Seq (alts ws) (Seq slash (alts accs))) (codes (full_name a)).

  Lemma dirk_pattern_some : forall path p,
    dirk_pattern parse path = Some p ->
    exists p0 p1 ws accs,
      dirk_parts path = Some (p0, p1) /\ parse p0 = Some ws /\ parse p1 = Some accs /\
      p = {| p_key := p0; p_text := ("^" ++ group_text p0 ++ "/" ++ group_text p1 ++ "$")%string;
             p_re := textual_concat [[Bol]; group p0 ws; [slash]; group p1 accs; [Eol]] |}.
  Proof.
    intros path p H. unfold dirk_pattern in H.
    destruct (dirk_parts path) as [[p0 p1]|]; [|discriminate].
    destruct (parse p0) as [ws|] eqn:E0; [|discriminate].
    destruct (parse p1) as [accs|] eqn:E1; [|discriminate].
    injection H as <-. exists p0, p1, ws, accs. auto.
  Qed.

  Lemma dirk_pattern_matches : forall path p a,
    dirk_sound path -> dirk_pattern parse path = Some p ->
    (String.eqb (p_key p) (a_wallet a) && pattern_matches a p = true <-> dirk_covers path a).
  Proof.
    intros path p a Hs Hp. destruct (dirk_pattern_some _ _ Hp) as (p0 & p1 & ws & accs & Hparts & E0 & E1 & ->).
    destruct (Hs _ _ Hparts) as [H0 H1].
    cbn [p_key p_re]. unfold pattern_matches; cbn [p_re].
    rewrite (group_alts _ _ H0 E0), (group_alts _ _ H1 E1).
    change (textual_concat [[Bol]; [alts ws]; [slash]; [alts accs]; [Eol]])
      with (Seq Bol (Seq (alts ws) (Seq slash (Seq (alts accs) Eol)))).
    rewrite andb_true_iff, String.eqb_eq, search_spec, anchored_parts_full. split.
    - intros [Hk Hm]. exists p0, p1, ws, accs. auto.
    - intros (q0 & q1 & ws' & accs' & Hq & Hk & F0 & F1 & Hm). rewrite Hparts in Hq. injection Hq as <- <-.
      rewrite E0 in F0. rewrite E1 in F1. injection F0 as <-. injection F1 as <-. auto.
  Qed.

  Lemma dirk_pattern_total : forall path a, dirk_covers path a -> exists p, dirk_pattern parse path = Some p.
  Proof.
    intros path a (p0 & p1 & ws & accs & Hparts & _ & E0 & E1 & _). unfold dirk_pattern.
    rewrite Hparts, E0, E1. eauto.
  Qed.

  (* the regular-expression branch of dirk's fetchAccountsForWallet *)
  Definition dirk_regex_branch (paths : list string) (a : account) : bool :=
    existsb (pattern_matches a)
            (filter (fun p => String.eqb (p_key p) (a_wallet a)) (dirk_patterns parse paths)).
  (* its short circuit *)
  Definition dirk_short_circuit (paths : list string) (a : account) : bool :=
    match filter (fun p => String.eqb (p_key p) (a_wallet a)) (dirk_patterns parse paths) with
    | [p] => String.eqb (p_text p) ("^" ++ a_wallet a ++ "/.*$")
    | _ => false
    end.

  Lemma dirk_admits_branches : forall paths a,
    dirk_admits (dirk_patterns parse paths) a = dirk_short_circuit paths a || dirk_regex_branch paths a.
  Proof. reflexivity. Qed.

  Lemma dirk_regex_branch_spec : forall paths a,
    (forall path, In path paths -> dirk_sound path) ->
    (dirk_regex_branch paths a = true <-> exists path, In path paths /\ dirk_covers path a).
  Proof.
    intros paths a Hs. unfold dirk_regex_branch. rewrite existsb_exists. split.
    - intros (p & Hin & Hm). apply filter_In in Hin as [Hin Hk].
      apply filter_map_In in Hin as (path & Hpath & Hp).
      exists path. split; [assumption|]. apply (dirk_pattern_matches path p a); auto.
      rewrite Hk, Hm; reflexivity.
    - intros (path & Hpath & Hc). destruct (dirk_pattern_total _ _ Hc) as [p Hp].
      apply (dirk_pattern_matches path p a) in Hc; auto. apply andb_true_iff in Hc as [Hk Hm].
      exists p. split; [|assumption]. apply filter_In. split; [|assumption].
      apply filter_map_In. exists path; auto.
  Qed.

  (* the short circuit fires only for a wallet named by exactly one compiled specifier, whose
     account part is .* (wallet names without `|`) *)
  Lemma dirk_short_circuit_spec : forall paths a,
    has_bar (a_wallet a) = false ->
    dirk_short_circuit paths a = true ->
    exists path p1, In path paths /\ dirk_parts path = Some (a_wallet a, p1) /\ p1 = ".*"%string /\
                    exists p, dirk_pattern parse path = Some p /\
                              filter (fun p => String.eqb (p_key p) (a_wallet a)) (dirk_patterns parse paths) = [p].
  Proof.
    intros paths a Hbar H. unfold dirk_short_circuit in H.
    destruct (filter _ (dirk_patterns parse paths)) as [|p [|p' l]] eqn:Ef; try discriminate.
    assert (Hin : In p (filter (fun p => String.eqb (p_key p) (a_wallet a)) (dirk_patterns parse paths)))
      by (rewrite Ef; left; reflexivity).
    apply filter_In in Hin as [Hin Hk]. apply String.eqb_eq in Hk.
    apply filter_map_In in Hin as (path & Hpath & Hp).
    destruct (dirk_pattern_some _ _ Hp) as (p0 & p1 & ws & accs & Hparts & E0 & E1 & ->).
    cbn [p_key p_text] in *. subst p0. apply String.eqb_eq in H.
    exists path, p1. split; [assumption|]. split; [assumption|]. split.
    - unfold group_text in H at 1. rewrite Hbar in H.
      apply append_inj_l in H. apply append_inj_l in H.
      change ("/" ++ group_text p1 ++ "$")%string with (String "/" (group_text p1 ++ "$"))%string in H.
      change ("/.*$")%string with (String "/" (".*" ++ "$"))%string in H.
      injection H as H. apply (append_one_inj_r (group_text p1) ".*"%string "$"%char) in H.
      unfold group_text in H. destruct (has_bar p1); [discriminate | exact H].
    - eexists; split; [exact Hp | reflexivity].
  Qed.

  (* under the usual reading of the two texts involved -- the wallet's name as a regular
     expression matches exactly itself, and .* matches every name without a newline -- the short
     circuit admits nothing the regular expression would refuse *)
  Definition dot_ranges : list (N * N) := [(0, 9); (11, 1114111)].
  Lemma lang_star_dot : forall s b e, Forall (fun c => in_cls c dot_ranges = true) s -> lang (Star (Cls dot_ranges)) b e s.
  Proof.
    induction s as [|c s IH]; intros b e H; cbn [lang].
    - constructor.
    - inversion H as [|c' s' Hc Hs]; subst. change (c :: s) with ([c] ++ s). constructor.
      + discriminate.
      + cbn. exists c; auto.
      + apply IH; assumption.
  Qed.

  Lemma codes_app : forall s1 s2, codes (s1 ++ s2) = (codes s1 ++ codes s2)%list.
  Proof.
    intros s1 s2; unfold codes. induction s1 as [|c s1 IH]; cbn; [reflexivity|]. f_equal. exact IH.
  Qed.

  Lemma dirk_short_circuit_sound : forall paths a,
    has_bar (a_wallet a) = false ->
    parse (a_wallet a) = Some [lit (a_wallet a)] ->
    parse ".*"%string = Some [Star (Cls dot_ranges)] ->
    Forall (fun c => in_cls c dot_ranges = true) (codes (a_name a)) ->
    dirk_short_circuit paths a = true ->
    exists path, In path paths /\ dirk_covers path a.
  Proof.
    intros paths a Hbar Hw Hdot Hname H.
    apply dirk_short_circuit_spec in H as (path & p1 & Hpath & Hparts & -> & _); [|assumption].
    exists path. split; [assumption|]. exists (a_wallet a), ".*"%string, [lit (a_wallet a)], [Star (Cls dot_ranges)].
    repeat (split; [assumption || reflexivity|]).
    apply full_parts_split. exists (codes (a_wallet a)), (codes (a_name a)). split.
    - unfold full_name. rewrite codes_app. reflexivity.
    - split; [apply lang_lit; reflexivity | apply lang_star_dot; assumption].
  Qed.

  (* ---- wallet ---- *)
  Definition wallet_sound (path : string) : Prop :=
    forall p0 p1, wallet_parts path = Some (p0, p1) -> bar_sound p0 /\ bar_sound p1.

  Definition wallet_covers (path : string) (a : account) : Prop :=
    exists p0 p1 ws accs,
      wallet_parts path = Some (p0, p1) /\
      parse p0 = Some ws /\ parse p1 = Some accs /\
      full_lang (Seq (alts ws) (Seq slash (alts accs))) (codes (full_name a)).

  Lemma wallet_pattern_matches : forall path p a,
    wallet_sound path -> wallet_pattern parse path = Some p ->
    (pattern_matches a p = true <-> wallet_covers path a).
  Proof.
    intros path p a Hs Hp. unfold wallet_pattern in Hp.
    destruct (wallet_parts path) as [[p0 p1]|] eqn:Hparts; [|discriminate].
    destruct (parse p0) as [ws|] eqn:E0; [|discriminate].
    destruct (parse p1) as [accs|] eqn:E1; [|discriminate].
    destruct (Hs _ _ Hparts) as (H0 & H1). injection Hp as <-.
    unfold pattern_matches; cbn [p_re].
    rewrite (group_alts _ _ H0 E0), (group_alts _ _ H1 E1).
    change (textual_concat [[Bol]; [alts ws]; [slash]; [alts accs]; [Eol]])
      with (Seq Bol (Seq (alts ws) (Seq slash (Seq (alts accs) Eol)))).
    rewrite search_spec, anchored_parts_full. split.
    - intro H. exists p0, p1, ws, accs. auto.
    - intros (q0 & q1 & ws' & accs' & Hq & F0 & F1 & H). rewrite Hparts in Hq. injection Hq as <- <-.
      rewrite E0 in F0. rewrite E1 in F1. injection F0 as <-. injection F1 as <-. exact H.
  Qed.

  Lemma wallet_pattern_total : forall path a, wallet_covers path a -> exists p, wallet_pattern parse path = Some p.
  Proof.
    intros path a (p0 & p1 & ws & accs & Hparts & E0 & E1 & _). unfold wallet_pattern.
    rewrite Hparts, E0, E1. eauto.
  Qed.

  Lemma wallet_admits_spec : forall paths a,
    (forall path, In path paths -> wallet_sound path) ->
    (wallet_admits (wallet_patterns parse paths) a = true <->
     a_locked a = false /\ exists path, In path paths /\ wallet_covers path a).
  Proof.
    intros paths a Hs. unfold wallet_admits. rewrite andb_true_iff, negb_true_iff, existsb_exists. split.
    - intros [(p & Hin & Hm) Hl]. split; [assumption|].
      apply filter_map_In in Hin as (path & Hpath & Hp). exists path. split; [assumption|].
      apply (wallet_pattern_matches path p a); auto.
    - intros [Hl (path & Hpath & Hc)]. split; [|assumption].
      destruct (wallet_pattern_total _ _ Hc) as [p Hp]. exists p. split.
      + apply filter_map_In. exists path; auto.
      + apply (wallet_pattern_matches path p a); auto.
  Qed.

  (* ---- the admitted set of a refresh ---- *)
  Lemma admitted_In : forall cfg offered id,
    In id (admitted parse cfg offered) <->
    exists a, In a (c_universe cfg) /\ a_id a = id /\ In id offered /\
              In (a_wallet a) (wallet_names cfg) /\
              match c_mgr cfg with
              | Dirk => dirk_admits (dirk_patterns parse (c_paths cfg)) a = true
              | Wallet => wallet_admits (wallet_patterns parse (c_paths cfg)) a = true
              end.
  Proof.
    intros cfg offered id. unfold admitted. rewrite in_map_iff. split.
    - intros (a & <- & Hin). apply filter_In in Hin as [Hin Hc].
      apply andb_true_iff in Hc as [Hc H3]. apply andb_true_iff in Hc as [H1 H2].
      exists a. split; [assumption|]. split; [reflexivity|].
      split; [apply mem_N_In; assumption|]. split; [apply mem_str_In; assumption|].
      destruct (c_mgr cfg); assumption.
    - intros (a & Hin & <- & H1 & H2 & H3). exists a. split; [reflexivity|]. apply filter_In.
      split; [assumption|]. apply mem_N_In in H1. apply mem_str_In in H2. rewrite H1, H2.
      destruct (c_mgr cfg); rewrite H3; reflexivity.
  Qed.

  (* an account is used only if it was offered and a specifier covers its whole name *)
  Lemma dirk_admitted_full_match : forall cfg offered id,
    c_mgr cfg = Dirk -> (forall path, In path (c_paths cfg) -> dirk_sound path) ->
    (In id (admitted parse cfg offered) <->
     exists a, In a (c_universe cfg) /\ a_id a = id /\ In id offered /\
               In (a_wallet a) (wallet_names cfg) /\
               (dirk_short_circuit (c_paths cfg) a = true \/
                exists path, In path (c_paths cfg) /\ dirk_covers path a)).
  Proof.
    intros cfg offered id Hm Hs. rewrite admitted_In. rewrite Hm.
    split; intros (a & H1 & H2 & H3 & H4 & H5); exists a; repeat (split; [assumption|]).
    - rewrite dirk_admits_branches in H5. apply orb_true_iff in H5 as [H5 | H5]; [left; assumption|].
      right. apply dirk_regex_branch_spec; assumption.
    - rewrite dirk_admits_branches. apply orb_true_iff. destruct H5 as [H5 | H5]; [left; assumption|].
      right. apply dirk_regex_branch_spec; assumption.
  Qed.

  Lemma wallet_admitted_full_match : forall cfg offered id,
    c_mgr cfg = Wallet -> (forall path, In path (c_paths cfg) -> wallet_sound path) ->
    (In id (admitted parse cfg offered) <->
     exists a, In a (c_universe cfg) /\ a_id a = id /\ In id offered /\
               In (a_wallet a) (wallet_names cfg) /\
               a_locked a = false /\ exists path, In path (c_paths cfg) /\ wallet_covers path a).
  Proof.
    intros cfg offered id Hm Hs. rewrite admitted_In. rewrite Hm.
    split; intros (a & H1 & H2 & H3 & H4 & H5); exists a; repeat (split; [assumption|]);
      apply wallet_admits_spec; assumption.
  Qed.
End Match.

(* ---------------------------------------------------------------------------------------------
   Why the parts are grouped: spliced as plain text, a top-level alternation escapes the anchors
   (the defect repaired in the repository by "fix: group the alternatives of an account specifier
   part"). *)
Open Scope string_scope.
Definition oracle_ab (t : string) : option (list re) :=
  if String.eqb t "W" then Some [lit "W"]
  else if String.eqb t "a|b" then Some [Chr 97; Chr 98]
  else None.
Definition acct_W (n : string) (id : N) : account := {| a_id := id; a_wallet := "W"; a_name := n; a_locked := false |}.
Close Scope string_scope.

(* what the specifier W/a|b says: wallet W, account a or b *)
Definition spec_W_a_or_b : re := Seq (lit "W") (Seq slash (Alt (Chr 97) (Chr 98))).
(* ^W/a|b$ as the ungrouped text reads *)
Definition ungrouped_W_a_or_b : re := textual_concat [[Bol]; [lit "W"]; [slash]; [Chr 97; Chr 98]; [Eol]].

Lemma ungrouped_alternation_escapes :
  search ungrouped_W_a_or_b (codes "W/ax") = true /\
  search ungrouped_W_a_or_b (codes "zzxb") = true /\
  ~ full_lang spec_W_a_or_b (codes "W/ax") /\
  ~ full_lang spec_W_a_or_b (codes "zzxb").
Proof.
  repeat split; try (vm_compute; reflexivity).
  - intro H. apply full_match_spec in H. vm_compute in H. discriminate.
  - intro H. apply full_match_spec in H. vm_compute in H. discriminate.
Qed.

(* the managers as they are now *)
Lemma grouped_alternation_example :
  map (fun n => dirk_admits (dirk_patterns oracle_ab ["W/a|b"%string]) (acct_W n 1))
      ["a"; "b"; "ax"; "xb"; "c"]%string = [true; true; false; false; false] /\
  map (fun n => wallet_admits (wallet_patterns oracle_ab ["W/a|b"%string]) (acct_W n 1))
      ["a"; "b"; "ax"; "xb"; "c"]%string = [true; true; false; false; false].
Proof. split; vm_compute; reflexivity. Qed.

(* ---------------------------------------------------------------------------------------------
   The enclosing cannot be decided from how the text begins and ends: a part whose alternatives are
   each a group of their own -- (val-a)|(val-b) begins with "(" and ends with ")" -- still has its
   alternation at top level.  Spliced without the enclosing (?: ) the text ^wallet1/(val-a)|(val-b)$
   reads (^wallet1/(val-a))|((val-b)$).  (Seeded change C13-2: an "already grouped" shortcut in
   utils.GroupAlternatives.) *)
Open Scope string_scope.
Definition groups_text : string := "(val-a)|(val-b)".
Definition oracle_groups (t : string) : option (list re) :=
  if String.eqb t "wallet1" then Some [lit "wallet1"]
  else if String.eqb t groups_text then Some [lit "val-a"; lit "val-b"]
  else None.
Definition acct_wallet1 (n : string) (id : N) : account :=
  {| a_id := id; a_wallet := "wallet1"; a_name := n; a_locked := false |}.
Close Scope string_scope.

Definition spec_groups : re := Seq (lit "wallet1") (Seq slash (Alt (lit "val-a") (lit "val-b"))).
Definition unenclosed_groups : re :=
  textual_concat [[Bol]; [lit "wallet1"]; [slash]; [lit "val-a"; lit "val-b"]; [Eol]].

Lemma group_per_alternative_escapes :
  has_bar groups_text = true /\
  (exists rest, groups_text = String "(" rest) /\ (exists front, groups_text = (front ++ ")")%string) /\
  search unenclosed_groups (codes "wallet1/val-a-retired") = true /\
  search unenclosed_groups (codes "wallet1/old-val-b") = true /\
  ~ full_lang spec_groups (codes "wallet1/val-a-retired") /\
  ~ full_lang spec_groups (codes "wallet1/old-val-b").
Proof.
  split; [vm_compute; reflexivity|].
  split; [eexists; reflexivity|].
  split; [exists "(val-a)|(val-b"%string; reflexivity|].
  repeat split; try (vm_compute; reflexivity).
  - intro H. apply full_match_spec in H. vm_compute in H. discriminate.
  - intro H. apply full_match_spec in H. vm_compute in H. discriminate.
Qed.

(* the managers as they are: the part is enclosed because it contains `|`, whatever it begins and
   ends with *)
Lemma group_text_by_bar_only : forall text,
  has_bar text = true -> group_text text = ("(?:" ++ text ++ ")")%string.
Proof. intros text H. unfold group_text. rewrite H. reflexivity. Qed.

Lemma group_by_bar_only : forall text alternatives,
  has_bar text = true -> group text alternatives = [alts alternatives].
Proof. intros text alternatives H. unfold group. rewrite H. reflexivity. Qed.

Lemma group_per_alternative_example :
  map (fun n => dirk_admits (dirk_patterns oracle_groups ["wallet1/(val-a)|(val-b)"%string]) (acct_wallet1 n 1))
      ["val-a"; "val-b"; "val-a-retired"; "old-val-b"; "val-c"]%string = [true; true; false; false; false] /\
  map (fun n => wallet_admits (wallet_patterns oracle_groups ["wallet1/(val-a)|(val-b)"%string]) (acct_wallet1 n 1))
      ["val-a"; "val-b"; "val-a-retired"; "old-val-b"; "val-c"]%string = [true; true; false; false; false].
Proof. split; vm_compute; reflexivity. Qed.
