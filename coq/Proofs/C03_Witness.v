(* C03 — concrete histories of the controller model: non-vacuity examples for the theorems and the
   two witnesses showing that "no slot twice" needs the timeliness of the epoch ticker and of the
   epoch-preparation job. *)
From Verif Require Import Lib.Base Model.C03_ChainTime Model.C03_Controller Model.C03_Spec
     Proofs.C03_ChainTime Proofs.C03_Table Proofs.C03_Sched Proofs.C03_Hist.
Open Scope N_scope.

Definition wct : ctparams := {| ct_genesis := 1600000000000000000%Z; ct_dur := 12000000000%Z; ct_spe := 4 |}.
Definition wcfg : config :=
  {| c_ct := wct; c_att_delay := 4000000000%Z; c_prop_delay := 0%Z; c_ft_att := false; c_period := 8;
     c_spec_altair := None; c_have_agg := false |}.

Definition wenv : env :=
  {| e_att := [(2, [ {| ad_slot := 9; ad_val := 1; ad_comm := 0; ad_vci := 5 |} ])];
     e_prop := [(2, [ {| pd_slot := 9; pd_val := 1 |} ])];
     e_sync := []; e_vals := true |}.

(* The epoch ticker of epoch 2 runs one slot late (in slot 9 instead of slot 8), after a change of
   the current dependent root had already scheduled the epoch's proposals and the proposal of
   slot 9 had run: the tick schedules slot 9 again (notCurrentSlot = false) and it runs twice. *)
Definition w_late_tick : list op :=
  [Advance 7; SetEnv wenv; Start; Advance 8; Head 8 1 2; Head 8 1 3; Advance 9;
   Fire (JProp 9) 8; Tick; Fire (JProp 9) 8].

Lemma w_late_tick_twice :
  map fst (st_prop_log (run false wcfg (init_state false 0) w_late_tick)) = [9; 9].
Proof. vm_compute. reflexivity. Qed.

(* "Prepare for epoch 2" runs inside epoch 2 (slot 9), after a change of the current dependent
   root in epoch 1 had already scheduled epoch 2's attestations (before the ticker created the
   preparation job) and the attestation of slot 9 had run: the late preparation schedules slot 9
   again (notCurrentSlot = false) and it runs twice. *)
Definition w_late_prepare : list op :=
  [Advance 3; SetEnv wenv; Start; Advance 4; Head 4 1 2; Head 4 1 3; Tick; Advance 9;
   Fire (JAtt 9) 0; Fire (JPrep 2) 0; Fire (JAtt 9) 0].

Lemma w_late_prepare_twice :
  map fst (st_att_log (run false wcfg (init_state false 0) w_late_prepare)) = [9; 9].
Proof. vm_compute. reflexivity. Qed.

(* the same histories with the late job run in time are disciplined and run each slot once *)
Definition w_timely : list op :=
  [Advance 3; SetEnv wenv; Start; Advance 4; Head 4 1 2; Head 4 1 3; Tick; Advance 6; Fire (JPrep 2) 0;
   Advance 8; Tick; Head 8 3 4; Head 8 3 5; Advance 9; Fire (JEarly 9) 8; Fire (JProp 9) 8; Fire (JAtt 9) 0;
   Tick; Fire (JAtt 9) 0].

Lemma w_timely_once :
  let st := run false wcfg (init_state false 0) w_timely in
  map fst (st_att_log st) = [9] /\ map fst (st_prop_log st) = [9].
Proof. vm_compute. split; reflexivity. Qed.

Lemma wcfg_spe : 0 < ct_spe (c_ct wcfg).
Proof. reflexivity. Qed.

Lemma w_timely_ok : hist_ok false wcfg 0 (init_state false 0) w_timely.
Proof. apply hist_ok_b_sound; [exact wcfg_spe|]. vm_compute. reflexivity. Qed.

Lemma wcfg_bounded0 : bounded wcfg 0.
Proof. unfold bounded. vm_compute. reflexivity. Qed.
