(* C06 — partial failures of the accounts' signers.

   An environment of account methods [E'] "fails more often" than [E] when every single-signature
   call that [E'] answers is answered by [E] with the same signature, and every multi-signature
   call that [E'] answers is answered by [E] with the same entries except that [E'] may have no
   signature (nil) where [E] has one.  Then every request that the service answers in [E'] it also
   answers in [E], and the two results agree position by position except that the result in [E']
   may have the zero signature where the other has a signature.  Nothing else: whatever the service
   does about a failure, it never moves a signature to another position or signs another message. *)
From Verif Require Import Lib.Base Lib.Ssz Model.C06_Signer Proofs.C06 Proofs.C06_Spec.
From Coq Require Import Lia Arith.

Local Open Scope N_scope.

Lemma Forall2_len {A B} {R : A -> B -> Prop} {l : list A} {l' : list B} : Forall2 R l l' -> length l = length l'.
Proof. induction 1; cbn; congruence. Qed.

Section Refine.
  Variable H : N -> N -> N.
  Variable sig : Type.
  Variable zero_sig : sig.

  (* entries of a multi-signature answer *)
  Definition entry_le (o o' : option sig) : Prop := o' = o \/ o' = None.
  (* returned signatures *)
  Definition sig_le (s s' : sig) : Prop := s' = s \/ s' = zero_sig.

  Record env_le (E E' : env sig) : Prop := {
    le_sign : forall a x s, e_sign E' a x = Some s -> e_sign E a x = Some s;
    le_generic : forall a r d s, e_generic E' a r d = Some s -> e_generic E a r d = Some s;
    le_att : forall a x d s, e_att E' a x d = Some s -> e_att E a x d = Some s;
    le_prop : forall a x d s, e_prop E' a x d = Some s -> e_prop E a x d = Some s;
    le_multi_generic : forall a0 accs roots d l',
      e_multi_generic E' a0 accs roots d = Some l' ->
      exists l, e_multi_generic E a0 accs roots d = Some l /\ Forall2 entry_le l l';
    le_multi_att : forall a0 accs idxs shared d l',
      e_multi_att E' a0 accs idxs shared d = Some l' ->
      exists l, e_multi_att E a0 accs idxs shared d = Some l /\ Forall2 entry_le l l'
  }.

  Variables E E' : env sig.
  Hypothesis LE : env_le E E'.

  Lemma sig_le_refl s : sig_le s s.
  Proof. left; reflexivity. Qed.

  Lemma sigs_le_refl (l : list sig) : Forall2 sig_le l l.
  Proof. induction l; constructor; auto using sig_le_refl. Qed.

  Lemma sign_one_le a root domain s :
    sign_one H sig E' a root domain = Ok s -> sign_one H sig E a root domain = Ok s.
  Proof.
    unfold sign_one. destruct (a_prot a).
    - destruct (e_generic E' a root domain) as [s'|] eqn:Hg; [|discriminate].
      rewrite (le_generic _ _ LE _ _ _ _ Hg). auto.
    - destruct (a_signer a); [|discriminate].
      destruct (e_sign E' a _) as [s'|] eqn:Hg; [|discriminate].
      rewrite (le_sign _ _ LE _ _ _ Hg). auto.
  Qed.

  Lemma sign_each_le items domain l :
    sign_each H sig E' items domain = Ok l -> sign_each H sig E items domain = Ok l.
  Proof.
    revert l; induction items as [|[a root] items IH]; intros l; cbn [sign_each]; [auto|].
    destruct (a_signer a); [|discriminate].
    destruct (e_sign E' a _) as [s'|] eqn:Hg; [|discriminate].
    rewrite (le_sign _ _ LE _ _ _ Hg).
    destruct (sign_each H sig E' items domain) as [l'| |]; try discriminate.
    rewrite (IH _ eq_refl). auto.
  Qed.

  Lemma copy_sigs_le n l l' r' :
    Forall2 entry_le l l' ->
    copy_sigs sig zero_sig n l' = Ok r' ->
    exists r, copy_sigs sig zero_sig n l = Ok r /\ Forall2 sig_le r r'.
  Proof.
    intros Hl. unfold copy_sigs. rewrite (Forall2_len Hl).
    destruct (Nat.ltb n (length l')); [discriminate|].
    intro Hr; injection Hr as <-. eexists; split; [reflexivity|].
    apply Forall2_app; [|apply sigs_le_refl].
    induction Hl as [|o o' l l' Ho Hl IH]; cbn [map]; constructor; [|exact IH].
    destruct Ho as [-> | ->]; [left; reflexivity | right; reflexivity].
  Qed.

  Lemma sign_roots_multi_le items domain l' :
    sign_roots_multi H sig zero_sig E' items domain = Ok l' ->
    exists l, sign_roots_multi H sig zero_sig E items domain = Ok l /\ Forall2 sig_le l l'.
  Proof.
    unfold sign_roots_multi. destruct items as [|[a0 r0] items'] eqn:Hitems; [discriminate|].
    rewrite <- Hitems. clear Hitems. destruct (a_multi a0).
    - destruct (e_multi_generic E' a0 _ _ domain) as [sg'|] eqn:Hm; [|discriminate].
      destruct (le_multi_generic _ _ LE _ _ _ _ _ Hm) as (sg & -> & Hsg).
      apply copy_sigs_le. exact Hsg.
    - intro Hl. apply sign_each_le in Hl. rewrite Hl. eexists; split; [reflexivity | apply sigs_le_refl].
  Qed.

  Lemma upd_nth_le i v v' (s s' : list sig) :
    sig_le v v' -> Forall2 sig_le s s' -> Forall2 sig_le (upd_nth i v s) (upd_nth i v' s').
  Proof.
    intros Hv Hs. revert i; induction Hs as [|x x' s s' Hx Hs IH]; intros [|i]; cbn [upd_nth]; constructor; auto.
  Qed.

  Lemma scatter_le idx : forall vals vals' s s',
    Forall2 sig_le vals vals' -> Forall2 sig_le s s' ->
    Forall2 sig_le (scatter sig idx vals s) (scatter sig idx vals' s').
  Proof.
    induction idx as [|i idx IH]; intros vals vals' s s' Hv Hs; [exact Hs|].
    destruct Hv as [|v v' vals vals' Hv Hvals]; cbn [scatter]; [exact Hs|].
    apply IH; [exact Hvals | apply upd_nth_le; assumption].
  Qed.

  Lemma sign_split_le {A} (g g' : list (account * A) -> res (list sig)) items l' :
    (forall x r', g' x = Ok r' -> exists r, g x = Ok r /\ Forall2 sig_le r r') ->
    sign_split sig zero_sig g' items = Ok l' ->
    exists l, sign_split sig zero_sig g items = Ok l /\ Forall2 sig_le l l'.
  Proof.
    intro Hg. unfold sign_split.
    destruct (split_from 0 items) as [[o om] [d dm]].
    set (s0 := repeat zero_sig (length items)).
    assert (H0 : Forall2 sig_le s0 s0) by apply sigs_le_refl.
    assert (Hfirst : forall s1',
      match o with [] => Ok s0 | _ => match g' o with Ok l => Ok (scatter sig om l s0) | Err => Err | Panic => Panic end end = Ok s1' ->
      exists s1, match o with [] => Ok s0 | _ => match g o with Ok l => Ok (scatter sig om l s0) | Err => Err | Panic => Panic end end = Ok s1
                 /\ Forall2 sig_le s1 s1').
    { intros s1'. destruct o as [|o1 o'].
      - intro Hs; injection Hs as <-. eexists; split; [reflexivity | exact H0].
      - destruct (g' (o1 :: o')) as [lo'| |] eqn:Ho; try discriminate.
        destruct (Hg _ _ Ho) as (lo & -> & Hlo). intro Hs; injection Hs as <-.
        eexists; split; [reflexivity|]. apply scatter_le; assumption. }
    destruct (match o with [] => Ok s0 | _ => match g' o with Ok l => Ok (scatter sig om l s0) | Err => Err | Panic => Panic end end)
      as [s1'| |] eqn:H1; try discriminate.
    destruct (Hfirst _ eq_refl) as (s1 & -> & Hs1).
    destruct d as [|d1 d'].
    - intro Hs; injection Hs as <-. eexists; split; [reflexivity | exact Hs1].
    - destruct (g' (d1 :: d')) as [ld'| |] eqn:Hd; try discriminate.
      destruct (Hg _ _ Hd) as (ld & -> & Hld). intro Hs; injection Hs as <-.
      eexists; split; [reflexivity|]. apply scatter_le; assumption.
  Qed.

  Lemma sign_roots_by_account_type_le accs roots domain l' :
    sign_roots_by_account_type H sig zero_sig E' accs roots domain = Ok l' ->
    exists l, sign_roots_by_account_type H sig zero_sig E accs roots domain = Ok l /\ Forall2 sig_le l l'.
  Proof.
    unfold sign_roots_by_account_type. destruct (negb (Nat.eqb (length accs) (length roots))); [discriminate|].
    apply sign_split_le. intros x r'. apply sign_roots_multi_le.
  Qed.

  Variable P : provider.
  Variable Sv : service.

  Lemma sign_attestation_le a d s :
    sign_attestation H sig P E' Sv a d = Ok s -> sign_attestation H sig P E Sv a d = Ok s.
  Proof.
    unfold sign_attestation. destruct (p_domain P _ _) as [domain|]; [|discriminate].
    destruct (a_prot a).
    - destruct (e_att E' a d domain) as [s'|] eqn:Hg; [|discriminate].
      rewrite (le_att _ _ LE _ _ _ _ Hg). auto.
    - apply sign_one_le.
  Qed.

  Lemma sign_attestation_each_le items shared l :
    sign_attestation_each H sig P E' Sv items shared = Ok l -> sign_attestation_each H sig P E Sv items shared = Ok l.
  Proof.
    revert l; induction items as [|[a idx] items IH]; intros l; cbn [sign_attestation_each]; [auto|].
    destruct (sign_attestation H sig P E' Sv a _) as [s| |] eqn:Hs; try discriminate.
    rewrite (sign_attestation_le _ _ _ Hs).
    destruct (sign_attestation_each H sig P E' Sv items shared) as [l'| |]; try discriminate.
    rewrite (IH _ eq_refl). auto.
  Qed.

  Lemma sign_attestations_group_le items shared domain l' :
    sign_attestations_group H sig zero_sig P E' Sv items shared domain = Ok l' ->
    exists l, sign_attestations_group H sig zero_sig P E Sv items shared domain = Ok l /\ Forall2 sig_le l l'.
  Proof.
    unfold sign_attestations_group. destruct items as [|[a0 i0] items'].
    - intro Hl; injection Hl as <-. eexists; split; [reflexivity | constructor].
    - remember ((a0, i0) :: items') as items eqn:Hitems. clear Hitems. destruct (a_multi a0).
      + destruct (e_multi_att E' a0 _ _ shared domain) as [sg'|] eqn:Hm; [|discriminate].
        destruct (le_multi_att _ _ LE _ _ _ _ _ _ Hm) as (sg & -> & Hsg).
        apply copy_sigs_le. exact Hsg.
      + intro Hl. apply sign_attestation_each_le in Hl. rewrite Hl. eexists; split; [reflexivity | apply sigs_le_refl].
  Qed.

  Lemma one_le (r r' : res sig) :
    (forall s, r' = Ok s -> r = Ok s) ->
    forall l', one sig r' = Ok l' -> exists l, one sig r = Ok l /\ Forall2 sig_le l l'.
  Proof.
    intros Hr l'. destruct r' as [s| |]; cbn [one]; try discriminate.
    rewrite (Hr s eq_refl). intro Hl; injection Hl as <-. eexists; split; [reflexivity | apply sigs_le_refl].
  Qed.

  (* Every request answered in the environment that fails more often is answered in the other,
     with the same signatures except for zero signatures. *)
  Lemma run_le q l' :
    run H sig zero_sig P E' Sv q = Ok l' ->
    exists l, run H sig zero_sig P E Sv q = Ok l /\ Forall2 sig_le l l'.
  Proof.
    destruct q; cbn [run].
    - apply one_le. intro s. apply sign_attestation_le.
    - unfold sign_attestations. destruct accs as [|a0 accs'] eqn:Haccs; [discriminate|]. rewrite <- Haccs.
      destruct (p_domain P _ _) as [domain|]; [|discriminate].
      destruct (Nat.ltb (length idxs) (length accs)); [discriminate|].
      apply sign_split_le. intros x r'. apply sign_attestations_group_le.
    - apply one_le. intro s. unfold sign_proposal.
      destruct (p_domain P _ _) as [domain|]; [|discriminate].
      destruct (a_prot a).
      + destruct (e_prop E' a h domain) as [s'|] eqn:Hg; [|discriminate].
        rewrite (le_prop _ _ LE _ _ _ _ Hg). auto.
      + apply sign_one_le.
    - apply one_le. intro s. unfold sign_randao.
      destruct (p_domain P _ _) as [domain|]; [|discriminate]. apply sign_one_le.
    - unfold sign_slot_selections. destruct (p_domain P _ _) as [domain|]; [|discriminate].
      apply sign_roots_by_account_type_le.
    - unfold sign_sync_selections. destruct (s_sync_selection Sv) as [dt|]; [|discriminate].
      destruct (p_domain P _ _) as [domain|]; [|discriminate].
      destruct (Nat.ltb (length subs) (length accs)); [discriminate|].
      apply sign_roots_by_account_type_le.
    - apply one_le. intro s. unfold sign_aggregate_and_proof.
      destruct (p_domain P _ _) as [domain|]; [|discriminate]. apply sign_one_le.
    - unfold sign_sync_roots. destruct (s_sync Sv) as [dt|]; [|discriminate].
      destruct (p_domain P _ _) as [domain|]; [|discriminate].
      apply sign_roots_by_account_type_le.
    - unfold sign_contributions. destruct (s_contribution Sv) as [dt|]; [|discriminate].
      destruct (negb (Nat.eqb (length accs) (length cps))); [discriminate|].
      destruct cps as [|cp0 cps']; [discriminate|].
      destruct (negb (forallb _ _)); [discriminate|].
      destruct (p_domain P _ _) as [domain|]; [|discriminate].
      apply sign_roots_by_account_type_le.
    - apply one_le. intro s. unfold sign_registration.
      destruct reg as [r|]; [|discriminate]. destruct (s_builder Sv) as [dt|]; [|discriminate].
      destruct (p_genesis P dt) as [domain|]; [|discriminate]. apply sign_one_le.
  Qed.
End Refine.

(* The remote signer with transient failures fails more often than the documented accounts. *)
Section Flaky.
  Variable H : N -> N -> N.
  Variable sig : Type.
  Variable zero_sig : sig.
  Variable sign : N -> N -> sig.
  Variables bf be sf : account -> bool.

  Lemma flaky_single_le a r s : flaky_single sig sign sf a r = Some s -> honest_one sig sign a r = Some s.
  Proof. unfold flaky_single, honest_one. destruct (a_fail a); cbn [orb]; [discriminate|]. destruct (sf a); [discriminate | auto]. Qed.

  Lemma flaky_members_le {A} (g : A -> N) (items : list (account * A)) :
    Forall2 (entry_le sig)
      (map (fun '(a, x) => honest_one sig sign a (g x)) items)
      (map (fun '(a, x) => flaky_member sig sign bf a (g x)) items).
  Proof.
    induction items as [|[a x] items IH]; cbn [map]; constructor; [|exact IH].
    unfold entry_le, flaky_member, honest_one. destruct (a_fail a); cbn [orb]; [left; reflexivity|].
    destruct (bf a); [right | left]; reflexivity.
  Qed.

  Lemma honest_flaky_le : env_le sig (honest H sig sign) (honest_flaky H sig sign bf be sf).
  Proof.
    constructor; cbn [honest honest_flaky e_sign e_generic e_att e_prop e_multi_generic e_multi_att].
    - intros a x s. apply flaky_single_le.
    - intros a r d s. apply flaky_single_le.
    - intros a x d s. apply flaky_single_le.
    - intros a x d s. apply flaky_single_le.
    - intros a0 accs roots d l'. destruct (be a0); [discriminate|]. intro Hl; injection Hl as <-.
      eexists; split; [reflexivity|].
      exact (flaky_members_le (fun root => compute_signing_root H root d) (combine accs roots)).
    - intros a0 accs idxs shared d l'. destruct (be a0); [discriminate|]. intro Hl; injection Hl as <-.
      eexists; split; [reflexivity|].
      exact (flaky_members_le (fun idx => compute_signing_root H (htr_att_data H (att_with_index shared idx)) d) (combine accs idxs)).
  Qed.

  Lemma Forall2_nth {A B} (R : A -> B -> Prop) l l' :
    Forall2 R l l' -> forall i y, nth_error l' i = Some y -> exists x, nth_error l i = Some x /\ R x y.
  Proof.
    induction 1 as [|x y0 l l' Hxy Hl IH]; intros [|i] y; cbn [nth_error]; try discriminate.
    - intro Hy; injection Hy as <-. eauto.
    - apply IH.
  Qed.

  Variable c : chain.

  (* every signature returned while the signer fails here and there: one per (account, message),
     in request order; the i-th is the zero signature or the i-th account's signature over the
     specification's signing root of the i-th message *)
  Lemma run_flaky_spec q sigs :
    req_wf c q ->
    run H sig zero_sig (spec_provider H c) (honest_flaky H sig sign bf be sf) (spec_service c) q = Ok sigs ->
    length sigs = length (request_items q) /\
    forall i a m s, nth_error (request_items q) i = Some (a, m) -> nth_error sigs i = Some s ->
      s = zero_sig \/ s = sign (a_key a) (spec_signing_root H c m).
  Proof.
    intros Hatt Hrun.
    destruct (run_le H sig zero_sig _ _ honest_flaky_le _ _ _ _ Hrun) as (l & Hl & Hle).
    pose proof (run_spec H sig zero_sig sign c q l Hatt Hl) as Hspec. unfold spec_sig in Hspec.
    split.
    - rewrite <- (Forall2_len Hle), Hspec, map_length. reflexivity.
    - intros i a m s Hi Hs.
      destruct (Forall2_nth _ _ _ Hle _ _ Hs) as (x & Hx & Hxs).
      rewrite Hspec, nth_error_map, Hi in Hx. cbn in Hx. injection Hx as <-.
      destruct Hxs as [-> | ->]; [|left; reflexivity].
      unfold expected. cbn [fst snd]. destruct (a_fail a); [left | right]; reflexivity.
  Qed.
End Flaky.

(* Sessions in which every request comes with the accounts' signers as they answer during it. *)
Section SessionEnvFacts.
  Variable H : N -> N -> N.
  Variable sig : Type.
  Variable zero_sig : sig.

  Lemma run_session_env_map Sv qs :
    run_session_env H sig zero_sig Sv qs
    = map (fun peq => run H sig zero_sig (fst (fst peq)) (snd (fst peq)) Sv (snd peq)) qs.
  Proof. induction qs as [|peq r IH]; cbn [run_session_env handle_env map]; [reflexivity | rewrite IH; reflexivity]. Qed.

  Lemma run_session_env_nth Sv qs k P E q :
    nth_error qs k = Some (P, E, q) ->
    nth_error (run_session_env H sig zero_sig Sv qs) k = Some (run H sig zero_sig P E Sv q).
  Proof. intro Hk. rewrite run_session_env_map, nth_error_map, Hk. reflexivity. Qed.

  (* a session with one environment throughout is a session of the first kind *)
  Lemma run_session_is_env E Sv qs :
    run_session H sig zero_sig E Sv qs
    = run_session_env H sig zero_sig Sv (map (fun pq => (fst pq, E, snd pq)) qs).
  Proof. rewrite run_session_map, run_session_env_map, map_map. reflexivity. Qed.
End SessionEnvFacts.
