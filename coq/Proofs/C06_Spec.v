(* C06 — the signer model against the specification's signing roots (Lib/Ssz.v, Model/C06_Signer.v
   Section Spec): service configured from a chain spec carrying the specification's constants,
   domain provider of a node of that chain, accounts behaving as documented. *)
From Verif Require Import Lib.Base Lib.Ssz Model.C06_Signer Proofs.C06.
From Coq Require Import Lia Arith.

Local Open Scope N_scope.

(* The only request-side hypothesis: attestation data is for its slot's epoch (the attester refuses
   anything else, property C01; the specification's get_attestation_signature takes the fork of
   data.target.epoch, the code that of slot / SLOTS_PER_EPOCH). *)
Definition req_wf (c : chain) (q : request) : Prop :=
  match q with
  | ReqAttestation _ d => ad_target_epoch d = ad_slot d / ch_spe c
  | ReqAttestations _ slot _ _ _ _ te _ => te = slot / ch_spe c
  | _ => True
  end.

Section SpecProofs.
  Variable H : N -> N -> N.
  Variable sig : Type.
  Variable zero_sig : sig.
  Variable sign : N -> N -> sig.
  Variable c : chain.

  Local Notation E := (honest H sig sign).
  Local Notation P := (spec_provider H c).
  Local Notation Sv := (spec_service c).
  Local Notation exp := (expected sig zero_sig sign).

  Definition spec_sig (it : account * message) : sig := exp (fst it) (spec_signing_root H c (snd it)).

  Ltac spec_norm :=
    unfold spec_sig, spec_signing_root, spec_domain, spec_object_root, spec_epoch, spec_domain_type,
           compute_epoch_at_slot, epoch_of, builder_domain, att_item_sig, att_with_index;
    cbn [fst snd s_spe s_proposer s_attester s_randao s_selection s_aggregate spec_service
         ad_slot ad_index ad_block_root ad_source_epoch ad_source_root ad_target_epoch ad_target_root].

  Theorem run_spec q sigs :
    req_wf c q ->
    run H sig zero_sig P E Sv q = Ok sigs ->
    sigs = map spec_sig (request_items q).
  Proof.
    intros Hwf Hrun. destruct q as [a d|accs slot idxs bbr se sr te tr|a h|a slot|accs slot|accs slot subs|a slot root|accs ep root|accs cps|a reg];
      cbn [run] in Hrun; cbn [request_items].
    - (* attestation *)
      unfold one in Hrun. destruct (sign_attestation _ _ _ _ _ _ _) as [s| |] eqn:Hs; try discriminate.
      injection Hrun as <-. apply sign_attestation_ok in Hs as (domain & Hd & -> & Hf).
      cbn [p_domain p_genesis spec_provider] in Hd; try rewrite N.eqb_refl in Hd. injection Hd as <-. cbn [map]. unfold spec_sig. cbn [fst snd]. unfold expected. rewrite Hf.
      unfold spec_signing_root, spec_domain, spec_object_root, spec_epoch, spec_domain_type.
      cbn [req_wf] in Hwf. rewrite Hwf. reflexivity.
    - (* attestations *)
      apply sign_attestations_ok in Hrun as (domain & Hd & _ & _ & ->).
      cbn [p_domain p_genesis spec_provider] in Hd; try rewrite N.eqb_refl in Hd. injection Hd as <-. cbn [req_wf] in Hwf. subst te. rewrite map_map. apply map_ext. intros [a idx]. spec_norm. reflexivity.
    - (* proposal *)
      unfold one in Hrun. destruct (sign_proposal _ _ _ _ _ _ _) as [s| |] eqn:Hs; try discriminate.
      injection Hrun as <-. apply sign_proposal_ok in Hs as (domain & Hd & -> & Hf).
      cbn [p_domain p_genesis spec_provider] in Hd; try rewrite N.eqb_refl in Hd. injection Hd as <-. cbn [map]. unfold spec_sig. cbn [fst snd]. unfold expected. rewrite Hf. spec_norm. reflexivity.
    - (* randao *)
      unfold one in Hrun. destruct (sign_randao _ _ _ _ _ _ _) as [s| |] eqn:Hs; try discriminate.
      injection Hrun as <-. apply sign_randao_ok in Hs as (domain & Hd & -> & Hf).
      cbn [p_domain p_genesis spec_provider] in Hd; try rewrite N.eqb_refl in Hd. injection Hd as <-. cbn [map]. unfold spec_sig. cbn [fst snd]. unfold expected. rewrite Hf. spec_norm. reflexivity.
    - (* slot selections *)
      apply sign_slot_selections_ok in Hrun as (domain & Hd & ->).
      cbn [p_domain p_genesis spec_provider] in Hd; try rewrite N.eqb_refl in Hd. injection Hd as <-. rewrite map_map. apply map_ext. intro a. spec_norm. reflexivity.
    - (* sync committee selections *)
      apply sign_sync_selections_ok in Hrun as (dt & domain & Hdt & Hd & _ & ->).
      cbn [spec_service s_sync s_sync_selection s_contribution s_builder] in Hdt. injection Hdt as <-. cbn [p_domain p_genesis spec_provider] in Hd; try rewrite N.eqb_refl in Hd. injection Hd as <-.
      rewrite map_map. apply map_ext. intros [a sub]. spec_norm. reflexivity.
    - (* aggregate and proof *)
      unfold one in Hrun. destruct (sign_aggregate_and_proof _ _ _ _ _ _ _ _) as [s| |] eqn:Hs; try discriminate.
      injection Hrun as <-. apply sign_aggregate_and_proof_ok in Hs as (domain & Hd & -> & Hf).
      cbn [p_domain p_genesis spec_provider] in Hd; try rewrite N.eqb_refl in Hd. injection Hd as <-. cbn [map]. unfold spec_sig. cbn [fst snd]. unfold expected. rewrite Hf. spec_norm. reflexivity.
    - (* sync committee messages *)
      apply sign_sync_roots_ok in Hrun as (dt & domain & Hdt & Hd & ->).
      cbn [spec_service s_sync s_sync_selection s_contribution s_builder] in Hdt. injection Hdt as <-. cbn [p_domain p_genesis spec_provider] in Hd; try rewrite N.eqb_refl in Hd. injection Hd as <-. rewrite map_map. apply map_ext. intro a. spec_norm. reflexivity.
    - (* contribution and proofs *)
      apply sign_contributions_ok in Hrun as (dt & cp0 & domain & Hdt & Hhd & Hlen & Hall & Hd & ->).
      cbn [spec_service s_sync s_sync_selection s_contribution s_builder] in Hdt. injection Hdt as <-. cbn [p_domain p_genesis spec_provider] in Hd; try rewrite N.eqb_refl in Hd. injection Hd as <-.
      rewrite map_map. apply map_ext_in. intros [a cp] Hin. apply in_combine_r in Hin.
      rewrite Forall_forall in Hall. specialize (Hall _ Hin).
      unfold spec_sig. cbn [fst snd]. unfold spec_signing_root, spec_domain, spec_object_root, spec_epoch, spec_domain_type.
      unfold compute_epoch_at_slot. unfold epoch_of in Hall. cbn [s_spe spec_service] in Hall. rewrite Hall. reflexivity.
    - (* registration *)
      unfold one in Hrun. destruct (sign_registration _ _ _ _ _ _ _) as [s| |] eqn:Hs; try discriminate.
      injection Hrun as <-. apply sign_registration_ok in Hs as (r & dt & domain & -> & Hdt & Hd & -> & Hf).
      cbn [spec_service s_sync s_sync_selection s_contribution s_builder] in Hdt. injection Hdt as <-. cbn [p_domain p_genesis spec_provider] in Hd; try rewrite N.eqb_refl in Hd. injection Hd as <-.
      cbn [map]. unfold spec_sig. cbn [fst snd]. unfold expected. rewrite Hf. spec_norm. reflexivity.
  Qed.

  Corollary run_spec_nth q sigs i a m :
    req_wf c q ->
    run H sig zero_sig P E Sv q = Ok sigs ->
    nth_error (request_items q) i = Some (a, m) ->
    nth_error sigs i = Some (exp a (spec_signing_root H c m)).
  Proof.
    intros Hwf Hrun Hi. rewrite (run_spec q sigs Hwf Hrun). rewrite nth_error_map, Hi. reflexivity.
  Qed.

  Corollary run_spec_length q sigs :
    req_wf c q -> run H sig zero_sig P E Sv q = Ok sigs -> length sigs = length (request_items q).
  Proof. intros Hwf Hrun. rewrite (run_spec q sigs Hwf Hrun). apply map_length. Qed.

  (* ---------------------------------------------------------------------------------------- *)
  (* Kind by kind, with the specification's domain type, epoch and object root spelled out.     *)

  Local Notation csr := (compute_signing_root H).
  Local Notation spe := (ch_spe c).
  Local Notation RUN := (run H sig zero_sig P E Sv).

  Lemma attestation_spec a d sigs :
    ad_target_epoch d = ad_slot d / spe ->
    RUN (ReqAttestation a d) = Ok sigs ->
    sigs = [sign (a_key a) (csr (htr_att_data H d) (get_domain H c DOMAIN_BEACON_ATTESTER (ad_target_epoch d)))]
    /\ a_fail a = false.
  Proof.
    intros Hwf Hrun. cbn [run] in Hrun. unfold one in Hrun.
    destruct (sign_attestation _ _ _ _ _ _ _) as [s| |] eqn:Hs; try discriminate.
    injection Hrun as <-. apply sign_attestation_ok in Hs as (domain & Hd & -> & Hf).
    cbn [p_domain spec_provider] in Hd. injection Hd as <-. split; [|exact Hf]. spec_norm. rewrite Hwf. reflexivity.
  Qed.

  Lemma attestations_spec accs slot idxs bbr se sr te tr sigs :
    te = slot / spe ->
    RUN (ReqAttestations accs slot idxs bbr se sr te tr) = Ok sigs ->
    sigs = map (fun it => exp (fst it) (csr (htr_att_data H (AttData slot (snd it) bbr se sr te tr))
                                            (get_domain H c DOMAIN_BEACON_ATTESTER te)))
               (combine accs idxs).
  Proof.
    intros Hwf Hrun. cbn [run] in Hrun. apply sign_attestations_ok in Hrun as (domain & Hd & _ & _ & ->).
    cbn [p_domain spec_provider] in Hd. injection Hd as <-. subst te. apply map_ext. intros [a idx]. spec_norm. reflexivity.
  Qed.

  Lemma proposal_spec a h sigs :
    RUN (ReqProposal a h) = Ok sigs ->
    sigs = [sign (a_key a) (csr (htr_block_header H h) (get_domain H c DOMAIN_BEACON_PROPOSER (bh_slot h / spe)))]
    /\ a_fail a = false.
  Proof.
    intros Hrun. cbn [run] in Hrun. unfold one in Hrun.
    destruct (sign_proposal _ _ _ _ _ _ _) as [s| |] eqn:Hs; try discriminate.
    injection Hrun as <-. apply sign_proposal_ok in Hs as (domain & Hd & -> & Hf).
    cbn [p_domain spec_provider] in Hd. injection Hd as <-. split; [|exact Hf]. spec_norm. reflexivity.
  Qed.

  Lemma randao_spec a slot sigs :
    RUN (ReqRandao a slot) = Ok sigs ->
    sigs = [sign (a_key a) (csr (u64_chunk (slot / spe)) (get_domain H c DOMAIN_RANDAO (slot / spe)))]
    /\ a_fail a = false.
  Proof.
    intros Hrun. cbn [run] in Hrun. unfold one in Hrun.
    destruct (sign_randao _ _ _ _ _ _ _) as [s| |] eqn:Hs; try discriminate.
    injection Hrun as <-. apply sign_randao_ok in Hs as (domain & Hd & -> & Hf).
    cbn [p_domain spec_provider] in Hd. injection Hd as <-. split; [|exact Hf]. spec_norm. reflexivity.
  Qed.

  Lemma slot_selections_spec accs slot sigs :
    RUN (ReqSlotSelections accs slot) = Ok sigs ->
    sigs = map (fun a => exp a (csr (u64_chunk slot) (get_domain H c DOMAIN_SELECTION_PROOF (slot / spe)))) accs.
  Proof.
    intros Hrun. cbn [run] in Hrun. apply sign_slot_selections_ok in Hrun as (domain & Hd & ->).
    cbn [p_domain spec_provider] in Hd. injection Hd as <-. apply map_ext. intro a. spec_norm. reflexivity.
  Qed.

  Lemma sync_selections_spec accs slot subs sigs :
    RUN (ReqSyncSelections accs slot subs) = Ok sigs ->
    sigs = map (fun it => exp (fst it) (csr (htr_sync_selection_data H slot (snd it))
                                            (get_domain H c DOMAIN_SYNC_COMMITTEE_SELECTION_PROOF (slot / spe))))
               (combine accs subs).
  Proof.
    intros Hrun. cbn [run] in Hrun. apply sign_sync_selections_ok in Hrun as (dt & domain & Hdt & Hd & _ & ->).
    cbn [spec_service s_sync_selection] in Hdt. injection Hdt as <-.
    cbn [p_domain spec_provider] in Hd. injection Hd as <-. apply map_ext. intros [a sub]. spec_norm. reflexivity.
  Qed.

  Lemma aggregate_and_proof_spec a slot root sigs :
    RUN (ReqAggregateAndProof a slot root) = Ok sigs ->
    sigs = [sign (a_key a) (csr root (get_domain H c DOMAIN_AGGREGATE_AND_PROOF (slot / spe)))]
    /\ a_fail a = false.
  Proof.
    intros Hrun. cbn [run] in Hrun. unfold one in Hrun.
    destruct (sign_aggregate_and_proof _ _ _ _ _ _ _ _) as [s| |] eqn:Hs; try discriminate.
    injection Hrun as <-. apply sign_aggregate_and_proof_ok in Hs as (domain & Hd & -> & Hf).
    cbn [p_domain spec_provider] in Hd. injection Hd as <-. split; [|exact Hf]. spec_norm. reflexivity.
  Qed.

  Lemma sync_messages_spec accs ep root sigs :
    RUN (ReqSyncRoots accs ep root) = Ok sigs ->
    sigs = map (fun a => exp a (csr root (get_domain H c DOMAIN_SYNC_COMMITTEE ep))) accs.
  Proof.
    intros Hrun. cbn [run] in Hrun. apply sign_sync_roots_ok in Hrun as (dt & domain & Hdt & Hd & ->).
    cbn [spec_service s_sync] in Hdt. injection Hdt as <-.
    cbn [p_domain spec_provider] in Hd. injection Hd as <-. reflexivity.
  Qed.

  Lemma contributions_spec accs cps sigs :
    RUN (ReqContributions accs cps) = Ok sigs ->
    sigs = map (fun it => exp (fst it) (csr (htr_contribution_and_proof H (snd it))
                                            (get_domain H c DOMAIN_CONTRIBUTION_AND_PROOF
                                                        (co_slot (cp_contribution (snd it)) / spe))))
               (combine accs cps).
  Proof.
    intros Hrun. cbn [run] in Hrun.
    apply sign_contributions_ok in Hrun as (dt & cp0 & domain & Hdt & Hhd & Hlen & Hall & Hd & ->).
    cbn [spec_service s_contribution] in Hdt. injection Hdt as <-.
    cbn [p_domain spec_provider] in Hd. injection Hd as <-.
    apply map_ext_in. intros [a cp] Hin. apply in_combine_r in Hin.
    rewrite Forall_forall in Hall. specialize (Hall _ Hin).
    unfold epoch_of in Hall. cbn [s_spe spec_service] in Hall. spec_norm. rewrite Hall. reflexivity.
  Qed.

  Lemma registration_spec a reg sigs :
    RUN (ReqRegistration a reg) = Ok sigs ->
    exists r, reg = Some r /\
      sigs = [sign (a_key a) (csr (htr_registration H r)
                                  (compute_domain H DOMAIN_APPLICATION_BUILDER (ch_genesis_version c) 0))]
      /\ a_fail a = false.
  Proof.
    intros Hrun. cbn [run] in Hrun. unfold one in Hrun.
    destruct (sign_registration _ _ _ _ _ _ _) as [s| |] eqn:Hs; try discriminate.
    injection Hrun as <-. apply sign_registration_ok in Hs as (r & dt & domain & -> & Hdt & Hd & -> & Hf).
    cbn [spec_service s_builder] in Hdt. injection Hdt as <-.
    cbn [p_genesis spec_provider] in Hd. rewrite N.eqb_refl in Hd. injection Hd as <-.
    exists r. repeat split; auto.
  Qed.
End SpecProofs.
