(* C06 — the signer model against the specification's signing roots (Lib/Ssz.v, Model/C06_Signer.v
   Section Spec): service configured from a chain spec carrying the specification's constants,
   domain provider of a node of that chain, accounts behaving as documented. *)
From Verif Require Import Lib.Base Lib.Ssz Model.C06_Signer Proofs.C06.
From Coq Require Import Lia Arith.

Local Open Scope N_scope.

(* The only request-side hypothesis: attestation data is for its slot's epoch (the attester refuses
   anything else, property C01; the specification's get_attestation_signature takes the fork of
   data.target.epoch, the code that of slot / SLOTS_PER_EPOCH). *)
Definition req_wf (c : chain) (q : request) : Prop :=
  match q with
  | ReqAttestation _ d => ad_target_epoch d = ad_slot d / ch_spe c
  | ReqAttestations _ slot _ _ _ _ te _ => te = slot / ch_spe c
  | _ => True
  end.

Section SpecProofs.
  Variable H : N -> N -> N.
  Variable sig : Type.
  Variable zero_sig : sig.
  Variable sign : N -> N -> sig.
  Variable c : chain.

  Local Notation E := (honest H sig sign).
  Local Notation P := (spec_provider H c).
  Local Notation Sv := (spec_service c).
  Local Notation exp := (expected sig zero_sig sign).

  Definition spec_sig (it : account * message) : sig := exp (fst it) (spec_signing_root H c (snd it)).

  Ltac spec_norm :=
    unfold spec_sig, spec_signing_root, spec_domain, spec_object_root, spec_epoch, spec_domain_type,
           compute_epoch_at_slot, epoch_of, builder_domain, att_item_sig, att_with_index;
    cbn [fst snd s_spe s_proposer s_attester s_randao s_selection s_aggregate spec_service
         ad_slot ad_index ad_block_root ad_source_epoch ad_source_root ad_target_epoch ad_target_root].

  Theorem run_spec q sigs :
    req_wf c q ->
    run H sig zero_sig P E Sv q = Ok sigs ->
    sigs = map spec_sig (request_items q).
  Proof.
    intros Hwf Hrun. destruct q as [a d|accs slot idxs bbr se sr te tr|a h|a slot|accs slot|accs slot subs|a slot root|accs ep root|accs cps|a reg];
      cbn [run] in Hrun; cbn [request_items].
    - (* attestation *)
      unfold one in Hrun. destruct (sign_attestation _ _ _ _ _ _ _) as [s| |] eqn:Hs; try discriminate.
      injection Hrun as <-. apply sign_attestation_ok in Hs as (domain & Hd & -> & Hf).
      cbn [p_domain p_genesis spec_provider] in Hd; try rewrite N.eqb_refl in Hd. injection Hd as <-. cbn [map]. unfold spec_sig. cbn [fst snd]. unfold expected. rewrite Hf.
      unfold spec_signing_root, spec_domain, spec_object_root, spec_epoch, spec_domain_type.
      cbn [req_wf] in Hwf. rewrite Hwf. reflexivity.
    - (* attestations *)
      apply sign_attestations_ok in Hrun as (domain & Hd & _ & _ & ->).
      cbn [p_domain p_genesis spec_provider] in Hd; try rewrite N.eqb_refl in Hd. injection Hd as <-. cbn [req_wf] in Hwf. subst te. rewrite map_map. apply map_ext. intros [a idx]. spec_norm. reflexivity.
    - (* proposal *)
      unfold one in Hrun. destruct (sign_proposal _ _ _ _ _ _ _) as [s| |] eqn:Hs; try discriminate.
      injection Hrun as <-. apply sign_proposal_ok in Hs as (domain & Hd & -> & Hf).
      cbn [p_domain p_genesis spec_provider] in Hd; try rewrite N.eqb_refl in Hd. injection Hd as <-. cbn [map]. unfold spec_sig. cbn [fst snd]. unfold expected. rewrite Hf. spec_norm. reflexivity.
    - (* randao *)
      unfold one in Hrun. destruct (sign_randao _ _ _ _ _ _ _) as [s| |] eqn:Hs; try discriminate.
      injection Hrun as <-. apply sign_randao_ok in Hs as (domain & Hd & -> & Hf).
      cbn [p_domain p_genesis spec_provider] in Hd; try rewrite N.eqb_refl in Hd. injection Hd as <-. cbn [map]. unfold spec_sig. cbn [fst snd]. unfold expected. rewrite Hf. spec_norm. reflexivity.
    - (* slot selections *)
      apply sign_slot_selections_ok in Hrun as (domain & Hd & ->).
      cbn [p_domain p_genesis spec_provider] in Hd; try rewrite N.eqb_refl in Hd. injection Hd as <-. rewrite map_map. apply map_ext. intro a. spec_norm. reflexivity.
    - (* sync committee selections *)
      apply sign_sync_selections_ok in Hrun as (dt & domain & Hdt & Hd & _ & ->).
      cbn [spec_service s_sync s_sync_selection s_contribution s_builder] in Hdt. injection Hdt as <-. cbn [p_domain p_genesis spec_provider] in Hd; try rewrite N.eqb_refl in Hd. injection Hd as <-.
      rewrite map_map. apply map_ext. intros [a sub]. spec_norm. reflexivity.
    - (* aggregate and proof *)
      unfold one in Hrun. destruct (sign_aggregate_and_proof _ _ _ _ _ _ _ _) as [s| |] eqn:Hs; try discriminate.
      injection Hrun as <-. apply sign_aggregate_and_proof_ok in Hs as (domain & Hd & -> & Hf).
      cbn [p_domain p_genesis spec_provider] in Hd; try rewrite N.eqb_refl in Hd. injection Hd as <-. cbn [map]. unfold spec_sig. cbn [fst snd]. unfold expected. rewrite Hf. spec_norm. reflexivity.
    - (* sync committee messages *)
      apply sign_sync_roots_ok in Hrun as (dt & domain & Hdt & Hd & ->).
      cbn [spec_service s_sync s_sync_selection s_contribution s_builder] in Hdt. injection Hdt as <-. cbn [p_domain p_genesis spec_provider] in Hd; try rewrite N.eqb_refl in Hd. injection Hd as <-. rewrite map_map. apply map_ext. intro a. spec_norm. reflexivity.
    - (* contribution and proofs *)
      apply sign_contributions_ok in Hrun as (dt & cp0 & domain & Hdt & Hhd & Hlen & Hall & Hd & ->).
      cbn [spec_service s_sync s_sync_selection s_contribution s_builder] in Hdt. injection Hdt as <-. cbn [p_domain p_genesis spec_provider] in Hd; try rewrite N.eqb_refl in Hd. injection Hd as <-.
      rewrite map_map. apply map_ext_in. intros [a cp] Hin. apply in_combine_r in Hin.
      rewrite Forall_forall in Hall. specialize (Hall _ Hin).
      unfold spec_sig. cbn [fst snd]. unfold spec_signing_root, spec_domain, spec_object_root, spec_epoch, spec_domain_type.
      unfold compute_epoch_at_slot. unfold epoch_of in Hall. cbn [s_spe spec_service] in Hall. rewrite Hall. reflexivity.
    - (* registration *)
      unfold one in Hrun. destruct (sign_registration _ _ _ _ _ _ _) as [s| |] eqn:Hs; try discriminate.
      injection Hrun as <-. apply sign_registration_ok in Hs as (r & dt & domain & -> & Hdt & Hd & -> & Hf).
      cbn [spec_service s_sync s_sync_selection s_contribution s_builder] in Hdt. injection Hdt as <-. cbn [p_domain p_genesis spec_provider] in Hd; try rewrite N.eqb_refl in Hd. injection Hd as <-.
      cbn [map]. unfold spec_sig. cbn [fst snd]. unfold expected. rewrite Hf. spec_norm. reflexivity.
  Qed.

  Corollary run_spec_nth q sigs i a m :
    req_wf c q ->
    run H sig zero_sig P E Sv q = Ok sigs ->
    nth_error (request_items q) i = Some (a, m) ->
    nth_error sigs i = Some (exp a (spec_signing_root H c m)).
  Proof.
    intros Hwf Hrun Hi. rewrite (run_spec q sigs Hwf Hrun). rewrite nth_error_map, Hi. reflexivity.
  Qed.

  Corollary run_spec_length q sigs :
    req_wf c q -> run H sig zero_sig P E Sv q = Ok sigs -> length sigs = length (request_items q).
  Proof. intros Hwf Hrun. rewrite (run_spec q sigs Hwf Hrun). apply map_length. Qed.

  (* ---------------------------------------------------------------------------------------- *)
  (* Kind by kind, with the specification's domain type, epoch and object root spelled out.     *)

  Local Notation csr := (compute_signing_root H).
  Local Notation spe := (ch_spe c).
  Local Notation RUN := (run H sig zero_sig P E Sv).

  Lemma attestation_spec a d sigs :
    ad_target_epoch d = ad_slot d / spe ->
    RUN (ReqAttestation a d) = Ok sigs ->
    sigs = [sign (a_key a) (csr (htr_att_data H d) (get_domain H c DOMAIN_BEACON_ATTESTER (ad_target_epoch d)))]
    /\ a_fail a = false.
  Proof.
    intros Hwf Hrun. cbn [run] in Hrun. unfold one in Hrun.
    destruct (sign_attestation _ _ _ _ _ _ _) as [s| |] eqn:Hs; try discriminate.
    injection Hrun as <-. apply sign_attestation_ok in Hs as (domain & Hd & -> & Hf).
    cbn [p_domain spec_provider] in Hd. injection Hd as <-. split; [|exact Hf]. spec_norm. rewrite Hwf. reflexivity.
  Qed.

  Lemma attestations_spec accs slot idxs bbr se sr te tr sigs :
    te = slot / spe ->
    RUN (ReqAttestations accs slot idxs bbr se sr te tr) = Ok sigs ->
    sigs = map (fun it => exp (fst it) (csr (htr_att_data H (AttData slot (snd it) bbr se sr te tr))
                                            (get_domain H c DOMAIN_BEACON_ATTESTER te)))
               (combine accs idxs).
  Proof.
    intros Hwf Hrun. cbn [run] in Hrun. apply sign_attestations_ok in Hrun as (domain & Hd & _ & _ & ->).
    cbn [p_domain spec_provider] in Hd. injection Hd as <-. subst te. apply map_ext. intros [a idx]. spec_norm. reflexivity.
  Qed.

  Lemma proposal_spec a h sigs :
    RUN (ReqProposal a h) = Ok sigs ->
    sigs = [sign (a_key a) (csr (htr_block_header H h) (get_domain H c DOMAIN_BEACON_PROPOSER (bh_slot h / spe)))]
    /\ a_fail a = false.
  Proof.
    intros Hrun. cbn [run] in Hrun. unfold one in Hrun.
    destruct (sign_proposal _ _ _ _ _ _ _) as [s| |] eqn:Hs; try discriminate.
    injection Hrun as <-. apply sign_proposal_ok in Hs as (domain & Hd & -> & Hf).
    cbn [p_domain spec_provider] in Hd. injection Hd as <-. split; [|exact Hf]. spec_norm. reflexivity.
  Qed.

  Lemma randao_spec a slot sigs :
    RUN (ReqRandao a slot) = Ok sigs ->
    sigs = [sign (a_key a) (csr (u64_chunk (slot / spe)) (get_domain H c DOMAIN_RANDAO (slot / spe)))]
    /\ a_fail a = false.
  Proof.
    intros Hrun. cbn [run] in Hrun. unfold one in Hrun.
    destruct (sign_randao _ _ _ _ _ _ _) as [s| |] eqn:Hs; try discriminate.
    injection Hrun as <-. apply sign_randao_ok in Hs as (domain & Hd & -> & Hf).
    cbn [p_domain spec_provider] in Hd. injection Hd as <-. split; [|exact Hf]. spec_norm. reflexivity.
  Qed.

  Lemma slot_selections_spec accs slot sigs :
    RUN (ReqSlotSelections accs slot) = Ok sigs ->
    sigs = map (fun a => exp a (csr (u64_chunk slot) (get_domain H c DOMAIN_SELECTION_PROOF (slot / spe)))) accs.
  Proof.
    intros Hrun. cbn [run] in Hrun. apply sign_slot_selections_ok in Hrun as (domain & Hd & ->).
    cbn [p_domain spec_provider] in Hd. injection Hd as <-. apply map_ext. intro a. spec_norm. reflexivity.
  Qed.

  Lemma sync_selections_spec accs slot subs sigs :
    RUN (ReqSyncSelections accs slot subs) = Ok sigs ->
    sigs = map (fun it => exp (fst it) (csr (htr_sync_selection_data H slot (snd it))
                                            (get_domain H c DOMAIN_SYNC_COMMITTEE_SELECTION_PROOF (slot / spe))))
               (combine accs subs).
  Proof.
    intros Hrun. cbn [run] in Hrun. apply sign_sync_selections_ok in Hrun as (dt & domain & Hdt & Hd & _ & ->).
    cbn [spec_service s_sync_selection] in Hdt. injection Hdt as <-.
    cbn [p_domain spec_provider] in Hd. injection Hd as <-. apply map_ext. intros [a sub]. spec_norm. reflexivity.
  Qed.

  Lemma aggregate_and_proof_spec a slot root sigs :
    RUN (ReqAggregateAndProof a slot root) = Ok sigs ->
    sigs = [sign (a_key a) (csr root (get_domain H c DOMAIN_AGGREGATE_AND_PROOF (slot / spe)))]
    /\ a_fail a = false.
  Proof.
    intros Hrun. cbn [run] in Hrun. unfold one in Hrun.
    destruct (sign_aggregate_and_proof _ _ _ _ _ _ _ _) as [s| |] eqn:Hs; try discriminate.
    injection Hrun as <-. apply sign_aggregate_and_proof_ok in Hs as (domain & Hd & -> & Hf).
    cbn [p_domain spec_provider] in Hd. injection Hd as <-. split; [|exact Hf]. spec_norm. reflexivity.
  Qed.

  Lemma sync_messages_spec accs ep root sigs :
    RUN (ReqSyncRoots accs ep root) = Ok sigs ->
    sigs = map (fun a => exp a (csr root (get_domain H c DOMAIN_SYNC_COMMITTEE ep))) accs.
  Proof.
    intros Hrun. cbn [run] in Hrun. apply sign_sync_roots_ok in Hrun as (dt & domain & Hdt & Hd & ->).
    cbn [spec_service s_sync] in Hdt. injection Hdt as <-.
    cbn [p_domain spec_provider] in Hd. injection Hd as <-. reflexivity.
  Qed.

  Lemma contributions_spec accs cps sigs :
    RUN (ReqContributions accs cps) = Ok sigs ->
    sigs = map (fun it => exp (fst it) (csr (htr_contribution_and_proof H (snd it))
                                            (get_domain H c DOMAIN_CONTRIBUTION_AND_PROOF
                                                        (co_slot (cp_contribution (snd it)) / spe))))
               (combine accs cps).
  Proof.
    intros Hrun. cbn [run] in Hrun.
    apply sign_contributions_ok in Hrun as (dt & cp0 & domain & Hdt & Hhd & Hlen & Hall & Hd & ->).
    cbn [spec_service s_contribution] in Hdt. injection Hdt as <-.
    cbn [p_domain spec_provider] in Hd. injection Hd as <-.
    apply map_ext_in. intros [a cp] Hin. apply in_combine_r in Hin.
    rewrite Forall_forall in Hall. specialize (Hall _ Hin).
    unfold epoch_of in Hall. cbn [s_spe spec_service] in Hall. spec_norm. rewrite Hall. reflexivity.
  Qed.

  Lemma registration_spec a reg sigs :
    RUN (ReqRegistration a reg) = Ok sigs ->
    exists r, reg = Some r /\
      sigs = [sign (a_key a) (csr (htr_registration H (wire_registration r))
                                  (compute_domain H DOMAIN_APPLICATION_BUILDER (ch_genesis_version c) 0))]
      /\ a_fail a = false.
  Proof.
    intros Hrun. cbn [run] in Hrun. unfold one in Hrun.
    destruct (sign_registration _ _ _ _ _ _ _) as [s| |] eqn:Hs; try discriminate.
    injection Hrun as <-. apply sign_registration_ok in Hs as (r & dt & domain & -> & Hdt & Hd & -> & Hf).
    cbn [spec_service s_builder] in Hdt. injection Hdt as <-.
    cbn [p_genesis spec_provider] in Hd. rewrite N.eqb_refl in Hd. injection Hd as <-.
    exists r. repeat split; auto.
  Qed.

  (* The registration message of a Go registration carries the whole seconds of its time.Time:
     the sub-second part [ns] never changes the message (Unix() rounds down; it does not round to
     the nearest second). *)
  Lemma wire_registration_whole_seconds fee gas pk (s ns : Z) :
    (0 <= ns < 1000000000)%Z ->
    wire_registration (GoRegistration fee gas (s * 1000000000 + ns) pk) = Registration fee gas (to_uint64 s) pk.
  Proof.
    intro Hns. unfold wire_registration, unix_seconds. cbn [gr_fee_recipient gr_gas_limit gr_time_ns gr_pubkey].
    rewrite Z.div_add_l by lia. rewrite (Z.div_small ns) by lia. rewrite Z.add_0_r. reflexivity.
  Qed.

  Lemma to_uint64_small (s : Z) : (0 <= s < 18446744073709551616)%Z -> to_uint64 s = Z.to_N s.
  Proof. intro Hs. unfold to_uint64. rewrite Z.mod_small by lia. reflexivity. Qed.

  Lemma registration_seconds_spec a fee gas pk (s ns : Z) sigs :
    (0 <= ns < 1000000000)%Z -> (0 <= s < 18446744073709551616)%Z ->
    RUN (ReqRegistration a (Some (GoRegistration fee gas (s * 1000000000 + ns) pk))) = Ok sigs ->
    sigs = [sign (a_key a) (csr (htr_registration H (Registration fee gas (Z.to_N s) pk))
                                (compute_domain H DOMAIN_APPLICATION_BUILDER (ch_genesis_version c) 0))].
  Proof.
    intros Hns Hs Hrun. apply registration_spec in Hrun as (r & Hr & -> & _). injection Hr as <-.
    rewrite wire_registration_whole_seconds by exact Hns. rewrite to_uint64_small by exact Hs. reflexivity.
  Qed.
End SpecProofs.

(* ------------------------------------------------------------------------------------------ *)
(* The fork schedule lookup of Lib/Ssz.v means what get_domain needs: the version in force at an
   epoch is that of the last fork activated at or before it, the genesis version if there is none
   (for a schedule in ascending activation order). *)
Fixpoint ascending (forks : list (N * N)) : Prop :=
  match forks with
  | [] => True
  | (e, _) :: r => (match r with [] => True | (e', _) :: _ => e <= e' end) /\ ascending r
  end.

Lemma ascending_filter_nil forks e0 e :
  ascending ((e0, 0) :: forks) -> e < e0 -> filter (fun f => fst f <=? e) forks = [].
Proof.
  revert e0; induction forks as [|[e1 v1] r IH]; intros e0 Hasc Hlt; [reflexivity|].
  cbn [ascending] in Hasc. destruct Hasc as [Hle [Hle' Hasc']].
  cbn [filter fst]. destruct (e1 <=? e) eqn:Hc; [apply N.leb_le in Hc; lia|].
  apply (IH e1); [|lia]. cbn [ascending]. split; [|exact Hasc']. exact Hle'.
Qed.

Lemma last_default_irrelevant {A} (l : list A) (x d d' : A) : last (x :: l) d = last (x :: l) d'.
Proof. revert x; induction l as [|y l IH]; intro x; [reflexivity|]. cbn [last] in *. apply IH. Qed.

Lemma version_from_last forks : forall v e,
  ascending forks ->
  version_from v forks e = last (map snd (filter (fun f => fst f <=? e) forks)) v.
Proof.
  induction forks as [|[e1 v1] r IH]; intros v e Hasc; [reflexivity|].
  cbn [version_from filter fst]. destruct (e1 <=? e) eqn:Hc.
  - cbn [ascending] in Hasc. destruct Hasc as [_ Hasc'].
    rewrite (IH v1 e Hasc'). cbn [map snd].
    destruct (map snd (filter (fun f => fst f <=? e) r)) as [|x l] eqn:Hm; [reflexivity|].
    cbn [last]. apply last_default_irrelevant.
  - apply N.leb_gt in Hc.
    rewrite (ascending_filter_nil r e1 e); [reflexivity| |exact Hc].
    cbn [ascending] in Hasc |- *. exact Hasc.
Qed.

(* ------------------------------------------------------------------------------------------ *)
(* The triple (domain type, epoch, object root) for ANY service configuration and ANY domain
   provider: which domain the service asks for, for which epoch, and which object root it signs,
   duty by duty -- independent of the values of the chain spec's constants. *)
Definition obind {A B} (o : option A) (f : A -> option B) : option B := match o with Some x => f x | None => None end.

Definition duty_domain (P : provider) (Sv : service) (m : message) : option N :=
  let spe := s_spe Sv in
  match m with
  | MAttestation d => p_domain P (s_attester Sv) (ad_slot d / spe)
  | MBlock h => p_domain P (s_proposer Sv) (bh_slot h / spe)
  | MRandao slot => p_domain P (s_randao Sv) (slot / spe)
  | MSlotSelection slot => p_domain P (s_selection Sv) (slot / spe)
  | MSyncSelection slot _ => obind (s_sync_selection Sv) (fun dt => p_domain P dt (slot / spe))
  | MAggregateAndProof slot _ => p_domain P (s_aggregate Sv) (slot / spe)
  | MSyncMessage epoch _ => obind (s_sync Sv) (fun dt => p_domain P dt epoch)
  | MContribution cp => obind (s_contribution Sv) (fun dt => p_domain P dt (co_slot (cp_contribution cp) / spe))
  | MRegistration _ => obind (s_builder Sv) (p_genesis P)
  end.

Definition duty_object_root (H : N -> N -> N) (spe : N) (m : message) : N :=
  match m with
  | MAttestation d => htr_att_data H d
  | MBlock h => htr_block_header H h
  | MRandao slot => u64_chunk (slot / spe)
  | MSlotSelection slot => u64_chunk slot
  | MSyncSelection slot sub => htr_sync_selection_data H slot sub
  | MAggregateAndProof _ root => root
  | MSyncMessage _ root => root
  | MContribution cp => htr_contribution_and_proof H cp
  | MRegistration r => htr_registration H r
  end.

Lemma nth_error_map_inv {A B} (f : A -> B) (l : list A) i y :
  nth_error (map f l) i = Some y -> exists x, nth_error l i = Some x /\ y = f x.
Proof.
  rewrite nth_error_map. destruct (nth_error l i) as [x|]; [|discriminate].
  intro Hy; injection Hy as <-. exists x; auto.
Qed.

Section General.
  Variable H : N -> N -> N.
  Variable sig : Type.
  Variable zero_sig : sig.
  Variable sign : N -> N -> sig.
  Variable P : provider.
  Variable Sv : service.

  Local Notation E := (honest H sig sign).
  Local Notation exp := (expected sig zero_sig sign).
  Local Notation csr := (compute_signing_root H).

  Definition duty_sig_ok (s : sig) (a : account) (m : message) : Prop :=
    exists domain, duty_domain P Sv m = Some domain /\
                   s = exp a (csr (duty_object_root H (s_spe Sv) m) domain).

  Lemma single_item (s : sig) a m i a' m' :
    duty_sig_ok s a m ->
    nth_error [(a, m)] i = Some (a', m') ->
    exists s', nth_error [s] i = Some s' /\ duty_sig_ok s' a' m'.
  Proof.
    intros Hok Hi. destruct i as [|i]; [|destruct i; discriminate].
    cbn in Hi. injection Hi as <- <-. exists s. split; [reflexivity | exact Hok].
  Qed.

  Lemma exp_not_failing a r : a_fail a = false -> sign (a_key a) r = exp a r.
  Proof. intro Hf. unfold expected. rewrite Hf. reflexivity. Qed.

  Theorem run_general q sigs :
    run H sig zero_sig P E Sv q = Ok sigs ->
    length sigs = length (request_items q) /\
    forall i a m, nth_error (request_items q) i = Some (a, m) ->
      exists s, nth_error sigs i = Some s /\ duty_sig_ok s a m.
  Proof.
    intro Hrun. destruct q as [a d|accs slot idxs bbr se sr te tr|a h|a slot|accs slot|accs slot subs|a slot root|accs ep root|accs cps|a reg];
      cbn [run] in Hrun; cbn [request_items].
    - unfold one in Hrun. destruct (sign_attestation _ _ _ _ _ _ _) as [s| |] eqn:Hs; try discriminate.
      injection Hrun as <-. apply sign_attestation_ok in Hs as (domain & Hd & -> & Hf).
      split; [reflexivity|]. intros i a' m' Hi. eapply single_item; [|exact Hi].
      exists domain. cbn [duty_object_root duty_domain]. unfold epoch_of in *. split; [exact Hd|]. rewrite <- exp_not_failing by exact Hf. reflexivity.
    - apply sign_attestations_ok in Hrun as (domain & Hd & _ & _ & ->).
      split; [rewrite !map_length; reflexivity|].
      intros i a m Hi. apply nth_error_map_inv in Hi as ([a' idx] & Hi & Heq). injection Heq as -> ->.
      eexists. split; [rewrite nth_error_map, Hi; reflexivity|].
      exists domain. cbn [duty_object_root duty_domain fst snd]. unfold epoch_of in *. split; [exact Hd|]. reflexivity.
    - unfold one in Hrun. destruct (sign_proposal _ _ _ _ _ _ _) as [s| |] eqn:Hs; try discriminate.
      injection Hrun as <-. apply sign_proposal_ok in Hs as (domain & Hd & -> & Hf).
      split; [reflexivity|]. intros i a' m' Hi. eapply single_item; [|exact Hi].
      exists domain. cbn [duty_object_root duty_domain]. unfold epoch_of in *. split; [exact Hd|]. rewrite <- exp_not_failing by exact Hf. reflexivity.
    - unfold one in Hrun. destruct (sign_randao _ _ _ _ _ _ _) as [s| |] eqn:Hs; try discriminate.
      injection Hrun as <-. apply sign_randao_ok in Hs as (domain & Hd & -> & Hf).
      split; [reflexivity|]. intros i a' m' Hi. eapply single_item; [|exact Hi].
      exists domain. cbn [duty_object_root duty_domain]. unfold epoch_of in *. split; [exact Hd|]. rewrite <- exp_not_failing by exact Hf. reflexivity.
    - apply sign_slot_selections_ok in Hrun as (domain & Hd & ->).
      split; [rewrite !map_length; reflexivity|].
      intros i a m Hi. apply nth_error_map_inv in Hi as (a' & Hi & Heq). injection Heq as -> ->.
      eexists. split; [rewrite nth_error_map, Hi; reflexivity|].
      exists domain. cbn [duty_object_root duty_domain fst snd]. unfold epoch_of in *. split; [exact Hd|]. reflexivity.
    - apply sign_sync_selections_ok in Hrun as (dt & domain & Hdt & Hd & _ & ->).
      split; [rewrite !map_length; reflexivity|].
      intros i a m Hi. apply nth_error_map_inv in Hi as ([a' sub] & Hi & Heq). injection Heq as -> ->.
      eexists. split; [rewrite nth_error_map, Hi; reflexivity|].
      exists domain. cbn [duty_object_root duty_domain fst snd]. unfold epoch_of in *. split; [|reflexivity]. rewrite Hdt. exact Hd.
    - unfold one in Hrun. destruct (sign_aggregate_and_proof _ _ _ _ _ _ _ _) as [s| |] eqn:Hs; try discriminate.
      injection Hrun as <-. apply sign_aggregate_and_proof_ok in Hs as (domain & Hd & -> & Hf).
      split; [reflexivity|]. intros i a' m' Hi. eapply single_item; [|exact Hi].
      exists domain. cbn [duty_object_root duty_domain]. unfold epoch_of in *. split; [exact Hd|]. rewrite <- exp_not_failing by exact Hf. reflexivity.
    - apply sign_sync_roots_ok in Hrun as (dt & domain & Hdt & Hd & ->).
      split; [rewrite !map_length; reflexivity|].
      intros i a m Hi. apply nth_error_map_inv in Hi as (a' & Hi & Heq). injection Heq as -> ->.
      eexists. split; [rewrite nth_error_map, Hi; reflexivity|].
      exists domain. cbn [duty_object_root duty_domain fst snd]. unfold epoch_of in *. split; [|reflexivity]. rewrite Hdt. exact Hd.
    - apply sign_contributions_ok in Hrun as (dt & cp0 & domain & Hdt & Hhd & Hlen & Hall & Hd & ->).
      split; [rewrite !map_length; reflexivity|].
      intros i a m Hi. apply nth_error_map_inv in Hi as ([a' cp] & Hi & Heq). injection Heq as -> ->.
      eexists. split; [rewrite nth_error_map, Hi; reflexivity|].
      exists domain. cbn [duty_object_root duty_domain fst snd]. unfold epoch_of in *. split; [|reflexivity]. rewrite Hdt. cbn [obind].
      apply nth_error_In in Hi. apply in_combine_r in Hi. rewrite Forall_forall in Hall.
      specialize (Hall _ Hi). cbn beta in Hall. rewrite Hall. exact Hd.
    - unfold one in Hrun. destruct (sign_registration _ _ _ _ _ _ _) as [s| |] eqn:Hs; try discriminate.
      injection Hrun as <-. apply sign_registration_ok in Hs as (r & dt & domain & -> & Hdt & Hd & -> & Hf).
      split; [reflexivity|]. intros i a' m' Hi. eapply single_item; [|exact Hi].
      exists domain. cbn [duty_object_root duty_domain]. split; [rewrite Hdt; exact Hd|]. rewrite <- exp_not_failing by exact Hf. reflexivity.
  Qed.
End General.

(* ------------------------------------------------------------------------------------------ *)
(* Sessions on one service instance.                                                            *)

Section SessionFacts.
  Variable H : N -> N -> N.
  Variable sig : Type.
  Variable zero_sig : sig.
  Variable E : env sig.

  Lemma run_session_map Sv qs :
    run_session H sig zero_sig E Sv qs = map (fun pq => run H sig zero_sig (fst pq) E Sv (snd pq)) qs.
  Proof. induction qs as [|pq r IH]; cbn [run_session handle map]; [reflexivity | rewrite IH; reflexivity]. Qed.

  Lemma run_session_nth Sv qs k P q :
    nth_error qs k = Some (P, q) ->
    nth_error (run_session H sig zero_sig E Sv qs) k = Some (run H sig zero_sig P E Sv q).
  Proof. intro Hk. rewrite run_session_map, nth_error_map, Hk. reflexivity. Qed.

  Lemma run_session_nth_inv Sv qs k out :
    nth_error (run_session H sig zero_sig E Sv qs) k = Some out ->
    exists P q, nth_error qs k = Some (P, q) /\ out = run H sig zero_sig P E Sv q.
  Proof.
    rewrite run_session_map, nth_error_map. destruct (nth_error qs k) as [[P q]|] eqn:Hk; cbn; [|discriminate].
    intro Ho. injection Ho as <-. exists P, q. split; reflexivity.
  Qed.

  Lemma run_session_length Sv qs : length (run_session H sig zero_sig E Sv qs) = length qs.
  Proof. rewrite run_session_map. apply map_length. Qed.

  Lemma run_session_app Sv qs1 qs2 :
    run_session H sig zero_sig E Sv (qs1 ++ qs2)
    = run_session H sig zero_sig E Sv qs1 ++ run_session H sig zero_sig E Sv qs2.
  Proof. rewrite !run_session_map. apply map_app. Qed.
End SessionFacts.
