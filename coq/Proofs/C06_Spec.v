(* C06 — the signer model against the specification's signing roots (Lib/Ssz.v, Model/C06_Signer.v
   Section Spec): service configured from a chain spec carrying the specification's constants,
   domain provider of a node of that chain, accounts behaving as documented. *)
From Verif Require Import Lib.Base Lib.Ssz Model.C06_Signer Proofs.C06.
From Coq Require Import Lia Arith.

Local Open Scope N_scope.

(* The only request-side hypothesis: attestation data is for its slot's epoch (the attester refuses
   anything else, property C01; the specification's get_attestation_signature takes the fork of
   data.target.epoch, the code that of slot / SLOTS_PER_EPOCH). *)
Definition req_wf (c : chain) (q : request) : Prop :=
  match q with
  | ReqAttestation _ d => ad_target_epoch d = ad_slot d / ch_spe c
  | ReqAttestations _ slot _ _ _ _ te _ => te = slot / ch_spe c
  | _ => True
  end.

Section SpecProofs.
  Variable H : N -> N -> N.
  Variable sig : Type.
  Variable zero_sig : sig.
  Variable sign : N -> N -> sig.
  Variable c : chain.

  Local Notation E := (honest H sig sign).
  Local Notation P := (spec_provider H c).
  Local Notation Sv := (spec_service c).
  Local Notation exp := (expected sig zero_sig sign).

  Definition spec_sig (it : account * message) : sig := exp (fst it) (spec_signing_root H c (snd it)).

  Ltac spec_norm :=
    unfold spec_sig, spec_signing_root, spec_domain, spec_object_root, spec_epoch, spec_domain_type,
           compute_epoch_at_slot, epoch_of, builder_domain, att_item_sig, att_with_index;
    cbn [fst snd s_spe s_proposer s_attester s_randao s_selection s_aggregate spec_service
         ad_slot ad_index ad_block_root ad_source_epoch ad_source_root ad_target_epoch ad_target_root].

  Theorem run_spec q sigs :
    req_wf c q ->
    run H sig zero_sig P E Sv q = Ok sigs ->
    sigs = map spec_sig (request_items q).
  Proof.
    intros Hwf Hrun. destruct q as [a d|accs slot idxs bbr se sr te tr|a h|a slot|accs slot|accs slot subs|a slot root|accs ep root|accs cps|a reg];
      cbn [run] in Hrun; cbn [request_items].
    - (* attestation *)
      unfold one in Hrun. destruct (sign_attestation _ _ _ _ _ _ _) as [s| |] eqn:Hs; try discriminate.
      injection Hrun as <-. apply sign_attestation_ok in Hs as (domain & Hd & -> & Hf).
      cbn [p_domain p_genesis spec_provider] in Hd; try rewrite N.eqb_refl in Hd. injection Hd as <-. cbn [map]. unfold spec_sig. cbn [fst snd]. unfold expected. rewrite Hf.
      unfold spec_signing_root, spec_domain, spec_object_root, spec_epoch, spec_domain_type.
      cbn [req_wf] in Hwf. rewrite Hwf. reflexivity.
    - (* attestations *)
      apply sign_attestations_ok in Hrun as (domain & Hd & _ & _ & ->).
      cbn [p_domain p_genesis spec_provider] in Hd; try rewrite N.eqb_refl in Hd. injection Hd as <-. cbn [req_wf] in Hwf. subst te. rewrite map_map. apply map_ext. intros [a idx]. spec_norm. reflexivity.
    - (* proposal *)
      unfold one in Hrun. destruct (sign_proposal _ _ _ _ _ _ _) as [s| |] eqn:Hs; try discriminate.
      injection Hrun as <-. apply sign_proposal_ok in Hs as (domain & Hd & -> & Hf).
      cbn [p_domain p_genesis spec_provider] in Hd; try rewrite N.eqb_refl in Hd. injection Hd as <-. cbn [map]. unfold spec_sig. cbn [fst snd]. unfold expected. rewrite Hf. spec_norm. reflexivity.
    - (* randao *)
      unfold one in Hrun. destruct (sign_randao _ _ _ _ _ _ _) as [s| |] eqn:Hs; try discriminate.
      injection Hrun as <-. apply sign_randao_ok in Hs as (domain & Hd & -> & Hf).
      cbn [p_domain p_genesis spec_provider] in Hd; try rewrite N.eqb_refl in Hd. injection Hd as <-. cbn [map]. unfold spec_sig. cbn [fst snd]. unfold expected. rewrite Hf. spec_norm. reflexivity.
    - (* slot selections *)
      apply sign_slot_selections_ok in Hrun as (domain & Hd & ->).
      cbn [p_domain p_genesis spec_provider] in Hd; try rewrite N.eqb_refl in Hd. injection Hd as <-. rewrite map_map. apply map_ext. intro a. spec_norm. reflexivity.
    - (* sync committee selections *)
      apply sign_sync_selections_ok in Hrun as (dt & domain & Hdt & Hd & _ & ->).
      cbn [spec_service s_sync s_sync_selection s_contribution s_builder] in Hdt. injection Hdt as <-. cbn [p_domain p_genesis spec_provider] in Hd; try rewrite N.eqb_refl in Hd. injection Hd as <-.
      rewrite map_map. apply map_ext. intros [a sub]. spec_norm. reflexivity.
    - (* aggregate and proof *)
      unfold one in Hrun. destruct (sign_aggregate_and_proof _ _ _ _ _ _ _ _) as [s| |] eqn:Hs; try discriminate.
      injection Hrun as <-. apply sign_aggregate_and_proof_ok in Hs as (domain & Hd & -> & Hf).
      cbn [p_domain p_genesis spec_provider] in Hd; try rewrite N.eqb_refl in Hd. injection Hd as <-. cbn [map]. unfold spec_sig. cbn [fst snd]. unfold expected. rewrite Hf. spec_norm. reflexivity.
    - (* sync committee messages *)
      apply sign_sync_roots_ok in Hrun as (dt & domain & Hdt & Hd & ->).
      cbn [spec_service s_sync s_sync_selection s_contribution s_builder] in Hdt. injection Hdt as <-. cbn [p_domain p_genesis spec_provider] in Hd; try rewrite N.eqb_refl in Hd. injection Hd as <-. rewrite map_map. apply map_ext. intro a. spec_norm. reflexivity.
    - (* contribution and proofs *)
      apply sign_contributions_ok in Hrun as (dt & cp0 & domain & Hdt & Hhd & Hlen & Hall & Hd & ->).
      cbn [spec_service s_sync s_sync_selection s_contribution s_builder] in Hdt. injection Hdt as <-. cbn [p_domain p_genesis spec_provider] in Hd; try rewrite N.eqb_refl in Hd. injection Hd as <-.
      rewrite map_map. apply map_ext_in. intros [a cp] Hin. apply in_combine_r in Hin.
      rewrite Forall_forall in Hall. specialize (Hall _ Hin).
      unfold spec_sig. cbn [fst snd]. unfold spec_signing_root, spec_domain, spec_object_root, spec_epoch, spec_domain_type.
      unfold compute_epoch_at_slot. unfold epoch_of in Hall. cbn [s_spe spec_service] in Hall. rewrite Hall. reflexivity.
    - (* registration *)
      unfold one in Hrun. destruct (sign_registration _ _ _ _ _ _ _) as [s| |] eqn:Hs; try discriminate.
      injection Hrun as <-. apply sign_registration_ok in Hs as (r & dt & domain & -> & Hdt & Hd & -> & Hf).
      cbn [spec_service s_sync s_sync_selection s_contribution s_builder] in Hdt. injection Hdt as <-. cbn [p_domain p_genesis spec_provider] in Hd; try rewrite N.eqb_refl in Hd. injection Hd as <-.
      cbn [map]. unfold spec_sig. cbn [fst snd]. unfold expected. rewrite Hf. spec_norm. reflexivity.
  Qed.

  Corollary run_spec_nth q sigs i a m :
    req_wf c q ->
    run H sig zero_sig P E Sv q = Ok sigs ->
    nth_error (request_items q) i = Some (a, m) ->
    nth_error sigs i = Some (exp a (spec_signing_root H c m)).
  Proof.
    intros Hwf Hrun Hi. rewrite (run_spec q sigs Hwf Hrun). rewrite nth_error_map, Hi. reflexivity.
  Qed.

  Corollary run_spec_length q sigs :
    req_wf c q -> run H sig zero_sig P E Sv q = Ok sigs -> length sigs = length (request_items q).
  Proof. intros Hwf Hrun. rewrite (run_spec q sigs Hwf Hrun). apply map_length. Qed.
End SpecProofs.
