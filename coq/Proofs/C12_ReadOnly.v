(* C12: requests only read.  In the scenario machine the active configuration changes at exactly one
   kind of step, the MWrite of a refresh (under the write lock); lookups, auctions and registration
   rounds have no such step.  This is what allows any number of them inside the shared read lock at
   once -- and the registration round on its snapshot with no lock at all.  The harness ties it to
   the source twice: a scan of the lookup path for writes to shared state (case field
   [c_reader_writes]) and bursts of overlapping first lookups on a freshly installed document, run
   in a process of their own (a process that dies is the observed outcome, [c_crashed]). *)
From Verif Require Import Lib.Base Lib.Sched Lib.Lockset Model.C12_ConfigLock Proofs.C12 Proofs.C12_Data.
From Coq Require Import Arith Lia.

Local Open Scope nat_scope.

Lemma nth_mwrite (mprog : list mstep) pc : nth pc mprog MNop = MWrite -> nth_error mprog pc = Some MWrite.
Proof.
  revert pc. induction mprog as [|m ms IH]; intros [|pc] H; cbn in *; try discriminate.
  - congruence.
  - apply IH. exact H.
Qed.

(* a step that is not the MWrite of its thread leaves the active configuration as it was *)
Lemma advance_keeps_cfg url mprog g x i x' :
  advance url mprog g x i = Some x' ->
  thread_mstep mprog x i <> Some MWrite ->
  x_cfg x' = x_cfg x.
Proof.
  intros H Hn.
  destruct (advance_inv url mprog g x i x' H) as (t & ti & Et & Eti & [(pc & s' & Epc & _ & ->)|(pc & c & s' & Epc & _ & Hx)]).
  - reflexivity.
  - assert (Hm : nth pc mprog MNop <> MWrite).
    { intro Hw. apply Hn. unfold thread_mstep. rewrite Et, Epc. apply nth_mwrite. exact Hw. }
    destruct (nth pc mprog MNop) eqn:Em; cbv beta iota zeta in Hx; subst x'; cbn [x_cfg]; try reflexivity;
      try (apply data_action_cfg; congruence).
Qed.

(* only a refresh has an MWrite *)
Lemma program_no_write pre sp : sp_kind sp <> KRefresh -> ~ In MWrite (program pre sp).
Proof.
  intros Hk Hin. unfold program in Hin. destruct (sp_kind sp); try congruence.
  all: try (cbn in Hin; intuition discriminate).
  destruct pre; cbn in Hin; intuition discriminate.
Qed.

(* whole runs: a run in which no step is an MWrite ends with the configuration it started with *)
Lemma grun_keeps_cfg url mprog g : forall acts s,
  (forall n i, nth_error acts n = Some (XAdv i) ->
               thread_mstep mprog (g_x (grun url mprog g (firstn n acts) s)) i <> Some MWrite) ->
  x_cfg (g_x (grun url mprog g acts s)) = x_cfg (g_x s).
Proof.
  intros acts. induction acts as [|a acts IH] using rev_ind; intros s H; [reflexivity|].
  unfold grun in *. rewrite fold_left_app. cbn [fold_left].
  assert (IH' : x_cfg (g_x (fold_left (gstep url mprog g) acts s)) = x_cfg (g_x s)).
  { apply IH. intros n i Hn.
    assert (Hlt : n < length acts) by (apply nth_error_Some; congruence).
    specialize (H n i). rewrite nth_error_app1 in H by exact Hlt.
    rewrite firstn_app in H. replace (n - length acts) with 0 in H by lia.
    cbn [firstn] in H. rewrite app_nil_r in H. apply H. exact Hn. }
  rewrite <- IH'.
  destruct a as [i|sp e|k]; cbn [gstep].
  - destruct (advance url mprog g (g_x (fold_left (gstep url mprog g) acts s)) i) as [x'|] eqn:Ea; [|reflexivity].
    cbn [g_x]. eapply advance_keeps_cfg; [exact Ea|].
    specialize (H (length acts) i).
    rewrite nth_error_app2 in H by lia. rewrite Nat.sub_diag in H. cbn [nth_error] in H.
    rewrite firstn_app in H. rewrite Nat.sub_diag in H. cbn [firstn] in H.
    rewrite firstn_all, app_nil_r in H. apply H. reflexivity.
  - reflexivity.
  - cbn [g_x]. unfold open_gate. destruct (nth_error _ k); reflexivity.
Qed.
