(* Soundness of the atomicity check of Lib/Atomic.v: when `no_unlock_between m g r w` holds, NO walk of the graph
   from r to w (that does not come back to r, where the value is read afresh) executes an unlock of m, and a thread that holds m at r still holds it on arrival at w. *)
From Verif Require Import Lib.Base Lib.Lockset Lib.LocksetX Lib.Atomic.
From Coq Require Import String.
Open Scope N_scope.

Lemma as_eqb_eq a b : as_eqb a b = true <-> a = b.
Proof.
  destruct a as [n s], b as [n' s']. unfold as_eqb. cbn.
  rewrite andb_true_iff, Nat.eqb_eq, Bool.eqb_true_iff. split.
  - intros [-> ->]. reflexivity.
  - intro H. injection H as -> ->. auto.
Qed.

Lemma as_mem_in a R : as_mem a R = true <-> In a R.
Proof.
  unfold as_mem. rewrite existsb_exists. split.
  - intros [b [Hb E]]. apply as_eqb_eq in E. subst b. exact Hb.
  - intro H. exists a. split; [exact H | apply as_eqb_eq; reflexivity].
Qed.

(* a closed set that contains a state contains the end state of every walk from it *)
Lemma closed_walk m g r R : closed m g r R = true ->
  forall l n st, In (n, st) R -> is_path g n l -> In (walk_r m g r st n l) R.
Proof.
  intro Hc. unfold closed in Hc. rewrite forallb_forall in Hc.
  induction l as [|n' l IH]; intros n st Hin Hp; cbn [walk_r].
  - exact Hin.
  - cbn [is_path] in Hp. destruct Hp as [[nd [Hnd Hs]] Hp].
    apply IH; [|exact Hp].
    specialize (Hc (n, st) Hin). rewrite forallb_forall in Hc.
    apply as_mem_in. apply Hc.
    unfold next_states. cbn [fst snd]. rewrite Hnd.
    apply in_map_iff. exists n'. split; [|exact Hs].
    unfold unlocks_at. rewrite Hnd. reflexivity.
Qed.

(* a walk that does not come back to r never clears the flag *)
Lemma walk_r_walk m g r : forall l n st, ~ In r l -> walk_r m g r st n l = walk m g st n l.
Proof.
  induction l as [|n' l IH]; intros n st Hr; [reflexivity|].
  cbn [walk_r walk]. destruct (n' =? r)%nat eqn:E.
  - apply Nat.eqb_eq in E. subst n'. exfalso. apply Hr. left. reflexivity.
  - apply IH. intro H. apply Hr. right. exact H.
Qed.

(* the check: every walk from r that does not come back to r and ends at w has executed no unlock of m *)
Lemma no_unlock_between_sound m g r w : no_unlock_between m g r w = true ->
  forall l, is_path g r l -> ~ In r l -> fst (walk m g false r l) = w -> snd (walk m g false r l) = false.
Proof.
  unfold no_unlock_between. intro H.
  apply andb_true_iff in H as [H Hw]. apply andb_true_iff in H as [Hc Hr].
  apply as_mem_in in Hr. apply negb_true_iff in Hw.
  intros l Hp Hnr Hend.
  pose proof (closed_walk m g r _ Hc l r false Hr Hp) as Hin.
  rewrite (walk_r_walk m g r l r false Hnr) in Hin.
  destruct (walk m g false r l) as [n st] eqn:E. cbn in Hend |- *. subst n.
  destruct st; [|reflexivity].
  apply as_mem_in in Hin. rewrite Hin in Hw. discriminate.
Qed.

(* what "no unlock executed" means node by node *)
Lemma walk_false m g : forall l n st, snd (walk m g st n l) = false ->
  st = false /\ forall x, In x (removelast (n :: l)) -> unlocks_at m g x = false.
Proof.
  induction l as [|n' l IH]; intros n st H.
  - cbn in H. split; [exact H|]. cbn. tauto.
  - cbn [walk] in H. destruct (IH n' _ H) as [Hst Hall].
    apply orb_false_iff in Hst as [Hst Hn]. split; [exact Hst|].
    intros x Hx. change (removelast (n :: n' :: l)) with (n :: removelast (n' :: l)) in Hx.
    destruct Hx as [<-|Hx]; [exact Hn | apply Hall; exact Hx].
Qed.

(* lock sets: only an unlock of m takes m out *)
Lemma holds_insert m p L : holds m L = true -> holds m (ls_insert p L) = true.
Proof.
  unfold holds. induction L as [|q L IH]; cbn; [discriminate|].
  intro H. destruct (fst p <=? fst q); cbn.
  - rewrite H. apply orb_true_r.
  - apply orb_true_iff in H as [H|H]; [rewrite H; reflexivity|]. rewrite (IH H). apply orb_true_r.
Qed.

Lemma holds_remove m p L : (fst p =? m) = false -> holds m L = true -> holds m (ls_remove p L) = true.
Proof.
  unfold holds. destruct p as [pm px]. cbn [fst]. intro Hp. induction L as [|[qm qx] L IH]; cbn [existsb ls_remove fst]; [discriminate|].
  intro H. destruct (lk_eqb (pm, px) (qm, qx)) eqn:E.
  - unfold lk_eqb in E. cbn [fst snd] in E. apply andb_true_iff in E as [E _]. apply N.eqb_eq in E. subst qm.
    rewrite Hp in H. exact H.
  - cbn [existsb fst]. apply orb_true_iff in H as [H|H]; [rewrite H; reflexivity|]. rewrite (IH H). apply orb_true_r.
Qed.

Lemma holds_exec m i L : unlocks m i = false -> holds m L = true -> holds m (exec i L) = true.
Proof.
  intros Hu H. destruct i as [|f w|m' x|m' x]; cbn; auto.
  - apply holds_insert. exact H.
  - apply holds_remove; [exact Hu | exact H].
Qed.

(* a thread that walks from n along l without executing an unlock of m keeps m *)
Lemma holds_along m g : forall l n L, snd (walk m g false n l) = false ->
  holds m L = true -> holds m (locks_along g L n l) = true.
Proof.
  induction l as [|n' l IH]; intros n L Hw H; cbn [locks_along]; [exact H|].
  cbn [walk] in Hw. cbn [orb] in Hw.
  destruct (unlocks_at m g n) eqn:Hu.
  - destruct (walk_false m g l n' true Hw) as [C _]. discriminate.
  - apply IH; [exact Hw|].
    unfold unlocks_at in Hu. destruct (nth_error g n) as [nd|]; [|exact H].
    apply holds_exec; assumption.
Qed.

(* the two together: the guard held at r is still held on arrival at w, whatever the way *)
Lemma guard_kept_lemma m g r w : no_unlock_between m g r w = true ->
  forall l L, is_path g r l -> ~ In r l -> fst (walk m g false r l) = w ->
    holds m L = true ->
    holds m (locks_along g L r l) = true /\
    (forall x, In x (removelast (r :: l)) -> unlocks_at m g x = false).
Proof.
  intros H l L Hp Hnr Hend HL.
  pose proof (no_unlock_between_sound m g r w H l Hp Hnr Hend) as Hs.
  split; [apply holds_along; assumption|].
  apply (walk_false m g l r false Hs).
Qed.

(* what pair_ok gives for a pair it accepts on the mutex branch *)
Lemma pair_ok_cases skip single g entries r w : pair_ok skip single g entries (r, w) = true ->
  exists nr nw f, nth_error g r = Some nr /\ nth_error g w = Some nw /\
    n_instr nr = IAcc f false /\ n_instr nw = IAcc f true /\ n_owner nr = n_owner nw /\
    let ls := infer g entries in let A := accesses_from ls 0 g in
    (skip f = true \/ reached ls r = false \/ reached ls w = false \/
     writes_confined single A f (n_owner nw) = true \/
     exists m, writes_guarded A f m = true /\ held_at ls r m = true /\ no_unlock_between m g r w = true).
Proof.
  unfold pair_ok. destruct (nth_error g r) as [nr|]; [|discriminate].
  destruct (nth_error g w) as [nw|]; [|discriminate].
  destruct (n_instr nr) as [|f b| |] eqn:Er; try discriminate. destruct b; [discriminate|].
  destruct (n_instr nw) as [|f' b'| |] eqn:Ew; try discriminate. destruct b'; [|discriminate].
  intro H. apply andb_true_iff in H as [H Hc]. apply andb_true_iff in H as [Hf Ho].
  apply N.eqb_eq in Hf. subst f'. apply Nat.eqb_eq in Ho.
  exists nr, nw, f. repeat split; auto.
  cbn zeta.
  apply orb_true_iff in Hc as [Hc|Hc]; [|right; right; right; right].
  - apply orb_true_iff in Hc as [Hc|Hc]; [|right; right; right; left; exact Hc].
    apply orb_true_iff in Hc as [Hc|Hc]; [|right; right; left; apply negb_true_iff; exact Hc].
    apply orb_true_iff in Hc as [Hc|Hc]; [left; exact Hc | right; left; apply negb_true_iff; exact Hc].
  - apply existsb_exists in Hc as [m [_ Hm]]. exists m.
    destruct (writes_guarded _ f m && held_at _ r m) eqn:E; [|discriminate].
    apply andb_true_iff in E as [E1 E2]. auto.
Qed.
