(* C13: the state filters of the model (Model/C13_Accounts.v) equal the gotrans transcription of
   utils.IsSyncCommitteeEligible and of the four filterFunc literals of the dirk and wallet account
   managers (coq/Gen/Pure_C13.v, regenerated on every run; the api/v1 ValidatorState constants are
   read from the go-eth2-client version that the repository's go.mod requires). *)
From Coq Require Import ZArith NArith Bool List Lia.
From Verif Require Import Lib.Base Lib.GoInt Gen.Pure_C13 Model.C13_Accounts.
Local Open Scope Z_scope.

(* api/v1 ValidatorState: the iota order of the dependency's constant block *)
Definition state_code (s : vstate) : Z :=
  match s with
  | SUnknown => 0 | SPendingInitialized => 1 | SPendingQueued => 2 | SActiveOngoing => 3
  | SActiveExiting => 4 | SActiveSlashed => 5 | SExitedUnslashed => 6 | SExitedSlashed => 7
  | SWithdrawalPossible => 8 | SWithdrawalDone => 9
  end.

Lemma state_code_inj s t : state_code s = state_code t -> s = t.
Proof. destruct s, t; cbn; intro H; try reflexivity; discriminate H. Qed.

Lemma tie_sync_eligible s : is_sync_eligible s = accountutils_IsSyncCommitteeEligible (state_code s).
Proof. destruct s; reflexivity. Qed.

Lemma tie_validating_dirk s : is_validating s = dirk_validatingFilter (state_code s).
Proof. destruct s; reflexivity. Qed.
Lemma tie_validating_dirk_by_index s : is_validating s = dirk_validatingFilterByIndex (state_code s).
Proof. destruct s; reflexivity. Qed.
Lemma tie_validating_wallet s : is_validating s = wallet_validatingFilter (state_code s).
Proof. destruct s; reflexivity. Qed.
Lemma tie_validating_wallet_by_index s : is_validating s = wallet_validatingFilterByIndex (state_code s).
Proof. destruct s; reflexivity. Qed.

(* outside the ten codes of the dependency both filters refuse *)
Lemma filters_refuse_unknown_codes z : (z < 0 \/ 9 < z) ->
  accountutils_IsSyncCommitteeEligible z = false /\ dirk_validatingFilter z = false /\
  dirk_validatingFilterByIndex z = false /\ wallet_validatingFilter z = false /\
  wallet_validatingFilterByIndex z = false.
Proof.
  intro H. unfold accountutils_IsSyncCommitteeEligible, dirk_validatingFilter, dirk_validatingFilterByIndex,
    wallet_validatingFilter, wallet_validatingFilterByIndex.
  assert (E : forall k, 0 <= k <= 9 -> (z =? k) = false) by (intros k Hk; apply Z.eqb_neq; lia).
  rewrite !E by lia. repeat split.
Qed.
