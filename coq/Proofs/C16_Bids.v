(* C16 — sessions of the builder-bid strategy (Model/C16_Bids.v): the remembered public keys never
   change what an auction does, and no history of auctions panics. *)
From Verif Require Import Lib.Base Model.C16_Paths Model.C16_Bids Proofs.C16.
From Coq Require Import ZifyBool ZifyN ZifyNat.

Local Open Scope N_scope.

Lemma bkey_eqb_spec : forall a b, bkey_eqb a b = true <-> a = b.
Proof.
  intros [x|x] [y|y]; cbn; split; intro H; try congruence.
  - apply N.eqb_eq in H; congruence.
  - injection H as ->; apply N.eqb_refl.
  - apply N.eqb_eq in H; congruence.
  - injection H as ->; apply N.eqb_refl.
Qed.

(* the invariant of s.relayPubkeys in the code as it is: only keys that deserialize are remembered,
   each with its own deserialization *)
Definition cache_wf (c : cache) : Prop :=
  forall k e, cache_find k c = Some e -> exists n, k = KValid n /\ e = Some n.

Lemma cache_wf_nil : cache_wf [].
Proof. intros k e H; discriminate H. Qed.

Definition pubkey_alone (k : bkey) : outcome (option N) unit :=
  match deserialize k with Some n => Ok (Some n) | None => Err tt end.

Lemma relay_pubkey_wf : forall c k, cache_wf c ->
  fst (relay_pubkey true c k) = pubkey_alone k /\ cache_wf (snd (relay_pubkey true c k)).
Proof.
  intros c k Hwf. unfold relay_pubkey, pubkey_alone.
  destruct (cache_find k c) as [e|] eqn:Hf.
  - destruct (Hwf k e Hf) as [n [-> ->]]. cbn. split; [reflexivity | exact Hwf].
  - destruct k as [n|n]; cbn.
    + split; [reflexivity|]. intros k' e' H. cbn in H.
      destruct (bkey_eqb k' (KValid n)) eqn:He.
      * apply bkey_eqb_spec in He. injection H as <-. exists n. split; [exact He | reflexivity].
      * apply Hwf; exact H.
    + split; [reflexivity | exact Hwf].
Qed.

Definition verify_alone (r : bid_relay) (sg : bsig) : outcome bool unit :=
  match effective_key r with
  | None => Ok true
  | Some k =>
      match pubkey_alone k with
      | Ok e => match sg with
                | SigMalformed => Err tt
                | SigBy m => match e with Some n => Ok (n =? m) | None => Panic end
                end
      | _ => Err tt
      end
  end.

Lemma verify_sig_wf : forall c r sg, cache_wf c ->
  fst (verify_sig true c r sg) = verify_alone r sg /\ cache_wf (snd (verify_sig true c r sg)).
Proof.
  intros c r sg Hwf. unfold verify_sig, verify_alone.
  destruct (effective_key r) as [k|]; [|split; [reflexivity | exact Hwf]].
  destruct (relay_pubkey_wf c k Hwf) as [H1 H2].
  destruct (relay_pubkey true c k) as [o c'] eqn:E. cbn in H1, H2. rewrite <- H1.
  destruct o as [e|u|]; cbn.
  - destruct sg as [m|]; [destruct e as [n|] |]; cbn; split; try reflexivity; exact H2.
  - split; [reflexivity | exact H2].
  - split; [reflexivity | exact H2].
Qed.

Lemma verify_alone_no_panic : forall r sg, verify_alone r sg <> Panic.
Proof.
  intros r sg. unfold verify_alone, pubkey_alone.
  destruct (effective_key r) as [[n|n]|]; cbn; try discriminate.
  destruct sg; discriminate.
Qed.

Definition relay_alone (r : bid_relay) : relay_res :=
  match br_answer r with
  | BdErr | BdHang | BdEmpty => RErr
  | BdNoData => RNoBid
  | BdBid v h fz tok sg =>
      if v =? 0 then RErr
      else if v <? br_min r then RNoBid
      else if fz then RErr
      else if negb tok then RErr
      else match verify_alone r sg with
           | Ok true => RBid v h
           | Ok false => RErr
           | Err _ => RErr
           | Panic => RPanic
           end
  end.

Lemma relay_step_wf : forall c r, cache_wf c ->
  fst (relay_step true c r) = relay_alone r /\ cache_wf (snd (relay_step true c r)).
Proof.
  intros c r Hwf. unfold relay_step, relay_alone.
  destruct (br_answer r) as [| | | |v h fz tok sg]; try (split; [reflexivity | exact Hwf]).
  destruct (v =? 0); [split; [reflexivity | exact Hwf]|].
  destruct (v <? br_min r); [split; [reflexivity | exact Hwf]|].
  destruct fz; [split; [reflexivity | exact Hwf]|].
  destruct tok; cbn [negb]; [|split; [reflexivity | exact Hwf]].
  destruct (verify_sig_wf c r sg Hwf) as [H1 H2].
  destruct (verify_sig true c r sg) as [o c'] eqn:E. cbn in H1, H2. rewrite <- H1.
  destruct o as [[|]|u|]; cbn; split; try reflexivity; exact H2.
Qed.

Lemma relay_alone_no_panic : forall r, relay_alone r <> RPanic.
Proof.
  intros r. unfold relay_alone.
  destruct (br_answer r) as [| | | |v h fz tok sg]; try discriminate.
  destruct (v =? 0); [discriminate|]. destruct (v <? br_min r); [discriminate|].
  destruct fz; [discriminate|]. destruct tok; cbn [negb]; [|discriminate].
  pose proof (verify_alone_no_panic r sg) as Hn.
  destruct (verify_alone r sg) as [[|]|u|]; try discriminate. congruence.
Qed.

(* the answers of an auction's usable relays, without the cache *)
Fixpoint answers_alone (rs : list bid_relay) : list (N * relay_res) :=
  match rs with
  | [] => []
  | r :: rs' =>
      match br_client r with
      | FClient id true true => (id, relay_alone r) :: answers_alone rs'
      | _ => answers_alone rs'
      end
  end.

Lemma run_relays_wf : forall rs c, cache_wf c ->
  fst (run_relays true c rs) = Ok (answers_alone rs) /\ cache_wf (snd (run_relays true c rs)).
Proof.
  induction rs as [|r rs IH]; intros c Hwf; cbn [run_relays answers_alone].
  - split; [reflexivity | exact Hwf].
  - destruct (br_client r) as [| | |id bids unb]; try (apply IH; exact Hwf).
    destruct bids; [|apply IH; exact Hwf]. destruct unb; [|apply IH; exact Hwf].
    destruct (relay_step_wf c r Hwf) as [H1 H2].
    pose proof (relay_alone_no_panic r) as Hn.
    destruct (relay_step true c r) as [x c'] eqn:E. cbn in H1, H2. subst x.
    destruct (IH c' H2) as [H3 H4].
    destruct (run_relays true c' rs) as [o c''] eqn:E2. cbn in H3, H4. subst o.
    destruct (relay_alone r); cbn; try (split; [reflexivity | exact H4]). congruence.
Qed.

Definition result_of (rs : list bid_relay) : auction_res :=
  let l := answers_alone rs in
  let w := set_bids None l in
  {| ar_all := good_relays (map br_client rs);
     ar_winners := match w with Some (_, _, ps) => ps | None => [] end;
     ar_score := match w with Some (s, _, _) => s | None => 0 end;
     ar_participants := bidders l |}.

Lemma auction_wf : forall rs c, cache_wf c ->
  fst (auction true c rs) = Ok (result_of rs) /\ cache_wf (snd (auction true c rs)).
Proof.
  intros rs c Hwf. unfold auction. rewrite issue_now_spec.
  destruct (run_relays_wf rs c Hwf) as [H1 H2].
  destruct (run_relays true c rs) as [o c'] eqn:E. cbn in H1, H2. subst o. cbn.
  split; [reflexivity | exact H2].
Qed.

Lemma auction_alone_spec : forall rs, auction_alone rs = Ok (result_of rs).
Proof. intros rs. unfold auction_alone. apply (auction_wf rs [] cache_wf_nil). Qed.

Lemma bid_session_wf : forall s c, cache_wf c ->
  bid_session true c s = map auction_alone s.
Proof.
  induction s as [|a s IH]; intros c Hwf; cbn [bid_session map]; [reflexivity|].
  destruct (auction_wf a c Hwf) as [H1 H2].
  destruct (auction true c a) as [o c'] eqn:E. cbn in H1, H2. subst o.
  rewrite auction_alone_spec. f_equal. rewrite (IH c' H2). reflexivity.
Qed.

Lemma bid_session_now_spec : forall s,
  bid_session_now s = map auction_alone s /\
  length (bid_session_now s) = length s /\
  forall o, In o (bid_session_now s) -> exists r, o = Ok r.
Proof.
  intros s. unfold bid_session_now. rewrite (bid_session_wf s [] cache_wf_nil).
  split; [reflexivity|]. split; [apply map_length|].
  intros o Ho. apply in_map_iff in Ho as [a [<- _]]. rewrite auction_alone_spec. eexists; reflexivity.
Qed.

(* ------------------------------------------------------------------------------------------- *)
(* what an auction does with its relays: a relay's answer carries a bid exactly when the relay makes
   an offer that counts *)

Lemma relay_alone_offer : forall r id, br_client r = FClient id true true ->
  match relay_alone r with
  | RBid v h => offer r = Some (id, v, h)
  | _ => offer r = None
  end.
Proof.
  intros r id Hc. unfold relay_alone, offer, verify_alone, key_accepts, pubkey_alone. rewrite Hc.
  destruct (br_answer r) as [| | | |v h fz tok sg]; try reflexivity.
  destruct (v =? 0) eqn:Hv; cbn [negb andb]; [reflexivity|].
  rewrite N.leb_antisym. destruct (v <? br_min r); cbn [negb andb]; [reflexivity|].
  destruct fz; cbn [negb andb]; [reflexivity|]. destruct tok; cbn [negb andb]; [|reflexivity].
  destruct (effective_key r) as [[n|n]|]; cbn; try reflexivity.
  destruct sg as [m|]; [|reflexivity]. destruct (n =? m); reflexivity.
Qed.

Definition bids_of (l : list (N * relay_res)) : list (N * N * N) :=
  flat_map (fun x => match snd x with RBid v h => [(fst x, v, h)] | _ => [] end) l.

Lemma bids_of_answers : forall rs, bids_of (answers_alone rs) = offers rs.
Proof.
  induction rs as [|r rs IH]; [reflexivity|]. cbn [answers_alone]. unfold offers in *. cbn [flat_map].
  destruct (br_client r) as [| | |id bids unb] eqn:Hc;
    try (unfold offer at 1; rewrite Hc; cbn [app]; exact IH).
  destruct bids; [|unfold offer at 1; rewrite Hc; cbn [app]; exact IH].
  destruct unb; [|unfold offer at 1; rewrite Hc; cbn [app]; exact IH].
  pose proof (relay_alone_offer r id Hc) as Ho. unfold bids_of in *. cbn [flat_map snd fst].
  destruct (relay_alone r); rewrite Ho; cbn [app]; rewrite IH; reflexivity.
Qed.

Lemma bidders_bids_of : forall l, bidders l = map of_id (bids_of l).
Proof.
  induction l as [|[id x] l IH]; [reflexivity|]. unfold bidders, bids_of in *. cbn [flat_map snd fst].
  rewrite map_app, <- IH. destruct x; reflexivity.
Qed.

Definition st_score (st : option (N * N * list N)) : N := match st with Some (s, _, _) => s | None => 0 end.
Definition st_winners (st : option (N * N * list N)) : list N := match st with Some (_, _, ps) => ps | None => [] end.

Lemma set_bid_score : forall st id v h, st_score (set_bid st id v h) = N.max (st_score st) v.
Proof.
  intros [[[ws wh] ps]|] id v h; cbn; [|lia].
  destruct (ws <? v) eqn:E; cbn; [lia|]. destruct (h =? wh); cbn; lia.
Qed.

Lemma set_bids_score : forall l st, st_score (set_bids st l) = N.max (st_score st) (best_value (bids_of l)).
Proof.
  induction l as [|[id x] l IH]; intros st; cbn [set_bids].
  - unfold best_value; cbn. lia.
  - destruct x as [| |v h|]; try (rewrite IH; reflexivity).
    rewrite IH, set_bid_score. unfold bids_of, best_value. cbn [flat_map snd fst app map fold_right of_value].
    fold (bids_of l). unfold best_value. lia.
Qed.

Lemma set_bid_winners : forall st id v h w, In w (st_winners (set_bid st id v h)) -> In w (st_winners st) \/ w = id.
Proof.
  intros [[[ws wh] ps]|] id v h w; cbn.
  - destruct (ws <? v); cbn; [intros [<- | [ ] ]; right; reflexivity|].
    destruct (h =? wh); cbn; [|intro H; left; exact H].
    intro H. apply in_app_or in H as [H|[<- | [ ] ]]; [left; exact H | right; reflexivity].
  - intros [<- | [ ] ]; right; reflexivity.
Qed.

Lemma set_bids_winners : forall l st w, In w (st_winners (set_bids st l)) -> In w (st_winners st) \/ In w (map of_id (bids_of l)).
Proof.
  induction l as [|[id x] l IH]; intros st w H; cbn [set_bids] in H; [left; exact H|].
  destruct x as [| |v h|]; try (apply IH in H; exact H).
  apply IH in H as [H|H].
  - apply set_bid_winners in H as [H | Hw]; [left; exact H | subst w]. right. unfold bids_of. cbn. left; reflexivity.
  - right. unfold bids_of. cbn [flat_map snd fst app map]. right. exact H.
Qed.

Definition st_ok (st : option (N * N * list N)) : Prop := match st with Some (_, _, ps) => ps <> [] | None => True end.

Lemma set_bid_ok : forall st id v h, st_ok st -> st_ok (set_bid st id v h) /\ set_bid st id v h <> None.
Proof.
  intros [[[ws wh] ps]|] id v h Hok; cbn in *; [|split; discriminate].
  destruct (ws <? v); cbn; [split; discriminate|]. destruct (h =? wh); cbn.
  - split; [destruct ps; discriminate | discriminate].
  - split; [exact Hok | discriminate].
Qed.

Lemma set_bids_ok : forall l st, st_ok st -> st_ok (set_bids st l) /\ (st <> None \/ bids_of l <> [] -> set_bids st l <> None).
Proof.
  induction l as [|[id x] l IH]; intros st Hok; cbn [set_bids].
  - split; [exact Hok|]. intros [H|H]; [exact H | exfalso; apply H; reflexivity].
  - destruct x as [| |v h|]; try (apply IH; exact Hok).
    destruct (set_bid_ok st id v h Hok) as [H1 H2]. destruct (IH _ H1) as [H3 H4].
    split; [exact H3|]. intros _. apply H4. left; exact H2.
Qed.

Lemma auction_falls_back : forall rs,
  let r := result_of rs in
  ar_all r = good_relays (map br_client rs) /\
  ar_participants r = map of_id (offers rs) /\
  ar_score r = best_value (offers rs) /\
  (forall w, In w (ar_winners r) -> In w (map of_id (offers rs))) /\
  (offers rs <> [] -> ar_winners r <> []).
Proof.
  intros rs. cbn zeta. unfold result_of. cbn [ar_all ar_participants ar_score ar_winners].
  split; [reflexivity|]. split; [rewrite bidders_bids_of, bids_of_answers; reflexivity|].
  split.
  - change (st_score (set_bids None (answers_alone rs)) = best_value (offers rs)).
    rewrite set_bids_score, bids_of_answers. cbn. lia.
  - split.
    + intros w H. change (In w (st_winners (set_bids None (answers_alone rs)))) in H.
      apply set_bids_winners in H as [ [ ] | H]. rewrite bids_of_answers in H. exact H.
    + intros Hne. destruct (set_bids_ok (answers_alone rs) None I) as [H1 H2].
      rewrite bids_of_answers in H2. specialize (H2 (or_intror Hne)).
      destruct (set_bids None (answers_alone rs)) as [[[ws wh] ps]|]; [exact H1 | congruence].
Qed.

(* a relay whose key is no key never makes an offer; a relay without key always does when its bid is complete *)
Lemma invalid_key_no_offer : forall r n, effective_key r = Some (KInvalid n) -> offer r = None.
Proof.
  intros r n Hk. unfold offer, key_accepts. rewrite Hk.
  destruct (br_client r) as [| | |id [|] [|]]; try reflexivity.
  destruct (br_answer r) as [| | | |v h fz tok sg]; try reflexivity.
  rewrite !andb_false_r. reflexivity.
Qed.

(* ------------------------------------------------------------------------------------------- *)
(* the guard: looking at the error before remembering the key *)

Lemma single_relay_never_panics : forall g r, ~ In Panic (bid_session g [] [[r]]).
Proof.
  intros g r. cbn [bid_session]. unfold auction. rewrite issue_now_spec. cbn [map run_relays].
  assert (Hstep : fst (relay_step g [] r) <> RPanic).
  { unfold relay_step. destruct (br_answer r) as [| | | |v h fz tok sg]; try discriminate.
    destruct (v =? 0); [discriminate|]. destruct (v <? br_min r); [discriminate|].
    destruct fz; [discriminate|]. destruct tok; cbn [negb]; [|discriminate].
    unfold verify_sig. destruct (effective_key r) as [[n|n]|]; cbn; try discriminate.
    destruct sg as [m|]; cbn; [destruct (n =? m)|]; discriminate. }
  destruct (br_client r) as [| | |id [|] [|]]; cbn; try (intros [H | [ ] ]; discriminate H).
  destruct (relay_step g [] r) as [x c'] eqn:E. cbn in Hstep.
  destruct x; cbn; try (intros [H | [ ] ]; discriminate H). congruence.
Qed.

Lemma unguarded_second_bid_panics : forall n id v h, v <> 0 ->
  let bad := {| br_client := FClient id true true; br_cfg_key := Some (KInvalid n); br_prov_key := None; br_min := 0;
                br_answer := BdBid v h false true (SigBy (id + 1)) |} in
  let ignored := {| ar_all := [id]; ar_winners := []; ar_score := 0; ar_participants := [] |} in
  bid_session false [] [[bad]; [bad]] = [Ok ignored; Panic] /\
  bid_session_now [[bad]; [bad]] = [Ok ignored; Ok ignored].
Proof.
  intros n id v h Hv bad ignored.
  assert (Hz : (v =? 0) = false) by (apply N.eqb_neq; exact Hv).
  assert (Hm : (v <? 0) = false) by (apply N.ltb_ge; apply N.le_0_l).
  assert (Hs : forall g c, relay_step g c bad =
                 match verify_sig g c bad (SigBy (id + 1)) with
                 | (Ok true, c') => (RBid v h, c')
                 | (Ok false, c') => (RErr, c')
                 | (Err _, c') => (RErr, c')
                 | (Panic, c') => (RPanic, c')
                 end).
  { intros g c. unfold relay_step, bad. cbn [br_answer br_min]. rewrite Hz, Hm. reflexivity. }
  assert (Hf : cache_find (KInvalid n) [(KInvalid n, None)] = Some None).
  { cbn. rewrite N.eqb_refl. reflexivity. }
  assert (A1 : forall g, auction g [] [bad] = (Ok ignored, if g then [] else [(KInvalid n, None)])).
  { intros g. unfold auction. rewrite issue_now_spec. cbn [map run_relays].
    change (br_client bad) with (FClient id true true). cbn iota. rewrite Hs.
    unfold verify_sig. change (effective_key bad) with (Some (KInvalid n)). cbn iota.
    unfold relay_pubkey. cbn [cache_find deserialize]. cbn iota. destruct g; reflexivity. }
  assert (A2 : fst (auction false [(KInvalid n, None)] [bad]) = Panic).
  { unfold auction. rewrite issue_now_spec. cbn [map run_relays].
    change (br_client bad) with (FClient id true true). cbn iota. rewrite Hs.
    unfold verify_sig. change (effective_key bad) with (Some (KInvalid n)). cbn iota.
    unfold relay_pubkey. rewrite Hf. reflexivity. }
  unfold bid_session_now. split.
  - cbn [bid_session]. rewrite (A1 false). cbn iota.
    destruct (auction false [(KInvalid n, None)] [bad]) as [o c2]. cbn in A2. subst o. reflexivity.
  - cbn [bid_session]. rewrite (A1 true). cbn iota. rewrite (A1 true). reflexivity.
Qed.
