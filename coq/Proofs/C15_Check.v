(* C15: the check's boolean predicate P_b, evaluated on the OBSERVED outputs, implies the
   declarative property of Properties/C15.v (same window, same message characterisation). *)
From Verif Require Import Lib.Base Model.C15_Sync Proofs.C15 Proofs.C15_Fire Check.C15.
From Coq Require Import ZifyBool ZifyN ZifyNat.
Local Open Scope N_scope.

(* -------------------------------------------------------------------------------------------- *)
(* boolean list predicates *)

Section Bool.
  Context {A : Type} (eqb : A -> A -> bool).
  Hypothesis eqb_spec : forall x y, eqb x y = true <-> x = y.

  Lemma inb_In : forall x l, inb eqb x l = true <-> In x l.
  Proof. intros. apply (memb_spec eqb eqb_spec). Qed.

  Lemma subsetb_incl : forall l1 l2, subsetb eqb l1 l2 = true <-> incl l1 l2.
  Proof.
    intros l1 l2. unfold subsetb. rewrite forallb_forall. unfold incl.
    split; intros H x Hx; [apply inb_In, H, Hx | apply inb_In, H, Hx].
  Qed.

  Lemma set_eqb_spec : forall l1 l2, set_eqb eqb l1 l2 = true <-> (forall x, In x l1 <-> In x l2).
  Proof.
    intros l1 l2. unfold set_eqb. rewrite andb_true_iff, !subsetb_incl. unfold incl.
    split; [intros [H1 H2] x; split; auto | intros H; split; intros x; apply H].
  Qed.

  Lemma nodupb_NoDup : forall l, nodupb eqb l = true -> NoDup l.
  Proof.
    induction l as [|x l IH]; cbn; intro H; [constructor|].
    apply andb_true_iff in H as [H1 H2]. constructor; [|apply IH, H2].
    intro Hin. apply inb_In in Hin. rewrite Hin in H1. discriminate.
  Qed.
End Bool.

Lemma job_eqb_spec : forall a b, job_eqb a b = true <-> a = b.
Proof.
  intros [[k s] t] [[k' s'] t']. unfold job_eqb. rewrite !andb_true_iff, !N.eqb_eq, Z.eqb_eq.
  split; [intros [[-> ->] ->]; reflexivity | intros H; injection H as -> -> ->; auto].
Qed.

Lemma sg_eqb_spec : forall a b, sg_eqb a b = true <-> a = b.
Proof.
  intros a b. destruct a, b; cbn; try (split; [discriminate | congruence]); try tauto;
    rewrite !andb_true_iff, !N.eqb_eq; (split; [intros [[-> ->] ->]; reflexivity | intros H; injection H as -> -> ->; auto]).
Qed.

Lemma msg_eqb_spec : forall a b, msg_eqb a b = true <-> a = b.
Proof.
  intros [[[s r] v] x] [[[s' r'] v'] x']. unfold msg_eqb. rewrite !andb_true_iff, !N.eqb_eq, sg_eqb_spec.
  split; [intros [[[-> ->] ->] ->]; reflexivity | intros H; injection H as -> -> -> ->; auto].
Qed.

(* -------------------------------------------------------------------------------------------- *)
(* the window of the check = the window of the theorems *)

Lemma upto_In : forall n lo s, In s (upto lo n) <-> lo <= s < lo + N.of_nat n.
Proof.
  induction n as [|n IH]; intros lo s; cbn [upto].
  - change (N.of_nat 0) with 0. split; [intros [] | intros H; lia].
  - cbn [In]. rewrite IH, Nat2N.inj_succ. clear IH. generalize (N.of_nat n). intros m. lia.
Qed.

Lemma period_end_ge_2_exact : forall p epoch, chain_ok p -> 2 <= period_end p epoch.
Proof.
  intros p epoch (Hs & He & H2). unfold period_end, period_next_epoch.
  assert (spe p * epp p <= (epoch / epp p + 1) * epp p * spe p).
  { replace ((epoch / epp p + 1) * epp p * spe p) with (epoch / epp p * (epp p * spe p) + spe p * epp p) by ring. apply N.le_add_l. }
  assert ((epoch / epp p + 1) * epp p * spe p <= N.max ((epoch / epp p + 1) * epp p) (fork p) * spe p).
  { apply N.mul_le_mono_r. lia. }
  lia.
Qed.

Lemma spec_slots_In : forall p epoch cur notcur s,
  chain_ok p ->
  (In s (spec_slots p epoch cur notcur) <->
   fork p <= cur / spe p /\ spec_first p epoch cur <= s <= spec_last p epoch /\ (notcur = true -> s <> cur)).
Proof.
  intros p epoch cur notcur s Hok. pose proof (period_end_ge_2_exact p epoch Hok) as HE.
  unfold spec_slots, spec_first, spec_last, period_start, period_end, period_first_epoch, period_next_epoch in *.
  generalize dependent (N.max ((epoch / epp p + 1) * epp p) (fork p) * spe p). intros E HE.
  generalize (N.max (epoch / epp p * epp p) (fork p) * spe p). intros F.
  generalize (cur / spe p). intros ce. generalize (fork p). intros fk. clear Hok.
  destruct (N.ltb_spec ce fk) as [Hf|Hf].
  - cbn [In]. split; [intros [] | intros (H & _); lia].
  - destruct (N.ltb_spec E (N.max (F - 1) cur + 2)) as [Hlt|Hge].
    + cbn [In]. split; [intros [] | intros (_ & H & _); lia].
    + rewrite filter_In, upto_In.
      assert (Hb : negb (notcur && (s =? cur)) = true <-> (notcur = true -> s <> cur)).
      { destruct notcur, (N.eqb_spec s cur); cbn; split; intros H; try congruence; try discriminate.
        exfalso. apply H; auto. }
      rewrite Hb. generalize (notcur = true -> s <> cur). intros P.
      split; intros (H1 & H2); [split; [exact Hf|]; split; [lia | exact H2] | destruct H2 as (H2 & H3); split; [lia | exact H3]].
Qed.

Lemma sched_ready_spec : forall p i,
  ready p i <-> (exists ds, sched_ready i = Some ds) /\ fork p <= si_cur i / spe p.
Proof.
  intros p i. unfold ready, sched_ready, epoch_of_slot.
  destruct (si_indices i) as [|x xs]; [split; [intros (H & _); congruence | intros ((ds & H) & _); discriminate]|].
  destruct (si_duties i) as [[|d ds]|];
    try (split; [intros (_ & _ & (d' & ds' & H) & _); discriminate | intros ((ds' & H) & _); discriminate]).
  destruct (si_accts i);
    [|split; [intros (_ & _ & _ & H); congruence | intros ((ds' & H) & _); discriminate]].
  split.
  - intros (_ & Hf & _ & _). split; [eauto | exact Hf].
  - intros (_ & Hf). repeat split; try discriminate; eauto.
Qed.

Lemma sched_ready_duties : forall i ds, sched_ready i = Some ds -> si_duties i = Some ds.
Proof.
  intros i ds. unfold sched_ready. destruct (si_indices i); [discriminate|].
  destruct (si_duties i) as [[|d l0]|]; try discriminate. destruct (si_accts i); [|discriminate].
  intros H. injection H as <-. reflexivity.
Qed.

(* StartOfSlot(slot).Add(-slotDuration * 6 / 4), Go's truncating division, and the floor division
   of the check agree for a non-negative slot duration *)
Lemma prepare_time_floor : forall p s, (0 <= slot_ns p)%Z ->
  prepare_time p s = (Z.of_N s * slot_ns p - slot_ns p * 6 / 4)%Z.
Proof.
  intros p s H. unfold prepare_time, start_of_slot.
  replace (- slot_ns p * 6)%Z with (- (slot_ns p * 6))%Z by lia.
  rewrite Z.quot_opp_l by lia. rewrite Z.quot_div_nonneg by lia. lia.
Qed.

(* The observed job table passes the check iff it is the job table of theorem C15_schedule_jobs. *)
Lemma schedule_check_sound : forall p i o,
  chain_ok p -> (0 <= slot_ns p)%Z -> spec_schedule_ok p i o = true ->
  (forall k s t, In (k, s, t) (so_jobs o) <->
     ready p i /\ k = JPrepare /\ t = prepare_time p s
     /\ spec_first p (si_epoch i) (si_cur i) <= s <= spec_last p (si_epoch i)
     /\ (si_notcur i = true -> s <> si_cur i))
  /\ NoDup (so_jobs o).
Proof.
  intros p i o Hok Hns H. unfold spec_schedule_ok in H. apply andb_true_iff in H as [Hset Hnd].
  split; [|apply (nodupb_NoDup job_eqb job_eqb_spec), Hnd].
  intros k s t. rewrite (set_eqb_spec job_eqb job_eqb_spec) in Hset. rewrite <- Hset.
  rewrite sched_ready_spec. destruct (sched_ready i) as [ds|].
  - rewrite in_map_iff. split.
    + intros (s' & Heq & Hin). injection Heq as <- <- <-.
      apply (spec_slots_In p _ _ _ _ Hok) in Hin. rewrite prepare_time_floor by exact Hns.
      intuition eauto.
    + intros ((_ & Hf) & -> & -> & Hw & Hn). exists s. split.
      * rewrite prepare_time_floor by exact Hns. reflexivity.
      * apply (spec_slots_In p _ _ _ _ Hok). auto.
  - cbn. split; [intros [] | intros (((ds & Hd) & _) & _); discriminate].
Qed.

(* -------------------------------------------------------------------------------------------- *)
(* the members of the check = the members of the theorems *)

Lemma inbN_In : forall x l, inb N.eqb x l = true <-> In x l.
Proof. intros. apply (inb_In N.eqb N.eqb_eq). Qed.

Lemma nodupN_In : forall l x, In x (nodupN l) <-> In x l.
Proof.
  induction l as [|y l IH]; intros x; cbn; [tauto|].
  destruct (inb N.eqb y l) eqn:E.
  - rewrite IH. apply inbN_In in E. split; [auto | intros [<-|H]; auto].
  - cbn. rewrite IH. tauto.
Qed.

Lemma held_spec : forall i v, held i v = true <-> holds_account i v.
Proof.
  intros i v. unfold held, holds_account. destruct (si_accts i) as [a|].
  - rewrite andb_true_iff, !inbN_In. split; [intros [H1 H2]; eauto | intros (a' & Heq & H1 & H2); injection Heq as <-; auto].
  - split; [discriminate | intros (? & H & _); discriminate].
Qed.

Lemma spec_signers_In : forall i ds v,
  In v (spec_signers i ds) <-> In v (map fst ds) /\ holds_account i v.
Proof. intros. unfold spec_signers. rewrite filter_In, nodupN_In, held_spec. tauto. Qed.

Lemma has_duty_ready : forall i ds v, si_duties i = Some ds -> (has_duty i v <-> In v (map fst ds)).
Proof.
  intros i ds v H. unfold has_duty. rewrite H. split; [intros (ds' & Heq & Hin); injection Heq as <-; exact Hin | eauto].
Qed.

(* The observed payload of a fired window slot passes the check only if it is what theorem
   C15_message_every_slot says: sound always, complete unless a signer fails for the whole batch. *)
Lemma fire_check_sound : forall p i f o r,
  chain_ok p -> spec_fire_ok p i f o = true ->
  ready p i -> in_window p i (f_slot f) -> f_root f = Some r ->
  (forall s' r' v x, In (s', r', v, x) (opt_list (o_submitted o)) ->
      s' = f_slot f /\ r' = r /\ has_duty i v /\ holds_account i v /\ x = SgRoot v (f_slot f / spe p) r)
  /\ NoDup (map msg_validator (opt_list (o_submitted o)))
  /\ (f_sel_err f = false -> f_root_err f = false ->
      forall v, has_duty i v -> holds_account i v -> ~ In v (f_root_zero f) ->
        In (f_slot f, r, v, SgRoot v (f_slot f / spe p) r) (opt_list (o_submitted o)))
  /\ (f_sel_err f = false -> o_msg_job o = Some (message_time p (f_slot f))).
Proof.
  intros p i f o r Hok H Hrd (Hw & Hn) Hroot. unfold spec_fire_ok in H.
  apply sched_ready_spec in Hrd. destruct Hrd as ((ds & Hds) & Hfork). rewrite Hds in H.
  pose proof (sched_ready_duties i ds Hds) as Hduties.
  assert (Hin : inb N.eqb (f_slot f) (spec_slots p (si_epoch i) (si_cur i) (si_notcur i)) = true).
  { apply inbN_In. apply (spec_slots_In p _ _ _ _ Hok). auto. }
  rewrite Hin in H. cbn [negb] in H. rewrite Hroot in H.
  set (got := opt_list (o_submitted o)) in *.
  apply andb_true_iff in H as [HAB HX]. apply andb_true_iff in HAB as [_ Hjob].
  apply andb_true_iff in HX as [HX _]. apply andb_true_iff in HX as [HX Hagg]. apply andb_true_iff in HX as [HX Hcomp].
  apply andb_true_iff in HX as [Hnd Hsound].
  split; [|split; [|split]].
  - intros s' r' v x Hm. rewrite forallb_forall in Hsound. specialize (Hsound _ Hm). cbn in Hsound.
    apply andb_true_iff in Hsound as [Hs Hx]. apply andb_true_iff in Hs as [Hs Hv].
    apply andb_true_iff in Hs as [Hs Hr']. apply N.eqb_eq in Hs, Hr'. apply sg_eqb_spec in Hx.
    apply inbN_In, spec_signers_In in Hv. destruct Hv as (Hv1 & Hv2).
    rewrite (has_duty_ready i ds v Hduties). auto.
  - apply (nodupb_NoDup N.eqb N.eqb_eq) in Hnd. exact Hnd.
  - intros Hse Hre v Hd Ha Hz.
    assert (Hsf : (match spec_pairs p i ds with [] => false | _ => f_sel_err f end) = false)
      by (rewrite Hse; destruct (spec_pairs p i ds); reflexivity).
    rewrite Hsf, Hre in Hcomp. cbn [orb] in Hcomp.
    apply (subsetb_incl msg_eqb msg_eqb_spec) in Hcomp. apply Hcomp.
    apply in_map_iff. exists v. split; [reflexivity|]. apply filter_In. split.
    + apply spec_signers_In. rewrite <- (has_duty_ready i ds v Hduties). auto.
    + destruct (inb N.eqb v (f_root_zero f)) eqn:E; [apply inbN_In in E; contradiction | reflexivity].
  - intros Hse.
    assert (Hsf : (match spec_pairs p i ds with [] => false | _ => f_sel_err f end) = false)
      by (rewrite Hse; destruct (spec_pairs p i ds); reflexivity).
    rewrite Hsf in Hjob. apply (option_eqb_spec Z.eqb Z.eqb_eq) in Hjob. exact Hjob.
Qed.

(* outside the window the check accepts no message *)
Lemma fire_check_outside : forall p i f o,
  chain_ok p -> spec_fire_ok p i f o = true -> ready p i -> ~ in_window p i (f_slot f) ->
  opt_list (o_submitted o) = [].
Proof.
  intros p i f o Hok H Hrd Hn. unfold spec_fire_ok in H.
  apply sched_ready_spec in Hrd. destruct Hrd as ((ds & Hds) & Hfork). rewrite Hds in H.
  destruct (inb N.eqb (f_slot f) (spec_slots p (si_epoch i) (si_cur i) (si_notcur i))) eqn:Hin.
  - apply inbN_In, (spec_slots_In p _ _ _ _ Hok) in Hin. exfalso. apply Hn. unfold in_window. tauto.
  - cbn [negb] in H. destruct (opt_list (o_submitted o)); [reflexivity | discriminate].
Qed.

Lemma fires_ok_nth : forall p i fs os k f o,
  fires_ok p i fs os = true -> nth_error fs k = Some f -> nth_error os k = Some o -> spec_fire_ok p i f o = true.
Proof.
  intros p i. induction fs as [|f0 fs IH]; intros os k f o H Hf Ho.
  - destruct k; discriminate.
  - destruct os as [|o0 os]; [discriminate|]. cbn in H. apply andb_true_iff in H as [H0 H1].
    destruct k as [|k]; cbn in Hf, Ho.
    + injection Hf as <-. injection Ho as <-. exact H0.
    + exact (IH os k f o H1 Hf Ho).
Qed.

(* P_b on a case: the observed job table is the specified one, and every fired slot's observed
   payload is sound and complete in the sense of the theorems. *)
Theorem P_b_sound : forall c,
  P_b c = true -> chain_ok (c_par c) -> (0 <= slot_ns (c_par c))%Z ->
  let p := c_par c in let i := c_in c in
  (forall k s t, In (k, s, t) (so_jobs (c_out c)) <->
     ready p i /\ k = JPrepare /\ t = prepare_time p s
     /\ spec_first p (si_epoch i) (si_cur i) <= s <= spec_last p (si_epoch i)
     /\ (si_notcur i = true -> s <> si_cur i))
  /\ NoDup (so_jobs (c_out c))
  /\ length (c_fouts c) = length (c_fires c)
  /\ forall k f o, nth_error (c_fires c) k = Some f -> nth_error (c_fouts c) k = Some o -> ready p i ->
       (~ in_window p i (f_slot f) -> opt_list (o_submitted o) = [])
       /\ (in_window p i (f_slot f) -> forall r, f_root f = Some r ->
           (forall s' r' v x, In (s', r', v, x) (opt_list (o_submitted o)) ->
              s' = f_slot f /\ r' = r /\ has_duty i v /\ holds_account i v /\ x = SgRoot v (f_slot f / spe p) r)
           /\ NoDup (map msg_validator (opt_list (o_submitted o)))
           /\ (f_sel_err f = false -> f_root_err f = false ->
               forall v, has_duty i v -> holds_account i v -> ~ In v (f_root_zero f) ->
                 In (f_slot f, r, v, SgRoot v (f_slot f / spe p) r) (opt_list (o_submitted o)))
           /\ (f_sel_err f = false -> o_msg_job o = Some (message_time p (f_slot f)))).
Proof.
  intros c H Hok Hns p i. unfold P_b in H. apply andb_true_iff in H as [H _].
  apply andb_true_iff in H as [Hs Hf]. fold p i in Hs, Hf.
  destruct (schedule_check_sound p i (c_out c) Hok Hns Hs) as (Hj & Hnd).
  split; [exact Hj|]. split; [exact Hnd|]. split.
  - clear - Hf. revert Hf. generalize (c_fouts c). induction (c_fires c) as [|f fs IH]; intros [|o os] H; cbn in *;
      try discriminate; [reflexivity|]. apply andb_true_iff in H as [_ H]. f_equal. apply IH, H.
  - intros k f o Hkf Hko Hrd. pose proof (fires_ok_nth p i _ _ k f o Hf Hkf Hko) as Hfo. split.
    + intros Hn. exact (fire_check_outside p i f o Hok Hfo Hrd Hn).
    + intros Hw r Hr. exact (fire_check_sound p i f o r Hok Hfo Hrd Hw Hr).
Qed.
