(* C15: the check's boolean predicate P_b, evaluated on the OBSERVED outputs, implies the
   declarative property of Properties/C15.v (same window, same message characterisation). *)
From Verif Require Import Lib.Base Model.C15_Sync Proofs.C15 Proofs.C15_Fire Check.C15.
From Coq Require Import ZifyBool ZifyN ZifyNat Permutation.
Local Open Scope N_scope.

(* -------------------------------------------------------------------------------------------- *)
(* boolean list predicates *)

Section Bool.
  Context {A : Type} (eqb : A -> A -> bool).
  Hypothesis eqb_spec : forall x y, eqb x y = true <-> x = y.

  Lemma inb_In : forall x l, inb eqb x l = true <-> In x l.
  Proof. intros. apply (memb_spec eqb eqb_spec). Qed.

  Lemma subsetb_incl : forall l1 l2, subsetb eqb l1 l2 = true <-> incl l1 l2.
  Proof.
    intros l1 l2. unfold subsetb. rewrite forallb_forall. unfold incl.
    split; intros H x Hx; [apply inb_In, H, Hx | apply inb_In, H, Hx].
  Qed.

  Lemma set_eqb_spec : forall l1 l2, set_eqb eqb l1 l2 = true <-> (forall x, In x l1 <-> In x l2).
  Proof.
    intros l1 l2. unfold set_eqb. rewrite andb_true_iff, !subsetb_incl. unfold incl.
    split; [intros [H1 H2] x; split; auto | intros H; split; intros x; apply H].
  Qed.

  Lemma nodupb_NoDup : forall l, nodupb eqb l = true -> NoDup l.
  Proof.
    induction l as [|x l IH]; cbn; intro H; [constructor|].
    apply andb_true_iff in H as [H1 H2]. constructor; [|apply IH, H2].
    intro Hin. apply inb_In in Hin. rewrite Hin in H1. discriminate.
  Qed.
End Bool.

Lemma job_eqb_spec : forall a b, job_eqb a b = true <-> a = b.
Proof.
  intros [[k s] t] [[k' s'] t']. unfold job_eqb. rewrite !andb_true_iff, !N.eqb_eq, Z.eqb_eq.
  split; [intros [[-> ->] ->]; reflexivity | intros H; injection H as -> -> ->; auto].
Qed.

Lemma sg_eqb_spec : forall a b, sg_eqb a b = true <-> a = b.
Proof.
  intros a b. destruct a, b; cbn; try (split; [discriminate | congruence]); try tauto;
    rewrite !andb_true_iff, !N.eqb_eq; (split; [intros [[-> ->] ->]; reflexivity | intros H; injection H as -> -> ->; auto]).
Qed.

Lemma msg_eqb_spec : forall a b, msg_eqb a b = true <-> a = b.
Proof.
  intros [[[s r] v] x] [[[s' r'] v'] x']. unfold msg_eqb. rewrite !andb_true_iff, !N.eqb_eq, sg_eqb_spec.
  split; [intros [[[-> ->] ->] ->]; reflexivity | intros H; injection H as -> -> -> ->; auto].
Qed.

(* -------------------------------------------------------------------------------------------- *)
(* the window of the check = the window of the theorems *)

Lemma upto_In : forall n lo s, In s (upto lo n) <-> lo <= s < lo + N.of_nat n.
Proof.
  induction n as [|n IH]; intros lo s; cbn [upto].
  - change (N.of_nat 0) with 0. split; [intros [] | intros H; lia].
  - cbn [In]. rewrite IH, Nat2N.inj_succ. clear IH. generalize (N.of_nat n). intros m. lia.
Qed.

Lemma period_end_ge_2_exact : forall p epoch, chain_ok p -> 2 <= period_end p epoch.
Proof.
  intros p epoch (Hs & He & H2). unfold period_end, period_next_epoch.
  assert (spe p * epp p <= (epoch / epp p + 1) * epp p * spe p).
  { replace ((epoch / epp p + 1) * epp p * spe p) with (epoch / epp p * (epp p * spe p) + spe p * epp p) by ring. apply N.le_add_l. }
  assert ((epoch / epp p + 1) * epp p * spe p <= N.max ((epoch / epp p + 1) * epp p) (fork p) * spe p).
  { apply N.mul_le_mono_r. lia. }
  lia.
Qed.

Lemma spec_slots_In : forall p epoch cur notcur s,
  chain_ok p ->
  (In s (spec_slots p epoch cur notcur) <->
   fork p <= cur / spe p /\ spec_first p epoch cur <= s <= spec_last p epoch /\ (notcur = true -> s <> cur)).
Proof.
  intros p epoch cur notcur s Hok. pose proof (period_end_ge_2_exact p epoch Hok) as HE.
  unfold spec_slots, spec_first, spec_last, period_start, period_end, period_first_epoch, period_next_epoch in *.
  generalize dependent (N.max ((epoch / epp p + 1) * epp p) (fork p) * spe p). intros E HE.
  generalize (N.max (epoch / epp p * epp p) (fork p) * spe p). intros F.
  generalize (cur / spe p). intros ce. generalize (fork p). intros fk. clear Hok.
  destruct (N.ltb_spec ce fk) as [Hf|Hf].
  - cbn [In]. split; [intros [] | intros (H & _); lia].
  - destruct (N.ltb_spec E (N.max (F - 1) cur + 2)) as [Hlt|Hge].
    + cbn [In]. split; [intros [] | intros (_ & H & _); lia].
    + rewrite filter_In, upto_In.
      assert (Hb : negb (notcur && (s =? cur)) = true <-> (notcur = true -> s <> cur)).
      { destruct notcur, (N.eqb_spec s cur); cbn; split; intros H; try congruence; try discriminate.
        exfalso. apply H; auto. }
      rewrite Hb. generalize (notcur = true -> s <> cur). intros P.
      split; intros (H1 & H2); [split; [exact Hf|]; split; [lia | exact H2] | destruct H2 as (H2 & H3); split; [lia | exact H3]].
Qed.

Lemma sched_ready_spec : forall p i,
  ready p i <-> (exists ds, sched_ready i = Some ds) /\ fork p <= si_cur i / spe p.
Proof.
  intros p i. unfold ready, sched_ready, epoch_of_slot.
  destruct (si_indices i) as [|x xs]; [split; [intros (H & _); congruence | intros ((ds & H) & _); discriminate]|].
  destruct (si_duties i) as [[|d ds]|];
    try (split; [intros (_ & _ & (d' & ds' & H) & _); discriminate | intros ((ds' & H) & _); discriminate]).
  destruct (si_accts i);
    [|split; [intros (_ & _ & _ & H); congruence | intros ((ds' & H) & _); discriminate]].
  split.
  - intros (_ & Hf & _ & _). split; [eauto | exact Hf].
  - intros (_ & Hf). repeat split; try discriminate; eauto.
Qed.

Lemma sched_ready_duties : forall i ds, sched_ready i = Some ds -> si_duties i = Some ds.
Proof.
  intros i ds. unfold sched_ready. destruct (si_indices i); [discriminate|].
  destruct (si_duties i) as [[|d l0]|]; try discriminate. destruct (si_accts i); [|discriminate].
  intros H. injection H as <-. reflexivity.
Qed.

(* StartOfSlot(slot).Add(-slotDuration * 6 / 4), Go's truncating division, and the floor division
   of the check agree for a non-negative slot duration *)
Lemma prepare_time_floor : forall p s, (0 <= slot_ns p)%Z ->
  prepare_time p s = (Z.of_N s * slot_ns p - slot_ns p * 6 / 4)%Z.
Proof.
  intros p s H. unfold prepare_time, start_of_slot.
  replace (- slot_ns p * 6)%Z with (- (slot_ns p * 6))%Z by lia.
  rewrite Z.quot_opp_l by lia. rewrite Z.quot_div_nonneg by lia. lia.
Qed.

(* The observed job table passes the check iff it is the job table of theorem C15_schedule_jobs. *)
Lemma schedule_check_sound : forall p i o,
  chain_ok p -> (0 <= slot_ns p)%Z -> spec_schedule_ok p i o = true ->
  (forall k s t, In (k, s, t) (so_jobs o) <->
     ready p i /\ k = JPrepare /\ t = prepare_time p s
     /\ spec_first p (si_epoch i) (si_cur i) <= s <= spec_last p (si_epoch i)
     /\ (si_notcur i = true -> s <> si_cur i))
  /\ NoDup (so_jobs o).
Proof.
  intros p i o Hok Hns H. unfold spec_schedule_ok in H. apply andb_true_iff in H as [Hset Hnd].
  split; [|apply (nodupb_NoDup job_eqb job_eqb_spec), Hnd].
  intros k s t. rewrite (set_eqb_spec job_eqb job_eqb_spec) in Hset. rewrite <- Hset.
  rewrite sched_ready_spec. destruct (sched_ready i) as [ds|].
  - rewrite in_map_iff. split.
    + intros (s' & Heq & Hin). injection Heq as <- <- <-.
      apply (spec_slots_In p _ _ _ _ Hok) in Hin. rewrite prepare_time_floor by exact Hns.
      intuition eauto.
    + intros ((_ & Hf) & -> & -> & Hw & Hn). exists s. split.
      * rewrite prepare_time_floor by exact Hns. reflexivity.
      * apply (spec_slots_In p _ _ _ _ Hok). auto.
  - cbn. split; [intros [] | intros (((ds & Hd) & _) & _); discriminate].
Qed.

(* -------------------------------------------------------------------------------------------- *)
(* the members of the check = the members of the theorems *)

Lemma inbN_In : forall x l, inb N.eqb x l = true <-> In x l.
Proof. intros. apply (inb_In N.eqb N.eqb_eq). Qed.

Lemma inbN_false : forall x l, inb N.eqb x l = false <-> ~ In x l.
Proof. intros x l. rewrite <- inbN_In. destruct (inb N.eqb x l); split; congruence. Qed.

Lemma nodupN_In : forall l x, In x (nodupN l) <-> In x l.
Proof.
  induction l as [|y l IH]; intros x; cbn; [tauto|].
  destruct (inb N.eqb y l) eqn:E.
  - rewrite IH. apply inbN_In in E. split; [auto | intros [<-|H]; auto].
  - cbn. rewrite IH. tauto.
Qed.

Lemma held_spec : forall i v, held i v = true <-> holds_account i v.
Proof.
  intros i v. unfold held, holds_account. destruct (si_accts i) as [a|].
  - rewrite andb_true_iff, !inbN_In. split; [intros [H1 H2]; eauto | intros (a' & Heq & H1 & H2); injection Heq as <-; auto].
  - split; [discriminate | intros (? & H & _); discriminate].
Qed.

Lemma spec_signers_In : forall i ds v,
  In v (spec_signers i ds) <-> In v (map fst ds) /\ holds_account i v.
Proof. intros. unfold spec_signers. rewrite filter_In, nodupN_In, held_spec. tauto. Qed.

Lemma has_duty_ready : forall i ds v, si_duties i = Some ds -> (has_duty i v <-> In v (map fst ds)).
Proof.
  intros i ds v H. unfold has_duty. rewrite H. split; [intros (ds' & Heq & Hin); injection Heq as <-; exact Hin | eauto].
Qed.

Lemma contrib_eqb_spec : forall a b, contrib_eqb a b = true <-> a = b.
Proof.
  intros [a1 a2 a3 a4 a5 a6] [b1 b2 b3 b4 b5 b6]. unfold contrib_eqb. cbn.
  rewrite !andb_true_iff, !N.eqb_eq, !sg_eqb_spec. split.
  - intros [[[[[-> ->] ->] ->] ->] ->]. reflexivity.
  - intros H. injection H as -> -> -> -> -> ->. auto 10.
Qed.

Lemma pairN_eqb_spec' : forall x y : N * N, pairN_eqb x y = true <-> x = y.
Proof. apply pairN_eqb_spec. Qed.

(* -------------------------------------------------------------------------------------------- *)
(* the check's helper functions are the model's *)

Lemma positions_of_last_duty : forall ds v, positions_of ds v = last_duty ds v.
Proof. induction ds as [|d ds IH]; intros v; cbn; [reflexivity|]. rewrite IH. reflexivity. Qed.

Lemma hash_of_lookup3 : forall t x, hash_of t x = lookup3 t (fst x) (snd x).
Proof.
  induction t as [|[[v c] h] t IH]; intros x; cbn; [reflexivity|]. rewrite IH.
  rewrite (N.eqb_sym v), (N.eqb_sym c). reflexivity.
Qed.

Lemma spec_selected_selected : forall p f x, spec_selected p f x = selected p f x.
Proof. intros. unfold spec_selected, selected, is_aggregator, modulo. rewrite hash_of_lookup3. reflexivity. Qed.

Lemma held_has_account : forall i v, held i v = has_account i v.
Proof. reflexivity. Qed.

Lemma signers_spec : forall i ds v, si_duties i = Some ds ->
  (In v (signers (members i) (has_account i)) <-> In v (spec_signers i ds)).
Proof.
  intros i ds v H. rewrite signers_In, spec_signers_In, members_keys, has_account_spec.
  unfold holds_account. rewrite H. split.
  - intros ((ds' & Heq & Hin) & Ha). injection Heq as <-. auto.
  - intros (Hin & Ha). eauto.
Qed.

Lemma pairs_spec : forall p i ds x, si_duties i = Some ds ->
  (In x (sel_pairs p (members i) (has_account i)) <-> In x (spec_pairs p i ds)).
Proof.
  intros p i ds x H. rewrite sel_pairs_In. unfold spec_pairs. rewrite in_flat_map. split.
  - intros ([v ps] & pos & Hm & Ha & Hp & ->). cbn [fst snd] in *.
    exists v. split.
    + apply (signers_spec i ds v H). apply signers_In. split; [apply (in_map fst) in Hm; exact Hm | exact Ha].
    + unfold members in Hm. rewrite H in Hm. apply message_indices_In in Hm.
      rewrite positions_of_last_duty, Hm. apply in_map_iff. exists pos. auto.
  - intros (v & Hv & Hin). apply (signers_spec i ds v H), signers_In in Hv. destruct Hv as (_ & Ha).
    rewrite positions_of_last_duty in Hin. destruct (last_duty ds v) as [ps|] eqn:E; [|destruct Hin].
    apply in_map_iff in Hin. destruct Hin as (pos & <- & Hp).
    exists (v, ps), pos. cbn [fst snd]. repeat split; auto.
    unfold members. rewrite H. apply message_indices_In. exact E.
Qed.

Lemma nil_iff : forall (A : Type) (l l' : list A), (forall x, In x l <-> In x l') -> (l = [] <-> l' = []).
Proof.
  intros A l l' H. split; intros ->.
  - destruct l' as [|y l']; [reflexivity|]. destruct (proj2 (H y)); left; reflexivity.
  - destruct l as [|y l]; [reflexivity|]. destruct (proj1 (H y)); left; reflexivity.
Qed.


(* The observed payload of a fired window slot passes the check only if it is what theorem
   C15_message_every_slot says: sound always, complete unless a signer fails for the whole batch. *)
Lemma fire_check_sound : forall p i f o r,
  chain_ok p -> spec_fire_ok p i f o = true ->
  ready p i -> in_window p i (f_slot f) -> f_root f = Some r ->
  (forall s' r' v x, In (s', r', v, x) (opt_list (o_submitted o)) ->
      s' = f_slot f /\ r' = r /\ has_duty i v /\ holds_account i v /\ x = SgRoot v (f_slot f / spe p) r)
  /\ NoDup (map msg_validator (opt_list (o_submitted o)))
  /\ (f_sel_err f = false -> f_root_err f = false ->
      forall v, has_duty i v -> holds_account i v -> ~ In v (f_root_zero f) ->
        In (f_slot f, r, v, SgRoot v (f_slot f / spe p) r) (opt_list (o_submitted o)))
  /\ (f_sel_err f = false -> o_msg_job o = Some (message_time p (f_slot f))).
Proof.
  intros p i f o r Hok H Hrd (Hw & Hn) Hroot. unfold spec_fire_ok in H.
  apply sched_ready_spec in Hrd. destruct Hrd as ((ds & Hds) & Hfork). rewrite Hds in H.
  pose proof (sched_ready_duties i ds Hds) as Hduties.
  assert (Hin : inb N.eqb (f_slot f) (spec_slots p (si_epoch i) (si_cur i) (si_notcur i)) = true).
  { apply inbN_In. apply (spec_slots_In p _ _ _ _ Hok). auto. }
  rewrite Hin in H. cbn [negb] in H. rewrite Hroot in H.
  set (got := opt_list (o_submitted o)) in *.
  apply andb_true_iff in H as [HAB HX]. apply andb_true_iff in HAB as [_ Hjob].
  apply andb_true_iff in HX as [HX _]. apply andb_true_iff in HX as [HX Hagg]. apply andb_true_iff in HX as [HX Hcomp].
  apply andb_true_iff in HX as [Hnd Hsound].
  split; [|split; [|split]].
  - intros s' r' v x Hm. rewrite forallb_forall in Hsound. specialize (Hsound _ Hm). cbn in Hsound.
    apply andb_true_iff in Hsound as [Hs Hx]. apply andb_true_iff in Hs as [Hs Hv].
    apply andb_true_iff in Hs as [Hs Hr']. apply N.eqb_eq in Hs, Hr'. apply sg_eqb_spec in Hx.
    apply inbN_In, spec_signers_In in Hv. destruct Hv as (Hv1 & Hv2).
    rewrite (has_duty_ready i ds v Hduties). auto.
  - apply (nodupb_NoDup N.eqb N.eqb_eq) in Hnd. exact Hnd.
  - intros Hse Hre v Hd Ha Hz.
    assert (Hsf : (match spec_pairs p i ds with [] => false | _ => f_sel_err f end) = false)
      by (rewrite Hse; destruct (spec_pairs p i ds); reflexivity).
    rewrite Hsf, Hre in Hcomp. cbn [orb] in Hcomp.
    apply (subsetb_incl msg_eqb msg_eqb_spec) in Hcomp. apply Hcomp.
    apply in_map_iff. exists v. split; [reflexivity|]. apply filter_In. split.
    + apply spec_signers_In. rewrite <- (has_duty_ready i ds v Hduties). auto.
    + destruct (inb N.eqb v (f_root_zero f)) eqn:E; [apply inbN_In in E; contradiction | reflexivity].
  - intros Hse.
    assert (Hsf : (match spec_pairs p i ds with [] => false | _ => f_sel_err f end) = false)
      by (rewrite Hse; destruct (spec_pairs p i ds); reflexivity).
    rewrite Hsf in Hjob. apply (option_eqb_spec Z.eqb Z.eqb_eq) in Hjob. exact Hjob.
Qed.

Lemma spec_aggs_In : forall p i ds f x, si_duties i = Some ds ->
  (In x (filter (spec_selected p f) (spec_pairs p i ds)) <-> In x (aggregators p (members i) (has_account i) f)).
Proof.
  intros p i ds f x H. rewrite filter_In, aggregators_In, spec_selected_selected, (pairs_spec p i ds x H). tauto.
Qed.

(* ... and the observed selection-signer call, root-signer call, aggregation job and contributions
   are those of theorems C15_subcommittee_and_selection_spec / C15_contribution_sound /
   C15_contribution_complete ([aggregators] is characterised there by the specification's rule). *)
Lemma contrib_check_sound : forall p i f o r,
  chain_ok p -> spec_fire_ok p i f o = true ->
  ready p i -> in_window p i (f_slot f) -> f_root f = Some r ->
  let aggs := aggregators p (members i) (has_account i) f in
  (forall x, In x (opt_list (o_sel_call o)) <-> In x (sel_pairs p (members i) (has_account i)))
  /\ (forall c, In c (opt_list (o_contribs o)) ->
       In (cp_agg c, cp_subc c) aggs /\ c = mk_contrib f r (cp_agg c, cp_subc c))
  /\ NoDup (map (fun c => (cp_agg c, cp_subc c)) (opt_list (o_contribs o)))
  /\ (f_sel_err f = false -> f_root_err f = false -> f_submit_err f = false ->
      (exists v, has_duty i v /\ holds_account i v /\ ~ In v (f_root_zero f)) ->
      (aggs = [] -> o_agg_job o = None)
      /\ (aggs <> [] -> o_agg_job o = Some (aggregate_time p (f_slot f))
          /\ (f_cp_err f = false -> (forall x, In x aggs -> ~ In (snd x) (f_contrib_err f)) ->
              forall x, In x aggs -> In (mk_contrib f r x) (opt_list (o_contribs o)))))
  /\ (forall accts e rr, o_root_call o = Some (accts, e, rr) ->
        e = f_slot f / spe p /\ rr = r
        /\ forall a, In a accts -> exists v, a = Some v /\ has_duty i v /\ holds_account i v).
Proof.
  intros p i f o r Hok H Hrd (Hw & Hn) Hroot aggs. unfold spec_fire_ok in H.
  apply sched_ready_spec in Hrd. destruct Hrd as ((ds & Hds) & Hfork). rewrite Hds in H.
  pose proof (sched_ready_duties i ds Hds) as Hduties.
  assert (Hin : inb N.eqb (f_slot f) (spec_slots p (si_epoch i) (si_cur i) (si_notcur i)) = true).
  { apply inbN_In. apply (spec_slots_In p _ _ _ _ Hok). auto. }
  rewrite Hin in H. cbn [negb] in H. rewrite Hroot in H. cbv zeta in H.
  apply andb_true_iff in H as [HAB HX]. apply andb_true_iff in HAB as [Hsel _].
  apply andb_true_iff in HX as [HX Hrc]. apply andb_true_iff in HX as [_ Hagg].
  apply andb_true_iff in Hagg as [Hagg Hrest]. apply andb_true_iff in Hagg as [Hsub Hnd].
  pose proof (fun x => spec_aggs_In p i ds f x Hduties) as Haggs. fold aggs in Haggs.
  split; [|split; [|split; [|split]]].
  - intros x. rewrite (pairs_spec p i ds x Hduties).
    destruct (o_sel_call o) as [l|]; cbn [opt_list].
    + exact (proj1 (set_eqb_spec pairN_eqb pairN_eqb_spec' _ _) Hsel x).
    + destruct (spec_pairs p i ds); [tauto | discriminate].
  - intros c Hc. apply (subsetb_incl contrib_eqb contrib_eqb_spec) in Hsub. apply Hsub in Hc.
    apply in_map_iff in Hc. destruct Hc as ([v sc] & <- & Hx). apply Haggs in Hx. cbn [cp_agg cp_subc fst snd].
    split; [exact Hx | reflexivity].
  - apply (nodupb_NoDup pairN_eqb pairN_eqb_spec') in Hnd. exact Hnd.
  - intros Hse Hre Hsb (v & Hd & Ha & Hz).
    assert (Hsf : (match spec_pairs p i ds with [] => false | _ => f_sel_err f end) = false)
      by (rewrite Hse; destruct (spec_pairs p i ds); reflexivity).
    rewrite Hsf, Hre, Hsb in Hrest. cbn [orb] in Hrest.
    assert (Hwm : In (f_slot f, r, v, SgRoot v (f_slot f / spe p) r)
                     (map (fun v0 => (f_slot f, r, v0, SgRoot v0 (f_slot f / spe p) r))
                          (filter (fun v0 => negb (inb N.eqb v0 (f_root_zero f))) (spec_signers i ds)))).
    { apply in_map_iff. exists v. split; [reflexivity|]. apply filter_In. split.
      - apply spec_signers_In. rewrite <- (has_duty_ready i ds v Hduties). auto.
      - destruct (inb N.eqb v (f_root_zero f)) eqn:E; [apply inbN_In in E; contradiction | reflexivity]. }
    destruct (map _ (filter _ (spec_signers i ds))) as [|m0 ms0]; [destruct Hwm|].
    pose proof (nil_iff _ _ _ Haggs) as Hnil.
    destruct (filter (spec_selected p f) (spec_pairs p i ds)) as [|a0 l0] eqn:Ef.
    + destruct Hnil as [Hnil _]. specialize (Hnil eq_refl). split.
      * intros _. destruct (o_agg_job o); [discriminate | reflexivity].
      * intros Hne. congruence.
    + split; [intros He; destruct Hnil as [_ Hnil]; specialize (Hnil He); discriminate|].
      intros _. apply andb_true_iff in Hrest as [Hjob Hcomp].
      apply (option_eqb_spec Z.eqb Z.eqb_eq) in Hjob. split; [exact Hjob|].
      intros Hcp Hfetch x Hx. rewrite Hcp in Hcomp. cbn [orb] in Hcomp.
      assert (Hex : existsb (fun x0 : N * N => inb N.eqb (snd x0) (f_contrib_err f)) (a0 :: l0) = false).
      { apply existsb_false. intros y Hy. apply inbN_false. apply Hfetch, Haggs, Hy. }
      rewrite Hex in Hcomp. apply (subsetb_incl contrib_eqb contrib_eqb_spec) in Hcomp. apply Hcomp.
      apply in_map_iff. exists x. split; [destruct x; reflexivity | apply Haggs, Hx].
  - intros accts e rr Ho. rewrite Ho in Hrc.
    apply andb_true_iff in Hrc as [Hrc Hall]. apply andb_true_iff in Hrc as [He Hr'].
    apply N.eqb_eq in He, Hr'. split; [exact He|]. split; [exact Hr'|].
    intros a Ha. rewrite forallb_forall in Hall. specialize (Hall a Ha). destruct a as [v|]; [|discriminate].
    exists v. split; [reflexivity|]. apply inbN_In, spec_signers_In in Hall.
    rewrite (has_duty_ready i ds v Hduties). exact Hall.
Qed.

(* outside the window the check accepts no message *)
Lemma fire_check_outside : forall p i f o,
  chain_ok p -> spec_fire_ok p i f o = true -> ready p i -> ~ in_window p i (f_slot f) ->
  opt_list (o_submitted o) = [].
Proof.
  intros p i f o Hok H Hrd Hn. unfold spec_fire_ok in H.
  apply sched_ready_spec in Hrd. destruct Hrd as ((ds & Hds) & Hfork). rewrite Hds in H.
  destruct (inb N.eqb (f_slot f) (spec_slots p (si_epoch i) (si_cur i) (si_notcur i))) eqn:Hin.
  - apply inbN_In, (spec_slots_In p _ _ _ _ Hok) in Hin. exfalso. apply Hn. unfold in_window. tauto.
  - cbn [negb] in H. destruct (opt_list (o_submitted o)); [reflexivity | discriminate].
Qed.

Lemma fires_ok_nth : forall p i fs os k f o,
  fires_ok p i fs os = true -> nth_error fs k = Some f -> nth_error os k = Some o -> spec_fire_ok p i f o = true.
Proof.
  intros p i. induction fs as [|f0 fs IH]; intros os k f o H Hf Ho.
  - destruct k; discriminate.
  - destruct os as [|o0 os]; [discriminate|]. cbn in H. apply andb_true_iff in H as [H0 H1].
    destruct k as [|k]; cbn in Hf, Ho.
    + injection Hf as <-. injection Ho as <-. exact H0.
    + exact (IH os k f o H1 Hf Ho).
Qed.

(* P_b on a case: the observed job table is the specified one, and every fired slot's observed
   payload is sound and complete in the sense of the theorems. *)
Theorem P_b_sound : forall c,
  P_b c = true -> chain_ok (c_par c) -> (0 <= slot_ns (c_par c))%Z ->
  let p := c_par c in let i := c_in c in
  (forall k s t, In (k, s, t) (so_jobs (c_out c)) <->
     ready p i /\ k = JPrepare /\ t = prepare_time p s
     /\ spec_first p (si_epoch i) (si_cur i) <= s <= spec_last p (si_epoch i)
     /\ (si_notcur i = true -> s <> si_cur i))
  /\ NoDup (so_jobs (c_out c))
  /\ length (c_fouts c) = length (c_fires c)
  /\ forall k f o, nth_error (c_fires c) k = Some f -> nth_error (c_fouts c) k = Some o -> ready p i ->
       (~ in_window p i (f_slot f) -> opt_list (o_submitted o) = [])
       /\ (in_window p i (f_slot f) -> forall r, f_root f = Some r ->
           (forall s' r' v x, In (s', r', v, x) (opt_list (o_submitted o)) ->
              s' = f_slot f /\ r' = r /\ has_duty i v /\ holds_account i v /\ x = SgRoot v (f_slot f / spe p) r)
           /\ NoDup (map msg_validator (opt_list (o_submitted o)))
           /\ (f_sel_err f = false -> f_root_err f = false ->
               forall v, has_duty i v -> holds_account i v -> ~ In v (f_root_zero f) ->
                 In (f_slot f, r, v, SgRoot v (f_slot f / spe p) r) (opt_list (o_submitted o)))
           /\ (f_sel_err f = false -> o_msg_job o = Some (message_time p (f_slot f)))).
Proof.
  intros c H Hok Hns p i. unfold P_b in H. apply andb_true_iff in H as [H _]. unfold P_b_base in H. apply andb_true_iff in H as [H _].
  apply andb_true_iff in H as [Hs Hf]. fold p i in Hs, Hf.
  destruct (schedule_check_sound p i (c_out c) Hok Hns Hs) as (Hj & Hnd).
  split; [exact Hj|]. split; [exact Hnd|]. split.
  - clear - Hf. revert Hf. generalize (c_fouts c). induction (c_fires c) as [|f fs IH]; intros [|o os] H; cbn in *;
      try discriminate; [reflexivity|]. apply andb_true_iff in H as [_ H]. f_equal. apply IH, H.
  - intros k f o Hkf Hko Hrd. pose proof (fires_ok_nth p i _ _ k f o Hf Hkf Hko) as Hfo. split.
    + intros Hn. exact (fire_check_outside p i f o Hok Hfo Hrd Hn).
    + intros Hw r Hr. exact (fire_check_sound p i f o r Hok Hfo Hrd Hw Hr).
Qed.

Theorem P_b_sound_contributions : forall c,
  P_b c = true -> chain_ok (c_par c) ->
  let p := c_par c in let i := c_in c in
  forall k f o r, nth_error (c_fires c) k = Some f -> nth_error (c_fouts c) k = Some o ->
    ready p i -> in_window p i (f_slot f) -> f_root f = Some r ->
    let aggs := aggregators p (members i) (has_account i) f in
    (forall x, In x (opt_list (o_sel_call o)) <-> In x (sel_pairs p (members i) (has_account i)))
    /\ (forall c, In c (opt_list (o_contribs o)) ->
         In (cp_agg c, cp_subc c) aggs /\ c = mk_contrib f r (cp_agg c, cp_subc c))
    /\ NoDup (map (fun c => (cp_agg c, cp_subc c)) (opt_list (o_contribs o)))
    /\ (f_sel_err f = false -> f_root_err f = false -> f_submit_err f = false ->
        (exists v, has_duty i v /\ holds_account i v /\ ~ In v (f_root_zero f)) ->
        (aggs = [] -> o_agg_job o = None)
        /\ (aggs <> [] -> o_agg_job o = Some (aggregate_time p (f_slot f))
            /\ (f_cp_err f = false -> (forall x, In x aggs -> ~ In (snd x) (f_contrib_err f)) ->
                forall x, In x aggs -> In (mk_contrib f r x) (opt_list (o_contribs o)))))
    /\ (forall accts e rr, o_root_call o = Some (accts, e, rr) ->
          e = f_slot f / spe p /\ rr = r
          /\ forall a, In a accts -> exists v, a = Some v /\ has_duty i v /\ holds_account i v).
Proof.
  intros c H Hok p i k f o r Hkf Hko Hrd Hw Hr. unfold P_b in H. apply andb_true_iff in H as [H _]. unfold P_b_base in H. apply andb_true_iff in H as [H _].
  apply andb_true_iff in H as [_ Hf]. fold p i in Hf.
  pose proof (fires_ok_nth p i _ _ k f o Hf Hkf Hko) as Hfo.
  exact (contrib_check_sound p i f o r Hok Hfo Hrd Hw Hr).
Qed.

(* Aggregate called on its own: the observed contributions are those of the aggregators that have
   an account, each once, all of them unless the node or the contribution signer fails. *)
Lemma agg_check_sound : forall a o,
  spec_agg_ok a o = true ->
  (forall c, In c (opt_list o) ->
     exists r, agg_root a = Some r /\ In (cp_agg c, cp_subc c) (agg_items a) /\ c = agg_contrib a r (cp_agg c, cp_subc c))
  /\ NoDup (map (fun c => (cp_agg c, cp_subc c)) (opt_list o))
  /\ (forall r, agg_root a = Some r -> a_cp_err a = false ->
      (forall x, In x (agg_items a) -> ~ In (snd x) (a_contrib_err a)) ->
      forall x, In x (agg_items a) -> In (agg_contrib a r x) (opt_list o)).
Proof.
  intros a o H. unfold spec_agg_ok in H. fold (agg_root a) in H.
  destruct (agg_root a) as [r|].
  - cbv zeta in H.
    change (flat_map (fun m : N * list N => if inb N.eqb (fst m) (a_accts a) then map (fun c : N => (fst m, c)) (snd m) else [])
                     (a_aggs a)) with (agg_items a) in H.
    apply andb_true_iff in H as [H Hcomp]. apply andb_true_iff in H as [Hsub Hnd].
    split; [|split].
    + intros c Hc. apply (subsetb_incl contrib_eqb contrib_eqb_spec) in Hsub. apply Hsub in Hc.
      apply in_map_iff in Hc. destruct Hc as ([v sc] & <- & Hx). exists r. cbn [cp_agg cp_subc fst snd]. auto.
    + apply (nodupb_NoDup pairN_eqb pairN_eqb_spec') in Hnd. exact Hnd.
    + intros r' Hr' Hcp Hfetch x Hx. injection Hr' as <-. rewrite Hcp in Hcomp. cbn [orb] in Hcomp.
      assert (Hex : existsb (fun x0 : N * N => inb N.eqb (snd x0) (a_contrib_err a)) (agg_items a) = false).
      { apply existsb_false. intros y Hy. apply inbN_false. apply Hfetch, Hy. }
      rewrite Hex in Hcomp. apply (subsetb_incl contrib_eqb contrib_eqb_spec) in Hcomp. apply Hcomp.
      apply in_map_iff. exists x. split; [destruct x; reflexivity | exact Hx].
  - destruct (opt_list o) eqn:E; [|discriminate]. split; [intros c []|]. split; [constructor|].
    intros r Hr. discriminate.
Qed.

Theorem P_b_sound_aggregate : forall c a o,
  P_b c = true -> c_agg c = Some (a, o) ->
  (forall c, In c (opt_list o) ->
     exists r, agg_root a = Some r /\ In (cp_agg c, cp_subc c) (agg_items a) /\ c = agg_contrib a r (cp_agg c, cp_subc c))
  /\ NoDup (map (fun c => (cp_agg c, cp_subc c)) (opt_list o))
  /\ (forall r, agg_root a = Some r -> a_cp_err a = false ->
      (forall x, In x (agg_items a) -> ~ In (snd x) (a_contrib_err a)) ->
      forall x, In x (agg_items a) -> In (agg_contrib a r x) (opt_list o)).
Proof.
  intros c a o H Hg. unfold P_b in H. apply andb_true_iff in H as [H _]. unfold P_b_base in H. apply andb_true_iff in H as [_ H]. rewrite Hg in H.
  exact (agg_check_sound a o H).
Qed.
