(* C03 — the scheduling functions of the controller model meet their declarative reading
   (Model/C03_Spec.v): exact content of the job table after scheduleAttestations /
   scheduleProposals / scheduleSyncCommitteeMessages and after the refreshes. *)
From Verif Require Import Lib.Base Model.C03_ChainTime Model.C03_Controller Model.C03_Spec
     Proofs.C03_ChainTime Proofs.C03_Table.
From Coq Require Import ZifyBool ZifyN ZifyNat Permutation.
Open Scope N_scope.

(* ------------------------------------------------------------------------------------------- *)
(* a fold of "schedule some jobs for x" steps, seen through tget *)

Section FoldSteps.
  Variable step : table -> N -> table.
  Variable add : N -> jname -> option job.
  Hypothesis step_spec : forall t x n,
    tget (step t x) n = match tget t n with Some j => Some j | None => add x n end.

  Fixpoint first_add (l : list N) (n : jname) : option job :=
    match l with
    | [] => None
    | x :: l' => match add x n with Some j => Some j | None => first_add l' n end
    end.

  Lemma tget_fold_steps : forall l t n,
    tget (fold_left step l t) n = match tget t n with Some j => Some j | None => first_add l n end.
  Proof.
    induction l as [|x l IH]; cbn; intros t n.
    - destruct (tget t n); reflexivity.
    - rewrite IH, step_spec. destruct (tget t n); [reflexivity|].
      destruct (add x n); reflexivity.
  Qed.

  Hypothesis step_wf : forall t x, twf t -> twf (step t x).
  Lemma twf_fold_steps : forall l t, twf t -> twf (fold_left step l t).
  Proof.
    induction l as [|x l IH]; cbn; intros t H; [exact H|]. apply IH. apply step_wf. exact H.
  Qed.
End FoldSteps.

Section Sched.
  Variable c : config.
  Let p := c_ct c.

  (* --------------------------------------------------------------------------------------- *)
  (* attestations *)

  Lemma memb_dedup_slots : forall (ds : list aduty) epoch s,
    memb N.eqb s (dedup (map ad_slot (att_in c ds epoch))) =
    existsb (fun d => ad_slot d =? s) ds && in_epoch c epoch s.
  Proof.
    intros ds epoch s. apply Bool.eq_iff_eq_true.
    rewrite memb_N_spec, dedup_in, in_map_iff, andb_true_iff, existsb_exists. unfold att_in. split.
    - intros [d [Hd Hin]]. apply filter_In in Hin. destruct Hin as [Hin Hep]. subst s.
      split; [exists d; split; [exact Hin | apply N.eqb_refl] | exact Hep].
    - intros [[d [Hin Hd]] Hep]. apply N.eqb_eq in Hd. subst s.
      exists d. split; [reflexivity | apply filter_In; split; assumption].
  Qed.

  Lemma first_add_att : forall (g : N -> bool) (mk : N -> job) l n,
    first_add (fun x n => if g x && jname_eqb (JAtt x) n then Some (mk x) else None) l n =
    match n with
    | JAtt s => if memb N.eqb s l && g s then Some (mk s) else None
    | _ => None
    end.
  Proof.
    intros g mk. induction l as [|x l IH]; intro n; cbn [first_add].
    - destruct n; reflexivity.
    - rewrite IH. destruct n as [s|s|s|s|s]; cbn [jname_eqb]; try (rewrite andb_false_r; reflexivity).
      unfold memb. cbn [existsb]. rewrite (N.eqb_sym s x).
      destruct (x =? s) eqn:E.
      + apply N.eqb_eq in E. subst x. rewrite andb_true_r. cbn [orb].
        destruct (g s); cbn [andb]; [reflexivity|]. rewrite andb_false_r. reflexivity.
      + rewrite andb_false_r. cbn [orb]. reflexivity.
  Qed.

  Theorem sched_att_exact : forall cur have_vals ds epoch notcur t n,
    tget (sched_att c cur have_vals ds epoch notcur t) n = spec_sched_att c cur have_vals ds epoch notcur t n.
  Proof.
    intros cur have_vals ds epoch notcur t n. unfold sched_att, spec_sched_att.
    destruct have_vals; cbn [negb andb].
    2:{ destruct (tget t n); [reflexivity | destruct n; reflexivity]. }
    fold (att_in c ds epoch).
    rewrite (tget_fold_steps _
      (fun x n => if due cur notcur x && jname_eqb (JAtt x) n
                  then Some {| j_name := JAtt x; j_time := (start_of_slot (c_ct c) x + c_att_delay c)%Z;
                               j_pay := att_pay (att_in c ds epoch) x |} else None)).
    - destruct (tget t n); [reflexivity|].
      rewrite first_add_att. destruct n as [s|s|s|s|s]; try reflexivity.
      rewrite memb_dedup_slots. unfold att_wanted, att_job. reflexivity.
    - intros t0 x n0. destruct (due cur notcur x); cbn [andb].
      + rewrite tget_tsched. reflexivity.
      + destruct (tget t0 n0); reflexivity.
  Qed.

  Lemma sched_att_wf : forall cur have_vals ds epoch notcur t,
    twf t -> twf (sched_att c cur have_vals ds epoch notcur t).
  Proof.
    intros cur have_vals ds epoch notcur t H. unfold sched_att.
    destruct have_vals; cbn [negb]; [|exact H].
    apply twf_fold_steps; [|exact H].
    intros t0 x H0. destruct (due cur notcur x); [apply twf_tsched|]; exact H0.
  Qed.

  (* the payload of a job covers exactly the duties the node reported for that slot *)
  Lemma filter_filter_slot : forall (ds : list aduty) epoch s,
    in_epoch c epoch s = true ->
    filter (fun d => ad_slot d =? s) (att_in c ds epoch) = filter (fun d => ad_slot d =? s) ds.
  Proof.
    intros ds epoch s H. unfold att_in. induction ds as [|d ds IH]; cbn; [reflexivity|].
    destruct (in_epoch c epoch (ad_slot d)) eqn:E; cbn.
    - rewrite IH. reflexivity.
    - destruct (ad_slot d =? s) eqn:E2; [|exact IH].
      apply N.eqb_eq in E2. rewrite E2 in E. rewrite E in H. discriminate.
  Qed.

  Lemma att_job_payload : forall ds epoch s,
    in_epoch c epoch s = true ->
    Permutation (j_pay (att_job c ds epoch s))
                (map (fun d => (ad_val d, ad_comm d, ad_vci d)) (filter (fun d => ad_slot d =? s) ds)).
  Proof.
    intros ds epoch s H. unfold att_job, att_pay. cbn [j_pay].
    rewrite filter_filter_slot by exact H. apply sort_by_perm.
  Qed.

  (* --------------------------------------------------------------------------------------- *)
  (* proposals *)

  Lemma memb_dedup_pslots : forall (ds : list pduty) epoch s,
    memb N.eqb s (dedup (map pd_slot (prop_in c ds epoch))) =
    existsb (fun d => pd_slot d =? s) ds && in_epoch c epoch s.
  Proof.
    intros ds epoch s. apply Bool.eq_iff_eq_true.
    rewrite memb_N_spec, dedup_in, in_map_iff, andb_true_iff, existsb_exists. unfold prop_in. split.
    - intros [d [Hd Hin]]. apply filter_In in Hin. destruct Hin as [Hin Hep]. subst s.
      split; [exists d; split; [exact Hin | apply N.eqb_refl] | exact Hep].
    - intros [[d [Hin Hd]] Hep]. apply N.eqb_eq in Hd. subst s.
      exists d. split; [reflexivity | apply filter_In; split; assumption].
  Qed.

  Definition add_prop (g : N -> bool) (b : bool) (ej pj : N -> job) (x : N) (n : jname) : option job :=
    if g x then
      match n with
      | JEarly s => if (x =? s) && b then Some (ej x) else None
      | JProp s => if x =? s then Some (pj x) else None
      | _ => None
      end
    else None.

  Lemma first_add_prop : forall g b ej pj l n,
    first_add (add_prop g b ej pj) l n =
    match n with
    | JProp s => if memb N.eqb s l && g s then Some (pj s) else None
    | JEarly s => if memb N.eqb s l && g s && b then Some (ej s) else None
    | _ => None
    end.
  Proof.
    intros g b ej pj. induction l as [|x l IH]; intro n; cbn [first_add].
    - destruct n; reflexivity.
    - rewrite IH. unfold add_prop.
      destruct n as [s|s|s|s|s]; try (destruct (g x); reflexivity).
      + (* JProp *)
        unfold memb. cbn [existsb]. rewrite (N.eqb_sym s x).
        destruct (x =? s) eqn:E.
        * apply N.eqb_eq in E. subst x. cbn [orb]. destruct (g s); cbn [andb]; [reflexivity|].
          rewrite andb_false_r. reflexivity.
        * cbn [orb]. destruct (g x); reflexivity.
      + (* JEarly *)
        unfold memb. cbn [existsb]. rewrite (N.eqb_sym s x).
        destruct (x =? s) eqn:E.
        * apply N.eqb_eq in E. subst x. cbn [orb andb]. destruct (g s); cbn [andb].
          -- destruct b; [reflexivity|]. rewrite andb_false_r. reflexivity.
          -- rewrite andb_false_r. reflexivity.
        * cbn [orb andb]. destruct (g x); reflexivity.
  Qed.

  Theorem sched_prop_exact : forall cur have_vals ds epoch notcur t n,
    tget (sched_prop c cur have_vals ds epoch notcur t) n = spec_sched_prop c cur have_vals ds epoch notcur t n.
  Proof.
    intros cur have_vals ds epoch notcur t n. unfold sched_prop, spec_sched_prop.
    destruct have_vals; cbn [negb andb].
    2:{ destruct (tget t n); [reflexivity | destruct n; reflexivity]. }
    fold (prop_in c ds epoch).
    rewrite (tget_fold_steps _
      (add_prop (due cur notcur) (0 <? c_prop_delay c)%Z
         (fun x => {| j_name := JEarly x; j_time := start_of_slot (c_ct c) x; j_pay := [] |})
         (fun x => {| j_name := JProp x; j_time := (start_of_slot (c_ct c) x + c_prop_delay c)%Z;
                      j_pay := prop_pay (prop_in c ds epoch) x |}))).
    - destruct (tget t n); [reflexivity|].
      rewrite first_add_prop. destruct n as [s|s|s|s|s]; try reflexivity.
      + rewrite memb_dedup_pslots. unfold prop_wanted, prop_job. reflexivity.
      + rewrite memb_dedup_pslots. unfold prop_wanted, early_job. reflexivity.
    - intros t0 x n0. unfold add_prop. destruct (due cur notcur x).
      + rewrite tget_tsched. destruct (0 <? c_prop_delay c)%Z.
        * rewrite tget_tsched. cbn [j_name jname_eqb].
          destruct (tget t0 n0); [reflexivity|].
          destruct n0 as [s|s|s|s|s]; cbn [jname_eqb]; try reflexivity.
          rewrite andb_true_r. destruct (x =? s); reflexivity.
        * cbn [j_name jname_eqb]. destruct (tget t0 n0); [reflexivity|].
          destruct n0 as [s|s|s|s|s]; cbn [jname_eqb]; try reflexivity.
          rewrite andb_false_r. reflexivity.
      + destruct (tget t0 n0); reflexivity.
  Qed.

  Lemma sched_prop_wf : forall cur have_vals ds epoch notcur t,
    twf t -> twf (sched_prop c cur have_vals ds epoch notcur t).
  Proof.
    intros cur have_vals ds epoch notcur t H. unfold sched_prop.
    destruct have_vals; cbn [negb]; [|exact H].
    apply twf_fold_steps; [|exact H].
    intros t0 x H0. destruct (due cur notcur x); [|exact H0].
    apply twf_tsched. destruct (0 <? c_prop_delay c)%Z; [apply twf_tsched|]; exact H0.
  Qed.

  (* the proposal job of a slot carries the validators the node named for that slot *)
  Lemma prop_job_payload : forall ds epoch s,
    in_epoch c epoch s = true ->
    j_pay (prop_job c ds epoch s) = map (fun d => (pd_val d, 0, 0)) (filter (fun d => pd_slot d =? s) ds).
  Proof.
    intros ds epoch s H. unfold prop_job, prop_pay. cbn [j_pay]. f_equal.
    unfold prop_in. induction ds as [|d ds IH]; cbn; [reflexivity|].
    destruct (in_epoch c epoch (pd_slot d)) eqn:E; cbn.
    - rewrite IH. reflexivity.
    - destruct (pd_slot d =? s) eqn:E2; [|exact IH].
      apply N.eqb_eq in E2. rewrite E2 in E. rewrite E in H. discriminate.
  Qed.

  (* --------------------------------------------------------------------------------------- *)
  (* sync committee messages *)

  Lemma first_add_sync : forall (g : N -> bool) (mk : N -> job) l n,
    first_add (fun x n => if g x && jname_eqb (JSync x) n then Some (mk x) else None) l n =
    match n with
    | JSync s => if memb N.eqb s l && g s then Some (mk s) else None
    | _ => None
    end.
  Proof.
    intros g mk. induction l as [|x l IH]; intro n; cbn [first_add].
    - destruct n; reflexivity.
    - rewrite IH. destruct n as [s|s|s|s|s]; cbn [jname_eqb]; try (rewrite andb_false_r; reflexivity).
      unfold memb. cbn [existsb]. rewrite (N.eqb_sym s x).
      destruct (x =? s) eqn:E.
      + apply N.eqb_eq in E. subst x. rewrite andb_true_r. cbn [orb].
        destruct (g s); cbn [andb]; [reflexivity|]. rewrite andb_false_r. reflexivity.
      + rewrite andb_false_r. cbn [orb]. reflexivity.
  Qed.

  Lemma memb_slot_range : forall fs ls s, memb N.eqb s (slot_range fs ls) = (fs <=? s) && (s <=? ls).
  Proof.
    intros fs ls s. apply Bool.eq_iff_eq_true.
    rewrite memb_N_spec, slot_range_in, andb_true_iff, !N.leb_le. reflexivity.
  Qed.

  Theorem sched_sync_exact : forall ae cur e epoch notcur t n,
    tget (sched_sync c ae cur e epoch notcur t) n = spec_sched_sync c ae cur e epoch notcur t n.
  Proof.
    intros ae cur e epoch notcur t n. unfold sched_sync, spec_sched_sync, sync_wanted, sync_active.
    destruct (sync_window c ae cur epoch) as [[fe fs] ls].
    destruct (e_vals e); cbn [negb andb].
    2:{ destruct (tget t n); [reflexivity | destruct n; reflexivity]. }
    destruct (cur_epoch c cur <? ae); cbn [negb andb].
    { destruct (tget t n); [reflexivity | destruct n; reflexivity]. }
    destruct (alookup (e_sync e) (fe / c_period c)) as [|v vs] eqn:Ev; cbn [negb andb].
    { destruct (tget t n); [reflexivity | destruct n; reflexivity]. }
    rewrite (tget_fold_steps _
      (fun x n => if negb ((x =? cur) && notcur) && jname_eqb (JSync x) n
                  then Some {| j_name := JSync x; j_time := sync_time c x;
                               j_pay := map (fun v => (v, 0, 0)) (sort_by (fun v => v) (dedup (v :: vs))) |}
                  else None)).
    - destruct (tget t n); [reflexivity|].
      rewrite first_add_sync. destruct n as [s|s|s|s|s]; try reflexivity.
      rewrite memb_slot_range. unfold sync_job, sync_pay. reflexivity.
    - intros t0 x n0. destruct ((x =? cur) && notcur); cbn [negb andb].
      + destruct (tget t0 n0); reflexivity.
      + rewrite tget_tsched. reflexivity.
  Qed.

  Lemma sched_sync_wf : forall ae cur e epoch notcur t,
    twf t -> twf (sched_sync c ae cur e epoch notcur t).
  Proof.
    intros ae cur e epoch notcur t H. unfold sched_sync.
    destruct (e_vals e); cbn [negb]; [|exact H].
    destruct (cur_epoch c cur <? ae); [exact H|].
    destruct (sync_window c ae cur epoch) as [[fe fs] ls].
    destruct (alookup (e_sync e) (fe / c_period c)); [exact H|].
    apply twf_fold_steps; [|exact H].
    intros t0 x H0. destruct ((x =? cur) && notcur); [|apply twf_tsched]; exact H0.
  Qed.

  (* --------------------------------------------------------------------------------------- *)
  (* refreshes *)

  Theorem refresh_att_exact : forall cur e epoch t n,
    tget (refresh_att c cur e epoch t) n = spec_refresh_att c cur e epoch t n.
  Proof.
    intros cur e epoch t n. unfold refresh_att, spec_refresh_att.
    destruct (texists t (JPrep epoch)); [reflexivity|].
    rewrite sched_att_exact. unfold spec_sched_att.
    rewrite (tget_filter (fun m => match m with JAtt s => negb (epoch_has c epoch s) | _ => true end)).
    destruct n as [s|s|s|s|s]; try (destruct (tget t _); reflexivity).
    destruct (epoch_has c epoch s); cbn [negb]; reflexivity.
  Qed.

  Lemma refresh_att_wf : forall cur e epoch t, twf t -> twf (refresh_att c cur e epoch t).
  Proof.
    intros cur e epoch t H. unfold refresh_att. destruct (texists t (JPrep epoch)); [exact H|].
    apply sched_att_wf. apply twf_filter. exact H.
  Qed.

  Theorem refresh_prop_exact : forall cur e epoch t n,
    tget (refresh_prop c cur e epoch t) n = spec_refresh_prop c cur e epoch t n.
  Proof.
    intros cur e epoch t n. unfold refresh_prop, spec_refresh_prop.
    rewrite sched_prop_exact. unfold spec_sched_prop.
    rewrite (tget_filter (fun m => match m with JProp s | JEarly s => negb (epoch_has c epoch s) | _ => true end)).
    destruct n as [s|s|s|s|s]; try (destruct (tget t _); reflexivity).
    - destruct (epoch_has c epoch s); cbn [negb]; reflexivity.
    - destruct (epoch_has c epoch s); cbn [negb]; reflexivity.
  Qed.

  Lemma refresh_prop_wf : forall cur e epoch t, twf t -> twf (refresh_prop c cur e epoch t).
  Proof. intros cur e epoch t H. apply sched_prop_wf. apply twf_filter. exact H. Qed.

  Lemma refresh_sync_wf : forall h ae cur e epoch t, twf t -> twf (refresh_sync c h ae cur e epoch t).
  Proof.
    intros h ae cur e epoch t H. unfold refresh_sync. destruct h; cbn [negb]; [|exact H].
    set (t1 := if _ <? _ then t else filter _ t).
    assert (H1 : twf t1) by (unfold t1; destruct (_ <? _); [exact H | apply twf_filter; exact H]).
    destruct (e_vals e); cbn [negb]; [|exact H1]. apply sched_sync_wf. exact H1.
  Qed.

  (* the filter of the requested epoch and the loop over the epoch's slots agree unless the
     first slot of the next epoch overflows uint64 *)
  Lemma in_epoch_epoch_has : forall epoch s,
    0 < first_slot_of_epoch (c_ct c) (add64 epoch 1) ->
    in_epoch c epoch s = epoch_has c epoch s.
  Proof.
    intros epoch s H. unfold in_epoch, epoch_has, sub64.
    destruct (1 <=? first_slot_of_epoch (c_ct c) (add64 epoch 1)) eqn:E; lia.
  Qed.
End Sched.
