(* C19 lemmas about a configuration that changes between calls: a value set at a level is seen by
   every later lookup through that level; a changed top-level value is seen by every later lookup
   that no level decides; a removed value uncovers what lies above it. *)
From Verif Require Import Lib.Base Model.C19_Hierarchy Proofs.C19.
From Coq Require Import Lia PeanoNat.
Local Open Scope list_scope.

Lemma path_eqb_refl : forall p, path_eqb p p = true.
Proof.
  induction p as [|x p IH]; [reflexivity|]. cbn. rewrite String.eqb_refl. exact IH.
Qed.

Lemma get_set_same : forall c k r, get (set_leaf k r c) k = r.
Proof. intros c k r. unfold get, set_leaf. cbn [find_exact]. rewrite path_eqb_refl. reflexivity. Qed.

(* a longer key is never a prefix of a shorter one *)
Lemma prefixb_longer : forall p q, (len q < len p)%nat -> prefixb p q = false.
Proof.
  intros p q H. destruct (prefixb p q) eqn:E; [|reflexivity]. apply prefixb_length in E. lia.
Qed.

Lemma get_set_longer : forall c k r k', (len k < len k')%nat -> get (set_leaf k r c) k' = get c k'.
Proof. intros c k r k' H. apply get_cons_other, prefixb_longer, H. Qed.

Lemma find_exact_del_other : forall c k k', path_eqb k k' = false ->
  find_exact (del_leaf k c) k' = find_exact c k'.
Proof.
  induction c as [|[kq r] c IH]; intros k k' H; [reflexivity|].
  cbn [del_leaf filter fst]. destruct (path_eqb kq k) eqn:E; cbn [negb].
  - assert (kq = k) as -> by (apply (list_eqb_spec String.eqb String.eqb_eq); exact E).
    cbn [find_exact]. rewrite H. apply IH, H.
  - cbn [find_exact]. destruct (path_eqb kq k'); [reflexivity | apply IH, H].
Qed.

Lemma path_eqb_length : forall p q, path_eqb p q = true -> len p = len q.
Proof.
  intros p q H. assert (p = q) as -> by (apply (list_eqb_spec String.eqb String.eqb_eq); exact H).
  reflexivity.
Qed.

Lemma existsb_del_longer : forall c k k', (len k < len k')%nat ->
  existsb (fun e => prefixb k' (fst e)) (del_leaf k c) = existsb (fun e => prefixb k' (fst e)) c.
Proof.
  induction c as [|[kq r] c IH]; intros k k' H; [reflexivity|].
  cbn [del_leaf filter fst]. destruct (path_eqb kq k) eqn:E; cbn [negb existsb fst].
  - apply path_eqb_length in E. rewrite (prefixb_longer k' kq) by lia. cbn. apply IH, H.
  - f_equal. apply IH, H.
Qed.

(* removing a leaf does not touch longer keys *)
Lemma get_del_longer : forall c k k', (len k < len k')%nat -> get (del_leaf k c) k' = get c k'.
Proof.
  intros c k k' H. unfold get. rewrite find_exact_del_other.
  - rewrite existsb_del_longer by exact H. reflexivity.
  - destruct (path_eqb k k') eqn:E; [|reflexivity]. apply path_eqb_length in E. lia.
Qed.

Lemma find_exact_del_same : forall c k, find_exact (del_leaf k c) k = None.
Proof.
  induction c as [|[kq r] c IH]; intro k; [reflexivity|].
  cbn [del_leaf filter fst]. destruct (path_eqb kq k) eqn:E; cbn [negb]; [apply IH|].
  cbn [find_exact]. rewrite E. apply IH.
Qed.

Section History.
  Context {V : Type}.
  Variable has : raw -> bool.
  Variable conv : raw -> V.
  Variable top : config -> V.
  Variable setting : comp.

  Let lookup := lookup has conv top setting.
  Let valued := valued has setting.

  Lemma len_key : forall (p : path), len (p ++ [setting]) = S (len p).
  Proof. intro p. rewrite app_length. cbn. lia. Qed.

  (* levels strictly below a changed level are untouched *)
  Lemma valued_set_deeper : forall c p r q, q <> [] ->
    valued (set_leaf (p ++ [setting]) r c) (p ++ q) = valued c (p ++ q).
  Proof.
    intros c p r q Hq. unfold valued, C19_Hierarchy.valued. rewrite get_set_longer; [reflexivity|].
    rewrite !len_key, app_length. destruct q; [congruence | cbn; lia].
  Qed.

  Lemma valued_del_deeper : forall c p q, q <> [] ->
    valued (del_leaf (p ++ [setting]) c) (p ++ q) = valued c (p ++ q).
  Proof.
    intros c p q Hq. unfold valued, C19_Hierarchy.valued. rewrite get_del_longer; [reflexivity|].
    rewrite !len_key, app_length. destruct q; [congruence | cbn; lia].
  Qed.

  Lemma firstn_nonempty : forall (q : path) j, (1 <= j <= len q)%nat -> firstn j q <> [].
  Proof. intros [|x q] [|j] H; cbn in *; try lia; discriminate. Qed.

  (* A value set at level p (not the top level) is what every later lookup through p returns,
     unless a deeper level of the looked-up path has a value of its own. *)
  Lemma lookup_change_seen : forall c p q r, p <> [] -> has r = true ->
    (forall j, (1 <= j <= len q)%nat -> valued c (p ++ firstn j q) = false) ->
    lookup (set_leaf (p ++ [setting]) r c) (p ++ q) = conv r.
  Proof.
    intros c p q r Hp Hr Hq. unfold lookup.
    rewrite lookup_app_unvalued.
    - destruct (exists_last Hp) as [p0 [x ->]]. rewrite lookup_snoc.
      unfold C19_Hierarchy.valued. rewrite get_set_same, Hr. reflexivity.
    - intros j Hj. fold valued. rewrite valued_set_deeper by (apply firstn_nonempty, Hj). apply Hq, Hj.
  Qed.

  (* A change of the top-level setting never alters what the levels of a path hold ... *)
  Lemma valued_set_top : forall c r p, p <> [] -> valued (set_leaf [setting] r c) p = valued c p.
  Proof.
    intros c r p Hp. unfold valued, C19_Hierarchy.valued. rewrite get_set_longer; [reflexivity|].
    rewrite len_key. destruct p; [congruence | cbn; lia].
  Qed.

  (* ... so a path none of whose levels has a value reads the new top level at once. *)
  Lemma lookup_top_change_seen : forall c p r,
    (forall j, (1 <= j <= len p)%nat -> valued c (firstn j p) = false) ->
    lookup (set_leaf [setting] r c) p = top (set_leaf [setting] r c).
  Proof.
    intros c p r H. unfold lookup. apply lookup_undecided. intros j Hj. fold valued.
    rewrite valued_set_top by (apply firstn_nonempty, Hj). apply H, Hj.
  Qed.

  (* A value that disappears from level p.x uncovers the result of p for every path through p.x that
     has nothing deeper.  ([has] must reject an absent value and an inner node, as all three
     "has a value" tests do.) *)
  Lemma lookup_removal_seen : forall c p x q, has RNil = false -> has RMap = false ->
    (forall j, (1 <= j <= len q)%nat -> valued c ((p ++ [x]) ++ firstn j q) = false) ->
    lookup (del_leaf ((p ++ [x]) ++ [setting]) c) ((p ++ [x]) ++ q) =
    lookup (del_leaf ((p ++ [x]) ++ [setting]) c) p.
  Proof.
    intros c p x q Hnil Hmap Hq. unfold lookup.
    rewrite lookup_app_unvalued.
    - rewrite lookup_snoc. unfold C19_Hierarchy.valued at 1, get. rewrite find_exact_del_same.
      destruct (existsb _ _); [rewrite Hmap | rewrite Hnil]; reflexivity.
    - intros j Hj. fold valued. rewrite valued_del_deeper by (apply firstn_nonempty, Hj). apply Hq, Hj.
  Qed.
End History.
