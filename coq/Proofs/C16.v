(* C16 — lemmas about the path models of Model/C16_Paths.v. *)
From Verif Require Import Lib.Base Model.C16_Paths.
From Coq Require Import ZifyBool ZifyN ZifyNat.

Local Open Scope N_scope.

Lemma lenN_nil_iff {A} (l : list A) : (lenN l =? 0) = true <-> l = [].
Proof.
  unfold lenN; destruct l; cbn; split; intro H; try reflexivity; try discriminate.
Qed.

Lemma lenN_length {A} (l : list A) : lenN l = N.of_nat (length l).
Proof. reflexivity. Qed.

(* ------------------------------------------------------------------------------------------- *)
(* Path 1                                                                                        *)

Lemma propose_no_panic : forall i, delivered i -> is_panic (snd (propose_now i)) = false.
Proof.
  intros i Hd. unfold propose_now, propose. unfold delivered in Hd.
  destruct (p1_proposal i) as [p|]; [|reflexivity].
  rewrite (Hd p eq_refl).
  destruct (negb (version_handled (pr_version p) && pr_present p)); [reflexivity|].
  destruct (negb (pr_slot_ok p)); [reflexivity|].
  destruct (negb (p1_sign_ok i)); [reflexivity|].
  destruct (pr_blinded p).
  - destruct (p1_auction i) as [| |a]; try reflexivity.
    destruct (filter pv_unblinds (unblind_candidates (p1_unblind_all i) a)); [reflexivity|].
    destruct (p1_unblind_ok i && version_unblindable (pr_version p)); [|reflexivity].
    destruct (p1_submit_ok i); reflexivity.
  - destruct (p1_submit_ok i); reflexivity.
Qed.

Definition reaches (i : p1_in) (p : proposal) : Prop :=
  p1_proposal i = Some p /\ version_handled (pr_version p) = true /\ pr_present p = true /\
  pr_slot_ok p = true /\ p1_sign_ok i = true.

Definition no_auction_result (i : p1_in) : Prop :=
  match p1_auction i with ARes _ => False | _ => True end.

Lemma propose_reaches_unfold : forall g i p, reaches i p ->
  propose g i =
  let gr := graffiti_of (p1_graffiti i) (p1_node_client i) in
  let tr signed unb sub := {| t_graffiti := gr; t_signed := signed; t_unblind := unb; t_submitted := sub |} in
  if pr_blinded p then
    match (match p1_auction i with ARes a => Some a | _ => None end) with
    | None => if g then (tr true [] false, Err ENoAuction) else (tr true [] false, Panic)
    | Some a =>
        match filter pv_unblinds (unblind_candidates (p1_unblind_all i) a) with
        | [] => (tr true [] false, Err ENoRelays)
        | provs =>
            if p1_unblind_ok i && version_unblindable (pr_version p) then
              (tr true (map pv_id provs) true, if p1_submit_ok i then Ok tt else Err ESubmit)
            else (tr true (map pv_id provs) false, Err EUnblind)
        end
    end
  else (tr true [] true, if p1_submit_ok i then Ok tt else Err ESubmit).
Proof.
  intros g i p (Hp & Hv & Hpr & Hs & Hsg). unfold propose, lib_nil_deneb. rewrite Hp, Hv, Hpr, Hs, Hsg. cbn [andb negb]. rewrite andb_false_r.
  destruct (pr_blinded p); [|reflexivity].
  destruct (p1_auction i) as [| |a]; try reflexivity.
  destruct (filter pv_unblinds (unblind_candidates (p1_unblind_all i) a)); reflexivity.
Qed.

Lemma propose_blinded_without_auction : forall i p,
  reaches i p -> pr_blinded p = true -> no_auction_result i ->
  propose_now i = ({| t_graffiti := graffiti_of (p1_graffiti i) (p1_node_client i); t_signed := true; t_unblind := []; t_submitted := false |},
                   Err ENoAuction).
Proof.
  intros i p Hr Hb Hn. unfold propose_now. rewrite (propose_reaches_unfold true i p Hr). cbn zeta. rewrite Hb.
  unfold no_auction_result in Hn. destruct (p1_auction i); try reflexivity. destruct Hn.
Qed.

Lemma propose_unguarded_panics_iff : forall i, delivered i ->
  (snd (propose false i) = Panic <->
   exists p, reaches i p /\ pr_blinded p = true /\ no_auction_result i).
Proof.
  intros i Hd; split.
  - unfold propose. intro H. unfold delivered in Hd.
    destruct (p1_proposal i) as [p|] eqn:Hp; [|discriminate].
    rewrite (Hd p eq_refl) in H.
    destruct (version_handled (pr_version p) && pr_present p) eqn:Hv; cbn [negb] in H; [|discriminate].
    destruct (pr_slot_ok p) eqn:Hs; cbn [negb] in H; [|discriminate].
    destruct (p1_sign_ok i) eqn:Hsg; cbn [negb] in H; [|discriminate].
    apply andb_true_iff in Hv as [Hv Hpr].
    destruct (pr_blinded p) eqn:Hb.
    + exists p. split; [repeat split; assumption|]. split; [exact Hb|].
      unfold no_auction_result. destruct (p1_auction i) as [| |a]; try exact I.
      destruct (filter pv_unblinds (unblind_candidates (p1_unblind_all i) a)); [discriminate|].
      destruct (p1_unblind_ok i && version_unblindable (pr_version p)); [|discriminate].
      cbn in H. destruct (p1_submit_ok i); discriminate.
    + cbn in H. destruct (p1_submit_ok i); discriminate.
  - intros (p & Hr & Hb & Hn). rewrite (propose_reaches_unfold false i p Hr). cbn zeta. rewrite Hb.
    unfold no_auction_result in Hn. destruct (p1_auction i); try reflexivity. destruct Hn.
Qed.

Definition with_auction (i : p1_in) (a : auction_in) : p1_in :=
  {| p1_graffiti := p1_graffiti i; p1_node_client := p1_node_client i; p1_auction := a; p1_proposal := p1_proposal i; p1_sign_ok := p1_sign_ok i;
     p1_unblind_all := p1_unblind_all i; p1_unblind_ok := p1_unblind_ok i; p1_submit_ok := p1_submit_ok i |}.

Lemma propose_local_ignores_auction : forall i a,
  (forall p, p1_proposal i = Some p -> pr_blinded p = false) ->
  propose_now (with_auction i a) = propose_now i.
Proof.
  intros i a H. unfold propose_now, propose, with_auction; cbn [p1_graffiti p1_node_client p1_auction p1_proposal p1_sign_ok p1_unblind_all p1_unblind_ok p1_submit_ok].
  destruct (p1_proposal i) as [p|]; [|reflexivity].
  rewrite (H p eq_refl). unfold lib_nil_deneb. destruct ((pr_version p =? 5) && negb false && negb (pr_present p)); reflexivity.
Qed.

Lemma propose_local_submitted : forall i p,
  reaches i p -> pr_blinded p = false ->
  t_submitted (fst (propose_now i)) = true /\ t_unblind (fst (propose_now i)) = [].
Proof.
  intros i p Hr Hb. unfold propose_now. rewrite (propose_reaches_unfold true i p Hr). cbn zeta. rewrite Hb. split; reflexivity.
Qed.

Lemma in_unblind_candidates : forall f a pv, In pv (unblind_candidates f a) -> In pv (au_providers a ++ au_all a).
Proof.
  intros f a pv. unfold unblind_candidates. destruct ((lenN (au_providers a) =? 0) || f); intro H; apply in_or_app; auto.
Qed.

Lemma propose_unblinders_from_auction : forall i r,
  In r (t_unblind (fst (propose_now i))) ->
  exists a pv, p1_auction i = ARes a /\ In pv (au_providers a ++ au_all a) /\ pv_id pv = r /\ pv_unblinds pv = true.
Proof.
  intros i r. unfold propose_now, propose.
  destruct (p1_proposal i) as [p|]; [|intros []].
  destruct (lib_nil_deneb p); [intros []|].
  destruct (negb (version_handled (pr_version p) && pr_present p)); [intros []|].
  destruct (negb (pr_slot_ok p)); [intros []|].
  destruct (negb (p1_sign_ok i)); [intros []|].
  destruct (pr_blinded p); [|intros []].
  destruct (p1_auction i) as [| |a]; try (intros []).
  destruct (filter pv_unblinds (unblind_candidates (p1_unblind_all i) a)) as [|x l] eqn:Hf; [intros []|].
  intro H.
  assert (Hin : In r (map pv_id (x :: l))).
  { destruct (p1_unblind_ok i && version_unblindable (pr_version p)); exact H. }
  rewrite <- Hf in Hin. apply in_map_iff in Hin as (pv & Hid & Hpv). apply filter_In in Hpv as [Hc Hu].
  exists a, pv. repeat split; try assumption. eapply in_unblind_candidates; eassumption.
Qed.

Lemma propose_order : forall i,
  let tr := fst (propose_now i) in
  (t_submitted tr = true -> t_signed tr = true) /\
  (t_unblind tr <> [] -> t_signed tr = true) /\
  (forall p, p1_proposal i = Some p -> pr_blinded p = true -> t_submitted tr = true -> t_unblind tr <> []).
Proof.
  intro i. unfold propose_now, propose.
  destruct (p1_proposal i) as [p|]; [|cbn; repeat split; intros; try discriminate; try congruence].
  destruct (lib_nil_deneb p); [cbn; repeat split; intros; try discriminate; congruence|].
  destruct (negb (version_handled (pr_version p) && pr_present p)); [cbn; repeat split; intros; try discriminate; congruence|].
  destruct (negb (pr_slot_ok p)); [cbn; repeat split; intros; try discriminate; congruence|].
  destruct (negb (p1_sign_ok i)); [cbn; repeat split; intros; try discriminate; congruence|].
  destruct (pr_blinded p) eqn:Hb.
  - destruct (p1_auction i) as [| |a]; try (cbn; repeat split; intros; try discriminate; try reflexivity; congruence).
    destruct (filter pv_unblinds (unblind_candidates (p1_unblind_all i) a)) as [|x l];
      [cbn; repeat split; intros; try discriminate; try reflexivity; congruence|].
    destruct (p1_unblind_ok i && version_unblindable (pr_version p)); cbn; repeat split; intros; try discriminate; try reflexivity.
  - cbn. repeat split; intros; try reflexivity. injection H as <-. congruence.
Qed.

Lemma lib_nil_deneb_panics : forall g i p,
  p1_proposal i = Some p -> lib_nil_deneb p = true -> snd (propose g i) = Panic.
Proof. intros g i p Hp Hl. unfold propose. rewrite Hp, Hl. reflexivity. Qed.

Lemma pad32_length : forall l, length (pad32 l) = 32%nat.
Proof.
  intro l. unfold pad32. rewrite firstn_length, app_length, repeat_length. lia.
Qed.

Lemma graffiti_of_length : forall g nc, length (graffiti_of g nc) = 32%nat.
Proof. destruct g; intro nc; cbn [graffiti_of]; try apply repeat_length. apply pad32_length. Qed.

Lemma propose_graffiti : forall i,
  t_graffiti (fst (propose_now i)) = graffiti_of (p1_graffiti i) (p1_node_client i).
Proof.
  intro i. unfold propose_now, propose.
  destruct (p1_proposal i) as [p|]; [|reflexivity].
  destruct (lib_nil_deneb p); [reflexivity|].
  destruct (negb (version_handled (pr_version p) && pr_present p)); [reflexivity|].
  destruct (negb (pr_slot_ok p)); [reflexivity|].
  destruct (negb (p1_sign_ok i)); [reflexivity|].
  destruct (pr_blinded p); [|reflexivity].
  destruct (p1_auction i) as [| |a]; try reflexivity.
  destruct (filter pv_unblinds (unblind_candidates (p1_unblind_all i) a)); [reflexivity|].
  destruct (p1_unblind_ok i && version_unblindable (pr_version p)); reflexivity.
Qed.

Lemma pad32_prefix : forall l, (length l <= 32)%nat -> firstn (length l) (pad32 l) = l.
Proof.
  intros l H. unfold pad32. rewrite firstn_firstn. replace (Init.Nat.min (length l) 32) with (length l) by lia.
  rewrite firstn_app, Nat.sub_diag, firstn_all. cbn. apply app_nil_r.
Qed.

Lemma pad32_long : forall l, (32 <= length l)%nat -> pad32 l = firstn 32 l.
Proof.
  intros l H. unfold pad32. rewrite firstn_app. replace (32 - length l)%nat with O by lia. cbn. apply app_nil_r.
Qed.

(* ------------------------------------------------------------------------------------------- *)
(* Path 2                                                                                        *)

Lemma issue_now_spec : forall rs, issue_now rs = Ok (good_relays rs).
Proof.
  unfold issue_now. induction rs as [|r rs IH]; [reflexivity|].
  cbn [issue good_relays flat_map]. fold (good_relays rs).
  destruct r as [| | |id bids unblinds]; try exact IH.
  destruct bids, unblinds; cbn [andb]; try exact IH.
  rewrite IH. reflexivity.
Qed.

Lemma issue_unguarded_panics_iff : forall rs, issue true rs = Panic <-> existsb is_fetch_error rs = true.
Proof.
  induction rs as [|r rs IH]; [cbn; split; discriminate|].
  cbn [issue existsb]. destruct r as [| | |id bids unblinds]; cbn [is_fetch_error orb]; try (split; reflexivity).
  destruct (bids && unblinds); [|exact IH].
  destruct (issue true rs) eqn:E; cbn [bind]; rewrite <- IH; split; intro H; try discriminate; try reflexivity.
Qed.

Lemma good_relays_in : forall rs id, In id (good_relays rs) <-> In (FClient id true true) rs.
Proof.
  induction rs as [|r rs IH]; intro id; [cbn; tauto|].
  cbn [good_relays flat_map]. fold (good_relays rs). rewrite in_app_iff, IH. cbn [In].
  assert (Hhd : In id (match r with FClient i true true => [i] | _ => [] end) <-> r = FClient id true true).
  { destruct r as [| | |i b u]; cbn; try (split; [tauto | discriminate]).
    destruct b, u; cbn; try (split; [tauto | discriminate]).
    split; [intros [H|[]]; congruence | intro H; injection H as ->; auto]. }
  rewrite Hhd. tauto.
Qed.

(* ------------------------------------------------------------------------------------------- *)
(* Path 6                                                                                        *)

Lemma update_head_panics_iff : forall b,
  update_head false b = Panic <->
  ((bk_version b = 4 \/ bk_version b = 5) /\ (bk_container b && bk_message b && bk_body b) = false).
Proof.
  intro b. unfold update_head.
  destruct ((bk_version b =? 1) || (bk_version b =? 2)) eqn:E12.
  - split; [discriminate|]. intros [[H|H] _]; rewrite H in E12; discriminate.
  - destruct (bk_version b =? 3) eqn:E3.
    + apply N.eqb_eq in E3. split.
      * destruct (bk_container b && bk_message b && bk_body b); discriminate.
      * intros [[H|H] _]; rewrite H in E3; discriminate.
    + destruct ((bk_version b =? 4) || (bk_version b =? 5)) eqn:E45.
      * destruct (bk_container b && bk_message b && bk_body b); split; try discriminate.
        -- intros [_ H]; discriminate.
        -- intros _. split; [|reflexivity]. apply orb_true_iff in E45 as [H|H]; apply N.eqb_eq in H; auto.
        -- reflexivity.
      * split; [discriminate|]. intros [[H|H] _]; rewrite H in E45; discriminate.
Qed.

Lemma handle_head_no_panic : forall h,
  (forall b, h = HBlock b -> decoder_wf b = true) -> handle_head_now h <> Panic.
Proof.
  intros h Hwf. destruct h as [| |b]; try discriminate.
  unfold handle_head_now, handle_head. intro H. apply update_head_panics_iff in H as [Hv Hn].
  specialize (Hwf b eq_refl). unfold decoder_wf in Hwf.
  destruct Hv as [Hv|Hv]; rewrite Hv in Hwf; cbn in Hwf; congruence.
Qed.

Lemma update_head_guarded_no_panic : forall b, update_head true b <> Panic.
Proof.
  intro b. unfold update_head.
  destruct ((bk_version b =? 1) || (bk_version b =? 2)); [discriminate|].
  destruct (bk_version b =? 3); [destruct (bk_container b && bk_message b && bk_body b); discriminate|].
  destruct ((bk_version b =? 4) || (bk_version b =? 5)); [|discriminate].
  destruct (bk_container b && bk_message b && bk_body b); discriminate.
Qed.

Lemma update_head_result : forall b x,
  decoder_wf b = true ->
  (update_head false b = Ok (Some x) <->
   (3 <= bk_version b <= 5 /\ bk_payload b = true /\ bk_state_zero b = false /\ x = bk_exec b)).
Proof.
  intros b x Hwf. unfold update_head, decoder_wf, payload_update in *.
  destruct (bk_version b =? 1) eqn:E1; [apply N.eqb_eq in E1; rewrite E1; cbn; split; [discriminate | lia]|].
  destruct (bk_version b =? 2) eqn:E2; [apply N.eqb_eq in E2; rewrite E2; cbn; split; [discriminate | lia]|].
  cbn [orb].
  destruct (bk_version b =? 3) eqn:E3.
  { apply N.eqb_eq in E3. rewrite E3 in *. cbn in Hwf. rewrite Hwf.
    destruct (bk_payload b), (bk_state_zero b); cbn; split; intro H; try discriminate; try (injection H as <-; repeat split; try reflexivity; lia);
      try (destruct H as (_ & H1 & H2 & H3); try discriminate; subst; reflexivity). }
  destruct (bk_version b =? 4) eqn:E4.
  { apply N.eqb_eq in E4. rewrite E4 in *. cbn in Hwf. rewrite Hwf. cbn [orb].
    destruct (bk_payload b), (bk_state_zero b); cbn; split; intro H; try discriminate; try (injection H as <-; repeat split; try reflexivity; lia);
      try (destruct H as (_ & H1 & H2 & H3); try discriminate; subst; reflexivity). }
  destruct (bk_version b =? 5) eqn:E5.
  { apply N.eqb_eq in E5. rewrite E5 in *. cbn in Hwf. rewrite Hwf. cbn [orb].
    destruct (bk_payload b), (bk_state_zero b); cbn; split; intro H; try discriminate; try (injection H as <-; repeat split; try reflexivity; lia);
      try (destruct H as (_ & H1 & H2 & H3); try discriminate; subst; reflexivity). }
  cbn [orb]. split; [discriminate|]. intros (Hv & _).
  apply N.eqb_neq in E3, E4, E5. lia.
Qed.

(* ------------------------------------------------------------------------------------------- *)
(* Path 7                                                                                        *)

Lemma count_tolerated_guarded : forall l, exists n, count_tolerated true l = Ok n /\ n <= lenN l /\ (n = lenN l <-> all_tolerated l = true).
Proof.
  induction l as [|f l (n & Hn & Hle & Hiff)].
  - exists 0. cbn. repeat split; try reflexivity; try lia.
  - cbn [count_tolerated]. unfold lenN in *. cbn [length all_tolerated forallb]. fold (all_tolerated l).
    destruct f.
    + exists n. split; [exact Hn|]. split; [lia|]. cbn. split; [lia | discriminate].
    + exists (n + 1). rewrite Hn. cbn [bind]. split; [reflexivity|]. split; [lia|]. cbn [andb]. rewrite <- Hiff. lia.
    + exists n. split; [exact Hn|]. split; [lia|]. cbn. split; [lia | discriminate].
Qed.

Lemma classify_no_panic : forall s b, classify_now s b <> Panic.
Proof.
  intros s b. unfold classify_now, classify. destruct b as [| |l]; try discriminate.
  destruct s; try discriminate; destruct (count_tolerated_guarded l) as (n & Hn & _); rewrite Hn; cbn [bind];
    destruct ((0 <? lenN l) && (lenN l =? n)); discriminate.
Qed.

Lemma classify_accepts_iff : forall s b,
  classify_now s b = Ok tt <->
  (s <> SOther /\ exists l, b = BFailures l /\ l <> [] /\ all_tolerated l = true).
Proof.
  intros s b. unfold classify_now, classify. destruct b as [| |l].
  - split; [discriminate | intros (_ & l & H & _); discriminate].
  - split; [discriminate | intros (_ & l & H & _); discriminate].
  - destruct s.
    + destruct (count_tolerated_guarded l) as (n & Hn & Hle & Hiff). rewrite Hn. cbn [bind].
      destruct ((0 <? lenN l) && (lenN l =? n)) eqn:E.
      * apply andb_true_iff in E as [E0 E1]. apply N.eqb_eq in E1. split; [|reflexivity]. intros _. split; [discriminate|].
        exists l. split; [reflexivity|]. split; [intro; subst; discriminate|]. apply Hiff. congruence.
      * split; [discriminate|]. intros (_ & l' & Hl & Hne & Hall). injection Hl as <-.
        apply Hiff in Hall. subst n. rewrite N.eqb_refl, andb_true_r in E.
        destruct l; [congruence|]. discriminate.
    + destruct (count_tolerated_guarded l) as (n & Hn & Hle & Hiff). rewrite Hn. cbn [bind].
      destruct ((0 <? lenN l) && (lenN l =? n)) eqn:E.
      * apply andb_true_iff in E as [E0 E1]. apply N.eqb_eq in E1. split; [|reflexivity]. intros _. split; [discriminate|].
        exists l. split; [reflexivity|]. split; [intro; subst; discriminate|]. apply Hiff. congruence.
      * split; [discriminate|]. intros (_ & l' & Hl & Hne & Hall). injection Hl as <-.
        apply Hiff in Hall. subst n. rewrite N.eqb_refl, andb_true_r in E.
        destruct l; [congruence|]. discriminate.
    + split; [discriminate | intros (H & _); congruence].
Qed.

Lemma count_unguarded_panics_iff : forall l, count_tolerated false l = Panic <-> has_null_failure l = true.
Proof.
  induction l as [|f l IH]; [cbn; split; discriminate|].
  cbn [count_tolerated has_null_failure existsb]. fold (has_null_failure l). destruct f; cbn [orb].
  - split; reflexivity.
  - rewrite <- IH. destruct (count_tolerated false l); cbn; split; intro H; try discriminate; reflexivity.
  - exact IH.
Qed.

Lemma classify_unguarded_panics_iff : forall s b,
  classify false s b = Panic <-> (s <> SOther /\ exists l, b = BFailures l /\ has_null_failure l = true).
Proof.
  intros s b. unfold classify. destruct b as [| |l].
  - split; [discriminate | intros (_ & l & H & _); discriminate].
  - split; [discriminate | intros (_ & l & H & _); discriminate].
  - assert (Hex : (exists l', BFailures l = BFailures l' /\ has_null_failure l' = true) <-> has_null_failure l = true).
    { split; [intros (l' & H & Hp); injection H as ->; exact Hp | intro H; exists l; auto]. }
    rewrite Hex, <- count_unguarded_panics_iff.
    destruct s.
    + destruct (count_tolerated false l) as [v|e|] eqn:E; cbn [bind].
      * destruct ((0 <? lenN l) && (lenN l =? v)); (split; [discriminate | intros (_ & H); discriminate]).
      * split; [discriminate | intros (_ & H); discriminate].
      * split; [intros _; split; [discriminate | reflexivity] | reflexivity].
    + destruct (count_tolerated false l) as [v|e|] eqn:E; cbn [bind].
      * destruct ((0 <? lenN l) && (lenN l =? v)); (split; [discriminate | intros (_ & H); discriminate]).
      * split; [discriminate | intros (_ & H); discriminate].
      * split; [intros _; split; [discriminate | reflexivity] | reflexivity].
    + split; [discriminate | intros (H & _); congruence].
Qed.
