(* C03 — further consequences: the epoch filter is the chain-time epoch of the slot; jobs run inside
   their slot; a start-up schedules every strictly later duty; jobs persist until they run, are
   refreshed or the process restarts; the sync committee window in plain arithmetic. *)
From Verif Require Import Lib.Base Model.C03_ChainTime Model.C03_Controller Model.C03_Spec
     Proofs.C03_ChainTime Proofs.C03_Table Proofs.C03_Sched Proofs.C03_Hist.
From Coq Require Import ZifyBool ZifyN ZifyNat Permutation.
Open Scope N_scope.

Section More.
  Variable c : config.

  (* "ignores duties outside the requested epoch": the filter keeps exactly the slots whose
     chain-time epoch is the requested one *)
  Lemma in_epoch_iff : forall e s,
    0 < ct_spe (c_ct c) -> (e + 1) * ct_spe (c_ct c) < two64 ->
    (in_epoch c e s = true <-> slot_to_epoch (c_ct c) s = e).
  Proof.
    intros e s Hspe B. unfold in_epoch, slot_to_epoch, first_slot_of_epoch, mul64, add64.
    assert (He : e + 1 < two64) by nia.
    rewrite (wrap64_small (e + 1)) by exact He.
    rewrite (wrap64_small (e * ct_spe (c_ct c))) by nia.
    rewrite (wrap64_small ((e + 1) * ct_spe (c_ct c))) by exact B.
    unfold sub64. destruct (1 <=? (e + 1) * ct_spe (c_ct c)) eqn:E; [|nia].
    pose proof (N.div_mod s (ct_spe (c_ct c)) ltac:(lia)) as Hdm.
    pose proof (N.mod_lt s (ct_spe (c_ct c)) ltac:(lia)) as Hlt.
    split; intro H.
    - assert (e * ct_spe (c_ct c) <= s < (e + 1) * ct_spe (c_ct c)) by lia. nia.
    - subst e. assert (s / ct_spe (c_ct c) * ct_spe (c_ct c) <= s < (s / ct_spe (c_ct c) + 1) * ct_spe (c_ct c)) by nia. lia.
  Qed.

  (* a duty job's time lies inside the duty's slot *)
  Lemma timed_in_slot : forall t n j,
    timed c t -> tget t n = Some j -> params_ok (c_ct c) ->
    match n with
    | JAtt s => slot_in_range (c_ct c) (s + 1) -> (0 <= c_att_delay c < ct_dur (c_ct c))%Z ->
                current_slot (c_ct c) (j_time j) = s
    | JProp s => slot_in_range (c_ct c) (s + 1) -> (0 <= c_prop_delay c < ct_dur (c_ct c))%Z ->
                 current_slot (c_ct c) (j_time j) = s
    | JEarly s => slot_in_range (c_ct c) (s + 1) -> current_slot (c_ct c) (j_time j) = s
    | _ => True
    end.
  Proof.
    intros t n j Ht G Hp. destruct (Ht n j G) as [_ Htime].
    destruct n as [s|s|s|e|s]; cbn [time_of] in Htime; try exact I.
    - intros Hr Hd. rewrite Htime. apply job_time_in_slot; assumption.
    - intros Hr Hd. rewrite Htime. apply job_time_in_slot; assumption.
    - intros Hr. rewrite Htime. rewrite <- (Z.add_0_r (start_of_slot (c_ct c) s)).
      apply job_time_in_slot; try assumption. pose proof (params_ok_dur_pos _ Hp). lia.
  Qed.

  (* ----- transformers that only add ----- *)
  Lemma sched_att_keeps : forall cur hv ds ep nc t n j,
    tget t n = Some j -> tget (sched_att c cur hv ds ep nc t) n = Some j.
  Proof. intros. rewrite sched_att_exact. unfold spec_sched_att. rewrite H. reflexivity. Qed.
  Lemma sched_prop_keeps : forall cur hv ds ep nc t n j,
    tget t n = Some j -> tget (sched_prop c cur hv ds ep nc t) n = Some j.
  Proof. intros. rewrite sched_prop_exact. unfold spec_sched_prop. rewrite H. reflexivity. Qed.
  Lemma sched_sync_keeps : forall ae cur e ep nc t n j,
    tget t n = Some j -> tget (sched_sync c ae cur e ep nc t) n = Some j.
  Proof. intros. rewrite sched_sync_exact. unfold spec_sched_sync. rewrite H. reflexivity. Qed.
  Lemma tsched_keeps : forall t x n j, tget t n = Some j -> tget (tsched t x) n = Some j.
  Proof. intros. rewrite tget_tsched, H. reflexivity. Qed.
  Lemma handle_altair_keeps : forall st t n j,
    tget t n = Some j -> tget (handle_altair_fork_epoch c st t) n = Some j.
  Proof.
    intros st t n j H. unfold handle_altair_fork_epoch. destruct (st_altair st); cbn [negb]; [|exact H].
    cbv zeta. destruct (_ <=? 5); repeat apply sched_sync_keeps; exact H.
  Qed.
End More.

(* ------------------------------------------------------------------------------------------- *)
(* A start-up schedules every strictly later duty of the current and the next epoch. *)
Section StartComplete.
  Variable shadowed : bool.
  Variable c : config.
  Hypothesis Hspe : 0 < ct_spe (c_ct c).

  Local Opaque sched_att sched_prop sched_sync.

  Lemma later_due : forall cur s, cur < s -> due cur true s = true.
  Proof. intros cur s H. unfold due. apply andb_true_iff. split; [lia|]. apply negb_true_iff. apply andb_false_iff. left. lia. Qed.

  Theorem start_schedules_later_duties : forall st d,
    bounded c (st_cur st) -> e_vals (st_env st) = true ->
    let ce := cur_epoch c (st_cur st) in
    st_cur st < ad_slot d ->
    (In d (alookup (e_att (st_env st)) ce) /\ in_epoch c ce (ad_slot d) = true) \/
    (In d (alookup (e_att (st_env st)) (add64 ce 1)) /\ in_epoch c (add64 ce 1) (ad_slot d) = true) ->
    exists j, tget (st_jobs (start shadowed c st)) (JAtt (ad_slot d)) = Some j /\
              In (ad_val d, ad_comm d, ad_vci d) (j_pay j) /\
              j_time j = (start_of_slot (c_ct c) (ad_slot d) + c_att_delay c)%Z.
  Proof.
    intros st d B Hv ce Hlt Hd. unfold start. fold ce. unfold cur_epoch in ce.
    destruct (altair_details shadowed c) as [handling ae]. cbn [st_jobs]. rewrite Hv.
    set (T1 := sched_prop c (st_cur st) true (alookup (e_prop (st_env st)) ce) ce true []).
    set (T2 := sched_att c (st_cur st) true (alookup (e_att (st_env st)) ce) ce true T1).
    match goal with |- context [sched_att c (st_cur st) true (alookup (e_att (st_env st)) (add64 ce 1)) (add64 ce 1) true ?t3] => set (T3 := t3) end.
    assert (T1none : tget T1 (JAtt (ad_slot d)) = None).
    { unfold T1. rewrite sched_prop_frame by reflexivity. reflexivity. }
    assert (K23 : forall n j, tget T2 n = Some j -> tget T3 n = Some j).
    { intros n j H. unfold T3. destruct handling; [|exact H].
      cbv zeta. destruct (_ <=? 5); repeat apply sched_sync_keeps; exact H. }
    assert (F23 : tget T3 (JAtt (ad_slot d)) = tget T2 (JAtt (ad_slot d))).
    { unfold T3. destruct handling; [|reflexivity].
      cbv zeta. destruct (_ <=? 5); rewrite ?sched_sync_frame by reflexivity; reflexivity. }
    destruct Hd as [[Hin Hep]|[Hin Hep]].
    - destruct (att_duty_has_job c (st_cur st) (alookup (e_att (st_env st)) ce) ce true T1 d Hin Hep (later_due _ _ Hlt))
        as [j [G Hj]].
      destruct (Hj T1none) as [Hj1 Hj2].
      exists j. split; [apply sched_att_keeps; apply K23; exact G|]. split; [exact Hj2|]. subst j. reflexivity.
    - (* next epoch: the slot is not in the current epoch, so no job of step 2 is in the way *)
      assert (Hno : tget T2 (JAtt (ad_slot d)) = None).
      { unfold T2. rewrite sched_att_exact. unfold spec_sched_att. rewrite T1none.
        unfold att_wanted.
        assert (E : in_epoch c ce (ad_slot d) = false).
        { destruct (in_epoch c ce (ad_slot d)) eqn:E; [|reflexivity]. exfalso.
          unfold ce in *. rewrite (bounded_add64 c Hspe (st_cur st) 1 B) in Hep by lia.
          apply (in_epoch_iff c) in E; [|exact Hspe | unfold bounded in B; nia].
          apply (in_epoch_iff c) in Hep; [|exact Hspe | unfold bounded in B; nia]. lia. }
        rewrite E, andb_false_r, andb_false_l, andb_false_r. reflexivity. }
      rewrite <- F23 in Hno.
      destruct (att_duty_has_job c (st_cur st) (alookup (e_att (st_env st)) (add64 ce 1)) (add64 ce 1) true T3 d Hin Hep (later_due _ _ Hlt))
        as [j [G Hj]].
      destruct (Hj Hno) as [Hj1 Hj2].
      exists j. split; [exact G|]. split; [exact Hj2|]. subst j. reflexivity.
  Qed.
End StartComplete.

(* ------------------------------------------------------------------------------------------- *)
(* Jobs persist: a scheduled job stays in the table, unchanged, until it runs, its epoch is
   refreshed after a detected change of dependent root, or the process restarts. *)
Section Persist.
  Variable shadowed : bool.
  Variable c : config.

  Definition may_drop (st : state) (o : op) (n : jname) : Prop :=
    match o with
    | Start => True
    | Fire m h => m = n \/ (exists s, m = JEarly s /\ n = JProp s /\ h = sub64 s 1)
    | Head slot pr cr =>
        slot = st_cur st /\
        let d := reorg_decide (st_last_epoch st) (st_prev_root st) (st_cur_root st) (slot_to_epoch (c_ct c) slot) pr cr in
        ((c_ft_att c = true /\ n = JAtt slot) \/
         (fst d = true /\ is_att n = true) \/
         (snd d = true /\ (is_att n = true \/ is_prop n = true \/ is_sync n = true)))
    | RefreshAtt _ => is_att n = true
    | RefreshProp _ => is_prop n = true
    | RefreshSync _ => is_sync n = true
    | _ => False
    end.

  Local Opaque sched_att sched_prop sched_sync refresh_att refresh_prop refresh_sync tsched tremove
        handle_altair_fork_epoch.

  Lemma run_if_exists_keeps : forall st m n j,
    m <> n -> tget (st_jobs st) n = Some j -> tget (st_jobs (run_if_exists st m)) n = Some j.
  Proof.
    intros st m n j Hne H. rewrite run_if_exists_tget. rewrite (jname_eqb_neq m n Hne). exact H.
  Qed.

  Lemma is_att_dec : forall n, is_att n = true \/ is_att n = false.
  Proof. intro n. destruct (is_att n); [left | right]; reflexivity. Qed.

  Theorem jobs_persist : forall st o n j,
    tget (st_jobs st) n = Some j ->
    tget (st_jobs (step shadowed c st o)) n = Some j \/ may_drop st o n.
  Proof.
    intros st o n j G. destruct o; cbn [step may_drop].
    - left. exact G.
    - left. exact G.
    - right. exact I.
    - (* Tick *) left. unfold epoch_tick. destruct (_ <=? _)%Z; [exact G|]. cbn [st_jobs].
      apply tsched_keeps.
      destruct (st_altair st); [|apply sched_prop_keeps; exact G].
      destruct (_ =? sub64 _ 5); [apply sched_sync_keeps|];
        (destruct (_ =? st_altair_epoch st); [apply handle_altair_keeps|]); apply sched_prop_keeps; exact G.
    - (* Head *)
      destruct (N.eq_dec slot (st_cur st)) as [Hs|Hs]; [|left; rewrite head_event_other_slot by exact Hs; exact G].
      rewrite (head_event_jobs c st slot prev cur_root n Hs). cbv zeta.
      destruct (c_ft_att c && jname_eqb (JAtt slot) n) eqn:Eft.
      { right. split; [exact Hs|]. left. apply andb_true_iff in Eft. destruct Eft as [E1 E2].
        apply jname_eqb_spec in E2. split; [exact E1 | symmetry; exact E2]. }
      destruct (reorg_decide _ _ _ _ _ _) as [dp dc] eqn:Ed. cbn [fst snd].
      destruct (is_att n) eqn:Ea; [destruct dp; [right; split; [exact Hs|]; right; left; split; reflexivity|]|].
      + (* attestation job, no previous-root change *)
        destruct dc; [right; split; [exact Hs|]; right; right; split; [reflexivity | left; reflexivity]|].
        left. exact G.
      + (* not an attestation job *)
        assert (G1 : tget (if dp then refresh_att c (st_cur st) (st_env st) (cur_epoch c (st_cur st)) (st_jobs st) else st_jobs st) n = Some j).
        { destruct dp; [rewrite refresh_att_frame by exact Ea|]; exact G. }
        destruct dc; [|left; exact G1].
        destruct (is_prop n) eqn:Ep; [right; split; [exact Hs|]; right; right; split; [reflexivity | right; left; reflexivity]|].
        destruct (is_sync n) eqn:Esy; [right; split; [exact Hs|]; right; right; split; [reflexivity | right; right; reflexivity]|].
        left. rewrite refresh_att_frame by exact Ea.
        destruct (_ =? 0); [rewrite refresh_sync_frame by exact Esy|]; rewrite refresh_prop_frame by exact Ep; exact G1.
    - (* Fire *)
      destruct (jname_eq_dec n0 n) as [He|Hne]; [right; left; exact He|].
      unfold fire. destruct (tget (st_jobs st) n0) eqn:G0; [|left; exact G].
      destruct n0 as [s|s|s|e|s].
      + left. apply run_if_exists_keeps; assumption.
      + left. apply run_if_exists_keeps; assumption.
      + destruct (head_slot =? sub64 s 1) eqn:Eh.
        * destruct (jname_eq_dec (JProp s) n) as [He|Hne2].
          -- right. right. exists s. repeat split; [symmetry; exact He | apply N.eqb_eq; exact Eh].
          -- left. apply run_if_exists_keeps; [exact Hne2|]. cbn [st_jobs set_jobs].
             rewrite tget_tremove, (jname_eqb_neq _ _ Hne). exact G.
        * left. cbn [st_jobs set_jobs]. rewrite tget_tremove, (jname_eqb_neq _ _ Hne). exact G.
      + left. unfold prepare_for_epoch. cbn [st_jobs set_jobs]. apply sched_att_keeps.
        rewrite tget_tremove, (jname_eqb_neq _ _ Hne). exact G.
      + left. cbn [st_jobs set_jobs]. rewrite tget_tremove, (jname_eqb_neq _ _ Hne). exact G.
    - left. cbn [st_jobs set_jobs]. apply sched_att_keeps. exact G.
    - left. cbn [st_jobs set_jobs]. apply sched_prop_keeps. exact G.
    - left. cbn [st_jobs set_jobs]. apply sched_sync_keeps. exact G.
    - cbn [st_jobs set_jobs]. destruct (is_att n) eqn:Ea; [right; reflexivity|].
      left. rewrite refresh_att_frame by exact Ea. exact G.
    - cbn [st_jobs set_jobs]. destruct (is_prop n) eqn:Ea; [right; reflexivity|].
      left. rewrite refresh_prop_frame by exact Ea. exact G.
    - cbn [st_jobs set_jobs]. destruct (is_sync n) eqn:Ea; [right; reflexivity|].
      left. rewrite refresh_sync_frame by exact Ea. exact G.
  Qed.
End Persist.

(* ------------------------------------------------------------------------------------------- *)
(* The sync committee window in plain arithmetic (no uint64 wrap-around in range): the slot before
   the period's first slot, clamped to the fork epoch, to slot 0 and to now .. two slots before the
   first slot of the next period. *)
Section SyncWindow.
  Variable c : config.

  Lemma feosp_max : forall ae P, P * c_period c < two64 -> feosp c ae P = N.max (P * c_period c) ae.
  Proof.
    intros ae P B. unfold feosp, mul64. rewrite wrap64_small by exact B.
    destruct (P * c_period c <? ae) eqn:E; lia.
  Qed.

  Theorem sync_window_plain : forall ae cur ep,
    let P := ep / c_period c in
    let ce := cur_epoch c cur in
    let hiE := N.max ((P + 1) * c_period c) ae in
    let fe := N.max (N.max (P * c_period c) ae) ce in
    N.max hiE ce * ct_spe (c_ct c) < two64 -> 2 <= hiE * ct_spe (c_ct c) -> 0 < c_period c ->
    sync_window c ae cur ep = (fe, N.max (fe * ct_spe (c_ct c) - 1) cur, hiE * ct_spe (c_ct c) - 2).
  Proof.
    intros ae cur ep P ce hiE fe B B2 Hlen. unfold sync_window. cbv zeta. fold P. fold ce.
    assert (Hspe : 0 < ct_spe (c_ct c)) by nia.
    assert (HP1 : P + 1 < two64) by nia.
    assert (BP : P * c_period c < two64) by nia.
    assert (BP1 : (P + 1) * c_period c < two64) by nia.
    assert (Ha : add64 P 1 = P + 1) by (unfold add64; apply wrap64_small; exact HP1).
    rewrite Ha.
    rewrite (feosp_max ae P BP), (feosp_max ae (P + 1) BP1). fold hiE.
    assert (HhiE : 1 <= hiE) by nia.
    assert (Hfe : (if N.max (P * c_period c) ae <? ce then ce else N.max (P * c_period c) ae) = fe)
      by (unfold fe; destruct (_ <? ce) eqn:E; lia).
    rewrite Hfe.
    assert (Hf : first_slot_of_epoch (c_ct c) fe = fe * ct_spe (c_ct c)).
    { unfold first_slot_of_epoch, mul64. apply wrap64_small. unfold fe. nia. }
    rewrite Hf.
    assert (Hsub : sub64 hiE 1 = hiE - 1) by (unfold sub64; destruct (1 <=? hiE) eqn:E; lia).
    rewrite Hsub.
    assert (Ha2 : add64 (hiE - 1) 1 = hiE).
    { unfold add64. replace (hiE - 1 + 1) with hiE by lia. apply wrap64_small. nia. }
    rewrite Ha2.
    assert (Hl : first_slot_of_epoch (c_ct c) hiE = hiE * ct_spe (c_ct c)).
    { unfold first_slot_of_epoch, mul64. apply wrap64_small. nia. }
    rewrite Hl.
    assert (Hsub2 : sub64 (hiE * ct_spe (c_ct c)) 2 = hiE * ct_spe (c_ct c) - 2)
      by (unfold sub64; destruct (2 <=? hiE * ct_spe (c_ct c)) eqn:E; lia).
    rewrite Hsub2. f_equal. f_equal.
    destruct (0 <? fe * ct_spe (c_ct c)) eqn:E0;
      match goal with |- (if ?x <? cur then cur else ?x) = _ => destruct (x <? cur) eqn:E1 end; lia.
  Qed.
End SyncWindow.

(* in every history every duty job's time lies inside the duty's slot *)
Theorem jobs_in_slot_run : forall shadowed c ops st n j,
  tbl_ok c (st_jobs st) -> params_ok (c_ct c) ->
  tget (st_jobs (run shadowed c st ops)) n = Some j ->
  match n with
  | JAtt s => slot_in_range (c_ct c) (s + 1) -> (0 <= c_att_delay c < ct_dur (c_ct c))%Z ->
              current_slot (c_ct c) (j_time j) = s
  | JProp s => slot_in_range (c_ct c) (s + 1) -> (0 <= c_prop_delay c < ct_dur (c_ct c))%Z ->
               current_slot (c_ct c) (j_time j) = s
  | JEarly s => slot_in_range (c_ct c) (s + 1) -> current_slot (c_ct c) (j_time j) = s
  | _ => True
  end.
Proof.
  intros shadowed c ops st n j H Hp G.
  destruct (run_ok c shadowed ops st H) as [_ Ht].
  exact (timed_in_slot c _ n j Ht G Hp).
Qed.

(* ------------------------------------------------------------------------------------------- *)
(* The property's sentence about reorgs in one statement: a head event for the current slot whose
   previous dependent root differs (per the rule) from what the controller remembers replaces the
   attestation jobs of the current epoch by exactly those of the duties the node reports now. *)
Theorem head_event_prev_root_replaces : forall c st slot pr cr s,
  slot = st_cur st ->
  let ce := cur_epoch c (st_cur st) in
  let d := reorg_decide (st_last_epoch st) (st_prev_root st) (st_cur_root st) (slot_to_epoch (c_ct c) slot) pr cr in
  fst d = true -> snd d = false ->
  texists (st_jobs st) (JPrep ce) = false ->
  0 < first_slot_of_epoch (c_ct c) (add64 ce 1) ->
  epoch_has c ce s = true ->
  (c_ft_att c = false \/ s <> slot) ->
  let ds := alookup (e_att (st_env st)) ce in
  let notcur := negb (epoch_has c ce (st_cur st) && texists (st_jobs st) (JAtt (st_cur st))) in
  tget (st_jobs (head_event c st slot pr cr)) (JAtt s) =
  if e_vals (st_env st) && att_wanted c (st_cur st) notcur ds ce s then Some (att_job c ds ce s) else None.
Proof.
  intros c st slot pr cr s Hs ce d Hd1 Hd2 Hp Hov He Hft. cbv zeta.
  rewrite (head_event_jobs c st slot pr cr (JAtt s) Hs). cbv zeta. fold d. fold ce. rewrite Hd1, Hd2.
  assert (Eft : c_ft_att c && jname_eqb (JAtt slot) (JAtt s) = false).
  { destruct Hft as [Hft|Hft]; [rewrite Hft; reflexivity|].
    cbn [jname_eqb]. destruct (slot =? s) eqn:E; [apply N.eqb_eq in E; congruence | apply andb_false_r]. }
  rewrite Eft.
  rewrite (refresh_att_replaces c (st_cur st) (st_env st) ce (st_jobs st) (JAtt s) Hp Hov). cbv zeta.
  rewrite He. reflexivity.
Qed.
