(* C15: the hand-written model equals the gotrans transcription of the sync committee message window and the subcommittee/selection arithmetic
   (coq/Gen/Pure_C15.v, regenerated from the repository's source on every run).  When the Go source
   changes its meaning, a lemma here stops compiling and only C15's tie is affected. *)
From Coq Require Import ZArith NArith Lia Bool List.
From Coq Require Import ZifyBool ZifyN.
From Verif Require Import Lib.Base Lib.GoInt Proofs.TieLib Gen.Pure_C15 Gen.Pure_C03.
From Verif Require Import Model.C15_Sync.
Local Open Scope Z_scope.

Lemma tie_first_epoch_of_period (p : params) (period : N) :
  nu64 (fork p) ->
  Z.of_N (first_epoch_of_period p period) =
  controller_firstEpochOfSyncPeriod (Z.of_N (epp p)) (Z.of_N (fork p)) (Z.of_N period).
Proof.
  intro Hf. unfold first_epoch_of_period, controller_firstEpochOfSyncPeriod.
  rewrite <- of_N_mul64.
  destruct (mul64 period (epp p) <? fork p)%N eqn:E.
  - assert (Z.of_N (mul64 period (epp p)) <? Z.of_N (fork p) = true) as -> by lia. reflexivity.
  - assert (Z.of_N (mul64 period (epp p)) <? Z.of_N (fork p) = false) as -> by lia. reflexivity.
Qed.

Lemma nu64_first_epoch_of_period p period : nu64 (fork p) -> nu64 (first_epoch_of_period p period).
Proof.
  intro Hf. unfold first_epoch_of_period. destruct (_ <? _)%N; [exact Hf | apply nu64_mul64].
Qed.

Lemma tie_sync_window (p : params) (epoch cur : N) :
  nu64 (fork p) -> nu64 epoch -> nu64 cur ->
  let w := window_of true p epoch cur in
  controller_syncWindow (Z.of_N (epp p)) (Z.of_N (fork p)) (Z.of_N epoch)
                        (Z.of_N (epoch_of_slot p cur)) (Z.of_N (spe p)) (Z.of_N cur)
  = (Z.of_N (w_first_epoch w), Z.of_N (w_first w), Z.of_N (w_last w)).
Proof.
  intros Hf He Hc. cbv zeta. unfold controller_syncWindow, window_of. cbn [w_first_epoch w_first w_last].
  rewrite <- N2Z.inj_div.
  rewrite <- tie_first_epoch_of_period by assumption.
  set (fe0 := first_epoch_of_period p (epoch / epp p)).
  set (ce := epoch_of_slot p cur).
  assert (Hfe0 : nu64 fe0) by (apply nu64_first_epoch_of_period; assumption).
  assert (Hce : nu64 ce).
  { unfold ce, epoch_of_slot, nu64 in *. destruct (N.eq_dec (spe p) 0) as [->|Hn]; [destruct cur; cbn; unfold Base.two64; lia|].
    eapply N.le_lt_trans; [apply N.div_le_upper_bound with (q := cur); [assumption|nia]|assumption]. }
  (* first epoch *)
  assert (Efe : (if Z.of_N fe0 <? Z.of_N ce then Z.of_N ce else Z.of_N fe0) = Z.of_N (if (fe0 <? ce)%N then ce else fe0)).
  { destruct (fe0 <? ce)%N eqn:E; [assert (Z.of_N fe0 <? Z.of_N ce = true) as -> by lia | assert (Z.of_N fe0 <? Z.of_N ce = false) as -> by lia]; reflexivity. }
  rewrite Efe. set (fe := if (fe0 <? ce)%N then ce else fe0).
  (* first slot *)
  unfold chaintime_FirstSlotOfEpoch.
  replace (u64 (Z.of_N fe * Z.of_N (spe p))) with (Z.of_N (first_slot_of_epoch p fe)) by (unfold first_slot_of_epoch; apply of_N_mul64).
  set (fs0 := first_slot_of_epoch p fe).
  assert (Hfs0 : nu64 fs0) by apply nu64_mul64.
  assert (Efs1 : (if Z.of_N fs0 >? 0 then u64 (Z.of_N fs0 - 1) else Z.of_N fs0) = Z.of_N (if (0 <? fs0)%N then (fs0 - 1)%N else fs0)).
  { destruct (0 <? fs0)%N eqn:E.
    - assert (Z.of_N fs0 >? 0 = true) as -> by lia. rewrite u64_id by (unfold nu64, in_u64, Base.two64, GoInt.two64 in *; lia). lia.
    - assert (Z.of_N fs0 >? 0 = false) as -> by lia. reflexivity. }
  rewrite Efs1. set (fs1 := if (0 <? fs0)%N then (fs0 - 1)%N else fs0).
  assert (Efs : (if Z.of_N fs1 <? Z.of_N cur then Z.of_N cur else Z.of_N fs1) = Z.of_N (if (fs1 <? cur)%N then cur else fs1)).
  { destruct (fs1 <? cur)%N eqn:E; [assert (Z.of_N fs1 <? Z.of_N cur = true) as -> by lia | assert (Z.of_N fs1 <? Z.of_N cur = false) as -> by lia]; reflexivity. }
  rewrite Efs.
  (* last epoch, last slot *)
  replace (u64 (Z.of_N (epoch / epp p) + 1)) with (Z.of_N (add64 (epoch / epp p) 1)) by (rewrite of_N_add64; reflexivity).
  rewrite <- tie_first_epoch_of_period by assumption.
  set (fe1 := first_epoch_of_period p (add64 (epoch / epp p) 1)).
  assert (Hfe1 : nu64 fe1) by (apply nu64_first_epoch_of_period; assumption).
  replace (u64 (Z.of_N fe1 - 1)) with (Z.of_N (sub64 fe1 1)) by (rewrite of_N_sub64; [reflexivity | assumption | unfold nu64, Base.two64; lia]).
  replace (u64 (Z.of_N (sub64 fe1 1) + 1)) with (Z.of_N (add64 (sub64 fe1 1) 1)) by (rewrite of_N_add64; reflexivity).
  replace (u64 (Z.of_N (add64 (sub64 fe1 1) 1) * Z.of_N (spe p))) with (Z.of_N (first_slot_of_epoch p (add64 (sub64 fe1 1) 1))) by (unfold first_slot_of_epoch; apply of_N_mul64).
  replace (u64 (Z.of_N (first_slot_of_epoch p (add64 (sub64 fe1 1) 1)) - 2)) with (Z.of_N (sub64 (first_slot_of_epoch p (add64 (sub64 fe1 1) 1)) 2))
    by (rewrite of_N_sub64; [reflexivity | apply nu64_mul64 | unfold nu64, Base.two64; lia]).
  reflexivity.
Qed.

Lemma tie_subcommittee (p : C15_Sync.params) (pos : N) :
  Z.of_N (C15_Sync.subcommittee p pos) =
  syncmessenger_subcommittee (Z.of_N (C15_Sync.csize p)) (Z.of_N (C15_Sync.subnets p)) (Z.of_N pos).
Proof. unfold C15_Sync.subcommittee, syncmessenger_subcommittee. rewrite !N2Z.inj_div. reflexivity. Qed.

Lemma tie_selection_modulo (p : C15_Sync.params) :
  Z.of_N (C15_Sync.modulo p) =
  syncmessenger_selectionModulo (Z.of_N (C15_Sync.csize p)) (Z.of_N (C15_Sync.subnets p)) (Z.of_N (C15_Sync.target p)).
Proof.
  unfold C15_Sync.modulo, syncmessenger_selectionModulo. rewrite <- !N2Z.inj_div.
  set (m := (C15_Sync.csize p / C15_Sync.subnets p / C15_Sync.target p)%N).
  destruct (Z.of_N m <? 1) eqn:E; lia.
Qed.

Lemma tie_sync_is_aggregator (p : C15_Sync.params) (hash8 : N) :
  C15_Sync.is_aggregator p hash8 =
  syncmessenger_shouldInclude (Z.of_N (C15_Sync.modulo p)) (Z.of_N hash8).
Proof.
  unfold C15_Sync.is_aggregator, syncmessenger_shouldInclude.
  rewrite of_N_mod_eqb0. reflexivity.
Qed.
