(* Lock/access control-flow graphs, their interleaving semantics, a lockset dataflow analysis
   (inferred by a fuelled worklist, then CHECKED node by node), and the definitions needed by the
   soundness theorem (Proofs/Lockset.v): analysis_ok => no reachable state has two threads at
   conflicting accesses of one field, and a finished thread holds no lock.
   Used by C17 (graphs regenerated from the Go source by /verif/translator on every run) and by
   C12's lock-balance obligation. *)
From Verif Require Import Lib.Base.

Definition field := N.
Definition mutex := N.

Inductive instr :=
| ISkip
| IAcc (f : field) (w : bool)          (* read (false) / write (true) of a shared field *)
| ILock (m : mutex) (x : bool)         (* x = true: Lock, false: RLock *)
| IUnlock (m : mutex) (x : bool).

(* a node executes its instruction and moves to any of its successors; no successor = the
   thread (method invocation, goroutine) ends *)
(* n_owner: the entry group the node belongs to (every entry has its own copy of the code it
   reaches; the translator inlines calls).  Groups flagged single run at most one thread. *)
Record node := { n_instr : instr; n_succ : list nat; n_owner : nat }.
Definition graph := list node.

Definition lockset := list (mutex * bool).
Definition access := (field * bool * lockset * nat)%type.   (* field, write?, locks held, owner group *)

Definition lk_eqb (p q : mutex * bool) : bool := (fst p =? fst q) && Bool.eqb (snd p) (snd q).
Definition holds (m : mutex) (L : lockset) : bool := existsb (fun p => fst p =? m) L.
Definition holds_mode (m : mutex) (x : bool) (L : lockset) : bool := existsb (lk_eqb (m, x)) L.

Fixpoint ls_insert (p : mutex * bool) (L : lockset) : lockset :=
  match L with
  | [] => [p]
  | q :: L' => if fst p <=? fst q then p :: L else q :: ls_insert p L'
  end.

Fixpoint ls_remove (p : mutex * bool) (L : lockset) : lockset :=
  match L with
  | [] => []
  | q :: L' => if lk_eqb p q then L' else q :: ls_remove p L'
  end.

Definition ls_eqb (L1 L2 : lockset) : bool := list_eqb lk_eqb L1 L2.

(* effect of an instruction on the executing thread's lock set (semantics) *)
Definition exec (i : instr) (L : lockset) : lockset :=
  match i with
  | ILock m x => ls_insert (m, x) L
  | IUnlock m x => ls_remove (m, x) L
  | _ => L
  end.

(* the analysis' transfer function: rejects re-acquisition of a held mutex (Go's RWMutex
   deadlocks on a nested RLock once a writer queues) and release of a lock not held *)
Definition transfer (i : instr) (L : lockset) : option lockset :=
  match i with
  | ILock m x => if holds m L then None else Some (ls_insert (m, x) L)
  | IUnlock m x => if holds_mode m x L then Some (ls_remove (m, x) L) else None
  | _ => Some L
  end.

(* ------------------------------------------------------------------------------------------ *)
(* A lockset assignment: for every node, None (not reached) or the lock set held on entry. *)

Definition assignment := list (option lockset).

Definition ols_eqb (a b : option lockset) : bool := option_eqb ls_eqb a b.

Definition check_node (ls : assignment) (n : nat) (nd : node) : bool :=
  match nth n ls None with
  | None => true
  | Some L =>
      match transfer (n_instr nd) L with
      | None => false
      | Some L' =>
          match n_succ nd with
          | [] => match L' with [] => true | _ => false end
          | succs => forallb (fun s => ols_eqb (nth s ls None) (Some L')) succs
          end
      end
  end.

Fixpoint check_nodes (ls : assignment) (n : nat) (g : graph) : bool :=
  match g with
  | [] => true
  | nd :: g' => check_node ls n nd && check_nodes ls (S n) g'
  end.

Definition check_entries (ls : assignment) (entries : list nat) : bool :=
  forallb (fun e => ols_eqb (nth e ls None) (Some [])) entries.

Fixpoint accesses_from (ls : assignment) (n : nat) (g : graph) : list access :=
  match g with
  | [] => []
  | nd :: g' =>
      match n_instr nd, nth n ls None with
      | IAcc f w, Some L => (f, w, L, n_owner nd) :: accesses_from ls (S n) g'
      | _, _ => accesses_from ls (S n) g'
      end
  end.

(* two holds of lock sets exclude each other: a common mutex, at least one side exclusive *)
Definition excl (L1 L2 : lockset) : bool :=
  existsb (fun p => existsb (fun q => (fst p =? fst q) && (snd p || snd q)) L2) L1.

Definition conflict_free (skip : field -> bool) (single : nat -> bool) (a1 a2 : access) : bool :=
  let '(f1, w1, L1, o1) := a1 in
  let '(f2, w2, L2, o2) := a2 in
  negb ((f1 =? f2) && (w1 || w2) && negb (skip f1)) || excl L1 L2 || ((o1 =? o2)%nat && single o1).

Definition pairwise_ok (skip : field -> bool) (single : nat -> bool) (A : list access) : bool :=
  forallb (fun a1 => forallb (conflict_free skip single a1) A) A.

(* successors stay inside the owner group *)
Definition check_owner (g : graph) (nd : node) : bool :=
  forallb (fun s => match nth_error g s with Some nd' => (n_owner nd' =? n_owner nd)%nat | None => false end) (n_succ nd).

Definition check_assignment (skip : field -> bool) (single : nat -> bool) (g : graph) (entries : list nat) (ls : assignment) : bool :=
  (length ls =? length g)%nat && check_entries ls entries && check_nodes ls 0 g &&
  forallb (check_owner g) g &&
  pairwise_ok skip single (accesses_from ls 0 g).

(* ------------------------------------------------------------------------------------------ *)
(* Inference (not trusted: its result is checked by check_assignment). *)

Fixpoint set_nth {A} (l : list A) (n : nat) (a : A) : list A :=
  match l, n with
  | [], _ => []
  | _ :: l', O => a :: l'
  | b :: l', S n' => b :: set_nth l' n' a
  end.

(* worklist propagation; a node whose assignment is already Some is not revisited (a conflicting
   second lock set is caught afterwards by check_nodes) *)
Fixpoint propagate (fuel : nat) (g : graph) (work : list (nat * lockset)) (ls : assignment) : assignment :=
  match fuel with
  | O => ls
  | S fuel' =>
      match work with
      | [] => ls
      | (n, L) :: work' =>
          match nth n ls None with
          | Some _ => propagate fuel' g work' ls
          | None =>
              let ls' := set_nth ls n (Some L) in
              match nth_error g n with
              | None => propagate fuel' g work' ls'
              | Some nd =>
                  match transfer (n_instr nd) L with
                  | None => propagate fuel' g work' ls'
                  | Some L' => propagate fuel' g (map (fun s => (s, L')) (n_succ nd) ++ work') ls'
                  end
              end
          end
      end
  end.

Definition edges (g : graph) : nat := fold_right (fun nd acc => (length (n_succ nd) + acc)%nat) 0%nat g.

Definition infer (g : graph) (entries : list nat) : assignment :=
  propagate (S (length g + edges g + length entries)) g (map (fun e => (e, [])) entries) (repeat None (length g)).

Definition analysis_ok (skip : field -> bool) (single : nat -> bool) (g : graph) (entries : list nat) : bool :=
  check_assignment skip single g entries (infer g entries).

(* reporting *)
Definition conflicts (skip : field -> bool) (single : nat -> bool) (A : list access) : list (access * access) :=
  flat_map (fun a1 => map (fun a2 => (a1, a2)) (filter (fun a2 => negb (conflict_free skip single a1 a2)) A)) A.

Fixpoint bad_nodes_from (ls : assignment) (n : nat) (g : graph) : list nat :=
  match g with
  | [] => []
  | nd :: g' => if check_node ls n nd then bad_nodes_from ls (S n) g' else n :: bad_nodes_from ls (S n) g'
  end.

Definition report (skip : field -> bool) (single : nat -> bool) (g : graph) (entries : list nat) :=
  let ls := infer g entries in
  (bad_nodes_from ls 0 g, conflicts skip single (accesses_from ls 0 g)).

(* ------------------------------------------------------------------------------------------ *)
(* Semantics: any number of threads; a thread is at a node (about to execute it) or done. *)

Inductive tstate := At (pc : nat) | Done.
Definition thread := (tstate * lockset)%type.

(* a read/write lock: Lock needs nobody else holding it; RLock needs no exclusive holder *)
Definition compatible (m : mutex) (x : bool) (L' : lockset) : Prop :=
  forall x', In (m, x') L' -> x = false /\ x' = false.

Definition may_step (g : graph) (S : list thread) (i : nat) : Prop :=
  match nth_error S i with
  | Some (At pc, _) =>
      match nth_error g pc with
      | Some nd =>
          match n_instr nd with
          | ILock m x => forall j t, j <> i -> nth_error S j = Some t -> compatible m x (snd t)
          | _ => True
          end
      | None => True
      end
  | _ => True
  end.

(* thread t executes its node and moves to successor number c (or ends) *)
Definition tstep (g : graph) (t : thread) (c : nat) : option thread :=
  match t with
  | (At pc, L) =>
      match nth_error g pc with
      | None => None
      | Some nd =>
          let L' := exec (n_instr nd) L in
          match n_succ nd with
          | [] => Some (Done, L')
          | succs => match nth_error succs c with Some s => Some (At s, L') | None => None end
          end
      end
  | (Done, _) => None
  end.

Fixpoint update {A} (l : list A) (i : nat) (a : A) : list A :=
  match l, i with
  | [], _ => []
  | _ :: l', O => a :: l'
  | b :: l', S i' => b :: update l' i' a
  end.

Inductive step (g : graph) : list thread -> list thread -> Prop :=
| step_thread S i t c t' :
    nth_error S i = Some t -> tstep g t c = Some t' -> may_step g S i ->
    step g S (update S i t').

Inductive steps (g : graph) : list thread -> list thread -> Prop :=
| steps_refl S : steps g S S
| steps_cons S1 S2 S3 : steps g S1 S2 -> step g S2 S3 -> steps g S1 S3.

Definition at_access (g : graph) (t : thread) (f : field) (w : bool) : Prop :=
  exists pc nd, fst t = At pc /\ nth_error g pc = Some nd /\ n_instr nd = IAcc f w.

Definition racy (skip : field -> bool) (g : graph) (S : list thread) : Prop :=
  exists i j ti tj f w1 w2,
    i <> j /\ nth_error S i = Some ti /\ nth_error S j = Some tj /\
    at_access g ti f w1 /\ at_access g tj f w2 /\ (w1 || w2) = true /\ skip f = false.

Definition owner_of (g : graph) (t : thread) : option nat :=
  match fst t with
  | At pc => match nth_error g pc with Some nd => Some (n_owner nd) | None => None end
  | Done => None
  end.

(* any number of threads, each starting at some entry with no lock held; at most one thread per
   single-instance group (event handlers of one stream, periodic jobs, goroutines started once) *)
Definition initial (single : nat -> bool) (g : graph) (entries : list nat) (S : list thread) : Prop :=
  (forall t, In t S -> exists e, In e entries /\ t = (At e, [])) /\
  (forall i j ti tj o, i <> j -> nth_error S i = Some ti -> nth_error S j = Some tj ->
     owner_of g ti = Some o -> owner_of g tj = Some o -> single o = false).
