(* Lock/access skeleton language, its interleaving semantics, a flow-sensitive lockset analysis,
   and the soundness theorem: analysis_ok => no reachable state has two threads at conflicting
   accesses of one field, and a finished thread holds no lock.
   Used by C17 (skeletons regenerated from the Go source by /verif/translator on every run). *)
From Verif Require Import Lib.Base.

Definition field := N.
Definition mutex := N.

Inductive stmt :=
| Skip
| Acc (f : field) (w : bool)          (* read (false) / write (true) of a shared field *)
| Lock (m : mutex) (x : bool)         (* x = true: Lock, false: RLock *)
| Unlock (m : mutex) (x : bool)
| Seq (a b : stmt)
| Branch (a b : stmt)                 (* if / switch / select: any branch *)
| Loop (b : stmt)                     (* zero or more iterations *)
| Stop.                               (* return: the thread ends here *)

Definition lockset := list (mutex * bool).
Definition access := (field * bool * lockset)%type.

Definition lk_eqb (p q : mutex * bool) : bool := (fst p =? fst q) && Bool.eqb (snd p) (snd q).

Definition holds (m : mutex) (L : lockset) : bool := existsb (fun p => fst p =? m) L.
Definition holds_mode (m : mutex) (x : bool) (L : lockset) : bool := existsb (lk_eqb (m, x)) L.

Fixpoint ls_insert (p : mutex * bool) (L : lockset) : lockset :=
  match L with
  | [] => [p]
  | q :: L' => if fst p <=? fst q then p :: L else q :: ls_insert p L'
  end.

Fixpoint ls_remove (p : mutex * bool) (L : lockset) : lockset :=
  match L with
  | [] => []
  | q :: L' => if lk_eqb p q then L' else q :: ls_remove p L'
  end.

Definition ls_eqb (L1 L2 : lockset) : bool := list_eqb lk_eqb L1 L2.

(* ------------------------------------------------------------------------------------------ *)
(* Analysis.  Result of a statement from lockset L: None = rejected; Some (None, A) = every path
   stops; Some (Some L', A) = paths that continue do so with lockset L'.  A = accesses seen. *)

Definition join (r1 r2 : option lockset) : option (option lockset) :=
  match r1, r2 with
  | None, r => Some r
  | r, None => Some r
  | Some L1, Some L2 => if ls_eqb L1 L2 then Some (Some L1) else None
  end.

Fixpoint an (s : stmt) (L : lockset) : option (option lockset * list access) :=
  match s with
  | Skip => Some (Some L, [])
  | Acc f w => Some (Some L, [(f, w, L)])
  | Lock m x => if holds m L then None else Some (Some (ls_insert (m, x) L), [])
  | Unlock m x => if holds_mode m x L then Some (Some (ls_remove (m, x) L), []) else None
  | Seq a b =>
      match an a L with
      | None => None
      | Some (None, A1) => Some (None, A1)
      | Some (Some L1, A1) =>
          match an b L1 with
          | None => None
          | Some (r, A2) => Some (r, A1 ++ A2)
          end
      end
  | Branch a b =>
      match an a L, an b L with
      | Some (r1, A1), Some (r2, A2) =>
          match join r1 r2 with
          | None => None
          | Some r => Some (r, A1 ++ A2)
          end
      | _, _ => None
      end
  | Loop b =>
      match an b L with
      | Some (None, A) => Some (Some L, A)
      | Some (Some L1, A) => if ls_eqb L1 L then Some (Some L, A) else None
      | None => None
      end
  | Stop => match L with [] => Some (None, []) | _ => None end
  end.

(* a continuation (stack of statements) *)
Fixpoint ank (k : list stmt) (L : lockset) : option (list access) :=
  match k with
  | [] => match L with [] => Some [] | _ => None end
  | s :: k' =>
      match an s L with
      | None => None
      | Some (None, A) => Some A
      | Some (Some L1, A) =>
          match ank k' L1 with
          | None => None
          | Some A' => Some (A ++ A')
          end
      end
  end.

Fixpoint collect (entries : list stmt) : option (list access) :=
  match entries with
  | [] => Some []
  | e :: es =>
      match ank [e] [], collect es with
      | Some A, Some B => Some (A ++ B)
      | _, _ => None
      end
  end.

(* two holds of lock sets exclude each other: a common mutex, at least one side exclusive *)
Definition excl (L1 L2 : lockset) : bool :=
  existsb (fun p => existsb (fun q => (fst p =? fst q) && (snd p || snd q)) L2) L1.

Definition conflict_free (skip : field -> bool) (a1 a2 : access) : bool :=
  let '(f1, w1, L1) := a1 in
  let '(f2, w2, L2) := a2 in
  negb ((f1 =? f2) && (w1 || w2) && negb (skip f1)) || excl L1 L2.

Definition pairwise_ok (skip : field -> bool) (A : list access) : bool :=
  forallb (fun a1 => forallb (conflict_free skip a1) A) A.

Definition analysis_ok (skip : field -> bool) (entries : list stmt) : bool :=
  match collect entries with
  | None => false
  | Some A => pairwise_ok skip A
  end.

(* the conflicting pairs, for reporting *)
Definition conflicts (skip : field -> bool) (A : list access) : list (access * access) :=
  flat_map (fun a1 => map (fun a2 => (a1, a2)) (filter (fun a2 => negb (conflict_free skip a1 a2)) A)) A.

(* ------------------------------------------------------------------------------------------ *)
(* Semantics: any number of threads, each a continuation with the locks it holds. *)

Definition thread := (list stmt * lockset)%type.

(* what one thread can do next on its own; the boolean picks a branch / another iteration *)
Definition tstep (t : thread) (c : bool) : option thread :=
  let '(k, L) := t in
  match k with
  | [] => None
  | Skip :: k' => Some (k', L)
  | Acc _ _ :: k' => Some (k', L)
  | Lock m x :: k' => Some (k', ls_insert (m, x) L)
  | Unlock m x :: k' => Some (k', ls_remove (m, x) L)
  | Seq a b :: k' => Some (a :: b :: k', L)
  | Branch a b :: k' => Some ((if c then a else b) :: k', L)
  | Loop b :: k' => Some (if c then b :: Loop b :: k' else k', L)
  | Stop :: _ => Some ([], L)
  end.

(* a read/write lock: Lock needs nobody else holding it; RLock needs no exclusive holder *)
Definition compatible (m : mutex) (x : bool) (L' : lockset) : Prop :=
  forall x', In (m, x') L' -> x = false /\ x' = false.

Definition may_step (S : list thread) (i : nat) : Prop :=
  match nth_error S i with
  | Some (Lock m x :: _, _) => forall j t, j <> i -> nth_error S j = Some t -> compatible m x (snd t)
  | _ => True
  end.

Fixpoint update {A} (l : list A) (i : nat) (a : A) : list A :=
  match l, i with
  | [], _ => []
  | _ :: l', O => a :: l'
  | b :: l', S i' => b :: update l' i' a
  end.

Inductive step : list thread -> list thread -> Prop :=
| step_thread S i t c t' :
    nth_error S i = Some t -> tstep t c = Some t' -> may_step S i ->
    step S (update S i t').

Inductive steps : list thread -> list thread -> Prop :=
| steps_refl S : steps S S
| steps_cons S1 S2 S3 : steps S1 S2 -> step S2 S3 -> steps S1 S3.

Definition racy (skip : field -> bool) (S : list thread) : Prop :=
  exists i j f w1 w2 k1 k2 L1 L2,
    i <> j /\
    nth_error S i = Some (Acc f w1 :: k1, L1) /\
    nth_error S j = Some (Acc f w2 :: k2, L2) /\
    (w1 || w2) = true /\ skip f = false.

Definition initial (entries : list stmt) (S : list thread) : Prop :=
  forall t, In t S -> exists e, In e entries /\ t = ([e], []).
