(* Go's fixed-width integer arithmetic on Z, as used by the definitions that gotrans generates
   from the repository's source (coq/Gen/Pure_Extracted.v).  Definitions and basic facts only. *)
From Coq Require Import ZArith Lia.
Open Scope Z_scope.

Definition two63 : Z := 9223372036854775808.
Definition two64 : Z := 18446744073709551616.

(* uint64(x): reduction modulo 2^64 *)
Definition u64 (x : Z) : Z := x mod two64.
(* int64(x) / int(x) / time.Duration(x): two's-complement wrap-around *)
Definition i64 (x : Z) : Z := let m := x mod two64 in if m <? two63 then m else m - two64.
(* time.Time.Sub / time.Since: the difference saturates at the int64 limits *)
Definition sat64 (x : Z) : Z := Z.max (- two63) (Z.min (two63 - 1) x).
(* uint64(d.Seconds()) for a duration d >= 0 that is a whole number of seconds: float64 conversion is
   exact there; elsewhere this is the truncation of the exact quotient (modelled, not verified). *)
Definition whole_seconds (d : Z) : Z := Z.quot d 1000000000.

Definition in_u64 (x : Z) : Prop := 0 <= x < two64.
Definition in_i64 (x : Z) : Prop := - two63 <= x < two63.

Lemma u64_range x : in_u64 (u64 x).
Proof. unfold in_u64, u64, two64. apply Z.mod_pos_bound. lia. Qed.

Lemma u64_id x : in_u64 x -> u64 x = x.
Proof. unfold in_u64, u64. intro H. apply Z.mod_small. exact H. Qed.

Lemma i64_range x : in_i64 (i64 x).
Proof.
  unfold in_i64, i64. pose proof (Z.mod_pos_bound x two64 ltac:(unfold two64; lia)) as H.
  destruct (x mod two64 <? two63) eqn:E; unfold two63, two64 in *; lia.
Qed.

Lemma i64_id x : in_i64 x -> i64 x = x.
Proof.
  unfold in_i64, i64, two63, two64. intro H.
  destruct (Z_lt_le_dec x 0) as [Hn|Hp].
  - replace (x mod 18446744073709551616) with (x + 18446744073709551616).
    + destruct (x + 18446744073709551616 <? 9223372036854775808) eqn:E; lia.
    + symmetry. rewrite <- (Z.mod_small (x + 18446744073709551616) 18446744073709551616) by lia.
      rewrite <- Z.add_mod_idemp_r by lia. rewrite Z.mod_same by lia. rewrite Z.add_0_r. reflexivity.
  - rewrite Z.mod_small by lia. destruct (x <? 9223372036854775808) eqn:E; lia.
Qed.

Lemma sat64_id x : in_i64 x -> sat64 x = x.
Proof. unfold in_i64, sat64. lia. Qed.

(* math/big Int.Div: Euclidean division (remainder in [0, |b|)); b = 0 panics in Go *)
Definition ediv (a b : Z) : Z :=
  if 0 <? b then a / b else if b <? 0 then - (a / (- b)) else 0.

Lemma ediv_pos a b : 0 < b -> ediv a b = a / b.
Proof. unfold ediv. intro H. destruct (0 <? b) eqn:E; [reflexivity | lia]. Qed.
