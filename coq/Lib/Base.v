(* Common executable helpers for models and correspondence checks.  Definitions and their
   small characterising lemmas only; stdlib only. *)
From Coq Require Export List NArith ZArith Bool Lia.
From Coq Require Import ZifyBool ZifyN ZifyNat.
Export ListNotations.
Open Scope N_scope.

Definition two64 : N := 18446744073709551616.
Definition wrap64 (x : N) : N := x mod two64.
(* uint64 subtraction as Go performs it *)
Definition sub64 (a b : N) : N := if b <=? a then a - b else (a + two64) - b.
Definition mul64 (a b : N) : N := wrap64 (a * b).
Definition add64 (a b : N) : N := wrap64 (a + b).

Section Eqb.
  Context {A : Type} (eqb : A -> A -> bool).
  Fixpoint list_eqb (l1 l2 : list A) : bool :=
    match l1, l2 with
    | [], [] => true
    | x :: l1', y :: l2' => eqb x y && list_eqb l1' l2'
    | _, _ => false
    end.
  Definition option_eqb (o1 o2 : option A) : bool :=
    match o1, o2 with
    | None, None => true
    | Some x, Some y => eqb x y
    | _, _ => false
    end.
  Definition memb (x : A) (l : list A) : bool := existsb (eqb x) l.

  Hypothesis eqb_spec : forall x y, eqb x y = true <-> x = y.
  Lemma list_eqb_spec : forall l1 l2, list_eqb l1 l2 = true <-> l1 = l2.
  Proof.
    induction l1 as [|x l1 IH]; destruct l2 as [|y l2]; cbn; split; intro H; try congruence; try reflexivity.
    - apply andb_true_iff in H as [H1 H2]. apply eqb_spec in H1. apply IH in H2. congruence.
    - injection H as -> ->. apply andb_true_iff; split; [apply eqb_spec; reflexivity | apply IH; reflexivity].
  Qed.
  Lemma option_eqb_spec : forall o1 o2, option_eqb o1 o2 = true <-> o1 = o2.
  Proof.
    destruct o1, o2; cbn; split; intro H; try congruence; try reflexivity.
    - apply eqb_spec in H; congruence.
    - injection H as ->; apply eqb_spec; reflexivity.
  Qed.
  Lemma memb_spec : forall x l, memb x l = true <-> In x l.
  Proof.
    intros x l; unfold memb; rewrite existsb_exists; split.
    - intros [y [Hy He]]; apply eqb_spec in He; subst; assumption.
    - intro H; exists x; split; [assumption | apply eqb_spec; reflexivity].
  Qed.
End Eqb.

Definition prod_eqb {A B} (ea : A -> A -> bool) (eb : B -> B -> bool) (p q : A * B) : bool :=
  ea (fst p) (fst q) && eb (snd p) (snd q).

Lemma prod_eqb_spec {A B} (ea : A -> A -> bool) (eb : B -> B -> bool) :
  (forall x y, ea x y = true <-> x = y) -> (forall x y, eb x y = true <-> x = y) ->
  forall p q, prod_eqb ea eb p q = true <-> p = q.
Proof.
  intros Ha Hb [a b] [c d]; unfold prod_eqb; cbn; rewrite andb_true_iff, Ha, Hb; split.
  - intros [-> ->]; reflexivity.
  - intro H; injection H as -> ->; split; reflexivity.
Qed.

(* insertion sort by an N key: canonical form for Go-map snapshots *)
Section SortN.
  Context {A : Type} (key : A -> N).
  Fixpoint insert_by (x : A) (l : list A) : list A :=
    match l with
    | [] => [x]
    | y :: l' => if key x <=? key y then x :: l else y :: insert_by x l'
    end.
  Definition sort_by (l : list A) : list A := fold_right insert_by [] l.
End SortN.

(* ids of the cases on which a boolean test fails: the shape every Check/Cxx.v prints *)
Definition failing_ids {C : Type} (id : C -> N) (ok : C -> bool) (cs : list C) : list N :=
  map id (filter (fun c => negb (ok c)) cs).

Lemma failing_ids_nil {C : Type} (id : C -> N) (ok : C -> bool) (cs : list C) :
  failing_ids id ok cs = [] -> forall c, In c cs -> ok c = true.
Proof.
  unfold failing_ids; intros H c Hc.
  destruct (ok c) eqn:E; [reflexivity|].
  assert (Hin : In c (filter (fun c => negb (ok c)) cs)) by (apply filter_In; rewrite E; auto).
  apply (in_map id) in Hin. rewrite H in Hin. destruct Hin.
Qed.
