(* SHA-256 (FIPS 180-4) over N: 32-bit words are N below 2^32, a 32-byte chunk is one N below 2^256
   (big-endian, i.e. the number whose hexadecimal writing is the chunk's hex string).
   Executable definitions and test vectors only; this is the hash that the correspondence checks
   instantiate the abstract two-to-one hash of Lib/Ssz.v with.  Stdlib only. *)
From Coq Require Import List NArith.
Import ListNotations.
Open Scope N_scope.

Definition m32 : N := 4294967295.
Definition add32 (a b : N) : N := N.land (a + b) m32.
Definition rotr (n x : N) : N := N.lor (N.shiftr x n) (N.land (N.shiftl x (32 - n)) m32).
Definition not32 (x : N) : N := N.lxor x m32.

Definition ch (x y z : N) : N := N.lxor (N.land x y) (N.land (not32 x) z).
Definition maj (x y z : N) : N := N.lxor (N.lxor (N.land x y) (N.land x z)) (N.land y z).
Definition bsig0 (x : N) : N := N.lxor (N.lxor (rotr 2 x) (rotr 13 x)) (rotr 22 x).
Definition bsig1 (x : N) : N := N.lxor (N.lxor (rotr 6 x) (rotr 11 x)) (rotr 25 x).
Definition ssig0 (x : N) : N := N.lxor (N.lxor (rotr 7 x) (rotr 18 x)) (N.shiftr x 3).
Definition ssig1 (x : N) : N := N.lxor (N.lxor (rotr 17 x) (rotr 19 x)) (N.shiftr x 10).

Definition K : list N := [
  0x428a2f98; 0x71374491; 0xb5c0fbcf; 0xe9b5dba5; 0x3956c25b; 0x59f111f1; 0x923f82a4; 0xab1c5ed5;
  0xd807aa98; 0x12835b01; 0x243185be; 0x550c7dc3; 0x72be5d74; 0x80deb1fe; 0x9bdc06a7; 0xc19bf174;
  0xe49b69c1; 0xefbe4786; 0x0fc19dc6; 0x240ca1cc; 0x2de92c6f; 0x4a7484aa; 0x5cb0a9dc; 0x76f988da;
  0x983e5152; 0xa831c66d; 0xb00327c8; 0xbf597fc7; 0xc6e00bf3; 0xd5a79147; 0x06ca6351; 0x14292967;
  0x27b70a85; 0x2e1b2138; 0x4d2c6dfc; 0x53380d13; 0x650a7354; 0x766a0abb; 0x81c2c92e; 0x92722c85;
  0xa2bfe8a1; 0xa81a664b; 0xc24b8b70; 0xc76c51a3; 0xd192e819; 0xd6990624; 0xf40e3585; 0x106aa070;
  0x19a4c116; 0x1e376c08; 0x2748774c; 0x34b0bcb5; 0x391c0cb3; 0x4ed8aa4a; 0x5b9cca4f; 0x682e6ff3;
  0x748f82ee; 0x78a5636f; 0x84c87814; 0x8cc70208; 0x90befffa; 0xa4506ceb; 0xbef9a3f7; 0xc67178f2 ].

(* hash state: eight words *)
Record st := St { sa : N; sb : N; sc : N; sd : N; se : N; sf : N; sg : N; sh : N }.

Definition H0 : st :=
  St 0x6a09e667 0xbb67ae85 0x3c6ef372 0xa54ff53a 0x510e527f 0x9b05688c 0x1f83d9ab 0x5be0cd19.

(* Message schedule.  [win] holds the last sixteen words, most recent first. *)
Definition next_w (win : list N) : N :=
  match win with
  | [_; w2; _; _; _; _; w7; _; _; _; _; _; _; _; w15; w16] =>
      add32 (add32 (ssig1 w2) w7) (add32 (ssig0 w15) w16)
  | _ => 0
  end.

Fixpoint extend (n : nat) (win : list N) (acc : list N) : list N :=
  match n with
  | O => rev acc
  | S n' => let w := next_w win in extend n' (w :: removelast win) (w :: acc)
  end.

(* the 64 schedule words of a block of sixteen words *)
Definition schedule (blk : list N) : list N := blk ++ extend 48 (rev blk) [].

Definition round (s : st) (k w : N) : st :=
  let t1 := add32 (add32 (add32 (sh s) (bsig1 (se s))) (add32 (ch (se s) (sf s) (sg s)) k)) w in
  let t2 := add32 (bsig0 (sa s)) (maj (sa s) (sb s) (sc s)) in
  St (add32 t1 t2) (sa s) (sb s) (sc s) (add32 (sd s) t1) (se s) (sf s) (sg s).

Fixpoint rounds (s : st) (ks ws : list N) : st :=
  match ks, ws with
  | k :: ks', w :: ws' => rounds (round s k w) ks' ws'
  | _, _ => s
  end.

Definition add_st (x y : st) : st :=
  St (add32 (sa x) (sa y)) (add32 (sb x) (sb y)) (add32 (sc x) (sc y)) (add32 (sd x) (sd y))
     (add32 (se x) (se y)) (add32 (sf x) (sf y)) (add32 (sg x) (sg y)) (add32 (sh x) (sh y)).

Definition compress_sched (s : st) (ws : list N) : st := add_st s (rounds s K ws).
Definition compress (s : st) (blk : list N) : st := compress_sched s (schedule blk).

(* ------------------------------------------------------------------------------------------ *)
(* General message: bytes -> padded big-endian words -> blocks.                                 *)

Fixpoint words_of_bytes (bs : list N) : list N :=
  match bs with
  | b0 :: b1 :: b2 :: b3 :: r => (((b0 * 256 + b1) * 256 + b2) * 256 + b3) :: words_of_bytes r
  | _ => []
  end.

Definition pad (bs : list N) : list N :=
  let l := N.of_nat (length bs) in
  let k := (119 - (l mod 64)) mod 64 in          (* zero bytes so that l + 1 + k + 8 = 0 mod 64 *)
  let bits := l * 8 in
  bs ++ [128] ++ repeat 0 (N.to_nat k)
     ++ [0; 0; 0; 0; (bits / 16777216) mod 256; (bits / 65536) mod 256; (bits / 256) mod 256; bits mod 256].

Fixpoint blocks (fuel : nat) (ws : list N) (s : st) : st :=
  match fuel, ws with
  | S f, _ :: _ => blocks f (skipn 16 ws) (compress s (firstn 16 ws))
  | _, _ => s
  end.

Definition st_words (s : st) : list N := [sa s; sb s; sc s; sd s; se s; sf s; sg s; sh s].

Definition sha256_words (bs : list N) : list N :=
  let ws := words_of_bytes (pad bs) in st_words (blocks (length ws) ws H0).

(* ------------------------------------------------------------------------------------------ *)
(* 32-byte chunks as numbers below 2^256, and the two-to-one hash used by SSZ merkleisation.    *)

Definition chunk_of_words (ws : list N) : N := fold_left (fun acc w => acc * 4294967296 + w) ws 0.

Definition words_of_chunk (c : N) : list N :=
  [N.land (N.shiftr c 224) m32; N.land (N.shiftr c 192) m32; N.land (N.shiftr c 160) m32;
   N.land (N.shiftr c 128) m32; N.land (N.shiftr c 96) m32; N.land (N.shiftr c 64) m32;
   N.land (N.shiftr c 32) m32; N.land c m32].

Definition sha256 (bs : list N) : N := chunk_of_words (sha256_words bs).

(* second block of every 64-byte message: 0x80, zeros, length 512 bits; its schedule is a constant *)
Definition pad64_block : list N := [0x80000000; 0; 0; 0; 0; 0; 0; 0; 0; 0; 0; 0; 0; 0; 0; 512].
Definition pad64_sched : list N := Eval vm_compute in schedule pad64_block.

Definition sha256_2 (a b : N) : N :=
  let s1 := compress H0 (words_of_chunk a ++ words_of_chunk b) in
  chunk_of_words (st_words (compress_sched s1 pad64_sched)).

(* bytes of a chunk, most significant first (for cross-checking sha256_2 against sha256) *)
Definition bytes_of_word (w : N) : list N :=
  [N.land (N.shiftr w 24) 255; N.land (N.shiftr w 16) 255; N.land (N.shiftr w 8) 255; N.land w 255].
Definition bytes_of_chunk (c : N) : list N := flat_map bytes_of_word (words_of_chunk c).

(* ------------------------------------------------------------------------------------------ *)
(* Test vectors (FIPS 180-4 / NIST examples, and the SSZ zero-hash).                            *)

Example sha256_empty :
  sha256 [] = 0xe3b0c44298fc1c149afbf4c8996fb92427ae41e4649b934ca495991b7852b855.
Proof. vm_compute. reflexivity. Qed.

Example sha256_abc :
  sha256 [97; 98; 99] = 0xba7816bf8f01cfea414140de5dae2223b00361a396177a9cb410ff61f20015ad.
Proof. vm_compute. reflexivity. Qed.

(* "abcdbcdecdefdefgefghfghighijhijkijkljklmklmnlmnomnopnopq": 56 bytes, two blocks *)
Example sha256_two_blocks :
  sha256 [97;98;99;100; 98;99;100;101; 99;100;101;102; 100;101;102;103; 101;102;103;104; 102;103;104;105;
          103;104;105;106; 104;105;106;107; 105;106;107;108; 106;107;108;109; 107;108;109;110;
          108;109;110;111; 109;110;111;112; 110;111;112;113]
  = 0x248d6a61d20638b8e5c026930c3e6039a33ce45964ff2167f6ecedd419db06c1.
Proof. vm_compute. reflexivity. Qed.

(* hash of 64 zero bytes = SSZ zero-hash of depth 1 *)
Example sha256_2_zero :
  sha256_2 0 0 = 0xf5a5fd42d16a20302798ef6ed309979b43003d2320d9f0e8ea9831a92759fb4b.
Proof. vm_compute. reflexivity. Qed.

Example sha256_2_zero_depth2 :
  sha256_2 (sha256_2 0 0) (sha256_2 0 0) = 0xdb56114e00fdd4c1f85c892bf35ac9a89289aaecb1ebd0a96cde606a748b5d71.
Proof. vm_compute. reflexivity. Qed.

(* the specialised two-chunk hash is the general hash of the 64 bytes *)
Example sha256_2_is_sha256 :
  let a := 0xba7816bf8f01cfea414140de5dae2223b00361a396177a9cb410ff61f20015ad in
  let b := 0x00000000000000000000000000000000000000000000000000000000000000ff in
  sha256_2 a b = sha256 (bytes_of_chunk a ++ bytes_of_chunk b)
  /\ sha256_2 b a = sha256 (bytes_of_chunk b ++ bytes_of_chunk a)
  /\ sha256_2 0 b = sha256 (bytes_of_chunk 0 ++ bytes_of_chunk b).
Proof. vm_compute. repeat split; reflexivity. Qed.
