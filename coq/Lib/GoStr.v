(* GoStr — the few Go string operations that the transcriptions of strtrans (Gen/Str_*.v) use, on
   Coq's [string] (a Go string is a byte sequence; one [ascii] per byte), with the lemmas that
   characterise them.  Integers are [Z] (Go [int]; the values that occur are lengths and indices of
   strings, far from the 64-bit bounds).

     len s                 len(s)
     last_index s sep      strings.LastIndex(s, sep): the byte index of the last occurrence of sep in
                           s, -1 when there is none (LastIndex(s, "") = len(s))
     slice s lo hi         s[lo:hi]: None where Go panics (not 0 <= lo <= hi <= len(s))
     sl_len / sl_is_nil    len(x), x == nil for a []string, represented as option (list string)
                           (None is the nil slice)
     result T              what a transcribed function returns: a value, a run-time panic (slice
                           bounds), or "the explicit fuel of the recursion ran out"

   Definitions are executable (vm_compute); no axioms. *)
From Coq Require Import String Ascii ZArith List Bool Lia PeanoNat.
Import ListNotations.
Local Open Scope Z_scope.

Inductive result (T : Type) : Type :=
| Ok (v : T)
| Panic
| OutOfFuel.
Arguments Ok {T} v.
Arguments Panic {T}.
Arguments OutOfFuel {T}.

Definition len (s : string) : Z := Z.of_nat (String.length s).

(* s without its first n bytes *)
Fixpoint drop (n : nat) (s : string) : string :=
  match n, s with
  | O, _ => s
  | S n', String _ s' => drop n' s'
  | S _, EmptyString => EmptyString
  end.

(* the first n bytes of s *)
Fixpoint take (n : nat) (s : string) : string :=
  match n, s with
  | O, _ => EmptyString
  | S n', String a s' => String a (take n' s')
  | S _, EmptyString => EmptyString
  end.

(* strings.HasPrefix(s, p) *)
Fixpoint has_prefix (p s : string) : bool :=
  match p, s with
  | EmptyString, _ => true
  | String a p', String b s' => Ascii.eqb a b && has_prefix p' s'
  | String _ _, EmptyString => false
  end.

(* sep occurs in s at byte offset i *)
Definition occurs_at (sep s : string) (i : nat) : bool :=
  (i <=? String.length s)%nat && has_prefix sep (drop i s).

Fixpoint last_index_nat (s sep : string) : option nat :=
  match s with
  | EmptyString => if has_prefix sep EmptyString then Some O else None
  | String _ s' =>
      match last_index_nat s' sep with
      | Some i => Some (S i)
      | None => if has_prefix sep s then Some O else None
      end
  end.

Definition last_index (s sep : string) : Z :=
  match last_index_nat s sep with
  | Some i => Z.of_nat i
  | None => -1
  end.

Definition slice (s : string) (lo hi : Z) : option string :=
  if (0 <=? lo) && (lo <=? hi) && (hi <=? len s)
  then Some (take (Z.to_nat (hi - lo)) (drop (Z.to_nat lo) s))
  else None.

Definition sl_len (x : option (list string)) : Z :=
  match x with Some l => Z.of_nat (List.length l) | None => 0 end.
Definition sl_is_nil (x : option (list string)) : bool :=
  match x with Some _ => false | None => true end.

(* ------------------------------------------------------------------------------------------- *)
(* Lemmas *)

Lemma len_nonneg : forall s, 0 <= len s.
Proof. intro s. unfold len. lia. Qed.

Lemma len_append : forall a b, len (String.append a b) = len a + len b.
Proof.
  unfold len. induction a as [|x a IH]; intro b; cbn [String.append String.length].
  - lia.
  - specialize (IH b). lia.
Qed.

Lemma len_empty : forall s, len s = 0 <-> s = EmptyString.
Proof. intro s. unfold len. destruct s; cbn; split; intro H; try reflexivity; try discriminate; lia. Qed.

Lemma drop_length : forall n s, String.length (drop n s) = (String.length s - n)%nat.
Proof. induction n as [|n IH]; intros [|a s]; cbn; try reflexivity. apply IH. Qed.

Lemma take_length : forall n s, (n <= String.length s)%nat -> String.length (take n s) = n.
Proof.
  induction n as [|n IH]; intros [|a s] H; cbn in *; try reflexivity; try lia.
  rewrite IH; [reflexivity | lia].
Qed.

Lemma take_drop : forall n s, String.append (take n s) (drop n s) = s.
Proof. induction n as [|n IH]; intros [|a s]; cbn; try reflexivity. rewrite IH. reflexivity. Qed.

Lemma take_append : forall a b, take (String.length a) (String.append a b) = a.
Proof. induction a as [|x a IH]; intro b; cbn; [destruct b; reflexivity | rewrite IH; reflexivity]. Qed.

Lemma drop_append : forall a b, drop (String.length a) (String.append a b) = b.
Proof. induction a as [|x a IH]; intro b; cbn; [reflexivity | apply IH]. Qed.

Lemma has_prefix_append : forall p s, has_prefix p (String.append p s) = true.
Proof.
  induction p as [|a p IH]; intro s; cbn; [reflexivity|].
  rewrite Ascii.eqb_refl, IH. reflexivity.
Qed.

(* has_prefix p s exactly when s = p ++ rest *)
Lemma has_prefix_spec : forall p s, has_prefix p s = true <-> exists r, s = String.append p r.
Proof.
  induction p as [|a p IH]; intro s.
  - cbn. split; [intros _; exists s; reflexivity | reflexivity].
  - destruct s as [|b s]; cbn.
    + split; [discriminate | intros [r H]; discriminate].
    + rewrite andb_true_iff, Ascii.eqb_eq, IH. split.
      * intros [-> [r ->]]. exists r. reflexivity.
      * intros [r H]. injection H as -> ->. split; [reflexivity | exists r; reflexivity].
Qed.

(* an occurrence at i: s = u ++ sep ++ w with |u| = i *)
Lemma occurs_at_spec : forall sep s i,
  occurs_at sep s i = true <->
  exists u w, s = String.append u (String.append sep w) /\ String.length u = i.
Proof.
  intros sep s i. unfold occurs_at. rewrite andb_true_iff, Nat.leb_le, has_prefix_spec. split.
  - intros [Hi [r Hr]]. exists (take i s), r. split.
    + rewrite <- Hr. symmetry. apply take_drop.
    + apply take_length, Hi.
  - intros [u [w [-> <-]]]. split.
    + clear. induction u as [|a u IH]; cbn; [lia | lia].
    + exists w. apply drop_append.
Qed.

Lemma last_index_nat_bound : forall s sep i, last_index_nat s sep = Some i -> (i <= String.length s)%nat.
Proof.
  induction s as [|a s IH]; intros sep i H; cbn [last_index_nat] in H.
  - destruct (has_prefix sep EmptyString); [injection H as <-; cbn; lia | discriminate].
  - destruct (last_index_nat s sep) as [j|] eqn:E.
    + injection H as <-. specialize (IH sep j E). cbn. lia.
    + destruct (has_prefix sep (String a s)); [injection H as <-; cbn; lia | discriminate].
Qed.

Lemma last_index_nat_none : forall s sep, last_index_nat s sep = None ->
  forall j, occurs_at sep s j = false.
Proof.
  induction s as [|b s IH]; intros sep E j; cbn [last_index_nat] in E.
  - destruct (has_prefix sep EmptyString) eqn:P; [discriminate|].
    unfold occurs_at. destruct j; cbn; [exact P | reflexivity].
  - destruct (last_index_nat s sep) eqn:E'; [discriminate|].
    destruct (has_prefix sep (String b s)) eqn:P; [discriminate|].
    unfold occurs_at. destruct j as [|j]; [cbn [drop]; rewrite P; apply andb_false_r|].
    cbn [String.length drop]. change (S j <=? S (String.length s))%nat with (j <=? String.length s)%nat.
    apply (IH sep E' j).
Qed.

(* the index returned is an occurrence, and there is none after it *)
Lemma last_index_nat_some : forall s sep i, last_index_nat s sep = Some i ->
  occurs_at sep s i = true /\ forall j, (i < j)%nat -> occurs_at sep s j = false.
Proof.
  induction s as [|a s IH]; intros sep i H; cbn [last_index_nat] in H.
  - destruct (has_prefix sep EmptyString) eqn:E; [injection H as <-|discriminate]. split.
    + unfold occurs_at. cbn. exact E.
    + intros j Hj. unfold occurs_at. cbn [String.length]. destruct (j <=? 0)%nat eqn:L; [apply Nat.leb_le in L; lia | reflexivity].
  - destruct (last_index_nat s sep) as [k|] eqn:E.
    + injection H as <-. destruct (IH sep k E) as [Hocc Hlast]. split.
      * unfold occurs_at in *. cbn [String.length drop]. exact Hocc.
      * intros j Hj. destruct j as [|j]; [lia|]. specialize (Hlast j ltac:(lia)).
        unfold occurs_at in *. cbn [String.length drop]. exact Hlast.
    + destruct (has_prefix sep (String a s)) eqn:P; [injection H as <-|discriminate]. split.
      * unfold occurs_at. cbn [drop]. rewrite P. reflexivity.
      * intros j Hj. destruct j as [|j]; [lia|].
        unfold occurs_at. cbn [String.length drop]. change (S j <=? S (String.length s))%nat with (j <=? String.length s)%nat.
        apply (last_index_nat_none s sep E j).
Qed.

(* strings.LastIndex: range, and its two cases *)
Lemma last_index_range : forall s sep, -1 <= last_index s sep <= len s.
Proof.
  intros s sep. unfold last_index, len. destruct (last_index_nat s sep) as [i|] eqn:E.
  - apply last_index_nat_bound in E. lia.
  - lia.
Qed.

Lemma last_index_found : forall s sep i, last_index s sep = Z.of_nat i ->
  occurs_at sep s i = true /\ forall j, (i < j)%nat -> occurs_at sep s j = false.
Proof.
  intros s sep i H. unfold last_index in H. destruct (last_index_nat s sep) as [k|] eqn:E; [|lia].
  assert (k = i) as -> by lia. apply last_index_nat_some, E.
Qed.

Lemma last_index_absent : forall s sep, last_index s sep = -1 <-> forall j, occurs_at sep s j = false.
Proof.
  intros s sep. unfold last_index. destruct (last_index_nat s sep) as [k|] eqn:E.
  - split; [lia|]. intro H. apply last_index_nat_some in E as [Hocc _]. rewrite H in Hocc. discriminate.
  - split; [intros _; apply last_index_nat_none, E | reflexivity].
Qed.

(* s[lo:hi] *)
Lemma slice_some : forall s lo hi t, slice s lo hi = Some t ->
  0 <= lo <= hi /\ hi <= len s /\
  exists u w, s = String.append u (String.append t w) /\ len u = lo /\ len t = hi - lo.
Proof.
  intros s lo hi t H. unfold slice in H.
  destruct ((0 <=? lo) && (lo <=? hi) && (hi <=? len s)) eqn:C; [|discriminate].
  apply andb_true_iff in C as [C C3]. apply andb_true_iff in C as [C1 C2].
  apply Z.leb_le in C1, C2, C3. injection H as <-.
  split; [lia|]. split; [exact C3|].
  exists (take (Z.to_nat lo) s), (drop (Z.to_nat (hi - lo)) (drop (Z.to_nat lo) s)).
  unfold len in *. split; [|split].
  - rewrite take_drop, take_drop. reflexivity.
  - rewrite take_length by lia. lia.
  - rewrite take_length; [lia|]. rewrite drop_length. lia.
Qed.

Lemma slice_none : forall s lo hi, slice s lo hi = None <-> ~ (0 <= lo <= hi /\ hi <= len s).
Proof.
  intros s lo hi. unfold slice.
  destruct ((0 <=? lo) && (lo <=? hi) && (hi <=? len s)) eqn:C.
  - apply andb_true_iff in C as [C C3]. apply andb_true_iff in C as [C1 C2].
    apply Z.leb_le in C1, C2, C3. split; [discriminate | intro H; exfalso; apply H; lia].
  - split; [|reflexivity]. intros _ [[H1 H2] H3].
    apply Z.leb_le in H1, H2, H3. rewrite H1, H2, H3 in C. discriminate.
Qed.

Lemma slice_prefix : forall a b, slice (String.append a b) 0 (len a) = Some a.
Proof.
  intros a b. unfold slice. rewrite len_append.
  pose proof (len_nonneg a) as Ha. pose proof (len_nonneg b) as Hb.
  replace ((0 <=? 0) && (0 <=? len a) && (len a <=? len a + len b)) with true.
  - cbn [Z.to_nat drop]. rewrite Z.sub_0_r. unfold len. rewrite Nat2Z.id, take_append. reflexivity.
  - symmetry. rewrite !andb_true_iff, !Z.leb_le. lia.
Qed.

Lemma slice_full : forall s, slice s 0 (len s) = Some s.
Proof.
  intro s. pose proof (slice_prefix s EmptyString) as H.
  assert (E : String.append s EmptyString = s) by (clear; induction s as [|a s IH]; cbn; [reflexivity | rewrite IH; reflexivity]).
  rewrite E in H. exact H.
Qed.

Lemma sl_len_nonneg : forall x, 0 <= sl_len x.
Proof. intros [l|]; cbn; lia. Qed.
