(* A table of pending one-off jobs keyed by an N (a slot), as the scheduler keeps them by name:
   scheduling a name that exists fails (the first job stays), cancelling removes, a job that runs
   leaves the table.  Used by the history part of C15 (model and check alike: these are the
   semantics of the recording scheduler, services/scheduler: ScheduleJob / CancelJob / the run of a
   one-off job).  Definitions and their characterising lemmas; stdlib only. *)
From Verif Require Import Lib.Base.

Section JobTab.
  Context {V : Type}.

  Definition jobtab := list (N * V).

  Definition tab_has (t : jobtab) (s : N) : bool := existsb (fun e => fst e =? s) t.

  Fixpoint tab_get (t : jobtab) (s : N) : option V :=
    match t with
    | [] => None
    | (s', v) :: t' => if s' =? s then Some v else tab_get t' s
    end.

  (* ScheduleJob for every key of [keys] in turn, all with the same payload: a key that is already
     there is refused *)
  Definition tab_add (t : jobtab) (keys : list N) (v : V) : jobtab :=
    t ++ map (fun s => (s, v)) (filter (fun s => negb (tab_has t s)) keys).

  (* CancelJob for every key that satisfies [pred] *)
  Definition tab_del (t : jobtab) (pred : N -> bool) : jobtab :=
    filter (fun e => negb (pred (fst e))) t.

  Lemma tab_has_In : forall t s, tab_has t s = true <-> In s (map fst t).
  Proof.
    intros t s. unfold tab_has. rewrite existsb_exists, in_map_iff. split.
    - intros (e & He & Hs). apply N.eqb_eq in Hs. eauto.
    - intros (e & Hs & He). exists e. split; [exact He | apply N.eqb_eq, Hs].
  Qed.

  Lemma tab_get_has : forall t s, tab_has t s = match tab_get t s with Some _ => true | None => false end.
  Proof.
    induction t as [|[s' v] t IH]; intros s; cbn; [reflexivity|].
    destruct (s' =? s); cbn; [reflexivity | apply IH].
  Qed.

  Lemma tab_get_app : forall t1 t2 s,
    tab_get (t1 ++ t2) s = match tab_get t1 s with Some v => Some v | None => tab_get t2 s end.
  Proof.
    induction t1 as [|[s' v] t1 IH]; intros t2 s; cbn; [reflexivity|].
    destruct (s' =? s); [reflexivity | apply IH].
  Qed.

  Lemma tab_get_const : forall (keys : list N) (v : V) s,
    tab_get (map (fun k => (k, v)) keys) s = if existsb (N.eqb s) keys then Some v else None.
  Proof.
    induction keys as [|k keys IH]; intros v s; cbn; [reflexivity|].
    rewrite (N.eqb_sym s k). destruct (k =? s); cbn; [reflexivity | apply IH].
  Qed.

  (* an existing job stays; a new key gets the payload iff it is among the keys *)
  Lemma tab_get_add : forall t keys v s,
    tab_get (tab_add t keys v) s =
      match tab_get t s with
      | Some x => Some x
      | None => if existsb (N.eqb s) keys then Some v else None
      end.
  Proof.
    intros t keys v s. unfold tab_add. rewrite tab_get_app.
    destruct (tab_get t s) as [x|] eqn:E; [reflexivity|].
    rewrite tab_get_const.
    assert (H : existsb (N.eqb s) (filter (fun k => negb (tab_has t k)) keys) = existsb (N.eqb s) keys).
    { induction keys as [|k keys IH]; cbn; [reflexivity|].
      destruct (tab_has t k) eqn:Hk; cbn.
      - rewrite IH. destruct (N.eqb_spec s k) as [->|_]; [|reflexivity].
        rewrite tab_get_has, E in Hk. discriminate.
      - rewrite IH. reflexivity. }
    rewrite H. reflexivity.
  Qed.

  Lemma tab_get_del : forall t pred s,
    tab_get (tab_del t pred) s = if pred s then None else tab_get t s.
  Proof.
    intros t pred s. unfold tab_del. induction t as [|[s' v] t IH]; cbn [filter fst].
    - cbn. destruct (pred s); reflexivity.
    - destruct (pred s') eqn:Hp; cbn [negb tab_get].
      + rewrite IH. destruct (N.eqb_spec s' s) as [->|_]; [rewrite Hp; reflexivity | reflexivity].
      + destruct (N.eqb_spec s' s) as [->|_]; [rewrite Hp; reflexivity | apply IH].
  Qed.

  Lemma tab_del_ext : forall t f g, (forall s, f s = g s) -> tab_del t f = tab_del t g.
  Proof. intros t f g H. unfold tab_del. apply filter_ext. intros e. rewrite H. reflexivity. Qed.

  Lemma tab_del_keys : forall t pred, NoDup (map fst t) -> NoDup (map fst (tab_del t pred)).
  Proof.
    induction t as [|[s v] t IH]; intros pred H; cbn; [constructor|].
    inversion H as [|? ? Hn Hd]; subst. destruct (pred s); cbn; [apply IH, Hd|].
    constructor; [|apply IH, Hd]. intro Hin. apply Hn.
    apply in_map_iff in Hin. destruct Hin as (e & He & Hin). unfold tab_del in Hin. apply filter_In in Hin.
    apply in_map_iff. exists e. tauto.
  Qed.

  Lemma NoDup_app_disj : forall (A : Type) (l1 l2 : list A),
    NoDup l1 -> NoDup l2 -> (forall x, In x l1 -> In x l2 -> False) -> NoDup (l1 ++ l2).
  Proof.
    induction l1 as [|a l1 IH]; intros l2 H1 H2 Hd; cbn; [exact H2|].
    inversion H1 as [|? ? Hn Hd1]; subst. constructor.
    - intro Hin. apply in_app_or in Hin. destruct Hin as [Hin|Hin]; [exact (Hn Hin) | exact (Hd a (or_introl eq_refl) Hin)].
    - apply IH; [exact Hd1 | exact H2 | intros x Hx1 Hx2; exact (Hd x (or_intror Hx1) Hx2)].
  Qed.

  Lemma NoDup_filter' : forall (A : Type) (f : A -> bool) l, NoDup l -> NoDup (filter f l).
  Proof.
    intros A f l H. induction H as [|x l Hx Hl IH]; cbn; [constructor|].
    destruct (f x); [constructor; [rewrite filter_In; tauto | exact IH] | exact IH].
  Qed.

  Lemma tab_add_keys : forall t keys v, NoDup (map fst t) -> NoDup keys -> NoDup (map fst (tab_add t keys v)).
  Proof.
    intros t keys v Ht Hk. unfold tab_add. rewrite map_app, map_map. cbn [fst]. rewrite map_id.
    apply NoDup_app_disj; [exact Ht | apply NoDup_filter', Hk|].
    intros s H1 H2. apply filter_In in H2. destruct H2 as (_ & H2).
    apply tab_has_In in H1. rewrite H1 in H2. discriminate.
  Qed.

  (* with unique keys, membership is lookup *)
  Lemma tab_get_In : forall t s v, NoDup (map fst t) -> (In (s, v) t <-> tab_get t s = Some v).
  Proof.
    induction t as [|[s' v'] t IH]; intros s v H; cbn.
    - split; [intros [] | discriminate].
    - inversion H as [|? ? Hn Hd]; subst. destruct (N.eqb_spec s' s) as [->|Hne].
      + split.
        * intros [Heq|Hin]; [injection Heq as ->; reflexivity|].
          exfalso. apply Hn. apply in_map_iff. exists (s, v). auto.
        * intros Heq. injection Heq as ->. left. reflexivity.
      + rewrite <- (IH s v Hd). split; [intros [Heq|Hin]; [injection Heq as -> ->; congruence | exact Hin] | auto].
  Qed.

  Lemma tab_get_keys : forall t s, In s (map fst t) <-> tab_get t s <> None.
  Proof.
    intros t s. rewrite <- tab_has_In, tab_get_has. destruct (tab_get t s); split; congruence.
  Qed.

End JobTab.
