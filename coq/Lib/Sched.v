(* Schedules over a transition system given by a partial step function.
   A concurrent system is a state type, an action type (a thread taking its next atomic step, or an
   environment event) and [step : S -> A -> option S] ([None] = the action is not enabled).
   [run] executes a schedule (any list of actions), skipping the actions that are not enabled, so
   that *every* list of actions is a schedule.  Stdlib only. *)
From Coq Require Import List Arith Lia.
Import ListNotations.

Section Sched.
  Context {S A : Type} (step : S -> A -> option S).

  Definition exec (s : S) (a : A) : S :=
    match step s a with Some s' => s' | None => s end.

  Definition run (sch : list A) (s : S) : S := fold_left exec sch s.

  Lemma run_nil : forall s, run [] s = s.
  Proof. reflexivity. Qed.

  Lemma run_cons : forall a sch s, run (a :: sch) s = run sch (exec s a).
  Proof. reflexivity. Qed.

  Lemma run_app : forall sch1 sch2 s, run (sch1 ++ sch2) s = run sch2 (run sch1 s).
  Proof. intros; unfold run; apply fold_left_app. Qed.

  Lemma run_snoc : forall sch a s, run (sch ++ [a]) s = exec (run sch s) a.
  Proof. intros; rewrite run_app; reflexivity. Qed.

  (* Invariant induction over schedules of any length. *)
  Lemma invariant_run :
    forall (I : S -> Prop),
      (forall s a s', I s -> step s a = Some s' -> I s') ->
      forall sch s, I s -> I (run sch s).
  Proof.
    intros I HI sch; induction sch as [|a sch IH]; intros s Hs; [exact Hs|].
    rewrite run_cons; apply IH; unfold exec.
    destruct (step s a) as [s'|] eqn:E; [eapply HI; eauto | exact Hs].
  Qed.

  (* no action of [acts] is enabled *)
  Definition quiescent_on (acts : list A) (s : S) : bool :=
    forallb (fun a => match step s a with None => true | Some _ => false end) acts.

  Lemma quiescent_on_spec : forall acts s,
      quiescent_on acts s = true <-> (forall a, In a acts -> step s a = None).
  Proof.
    intros acts s; unfold quiescent_on; rewrite forallb_forall; split; intros H a Ha.
    - specialize (H a Ha); destruct (step s a); [discriminate | reflexivity].
    - rewrite (H a Ha); reflexivity.
  Qed.

  (* number of actions of a schedule that were enabled when their turn came *)
  Fixpoint taken (sch : list A) (s : S) : nat :=
    match sch with
    | [] => 0
    | a :: sch' => match step s a with
                   | Some s' => Datatypes.S (taken sch' s')
                   | None => taken sch' s
                   end
    end.

  (* Measure-based termination: if every enabled action of class [thr] strictly decreases [m] on
     the states of an invariant [I], a schedule made of [thr] actions only takes at most [m s]
     effective steps, however long it is. *)
  Lemma measure_bound :
    forall (I : S -> Prop) (thr : A -> bool) (m : S -> nat),
      (forall s a s', I s -> step s a = Some s' -> I s') ->
      (forall s a s', I s -> thr a = true -> step s a = Some s' -> m s' < m s) ->
      forall sch s, I s -> forallb thr sch = true -> taken sch s + m (run sch s) <= m s.
  Proof.
    intros I thr m HI Hm sch; induction sch as [|a sch IH]; intros s Hs Hall; cbn [taken]; [rewrite run_nil; lia|].
    cbn [forallb] in Hall; apply andb_prop in Hall as [Ha Hall].
    rewrite run_cons; unfold exec; destruct (step s a) as [s'|] eqn:E.
    - specialize (IH s' (HI _ _ _ Hs E) Hall). specialize (Hm _ _ _ Hs Ha E). lia.
    - exact (IH s Hs Hall).
  Qed.
End Sched.
