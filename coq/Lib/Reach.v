(* Reflective finite reachability.
   [closed L] checks by computation that the finite state list [L] is closed under every action
   of the finite list [acts]; [closed_run] lifts that to schedules of ANY length: every state a
   schedule can reach from a state of [L] is in [L].  A predicate checked on the elements of [L]
   (by [vm_compute]) then holds in every reachable state.  This is a proof over unbounded
   executions of a finite-state system, not a bounded exploration.

   Membership uses a hash table (PositiveMap of buckets) keyed by a user function [key];
   soundness does NOT depend on [key] being injective (buckets are compared with [eqb]); a poor
   [key] only costs time.  The explorer [explore] that produces candidate sets carries no proof:
   its output is validated by [closed]. *)
From Coq Require Import List Bool PArith FMapPositive.
From Verif Require Import Lib.Sched.
Import ListNotations.

Section Table.
  Context {S : Type} (eqb : S -> S -> bool) (key : S -> positive).
  Hypothesis eqb_sound : forall x y, eqb x y = true -> x = y.

  Definition tbl := PositiveMap.t (list S).

  Definition bucket (t : tbl) (k : positive) : list S :=
    match PositiveMap.find k t with Some b => b | None => [] end.

  Definition memt (t : tbl) (s : S) : bool := existsb (eqb s) (bucket t (key s)).

  Definition addt (t : tbl) (s : S) : tbl := PositiveMap.add (key s) (s :: bucket t (key s)) t.

  Definition tbl_of (L : list S) : tbl := fold_left addt L (PositiveMap.empty (list S)).

  (* every state stored in the table comes from [L] *)
  Definition tbl_sub (t : tbl) (L : list S) : Prop :=
    forall k b s, PositiveMap.find k t = Some b -> In s b -> In s L.

  Lemma tbl_sub_add : forall t L s, tbl_sub t L -> In s L -> tbl_sub (addt t s) L.
  Proof.
    intros t L s Ht Hs k b x Hf Hx; unfold addt in Hf.
    destruct (Pos.eq_dec k (key s)) as [->|Hne].
    - rewrite PositiveMap.gss in Hf; injection Hf as <-.
      destruct Hx as [<-|Hx]; [exact Hs|].
      unfold bucket in Hx; destruct (PositiveMap.find (key s) t) as [b'|] eqn:E; [eapply Ht; eauto | destruct Hx].
    - rewrite PositiveMap.gso in Hf by exact Hne. eapply Ht; eauto.
  Qed.

  Lemma tbl_sub_fold : forall L' t L, tbl_sub t L -> incl L' L -> tbl_sub (fold_left addt L' t) L.
  Proof.
    induction L' as [|s L' IH]; intros t L Ht Hi; cbn; [exact Ht|].
    apply IH; [apply tbl_sub_add; [exact Ht | apply Hi; left; reflexivity] | intros x Hx; apply Hi; right; exact Hx].
  Qed.

  Lemma tbl_of_sub : forall L, tbl_sub (tbl_of L) L.
  Proof.
    intro L; apply tbl_sub_fold; [|apply incl_refl].
    intros k b s Hf; rewrite PositiveMap.gempty in Hf; discriminate.
  Qed.

  Lemma memt_In : forall L s, memt (tbl_of L) s = true -> In s L.
  Proof.
    intros L s H; unfold memt in H; apply existsb_exists in H as [x [Hx He]].
    apply eqb_sound in He; subst x.
    unfold bucket in Hx; destruct (PositiveMap.find (key s) (tbl_of L)) as [b|] eqn:E; [|destruct Hx].
    eapply tbl_of_sub; eauto.
  Qed.
End Table.

Section Reach.
  Context {S A : Type} (step : S -> A -> option S) (acts : list A).
  Context (eqb : S -> S -> bool) (key : S -> positive).
  Hypothesis eqb_sound : forall x y, eqb x y = true -> x = y.

  Definition closed (L : list S) : bool :=
    let t := tbl_of key L in
    forallb (fun s => forallb (fun a => match step s a with
                                        | None => true
                                        | Some s' => memt eqb key t s'
                                        end) acts) L.

  Lemma closed_step : forall L, closed L = true ->
      forall s a s', In s L -> In a acts -> step s a = Some s' -> In s' L.
  Proof.
    intros L Hc s a s' Hs Ha Hst; unfold closed in Hc.
    rewrite forallb_forall in Hc; specialize (Hc s Hs).
    rewrite forallb_forall in Hc; specialize (Hc a Ha).
    rewrite Hst in Hc. eapply memt_In; eauto.
  Qed.

  (* the lifting lemma: schedules of any length stay inside a closed set *)
  Lemma closed_run : forall L, closed L = true -> (forall a, In a acts) ->
      forall s0, In s0 L -> forall sch, In (run step sch s0) L.
  Proof.
    intros L Hc Hall s0 H0 sch.
    apply (invariant_run step (fun s => In s L)); [|exact H0].
    intros s a s' Hs Hst; eapply closed_step; eauto.
  Qed.

  (* a boolean predicate checked on the elements of a closed set holds after every schedule *)
  Lemma closed_forall : forall L (p : S -> bool), closed L = true -> (forall a, In a acts) ->
      forallb p L = true -> forall s0, In s0 L -> forall sch, p (run step sch s0) = true.
  Proof.
    intros L p Hc Hall Hp s0 H0 sch. rewrite forallb_forall in Hp. apply Hp. apply closed_run; assumption.
  Qed.

  (* the same for a predicate on (state, action, successor) triples *)
  Definition forall_steps (p : S -> A -> S -> bool) (L : list S) : bool :=
    forallb (fun s => forallb (fun a => match step s a with
                                        | None => true
                                        | Some s' => p s a s'
                                        end) acts) L.

  Lemma forall_steps_spec : forall p L, forall_steps p L = true ->
      forall s a s', In s L -> In a acts -> step s a = Some s' -> p s a s' = true.
  Proof.
    intros p L H s a s' Hs Ha Hst; unfold forall_steps in H.
    rewrite forallb_forall in H; specialize (H s Hs).
    rewrite forallb_forall in H; specialize (H a Ha).
    rewrite Hst in H; exact H.
  Qed.

  (* inclusion of one candidate set in another, by computation *)
  Definition subset (L1 L2 : list S) : bool :=
    let t := tbl_of key L2 in forallb (memt eqb key t) L1.

  Lemma subset_spec : forall L1 L2, subset L1 L2 = true -> incl L1 L2.
  Proof.
    intros L1 L2 H s Hs; unfold subset in H; rewrite forallb_forall in H.
    eapply memt_In; eauto.
  Qed.
End Reach.

(* Unverified explorer: all states reachable from [init] through [succs] (worklist, hash table
   of visited states).  Returns (visited states, fuel was sufficient). *)
Section Explore.
  Context {S : Type} (succs : S -> list S) (eqb : S -> S -> bool) (key : S -> positive).

  Fixpoint explore (fuel : nat) (work : list S) (t : tbl) (acc : list S) : list S * bool :=
    match fuel with
    | O => (acc, match work with [] => true | _ => false end)
    | Datatypes.S fuel' =>
        match work with
        | [] => (acc, true)
        | s :: work' =>
            if memt eqb key t s then explore fuel' work' t acc
            else explore fuel' (succs s ++ work') (addt key t s) (s :: acc)
        end
    end.

  Definition reach_from (fuel : nat) (init : list S) : list S * bool :=
    explore fuel init (PositiveMap.empty (list S)) [].
End Explore.
