(* Regular expressions over character codes with the two text anchors of Go's regexp (`^` = \A,
   `$` = \z when no flag is set), a denotational semantics [lang], an executable
   Brzozowski-derivative matcher ([matches] full match, [search] = regexp.MatchString), the proof
   that the matcher decides the semantics, and [textual_concat]: what concatenating regular
   expression *texts* does at the level of syntax trees (top-level alternation binds loosest). *)
From Verif Require Import Lib.Base.
From Coq Require Import String Ascii.
Open Scope N_scope.

Inductive re :=
| Void                          (* matches nothing *)
| Eps                           (* the empty string *)
| Cls (rs : list (N * N))       (* one character whose code lies in one of the inclusive ranges *)
| Bol                           (* ^ : beginning of the text *)
| Eol                           (* $ : end of the text *)
| Seq (r1 r2 : re)
| Alt (r1 r2 : re)
| Star (r : re).

Definition Chr (c : N) : re := Cls [(c, c)].
Definition in_cls (c : N) (rs : list (N * N)) : bool :=
  existsb (fun p => (fst p <=? c) && (c <=? snd p)) rs.
Definition isnil {A} (l : list A) : bool := match l with [] => true | _ => false end.

(* ---------------------------------------------------------------------------------------------
   Semantics.  [lang r b e s]: r matches exactly the substring s of a text, where b says that s
   starts at the beginning of the text and e that it ends at the end of the text. *)
Inductive star_l (L : bool -> bool -> list N -> Prop) : bool -> bool -> list N -> Prop :=
| star_nil : forall b e, star_l L b e []
| star_cons : forall b e s1 s2, s1 <> [] -> L b (e && isnil s2) s1 -> star_l L false e s2 ->
                                star_l L b e (s1 ++ s2).

Fixpoint lang (r : re) : bool -> bool -> list N -> Prop :=
  match r with
  | Void => fun _ _ _ => False
  | Eps => fun _ _ s => s = []
  | Cls rs => fun _ _ s => exists c, s = [c] /\ in_cls c rs = true
  | Bol => fun b _ s => s = [] /\ b = true
  | Eol => fun _ e s => s = [] /\ e = true
  | Seq r1 r2 => fun b e s => exists s1 s2, s = s1 ++ s2 /\
                    lang r1 b (e && isnil s2) s1 /\ lang r2 (b && isnil s1) e s2
  | Alt r1 r2 => fun b e s => lang r1 b e s \/ lang r2 b e s
  | Star r1 => star_l (lang r1)
  end.

(* the whole text is matched *)
Definition full_lang (r : re) (s : list N) : Prop := lang r true true s.
(* some substring of the text is matched: the meaning of regexp.MatchString *)
Definition search_lang (r : re) (s : list N) : Prop :=
  exists pre mid post, s = pre ++ mid ++ post /\ lang r (isnil pre) (isnil post) mid.

(* ---------------------------------------------------------------------------------------------
   The matcher. *)
Fixpoint nullable (r : re) (b e : bool) : bool :=
  match r with
  | Void => false
  | Eps => true
  | Cls _ => false
  | Bol => b
  | Eol => e
  | Seq r1 r2 => nullable r1 b e && nullable r2 b e
  | Alt r1 r2 => nullable r1 b e || nullable r2 b e
  | Star _ => true
  end.

Definition seq' (r1 r2 : re) : re :=
  match r1 with
  | Void => Void
  | Eps => r2
  | _ => match r2 with Void => Void | _ => Seq r1 r2 end
  end.
Definition alt' (r1 r2 : re) : re :=
  match r1 with
  | Void => r2
  | _ => match r2 with Void => r1 | _ => Alt r1 r2 end
  end.

(* derivative by the character c; b: c is the first character of the text *)
Fixpoint deriv (b : bool) (c : N) (r : re) : re :=
  match r with
  | Void | Eps | Bol | Eol => Void
  | Cls rs => if in_cls c rs then Eps else Void
  | Seq r1 r2 => alt' (seq' (deriv b c r1) r2) (if nullable r1 b false then deriv b c r2 else Void)
  | Alt r1 r2 => alt' (deriv b c r1) (deriv b c r2)
  | Star r1 => seq' (deriv b c r1) (Star r1)
  end.

Fixpoint matches (r : re) (s : list N) (b : bool) : bool :=
  match s with
  | [] => nullable r b true
  | c :: s' => matches (deriv b c r) s' false
  end.

Fixpoint prefix_match (r : re) (s : list N) (b : bool) : bool :=
  nullable r b (isnil s) ||
  match s with
  | [] => false
  | c :: s' => prefix_match (deriv b c r) s' false
  end.

Fixpoint search_from (r : re) (s : list N) (b : bool) : bool :=
  prefix_match r s b ||
  match s with
  | [] => false
  | _ :: s' => search_from r s' false
  end.

Definition full_match (r : re) (s : list N) : bool := matches r s true.
Definition search (r : re) (s : list N) : bool := search_from r s true.

(* ---------------------------------------------------------------------------------------------
   Strings. *)
Definition codes (s : string) : list N := map N_of_ascii (list_ascii_of_string s).
Definition lit (s : string) : re := fold_right (fun c r => Seq (Chr c) r) Eps (codes s).
Definition alts (l : list re) : re :=
  match l with
  | [] => Void
  | r :: l' => fold_left Alt l' r
  end.

(* ---------------------------------------------------------------------------------------------
   Textual concatenation.  A regular-expression text is, at top level, a list of alternatives
   separated by `|` (the loosest-binding operator).  Concatenating the texts x1|...|xk and
   y1|...|ym gives the text x1|...|x(k-1)|xk y1|y2|...|ym: only the last alternative of the first
   and the first alternative of the second are joined.  Valid when every alternative is a
   self-contained expression (balanced parentheses, no flag group, no dangling escape, none begins
   with a repetition operator). *)
Fixpoint cat_alts (xs ys : list re) : list re :=
  match xs with
  | [] => ys
  | [x] => match ys with
           | [] => [x]
           | y :: ys' => Seq x y :: ys'
           end
  | x :: xs' => x :: cat_alts xs' ys
  end.
Definition textual_concat (texts : list (list re)) : re :=
  alts (fold_right cat_alts [] texts).

(* ---------------------------------------------------------------------------------------------
   Correctness of the matcher. *)
Lemma seq'_spec : forall r1 r2 b e s, lang (seq' r1 r2) b e s <-> lang (Seq r1 r2) b e s.
Proof.
  intros r1 r2 b e s.
  assert (Hgen : forall r2', lang (match r2' with Void => Void | _ => Seq r1 r2' end) b e s <-> lang (Seq r1 r2') b e s).
  { intros r2'; destruct r2'; try reflexivity.
    cbn; split; [intros [] | intros (s1 & s2 & _ & _ & [])]. }
  destruct r1; cbn [seq']; try apply Hgen.
  - cbn; split; [intros [] | intros (s1 & s2 & _ & [] & _)].
  - cbn [lang]; split.
    + intro H; exists [], s; cbn. rewrite andb_true_r. auto.
    + intros (s1 & s2 & -> & -> & H). cbn in H. rewrite andb_true_r in H. exact H.
Qed.

Lemma alt'_spec : forall r1 r2 b e s, lang (alt' r1 r2) b e s <-> lang (Alt r1 r2) b e s.
Proof.
  intros r1 r2 b e s.
  assert (Hgen : lang (match r2 with Void => r1 | _ => Alt r1 r2 end) b e s <-> lang (Alt r1 r2) b e s).
  { destruct r2; try reflexivity. cbn; tauto. }
  destruct r1; cbn [alt']; try apply Hgen.
  cbn; tauto.
Qed.

Lemma nullable_spec : forall r b e, nullable r b e = true <-> lang r b e [].
Proof.
  induction r as [| | rs | | | r1 IH1 r2 IH2 | r1 IH1 r2 IH2 | r1 IH1]; intros b e; cbn [nullable lang].
  - split; [discriminate | tauto].
  - tauto.
  - split; [discriminate | intros (c & H & _); discriminate].
  - tauto.
  - tauto.
  - rewrite andb_true_iff, IH1, IH2. split.
    + intros [H1 H2]. exists [], []. cbn. rewrite !andb_true_r. auto.
    + intros (s1 & s2 & Hs & H1 & H2). symmetry in Hs. apply app_eq_nil in Hs as [-> ->].
      cbn in H1, H2. rewrite andb_true_r in H1, H2. auto.
  - rewrite orb_true_iff, IH1, IH2. tauto.
  - split; [intros _; constructor | reflexivity].
Qed.

Lemma deriv_spec : forall r b c e s, lang (deriv b c r) false e s <-> lang r b e (c :: s).
Proof.
  induction r as [| | rs | | | r1 IH1 r2 IH2 | r1 IH1 r2 IH2 | r1 IH1]; intros b c e s; cbn [deriv].
  - cbn; tauto.
  - cbn; split; [tauto | discriminate].
  - destruct (in_cls c rs) eqn:E; cbn [lang].
    + split.
      * intros ->. exists c; auto.
      * intros (c' & H & _). injection H as _ H; auto.
    + split; [tauto|]. intros (c' & H & Hin). injection H as -> _. congruence.
  - cbn; split; [tauto | intros [H _]; discriminate].
  - cbn; split; [tauto | intros [H _]; discriminate].
  - rewrite alt'_spec. cbn [lang]. rewrite seq'_spec. cbn [lang]. split.
    + intros [(s1 & s2 & -> & H1 & H2) | H].
      * exists (c :: s1), s2. split; [reflexivity|]. split.
        -- apply IH1. exact H1.
        -- cbn in H2 |- *. rewrite andb_false_r. exact H2.
      * destruct (nullable r1 b false) eqn:En; [|destruct H].
        exists [], (c :: s). split; [reflexivity|]. split.
        -- cbn. rewrite andb_false_r. apply nullable_spec; exact En.
        -- cbn. rewrite andb_true_r. apply IH2; exact H.
    + intros (s1 & s2 & Hs & H1 & H2). destruct s1 as [|c' s1].
      * cbn in Hs; subst s2. right. cbn in H1, H2. rewrite andb_false_r in H1. rewrite andb_true_r in H2.
        apply nullable_spec in H1. rewrite H1. apply IH2; exact H2.
      * cbn in Hs. injection Hs as <- ->. left. exists s1, s2. split; [reflexivity|]. split.
        -- apply IH1; exact H1.
        -- cbn in H2 |- *. rewrite andb_false_r in H2. exact H2.
  - rewrite alt'_spec. cbn [lang]. rewrite IH1, IH2. tauto.
  - rewrite seq'_spec. cbn [lang]. split.
    + intros (s1 & s2 & -> & H1 & H2). cbn in H2.
      change (c :: s1 ++ s2) with ((c :: s1) ++ s2). constructor.
      * discriminate.
      * apply IH1; exact H1.
      * exact H2.
    + intro H. inversion H as [| b' e' s1 s2 Hne H1 H2 Hb He Hs]; subst.
      destruct s1 as [|c' s1]; [congruence|]. cbn in Hs. injection Hs as -> <-.
      exists s1, s2. split; [reflexivity|]. split.
      * apply IH1; exact H1.
      * cbn. exact H2.
Qed.

Theorem matches_spec : forall s r b, matches r s b = true <-> lang r b true s.
Proof.
  induction s as [|c s IH]; intros r b; cbn [matches].
  - apply nullable_spec.
  - rewrite IH. apply deriv_spec.
Qed.

Lemma isnil_app : forall (A : Type) (l1 l2 : list A), isnil (l1 ++ l2) = isnil l1 && isnil l2.
Proof. intros A [|x l1] l2; reflexivity. Qed.

Lemma prefix_match_spec : forall s r b,
  prefix_match r s b = true <-> exists mid post, s = mid ++ post /\ lang r b (isnil post) mid.
Proof.
  induction s as [|c s IH]; intros r b; cbn [prefix_match].
  - rewrite orb_false_r, nullable_spec. cbn. split.
    + intro H; exists [], []; auto.
    + intros (mid & post & Hs & H). symmetry in Hs. apply app_eq_nil in Hs as [-> ->]. exact H.
  - rewrite orb_true_iff, nullable_spec, IH. cbn [isnil]. split.
    + intros [H | (mid & post & -> & H)].
      * exists [], (c :: s); auto.
      * exists (c :: mid), post. split; [reflexivity|]. apply deriv_spec; exact H.
    + intros (mid & post & Hs & H). destruct mid as [|c' mid].
      * cbn in Hs; subst post. left; exact H.
      * cbn in Hs. injection Hs as <- ->. right. exists mid, post. split; [reflexivity|].
        apply deriv_spec; exact H.
Qed.

Lemma search_from_spec : forall s r b,
  search_from r s b = true <->
  exists pre mid post, s = pre ++ mid ++ post /\ lang r (b && isnil pre) (isnil post) mid.
Proof.
  induction s as [|c s IH]; intros r b; cbn [search_from].
  - rewrite orb_false_r, prefix_match_spec. split.
    + intros (mid & post & Hs & H). exists [], mid, post. cbn. rewrite andb_true_r. auto.
    + intros (pre & mid & post & Hs & H). symmetry in Hs. apply app_eq_nil in Hs as [-> Hs].
      cbn in H. rewrite andb_true_r in H. exists mid, post; auto.
  - rewrite orb_true_iff, prefix_match_spec, IH. split.
    + intros [(mid & post & Hs & H) | (pre & mid & post & -> & H)].
      * exists [], mid, post. cbn. rewrite andb_true_r. auto.
      * exists (c :: pre), mid, post. cbn. rewrite andb_false_r. cbn in H. auto.
    + intros (pre & mid & post & Hs & H). destruct pre as [|c' pre].
      * left. cbn in Hs, H. rewrite andb_true_r in H. exists mid, post; auto.
      * right. cbn in Hs. injection Hs as <- ->. exists pre, mid, post. cbn in H |- *.
        rewrite andb_false_r in H. auto.
Qed.

Theorem full_match_spec : forall r s, full_match r s = true <-> full_lang r s.
Proof. intros; apply matches_spec. Qed.

Theorem search_spec : forall r s, search r s = true <-> search_lang r s.
Proof. intros r s; unfold search, search_lang. rewrite search_from_spec. cbn. reflexivity. Qed.

(* ---------------------------------------------------------------------------------------------
   Anchors and alternation. *)

(* A pattern enclosed in ^...$ found anywhere = the enclosed pattern matching the whole text. *)
Theorem anchored_search_is_full_match : forall r s,
  search_lang (Seq Bol (Seq r Eol)) s <-> full_lang r s.
Proof.
  intros r s; unfold search_lang, full_lang; split.
  - intros (pre & mid & post & -> & H). cbn [lang] in H.
    destruct H as (s1 & s2 & -> & [-> Hb] & (s3 & s4 & -> & H3 & [-> He])).
    destruct pre; [|discriminate]. destruct post; [|discriminate].
    cbn in H3 |- *. rewrite !app_nil_r. exact H3.
  - intro H. exists [], s, []. rewrite app_nil_r. split; [reflexivity|]. cbn [lang isnil].
    exists [], s. split; [reflexivity|]. split; [auto|].
    exists s, []. rewrite app_nil_r. cbn. auto.
Qed.

Lemma lang_seq_assoc : forall r1 r2 r3 b e s,
  lang (Seq (Seq r1 r2) r3) b e s <-> lang (Seq r1 (Seq r2 r3)) b e s.
Proof.
  intros r1 r2 r3 b e s; cbn [lang]; split.
  - intros (s12 & s3 & -> & (s1 & s2 & -> & H1 & H2) & H3).
    exists s1, (s2 ++ s3). split; [apply app_assoc_reverse|]. split.
    + rewrite isnil_app.
      replace (e && (isnil s2 && isnil s3)) with (e && isnil s3 && isnil s2)
        by (destruct e, (isnil s2), (isnil s3); reflexivity).
      exact H1.
    + exists s2, s3. split; [reflexivity|]. split; [exact H2|].
      rewrite isnil_app, andb_assoc in H3. exact H3.
  - intros (s1 & s23 & -> & H1 & (s2 & s3 & -> & H2 & H3)).
    exists (s1 ++ s2), s3. split; [apply app_assoc|]. split.
    + exists s1, s2. split; [reflexivity|]. split; [|exact H2].
      rewrite isnil_app in H1.
      replace (e && (isnil s2 && isnil s3)) with (e && isnil s3 && isnil s2) in H1
        by (destruct e, (isnil s2), (isnil s3); reflexivity).
      exact H1.
    + rewrite isnil_app, andb_assoc. exact H3.
Qed.

Lemma lang_seq_congr_r : forall r1 r2 r2',
  (forall b e s, lang r2 b e s <-> lang r2' b e s) ->
  forall b e s, lang (Seq r1 r2) b e s <-> lang (Seq r1 r2') b e s.
Proof.
  intros r1 r2 r2' H b e s; cbn [lang]; split; intros (s1 & s2 & -> & H1 & H2);
    exists s1, s2; (split; [reflexivity|]); (split; [exact H1|]); apply H; exact H2.
Qed.

Lemma lang_lit : forall t b e s, lang (lit t) b e s <-> s = codes t.
Proof.
  intros t; unfold lit. induction (codes t) as [|c l IH]; intros b e s; cbn [fold_right].
  - cbn; tauto.
  - cbn [lang]. split.
    + intros (s1 & s2 & -> & (c' & -> & Hc) & H2). apply IH in H2. subst s2.
      unfold Chr, in_cls in Hc. cbn in Hc. rewrite orb_false_r in Hc.
      apply andb_true_iff in Hc as [Ha Hb]. apply N.leb_le in Ha, Hb.
      assert (c = c') by lia. subst; reflexivity.
    + intros ->. exists [c], l. split; [reflexivity|]. split.
      * exists c. split; [reflexivity|]. unfold in_cls; cbn. rewrite !N.leb_refl. reflexivity.
      * apply IH; reflexivity.
Qed.
