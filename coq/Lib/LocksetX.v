(* Extensions of Lib/Lockset.v used by C17 (definitions only):
   - a DYNAMIC thread population: threads are spawned at any time and a finished thread starts a new
     operation (the scheduler goroutine running job after job, an event stream delivering event
     after event, a REST worker serving request after request), with at most one live thread per
     single-instance group;
   - run-time lock safety of a state (no unlock of a lock not held, no re-acquisition of a held mutex);
   - guard discipline: a field is GUARDED BY a mutex when every access holds it (writes exclusively);
     the guard table of a graph; isolation of critical sections;
   - a lock-order check (ranks inferred, then checked) for deadlock freedom. *)
From Verif Require Import Lib.Base Lib.Lockset.

(* ------------------------------------------------------------------------------------------ *)
(* Dynamic population *)

(* entry e may be started (by a new thread, or by the finished thread number `self`) when its group is
   multi-instance or no other thread is currently inside that group *)
Definition group_free (single : nat -> bool) (g : graph) (S : list thread) (self : option nat) (e : nat) : Prop :=
  forall o, owner_of g (At e, []) = Some o -> single o = true ->
    forall j tj, Some j <> self -> nth_error S j = Some tj -> owner_of g tj <> Some o.

Inductive xstep (single : nat -> bool) (g : graph) (entries : list nat) : list thread -> list thread -> Prop :=
| xs_step S S' : step g S S' -> xstep single g entries S S'
| xs_spawn S e : In e entries -> group_free single g S None e ->
    xstep single g entries S (S ++ [(At e, [])])
| xs_restart S i L e : nth_error S i = Some (Done, L) -> In e entries -> group_free single g S (Some i) e ->
    (* the goroutine keeps whatever it still holds: a leaked lock stays leaked *)
    xstep single g entries S (update S i (At e, L)).

Inductive xsteps (single : nat -> bool) (g : graph) (entries : list nat) : list thread -> list thread -> Prop :=
| xsteps_refl S : xsteps single g entries S S
| xsteps_cons S1 S2 S3 : xsteps single g entries S1 S2 -> xstep single g entries S2 S3 -> xsteps single g entries S1 S3.

(* ------------------------------------------------------------------------------------------ *)
(* Run-time lock safety: what the Go runtime would abort on ("sync: unlock of unlocked mutex"), and
   what blocks a goroutine on itself for ever (Lock/RLock of a mutex it already holds) *)

Definition lock_safe (g : graph) (S : list thread) : Prop :=
  forall i pc L nd, nth_error S i = Some (At pc, L) -> nth_error g pc = Some nd ->
    match n_instr nd with
    | ILock m _ => holds m L = false
    | IUnlock m x => holds_mode m x L = true
    | _ => True
    end.

(* mutual exclusion itself: two different threads never hold one mutex unless both hold it shared *)
Definition mutex_safe (S : list thread) : Prop :=
  forall i j ti tj, i <> j -> nth_error S i = Some ti -> nth_error S j = Some tj ->
    forall m xi xj, In (m, xi) (snd ti) -> In (m, xj) (snd tj) -> xi = false /\ xj = false.

(* ------------------------------------------------------------------------------------------ *)
(* Guard discipline *)

Definition guarded_by (A : list access) (f : field) (m : mutex) : bool :=
  forallb (fun a : access => let '(f', w, L, _) := a in
             negb (f' =? f) || (if w then holds_mode m true L else holds m L)) A.

(* every WRITE of f holds m exclusively (reads may or may not hold it) *)
Definition writes_guarded (A : list access) (f : field) (m : mutex) : bool :=
  forallb (fun a : access => let '(f', w, L, _) := a in
             negb ((f' =? f) && w) || holds_mode m true L) A.

Definition fields_of (A : list access) : list field :=
  nodup N.eq_dec (map (fun a : access => let '(f, _, _, _) := a in f) A).

Definition mutexes_of (A : list access) : list mutex :=
  nodup N.eq_dec (flat_map (fun a : access => let '(_, _, L, _) := a in map fst L) A).

Definition guard_table (A : list access) : list (field * mutex) :=
  filter (fun fm => guarded_by A (fst fm) (snd fm)) (list_prod (fields_of A) (mutexes_of A)).

(* all accesses of f come from one single-instance group *)
Definition confined (single : nat -> bool) (A : list access) (f : field) : bool :=
  match filter (fun a : access => let '(f', _, _, _) := a in f' =? f) A with
  | [] => true
  | (_, _, _, o) :: rest => single o && forallb (fun a : access => let '(_, _, _, o') := a in (o' =? o)%nat) rest
  end.

(* every field with an access node (= every field written after construction) has ONE mutex under which
   all its writes happen, or is confined to one single-instance group, or is a recorded known finding *)
Definition discipline_ok (skip : field -> bool) (single : nat -> bool) (A : list access) : bool :=
  forallb (fun f => skip f || confined single A f || existsb (fun m => writes_guarded A f m) (mutexes_of A)) (fields_of A).

Definition graph_accesses (g : graph) (entries : list nat) : list access := accesses_from (infer g entries) 0 g.

(* thread i holds the guard; what the others may be doing to the field *)
Definition isolated (g : graph) (S : list thread) (f : field) (m : mutex) : Prop :=
  forall i ti, nth_error S i = Some ti ->
    (In (m, true) (snd ti) -> forall j tj w, j <> i -> nth_error S j = Some tj -> ~ at_access g tj f w) /\
    (forall x, In (m, x) (snd ti) -> forall j tj, j <> i -> nth_error S j = Some tj -> ~ at_access g tj f true).

(* while any thread holds m (shared or exclusive), no OTHER thread is writing f: what a reader sees
   under the read lock is stable, and the exclusive holder is the only writer *)
Definition write_isolated (g : graph) (S : list thread) (f : field) (m : mutex) : Prop :=
  forall i ti x, nth_error S i = Some ti -> In (m, x) (snd ti) ->
    forall j tj, j <> i -> nth_error S j = Some tj -> ~ at_access g tj f true.

(* ------------------------------------------------------------------------------------------ *)
(* Lock order: ranks are inferred (not trusted) and then checked: a mutex is only acquired while
   holding mutexes of strictly smaller rank. *)

Definition rank_of (rk : list (mutex * nat)) (m : mutex) : nat :=
  match find (fun p => fst p =? m) rk with Some p => snd p | None => 0%nat end.

Fixpoint order_ok_from (rk : list (mutex * nat)) (ls : assignment) (n : nat) (g : graph) : bool :=
  match g with
  | [] => true
  | nd :: g' =>
      match n_instr nd, nth n ls None with
      | ILock m _, Some L => forallb (fun p => (rank_of rk (fst p) <? rank_of rk m)%nat) L
      | _, _ => true
      end && order_ok_from rk ls (S n) g'
  end.

Fixpoint set_rank (rk : list (mutex * nat)) (m : mutex) (r : nat) : list (mutex * nat) :=
  match rk with
  | [] => [(m, r)]
  | p :: rk' => if fst p =? m then (m, Nat.max r (snd p)) :: rk' else p :: set_rank rk' m r
  end.

(* one relaxation pass: rank m >= 1 + rank of everything held when m is acquired *)
Fixpoint relax (rk : list (mutex * nat)) (ls : assignment) (n : nat) (g : graph) : list (mutex * nat) :=
  match g with
  | [] => rk
  | nd :: g' =>
      let rk' := match n_instr nd, nth n ls None with
                 | ILock m _, Some L => fold_left (fun acc p => set_rank acc m (S (rank_of acc (fst p)))) L (set_rank rk m 0%nat)
                 | _, _ => rk
                 end in
      relax rk' ls (S n) g'
  end.

Fixpoint relax_n (k : nat) (rk : list (mutex * nat)) (ls : assignment) (g : graph) : list (mutex * nat) :=
  match k with O => rk | S k' => relax_n k' (relax rk ls 0 g) ls g end.

Definition infer_ranks (g : graph) (entries : list nat) : list (mutex * nat) :=
  let ls := infer g entries in
  let nm := length (nodup N.eq_dec (flat_map (fun nd => match n_instr nd with ILock m _ => [m] | _ => [] end) g)) in
  relax_n (S nm) [] ls g.

Definition lock_order_ok (g : graph) (entries : list nat) : bool :=
  order_ok_from (infer_ranks g entries) (infer g entries) 0 g.

(* a live thread can take a step *)
Definition can_step (g : graph) (S : list thread) : Prop :=
  exists i t c t', nth_error S i = Some t /\ tstep g t c = Some t' /\ may_step g S i.

Definition live (S : list thread) : Prop := exists i pc L, nth_error S i = Some (At pc, L).

(* ------------------------------------------------------------------------------------------ *)
(* Writer preference (Go's sync.RWMutex): a reader also waits while a writer is waiting.  A thread that
   sits at an exclusive Lock of m is counted as a waiting writer (it may have called Lock already): this
   over-approximates the blocking of readers, which is the conservative direction for progress. *)

Definition at_lock_excl (g : graph) (m : mutex) (t : thread) : bool :=
  match fst t with
  | At pc =>
      match nth_error g pc with
      | Some nd => match n_instr nd with ILock m' true => m' =? m | _ => false end
      | None => false
      end
  | Done => false
  end.

Definition may_step_wp (g : graph) (S : list thread) (i : nat) : Prop :=
  may_step g S i /\
  match nth_error S i with
  | Some (At pc, _) =>
      match nth_error g pc with
      | Some nd =>
          match n_instr nd with
          | ILock m false => forall j t, j <> i -> nth_error S j = Some t -> at_lock_excl g m t = false
          | _ => True
          end
      | None => True
      end
  | _ => True
  end.

Definition can_step_wp (g : graph) (S : list thread) : Prop :=
  exists i t c t', nth_error S i = Some t /\ tstep g t c = Some t' /\ may_step_wp g S i.
