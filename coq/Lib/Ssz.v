(* SSZ hash_tree_root of the fixed-size containers that vouch signs, and the consensus / builder
   specification's signing roots and domains.  This is the SPECIFICATION side of C06: it is written
   from the consensus specs (ssz/simple-serialize.md, phase0/beacon-chain.md, phase0/validator.md,
   altair/validator.md, builder-specs) and not from vouch.

   Representation: a 32-byte chunk / root is an N below 2^256 read big-endian (the number whose
   hexadecimal writing is the hex string of the bytes); shorter byte strings (4-byte versions and
   domain types, 20-byte addresses, 48-byte keys, 96-byte signatures, 16-byte bitvectors) are
   likewise the big-endian number of their bytes.  uint64 values are plain N below 2^64.
   The two-to-one hash is a Section variable: every definition and theorem is for an arbitrary
   hash; the correspondence check instantiates it with SHA-256 (Lib/Sha256.v). *)
From Coq Require Import List NArith.
Import ListNotations.
Open Scope N_scope.

(* ------------------------------------------------------------------------------------------ *)
(* Bytes.                                                                                      *)

(* little-endian serialisation of an unsigned integer on n bytes (ssz: serialize(uintN)) *)
Fixpoint le_bytes (n : nat) (x : N) : list N :=
  match n with
  | O => []
  | S n' => (x mod 256) :: le_bytes n' (x / 256)
  end.

(* big-endian number of a byte string *)
Definition be_number (bs : list N) : N := fold_left (fun acc b => acc * 256 + b) bs 0.

(* right-pad a byte string with zero bytes to n bytes *)
Definition pad_right (n : nat) (bs : list N) : list N := bs ++ repeat 0 (n - length bs).

(* the chunk holding a byte string of at most 32 bytes: the bytes, then zero padding *)
Definition chunk_of_bytes (bs : list N) : N := be_number (pad_right 32 bs).

(* ssz: hash_tree_root(uint64) = the little-endian serialisation padded to one chunk *)
Definition u64_chunk (x : N) : N := chunk_of_bytes (le_bytes 8 x).

(* chunks of fixed-length byte vectors given as big-endian numbers *)
Definition bytes4_chunk (x : N) : N := x * 2 ^ 224.
Definition bytes16_chunk (x : N) : N := x * 2 ^ 128.
Definition bytes20_chunk (x : N) : N := x * 2 ^ 96.
Definition two128 : N := 2 ^ 128.
Definition two256 : N := 2 ^ 256.
(* 48 bytes = one full chunk and a 16-byte remainder *)
Definition bytes48_chunks (x : N) : list N := [x / two128; (x mod two128) * two128].
(* 96 bytes = three chunks *)
Definition bytes96_chunks (x : N) : list N :=
  [x / (two256 * two256); (x / two256) mod two256; x mod two256].

Section Merkle.
  Variable H : N -> N -> N.

  (* ssz zero-hashes: root of an all-zero subtree of the given height *)
  Fixpoint zero_hash (h : nat) : N :=
    match h with
    | O => 0
    | S h' => H (zero_hash h') (zero_hash h')
    end.

  (* one layer up; an odd node out is paired with the zero subtree of its height *)
  Fixpoint pair_up (lvl : nat) (l : list N) : list N :=
    match l with
    | a :: b :: r => H a b :: pair_up lvl r
    | [a] => [H a (zero_hash lvl)]
    | [] => []
    end.

  (* ssz: merkleize(chunks, limit = 2^depth): pad to 2^depth leaves with zero chunks, hash up *)
  Fixpoint merkle_from (depth lvl : nat) (l : list N) : N :=
    match depth with
    | O => match l with x :: _ => x | [] => zero_hash lvl end
    | S d => merkle_from d (S lvl) (pair_up lvl l)
    end.
  Definition merkleize (depth : nat) (chunks : list N) : N := merkle_from depth 0 chunks.

  (* -------------------------------------------------------------------------------------- *)
  (* Containers (hash_tree_root of a container = merkleize of the field roots).               *)

  Definition htr_bytes48 (x : N) : N := merkleize 1 (bytes48_chunks x).
  Definition htr_bytes96 (x : N) : N := merkleize 2 (bytes96_chunks x).

  (* phase0 Checkpoint { epoch: Epoch, root: Root } *)
  Definition htr_checkpoint (epoch root : N) : N := merkleize 1 [u64_chunk epoch; root].

  (* phase0 AttestationData { slot, index, beacon_block_root, source: Checkpoint, target: Checkpoint } *)
  Record att_data := AttData {
    ad_slot : N; ad_index : N; ad_block_root : N;
    ad_source_epoch : N; ad_source_root : N; ad_target_epoch : N; ad_target_root : N }.
  Definition htr_att_data (a : att_data) : N :=
    merkleize 3 [u64_chunk (ad_slot a); u64_chunk (ad_index a); ad_block_root a;
                 htr_checkpoint (ad_source_epoch a) (ad_source_root a);
                 htr_checkpoint (ad_target_epoch a) (ad_target_root a)].

  (* phase0 BeaconBlockHeader { slot, proposer_index, parent_root, state_root, body_root };
     hash_tree_root(BeaconBlock) = hash_tree_root of its header *)
  Record block_header := BlockHeader {
    bh_slot : N; bh_proposer : N; bh_parent : N; bh_state : N; bh_body : N }.
  Definition htr_block_header (b : block_header) : N :=
    merkleize 3 [u64_chunk (bh_slot b); u64_chunk (bh_proposer b); bh_parent b; bh_state b; bh_body b].

  (* phase0 SigningData { object_root: Root, domain: Domain } *)
  Definition htr_signing_data (object_root domain : N) : N := merkleize 1 [object_root; domain].

  (* phase0 ForkData { current_version: Version, genesis_validators_root: Root } *)
  Definition htr_fork_data (version gvr : N) : N := merkleize 1 [bytes4_chunk version; gvr].

  (* altair SyncAggregatorSelectionData { slot: Slot, subcommittee_index: uint64 } *)
  Definition htr_sync_selection_data (slot subcommittee : N) : N :=
    merkleize 1 [u64_chunk slot; u64_chunk subcommittee].

  (* altair SyncCommitteeContribution { slot, beacon_block_root, subcommittee_index,
       aggregation_bits: Bitvector[128], signature: BLSSignature } *)
  Record contribution := Contribution {
    co_slot : N; co_block_root : N; co_subcommittee : N; co_bits : N; co_signature : N }.
  Definition htr_contribution (c : contribution) : N :=
    merkleize 3 [u64_chunk (co_slot c); co_block_root c; u64_chunk (co_subcommittee c);
                 bytes16_chunk (co_bits c); htr_bytes96 (co_signature c)].

  (* altair ContributionAndProof { aggregator_index, contribution, selection_proof: BLSSignature } *)
  Record contribution_and_proof := ContributionAndProof {
    cp_aggregator : N; cp_contribution : contribution; cp_selection_proof : N }.
  Definition htr_contribution_and_proof (c : contribution_and_proof) : N :=
    merkleize 2 [u64_chunk (cp_aggregator c); htr_contribution (cp_contribution c);
                 htr_bytes96 (cp_selection_proof c)].

  (* builder-specs ValidatorRegistrationV1 { fee_recipient: ExecutionAddress, gas_limit: uint64,
       timestamp: uint64, pubkey: BLSPubkey } *)
  Record registration := Registration {
    vr_fee_recipient : N; vr_gas_limit : N; vr_timestamp : N; vr_pubkey : N }.
  Definition htr_registration (r : registration) : N :=
    merkleize 2 [bytes20_chunk (vr_fee_recipient r); u64_chunk (vr_gas_limit r);
                 u64_chunk (vr_timestamp r); htr_bytes48 (vr_pubkey r)].

  (* -------------------------------------------------------------------------------------- *)
  (* Domains and signing roots (phase0/beacon-chain.md).                                       *)

  (* compute_signing_root(ssz_object, domain) = hash_tree_root(SigningData(htr(object), domain)) *)
  Definition compute_signing_root (object_root domain : N) : N := htr_signing_data object_root domain.

  (* compute_domain(domain_type, fork_version, genesis_validators_root)
       = domain_type + compute_fork_data_root(fork_version, genesis_validators_root)[:28] *)
  Definition compute_domain (domain_type version gvr : N) : N :=
    domain_type * 2 ^ 224 + htr_fork_data version gvr / 2 ^ 32.

  (* The chain: genesis fork version, the later forks (activation epoch, version) in ascending
     epoch order, the genesis validators root, SLOTS_PER_EPOCH. *)
  Record chain := Chain {
    ch_genesis_version : N; ch_forks : list (N * N); ch_gvr : N; ch_spe : N }.

  (* the fork version in force at an epoch: the last fork whose activation epoch is <= epoch
     (state.fork.current_version / previous_version of get_domain, for any state of that epoch) *)
  Fixpoint version_from (v : N) (forks : list (N * N)) (epoch : N) : N :=
    match forks with
    | [] => v
    | (e, v') :: r => if e <=? epoch then version_from v' r epoch else v
    end.
  Definition version_at (c : chain) (epoch : N) : N := version_from (ch_genesis_version c) (ch_forks c) epoch.

  (* get_domain(state, domain_type, epoch) *)
  Definition get_domain (c : chain) (domain_type epoch : N) : N :=
    compute_domain domain_type (version_at c epoch) (ch_gvr c).

  (* builder-specs: compute_domain(DOMAIN_APPLICATION_BUILDER) with the defaults
     fork_version = GENESIS_FORK_VERSION and genesis_validators_root = Root() *)
  Definition builder_domain (c : chain) (domain_type : N) : N :=
    compute_domain domain_type (ch_genesis_version c) 0.

  Definition compute_epoch_at_slot (c : chain) (slot : N) : N := slot / ch_spe c.
End Merkle.

(* The domain type constants of the specifications (4 bytes, big-endian numbers). *)
Definition DOMAIN_BEACON_PROPOSER : N := 0x00000000.
Definition DOMAIN_BEACON_ATTESTER : N := 0x01000000.
Definition DOMAIN_RANDAO : N := 0x02000000.
Definition DOMAIN_SELECTION_PROOF : N := 0x05000000.
Definition DOMAIN_AGGREGATE_AND_PROOF : N := 0x06000000.
Definition DOMAIN_SYNC_COMMITTEE : N := 0x07000000.
Definition DOMAIN_SYNC_COMMITTEE_SELECTION_PROOF : N := 0x08000000.
Definition DOMAIN_CONTRIBUTION_AND_PROOF : N := 0x09000000.
Definition DOMAIN_APPLICATION_BUILDER : N := 0x00000001.
