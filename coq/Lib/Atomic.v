(* Atomicity of read-derive-write inside one operation, on the lock/access graphs of Lib/Lockset.v.

   The translator (translator/atomic.go) lists, per service graph, the DERIVED PAIRS (r, w): r is a read node and
   w a write node of the SAME field in the SAME copy of one entry point (one operation), and the value written at
   w is computed from what was read at r (`s.n = s.n + 1`; `kept := copy of s.m … ; s.m = kept`).  Such a write is
   only the write of "the state read at r, updated" if nobody else wrote the field in between.  Lock sets say that
   r and w are each protected; they say nothing about the lock having been RELEASED in between (read under RLock,
   unlock, write under Lock: every access locked, no data race, and every update made by others between the two
   sections is lost).  The check below accepts a pair when
     - some mutex m guards all writes of the field, is held at r, and NO path of the graph from r to w that does
       not come back to r (where the value is read afresh) executes an unlock of m (so m is held without
       interruption from the last read at r to w, and by write isolation,
       C17_sections_write_isolated, nobody else writes the field meanwhile), or
     - every write of the field belongs to the pair's own single-instance group (nobody else writes it at all), or
     - the field is a recorded known finding (skip).
   Definitions only; soundness in Proofs/Atomic.v. *)
From Verif Require Import Lib.Base Lib.Lockset Lib.LocksetX.
From Coq Require Import String.
Open Scope N_scope.

Definition unlocks (m : mutex) (i : instr) : bool :=
  match i with IUnlock m' _ => m' =? m | _ => false end.

Definition unlocks_at (m : mutex) (g : graph) (n : nat) : bool :=
  match nth_error g n with Some nd => unlocks m (n_instr nd) | None => false end.

(* exploration state: a node, and whether an unlock of m has been executed since r *)
Definition astate := (nat * bool)%type.
Definition as_eqb (a b : astate) : bool := (fst a =? fst b)%nat && Bool.eqb (snd a) (snd b).
Definition as_mem (a : astate) (R : list astate) : bool := existsb (as_eqb a) R.

(* coming back to r the value is read afresh: what was unlocked before does not matter any more *)
Definition next_states (m : mutex) (g : graph) (r : nat) (a : astate) : list astate :=
  match nth_error g (fst a) with
  | None => []
  | Some nd => map (fun s => (s, if (s =? r)%nat then false else snd a || unlocks m (n_instr nd))) (n_succ nd)
  end.

(* worklist exploration (not trusted: its result is checked by `closed`) *)
Fixpoint explore (fuel : nat) (m : mutex) (g : graph) (r : nat) (work R : list astate) : list astate :=
  match fuel with
  | O => R
  | S fuel' =>
      match work with
      | [] => R
      | a :: work' =>
          if as_mem a R then explore fuel' m g r work' R
          else explore fuel' m g r (next_states m g r a ++ work') (a :: R)
      end
  end.

Definition closed (m : mutex) (g : graph) (r : nat) (R : list astate) : bool :=
  forallb (fun a => forallb (fun b => as_mem b R) (next_states m g r a)) R.

Definition no_unlock_between (m : mutex) (g : graph) (r w : nat) : bool :=
  let R := explore (4 * (List.length g + edges g) + 4)%nat m g r [(r, false)] [] in
  closed m g r R && as_mem (r, false) R && negb (as_mem (w, true) R).

(* a walk of the graph: n, then the nodes of l, each a successor of the one before *)
Fixpoint is_path (g : graph) (n : nat) (l : list nat) : Prop :=
  match l with
  | [] => True
  | n' :: l' => (exists nd, nth_error g n = Some nd /\ In n' (n_succ nd)) /\ is_path g n' l'
  end.

(* where the walk ends, and whether one of the nodes it EXECUTED (all but the last) unlocks m *)
Fixpoint walk (m : mutex) (g : graph) (st : bool) (n : nat) (l : list nat) : astate :=
  match l with
  | [] => (n, st)
  | n' :: l' => walk m g (st || unlocks_at m g n) n' l'
  end.

(* the same with the flag cleared whenever the walk comes back to r (what the exploration computes) *)
Fixpoint walk_r (m : mutex) (g : graph) (r : nat) (st : bool) (n : nat) (l : list nat) : astate :=
  match l with
  | [] => (n, st)
  | n' :: l' => walk_r m g r (if (n' =? r)%nat then false else st || unlocks_at m g n) n' l'
  end.

(* the lock set of a thread that executes the nodes of the walk but the last, starting with L *)
Fixpoint locks_along (g : graph) (L : lockset) (n : nat) (l : list nat) : lockset :=
  match l with
  | [] => L
  | n' :: l' =>
      locks_along g (match nth_error g n with Some nd => exec (n_instr nd) L | None => L end) n' l'
  end.

(* ---- the check of one pair ---- *)
Definition held_at (ls : assignment) (n : nat) (m : mutex) : bool :=
  match nth n ls None with Some L => holds m L | None => false end.

Definition reached (ls : assignment) (n : nat) : bool :=
  match nth n ls None with Some _ => true | None => false end.

(* every write of f belongs to group o, and o runs at most one thread *)
Definition writes_confined (single : nat -> bool) (A : list access) (f : field) (o : nat) : bool :=
  single o && forallb (fun a : access => let '(f', w, _, o') := a in negb ((f' =? f) && w) || (o' =? o)%nat) A.

Definition pair_ok (skip : field -> bool) (single : nat -> bool) (g : graph) (entries : list nat) (p : nat * nat) : bool :=
  let ls := infer g entries in
  let A := accesses_from ls 0 g in
  let '(r, w) := p in
  match nth_error g r, nth_error g w with
  | Some nr, Some nw =>
      match n_instr nr, n_instr nw with
      | IAcc f false, IAcc f' true =>
          (f =? f') && (n_owner nr =? n_owner nw)%nat &&
          (skip f || negb (reached ls r) || negb (reached ls w) ||
           writes_confined single A f (n_owner nw) ||
           existsb (fun m => if writes_guarded A f m && held_at ls r m then no_unlock_between m g r w else false)
                   (mutexes_of A))
      | _, _ => false       (* not a (read, write) pair: the translator is broken *)
      end
  | _, _ => false
  end.

Definition pairs_of (name : string) (dp : list (string * list (nat * nat))) : list (nat * nat) :=
  match find (fun p => String.eqb (fst p) name) dp with
  | Some p => snd p
  | None => []
  end.

Definition atomic_ok (skip : field -> bool) (single : nat -> bool) (g : graph) (entries : list nat)
  (pairs : list (nat * nat)) : bool :=
  forallb (pair_ok skip single g entries) pairs.

(* reporting: the pairs the check rejects *)
Definition atomic_bad (skip : field -> bool) (single : nat -> bool) (g : graph) (entries : list nat)
  (pairs : list (nat * nat)) : list (nat * nat) :=
  filter (fun p => negb (pair_ok skip single g entries p)) pairs.
