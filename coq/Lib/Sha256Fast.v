(* The same SHA-256 two-to-one hash as Lib/Sha256.v (sha256_2), computed with Coq's primitive
   63-bit machine integers so that vm_compute evaluates a hash in microseconds instead of ~10 ms.
   Used ONLY to evaluate correspondence cases (Check/C06.v); no theorem of Properties/C06.v mentions
   it (they are stated for an arbitrary two-to-one hash).  Agreement with the reference definition
   over N is checked on the test vectors and on pseudo-random chunks at the end of this file.
   Print Assumptions of anything that uses this file lists the primitive integer operations
   (int, add, land, lor, lxor, lsl, lsr ...) as the kernel's primitives; no lemma about them is used. *)
From Coq Require Import List NArith ZArith Uint63.
From Verif Require Import Lib.Sha256.
Import ListNotations.

Module F.
Open Scope uint63_scope.

Definition m32 : int := 4294967295.
Definition add32 (a b : int) : int := (a + b) land m32.
Definition rotr (n x : int) : int := (x >> n) lor ((x << (32 - n)) land m32).
Definition not32 (x : int) : int := x lxor m32.

Definition ch (x y z : int) : int := (x land y) lxor ((not32 x) land z).
Definition maj (x y z : int) : int := ((x land y) lxor (x land z)) lxor (y land z).
Definition bsig0 (x : int) : int := ((rotr 2 x) lxor (rotr 13 x)) lxor (rotr 22 x).
Definition bsig1 (x : int) : int := ((rotr 6 x) lxor (rotr 11 x)) lxor (rotr 25 x).
Definition ssig0 (x : int) : int := ((rotr 7 x) lxor (rotr 18 x)) lxor (x >> 3).
Definition ssig1 (x : int) : int := ((rotr 17 x) lxor (rotr 19 x)) lxor (x >> 10).

Definition of_N (n : N) : int := Uint63.of_Z (Z.of_N n).
Definition to_N (i : int) : N := Z.to_N (Uint63.to_Z i).

Definition K : list int := Eval vm_compute in map of_N Sha256.K.

Record st := St { sa : int; sb : int; sc : int; sd : int; se : int; sf : int; sg : int; sh : int }.

Definition H0 : st := Eval vm_compute in
  St (of_N (Sha256.sa Sha256.H0)) (of_N (Sha256.sb Sha256.H0)) (of_N (Sha256.sc Sha256.H0)) (of_N (Sha256.sd Sha256.H0))
     (of_N (Sha256.se Sha256.H0)) (of_N (Sha256.sf Sha256.H0)) (of_N (Sha256.sg Sha256.H0)) (of_N (Sha256.sh Sha256.H0)).

Definition next_w (win : list int) : int :=
  match win with
  | [_; w2; _; _; _; _; w7; _; _; _; _; _; _; _; w15; w16] =>
      add32 (add32 (ssig1 w2) w7) (add32 (ssig0 w15) w16)
  | _ => 0
  end.

Fixpoint extend (n : nat) (win : list int) (acc : list int) : list int :=
  match n with
  | O => rev acc
  | S n' => let w := next_w win in extend n' (w :: removelast win) (w :: acc)
  end.

Definition schedule (blk : list int) : list int := blk ++ extend 48 (rev blk) [].

Definition round (s : st) (k w : int) : st :=
  let t1 := add32 (add32 (add32 (sh s) (bsig1 (se s))) (add32 (ch (se s) (sf s) (sg s)) k)) w in
  let t2 := add32 (bsig0 (sa s)) (maj (sa s) (sb s) (sc s)) in
  St (add32 t1 t2) (sa s) (sb s) (sc s) (add32 (sd s) t1) (se s) (sf s) (sg s).

Fixpoint rounds (s : st) (ks ws : list int) : st :=
  match ks, ws with
  | k :: ks', w :: ws' => rounds (round s k w) ks' ws'
  | _, _ => s
  end.

Definition add_st (x y : st) : st :=
  St (add32 (sa x) (sa y)) (add32 (sb x) (sb y)) (add32 (sc x) (sc y)) (add32 (sd x) (sd y))
     (add32 (se x) (se y)) (add32 (sf x) (sf y)) (add32 (sg x) (sg y)) (add32 (sh x) (sh y)).

Definition compress_sched (s : st) (ws : list int) : st := add_st s (rounds s K ws).
Definition compress (s : st) (blk : list int) : st := compress_sched s (schedule blk).

Definition pad64_sched : list int := Eval vm_compute in map of_N Sha256.pad64_sched.

Definition st_words (s : st) : list int := [sa s; sb s; sc s; sd s; se s; sf s; sg s; sh s].

End F.

Open Scope N_scope.

Definition sha256_2_fast (a b : N) : N :=
  let blk := map F.of_N (words_of_chunk a ++ words_of_chunk b) in
  let s1 := F.compress F.H0 blk in
  chunk_of_words (map F.to_N (F.st_words (F.compress_sched s1 F.pad64_sched))).

(* ------------------------------------------------------------------------------------------ *)
(* Agreement with the reference on the test vectors and on a pseudo-random chain of chunks.     *)

Example fast_zero :
  sha256_2_fast 0 0 = 0xf5a5fd42d16a20302798ef6ed309979b43003d2320d9f0e8ea9831a92759fb4b.
Proof. vm_compute. reflexivity. Qed.

Fixpoint chain_agree (n : nat) (x y : N) : bool :=
  match n with
  | O => true
  | S n' =>
      let h := sha256_2 x y in
      N.eqb h (sha256_2_fast x y) && chain_agree n' h (N.lxor x h)
  end.

Example fast_is_reference_on_samples :
  chain_agree 40 0 1 = true
  /\ chain_agree 20 0xffffffffffffffffffffffffffffffffffffffffffffffffffffffffffffffff
                    0xffffffffffffffffffffffffffffffffffffffffffffffffffffffffffffffff = true
  /\ chain_agree 20 0x8000000080000000800000008000000080000000800000008000000080000000 0x7fffffff = true.
Proof. vm_compute. repeat split; reflexivity. Qed.
