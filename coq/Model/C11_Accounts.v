(* C11: WHICH validators a registration round and a proposal preparation are about.
   Transcribed from
     services/blockrelay/standard/submitvalidatorregistrations.go (submitValidatorRegistrations:
       epoch := s.chainTime.CurrentEpoch();
       accounts, err := s.validatingAccountsProvider.ValidatingAccountsForEpoch(ctx, epoch+1)),
     services/proposalpreparer/standard/updatepreparations.go (UpdatePreparations: the same two lines),
     services/blockrelay/standard/submitvalidatorregistrations.go (SubmitValidatorRegistrations: the
       accounts are the caller's).
   The accounts provider (services/accountmanager) knows, for every account, from which epoch on it
   validates (activation epoch) and until which epoch (exit epoch, exclusive; 0 = none scheduled):
   ValidatingAccountsForEpoch(e) answers the accounts whose validator is active at epoch e.  That
   answer is not an input of the round any more: the provider's table and the current epoch are, and
   the epoch ASKED FOR is the code's choice -- the next epoch, so that a validator that is about to
   be active (activation epoch = current + 1) is registered and prepared before it can be asked to
   propose, and one on its last validating epoch is not.
   Definitions only. *)
From Verif Require Import Lib.Base Model.C11_Registrations Model.C11_Delivery.

(* activation epoch, exit epoch (0 = no exit scheduled) *)
Definition window := (N * N)%type.

(* the validator is active (ongoing or exiting) at epoch e *)
Definition validating_at (e : N) (w : window) : bool :=
  (fst w <=? e) && ((snd w =? 0) || (e <? snd w)).

(* the provider's table: every account it knows with its window; a missing window = (0, 0) =
   validating since genesis, no exit *)
Fixpoint with_windows (vals : list validator) (wins : list window) : list (validator * window) :=
  match vals with
  | [] => []
  | v :: vals' => (v, hd (0, 0) wins) :: with_windows vals' (tl wins)
  end.

(* ValidatingAccountsForEpoch(e) *)
Definition accounts_for (e : N) (prov : list (validator * window)) : list validator :=
  map fst (filter (fun x => validating_at e (snd x)) prov).

Definition set_vals (r : round_in) (vals : list validator) : round_in :=
  {| r_now := r_now r; r_cfg := r_cfg r; r_api := r_api r; r_acct_err := r_acct_err r;
     r_vals := vals; r_relays := r_relays r; r_nodes := r_nodes r |}.

Definition set_pvals (p : prepare_in) (vals : list validator) : prepare_in :=
  {| p_cfg := p_cfg p; p_fallback := p_fallback p; p_acct_err := p_acct_err p;
     p_vals := vals; p_nodes := p_nodes p |}.

(* An operation as the harness drives it: the current epoch of the chain time service, the
   provider's table ([r_vals] / [p_vals] of the record = every account the provider knows, [wins]
   their windows in the same order), and the rest of the round's inputs. *)
Inductive eop :=
| EJob (epoch : N) (wins : list window) (r : round_in)     (* a registration round *)
| EPrep (epoch : N) (wins : list window) (p : prepare_in)  (* UpdatePreparations *)
| EOp (o : op).                                            (* anything that asks no provider *)

(* submitValidatorRegistrations: the accounts of epoch+1; SubmitValidatorRegistrations (API): the
   accounts the caller hands over, whatever their windows *)
Definition job_round (epoch : N) (wins : list window) (r : round_in) : round_in :=
  if r_api r then r
  else set_vals r (accounts_for (epoch + 1) (with_windows (r_vals r) wins)).

(* UpdatePreparations: the accounts of epoch+1 *)
Definition prep_call (epoch : N) (wins : list window) (p : prepare_in) : prepare_in :=
  set_pvals p (accounts_for (epoch + 1) (with_windows (p_vals p) wins)).

Definition elab (x : eop) : op :=
  match x with
  | EJob e wins r => ORound (job_round e wins r)
  | EPrep e wins p => OPrepare (prep_call e wins p)
  | EOp o => o
  end.

Definition elaborate (xs : list eop) : list op := map elab xs.

(* what arrives where, over a history driven through the accounts provider *)
Definition run_epochs (st : state) (xs : list eop) (tms : list timing) : state * list out :=
  run_timed st (elaborate xs) tms.
