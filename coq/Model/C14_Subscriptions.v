(* C14 -- beacon committee subscriptions for every future duty; aggregation jobs for every
   selected aggregator.  Executable model, definitions only.

   Written from
     services/attester/helpers.go                          MergeDuties
     services/beaconcommitteesubscriber/standard/subscribe.go   Subscribe, calculateSubscriptionInfo*
     services/attestationaggregator/standard/service.go    AggregatorsAndSignatures, Aggregate
     services/controller/standard/events.go                subscribeToBeaconCommittees
     services/controller/standard/attester.go              AttestAndScheduleAggregate

   Data.  A [duty] is one element of the beacon node's attester-duties answer *together with* the
   slot-selection signature the signer returns for (validator, slot): [d_sig] identifies the
   96-byte signature, [d_hash] are the 32 bytes of SHA-256 of those 96 bytes (SHA-256 itself is
   outside the model: the harness computes it with Go's crypto/sha256 on the bytes the signer
   really returned and hands the digest over; everything vouch does *with* the digest -- which
   bytes, which byte order, which modulus -- is in the model).  Go maps are association lists
   whose observable form is the list sorted by key. *)
From Verif Require Import Lib.Base.

(* ------------------------------------------------------------------------------------------- *)
(* Aggregator selection: AggregatorsAndSignatures.                                              *)

(* binary.LittleEndian.Uint64(hash[:8]):
   uint64(b[0]) | uint64(b[1])<<8 | ... | uint64(b[7])<<56.  A digest shorter than 8 bytes cannot
   occur (the slice expression would panic); the model answers 0 there and no theorem uses it. *)
Definition le64 (bs : list N) : N :=
  match bs with
  | b0 :: b1 :: b2 :: b3 :: b4 :: b5 :: b6 :: b7 :: _ =>
      N.lor b0 (N.lor (N.shiftl b1 8) (N.lor (N.shiftl b2 16) (N.lor (N.shiftl b3 24)
      (N.lor (N.shiftl b4 32) (N.lor (N.shiftl b5 40) (N.lor (N.shiftl b6 48) (N.shiftl b7 56)))))))
  | _ => 0
  end.

(* modulo := committeeSizes[i] / target; if modulo == 0 { modulo = 1 };
   aggregators[i] = LittleEndian.Uint64(hash[:8]) % modulo == 0.
   [target = 0] is a division by zero in Go (a panic); the constructor reads the value from the
   chain specification, where it is 16; every theorem assumes [0 < target]. *)
Definition is_aggregator (len target : N) (hash : list N) : bool :=
  let modulo := len / target in
  let modulo := if modulo =? 0 then 1 else modulo in
  le64 hash mod modulo =? 0.

(* The consensus specification's rule (validator guide, is_aggregator), written independently of
   the code above:
     modulo = max(1, len(committee) // TARGET_AGGREGATORS_PER_COMMITTEE)
     return bytes_to_uint64(hash(slot_signature)[0:8]) % modulo == 0
   with bytes_to_uint64 little-endian: sum of b_i * 256^i. *)
Definition bytes_to_uint64 (bs : list N) : N := fold_right (fun b acc => b + 256 * acc) 0 bs.
Definition spec_is_aggregator (len target : N) (hash : list N) : bool :=
  bytes_to_uint64 (firstn 8 hash) mod N.max 1 (len / target) =? 0.

(* ------------------------------------------------------------------------------------------- *)
(* Duties and their merge.                                                                      *)

Record duty := mkDuty {
  d_val : N;           (* validator index *)
  d_slot : N;
  d_comm : N;          (* committee index *)
  d_len : N;           (* committee length *)
  d_cas : N;           (* committees at slot *)
  d_pos : N;           (* validator's position in the committee *)
  d_sig : N;           (* slot-selection signature of (d_val, d_slot) *)
  d_hash : list N      (* SHA-256 of that signature, 32 bytes *)
}.

(* MergeDuties sorts by slot, then committee index, then validator index. *)
Definition duty_leb (a b : duty) : bool :=
  if d_slot a <? d_slot b then true
  else if d_slot b <? d_slot a then false
  else if d_comm a <? d_comm b then true
  else if d_comm b <? d_comm a then false
  else d_val a <=? d_val b.

Fixpoint insert_duty (x : duty) (l : list duty) : list duty :=
  match l with
  | [] => [x]
  | y :: l' => if duty_leb x y then x :: l else y :: insert_duty x l'
  end.
Definition sort_duties (l : list duty) : list duty := fold_right insert_duty [] l.

(* The last element of a list satisfying a test (Go: repeated assignment in a loop). *)
Definition last_by {A} (p : A -> bool) (l : list A) : option A :=
  fold_left (fun acc x => if p x then Some x else acc) l None.

Definition same_slot (s : N) (d : duty) : bool := d_slot d =? s.
Definition same_key (s c : N) (d : duty) : bool := (d_slot d =? s) && (d_comm d =? c).

(* MergeDuties, per slot: committeesAtSlots[slot] = duty.CommitteesAtSlot and
   committeeLengths[slot][committee] = duty.CommitteeLength are *assigned* for every duty in
   sorted order, so the last duty of the slot / of the committee decides (they all agree in a
   well-formed answer of the beacon node). *)
Definition cas_of (L : list duty) (s : N) : N :=
  match last_by (same_slot s) L with Some d => d_cas d | None => 0 end.
Definition len_of (L : list duty) (s c : N) : N :=
  match last_by (same_key s c) L with Some d => d_len d | None => 0 end.

(* ------------------------------------------------------------------------------------------- *)
(* calculateSubscriptionInfo: slot => committee => Subscription.                                *)

Record sub := mkSub {
  s_val : N; s_slot : N; s_comm : N; s_len : N; s_cas : N; s_pos : N;
  s_agg : bool;        (* IsAggregator *)
  s_sig : N            (* Signature *)
}.

Definition sub_key_eqb (s c : N) (e : sub) : bool := (s_slot e =? s) && (s_comm e =? c).

Definition find_sub (s c : N) (info : list sub) : option sub := find (sub_key_eqb s c) info.

(* map assignment: replace the entry of the same (slot, committee) or add one *)
Fixpoint put (e : sub) (info : list sub) : list sub :=
  match info with
  | [] => [e]
  | x :: info' => if sub_key_eqb (s_slot e) (s_comm e) x then e :: info' else x :: put e info'
  end.

(* The per-validator aggregator flag as getSignaturesAndAggregateData asks for it: the committee
   size handed to AggregatorsAndSignatures is duty.CommitteeSize(committee), the merged length. *)
Definition agg_of (target : N) (L : list duty) (d : duty) : bool :=
  is_aggregator (len_of L (d_slot d) (d_comm d)) target (d_hash d).

Definition mk_sub (target : N) (L : list duty) (d : duty) : sub :=
  {| s_val := d_val d; s_slot := d_slot d; s_comm := d_comm d;
     s_len := len_of L (d_slot d) (d_comm d); s_cas := cas_of L (d_slot d); s_pos := d_pos d;
     s_agg := agg_of target L d; s_sig := d_sig d |}.

(* calculateSubscriptionInfoForDuty, one validator of the slot's duty:
     info, exists := subscriptionInfo[slot][committee]
     if exists && info.IsAggregator { continue }
     subscriptionInfo[slot][committee] = &Subscription{...} *)
Definition add_member (target : N) (L : list duty) (info : list sub) (d : duty) : list sub :=
  match find_sub (d_slot d) (d_comm d) info with
  | Some e => if s_agg e then info else put (mk_sub target L d) info
  | None => put (mk_sub target L d) info
  end.

(* calculateSubscriptionInfo.  One goroutine per slot walks that slot's validators in sorted order;
   goroutines of different slots write disjoint keys, so the result is the same as one walk over the
   whole sorted list.  A slot whose signing request fails ([sign_ok slot = false]) is logged and
   contributes nothing. *)
Definition subscription_info (target : N) (sign_ok : N -> bool) (duties : list duty) : list sub :=
  let L := sort_duties duties in
  fold_left (add_member target L) (filter (fun d => sign_ok (d_slot d)) L) [].

(* ------------------------------------------------------------------------------------------- *)
(* Subscribe: the submission.                                                                   *)

Record subscription := mkSubscription {
  p_val : N; p_slot : N; p_comm : N; p_cas : N; p_agg : bool
}.

Definition to_subscription (e : sub) : subscription :=
  {| p_val := s_val e; p_slot := s_slot e; p_comm := s_comm e; p_cas := s_cas e; p_agg := s_agg e |}.

(* the goroutine of Subscribe: entries of slots that are not after the current slot are skipped
   (`continue`; the pinned tree said `return` there and submitted nothing at all -- see
   [to_submit_pinned] below), everything else is submitted in one call. *)
Definition to_submit (cur : N) (info : list sub) : list subscription :=
  map to_subscription (filter (fun e => cur <? s_slot e) info).

(* What the pinned tree did (kept for the refutation theorem and the corpus witness): one entry
   that is not in the future, met anywhere in the map iteration, ends the goroutine before the
   submission call. *)
Definition to_submit_pinned (cur : N) (info : list sub) : option (list subscription) :=
  if forallb (fun e => cur <? s_slot e) info then Some (map to_subscription info) else None.

(* ------------------------------------------------------------------------------------------- *)
(* AttestAndScheduleAggregate.                                                                  *)

Record att := mkAtt { a_slot : N; a_comm : N; a_root : N }.   (* Data.Slot, Data.Index, HashTreeRoot(Data) *)

Record job := mkJob {
  j_slot : N; j_comm : N;     (* the job's name: "... aggregation for slot %d committee %d" *)
  j_time : N;                 (* milliseconds after genesis *)
  j_dslot : N; j_root : N; j_val : N; j_sig : N    (* the attestationaggregator.Duty it carries *)
}.

Definition job_key_eqb (s c : N) (j : job) : bool := (j_slot j =? s) && (j_comm j =? c).
Definition has_job (s c : N) (jobs : list job) : bool := existsb (job_key_eqb s c) jobs.

Record params := mkParams {
  slot_ms : N;                (* chain time: StartOfSlot(s) = genesis + s * slot_ms *)
  delay_ms : N;               (* attestationAggregationDelay *)
  spe : N;                    (* slots per epoch (SlotToEpoch) *)
  agg_target : N              (* TARGET_AGGREGATORS_PER_COMMITTEE as read by the aggregator service *)
}.

Definition mk_job (pr : params) (a : att) (e : sub) : job :=
  {| j_slot := a_slot a; j_comm := a_comm a; j_time := a_slot a * slot_ms pr + delay_ms pr;
     j_dslot := s_slot e; j_root := a_root a; j_val := s_val e; j_sig := s_sig e |}.

(* One iteration of the loop over the attestations.  [acct_ok v] says that
   ValidatingAccountsForEpochByIndex returns v's account (an error or an empty answer are both
   `continue`).  ScheduleJob fails exactly when a job of that name is already in the scheduler's
   table (ErrJobAlreadyExists), which is also what happens to the second attestation of a
   committee; after a successful ScheduleJob the loop goes on with the next attestation (the
   pinned tree returned here, see [attest_run_pinned]). *)
Definition attest_step (pr : params) (info : list sub) (cur : N) (acct_ok : N -> bool)
           (jobs : list job) (a : att) : list job :=
  match find_sub (a_slot a) (a_comm a) info with
  | None => jobs                                            (* no slot info / no committee info *)
  | Some e =>
      if a_slot a <? cur then jobs                          (* aggregation in the past *)
      else if negb (s_agg e) then jobs
      else if negb (acct_ok (s_val e)) then jobs
      else if has_job (a_slot a) (a_comm a) jobs then jobs  (* already scheduled *)
      else jobs ++ [mk_job pr a e]
  end.

Definition attest_run (pr : params) (info : list sub) (cur : N) (acct_ok : N -> bool)
           (jobs : list job) (atts : list att) : list job :=
  fold_left (attest_step pr info cur acct_ok) atts jobs.

(* The pinned tree: `return` after the first successful ScheduleJob. *)
Fixpoint attest_run_pinned (pr : params) (info : list sub) (cur : N) (acct_ok : N -> bool)
         (jobs : list job) (atts : list att) : list job :=
  match atts with
  | [] => jobs
  | a :: atts' =>
      let jobs' := attest_step pr info cur acct_ok jobs a in
      if (length jobs <? length jobs')%nat then jobs'
      else attest_run_pinned pr info cur acct_ok jobs' atts'
  end.

(* Aggregate (what firing the job does with the duty it carries): the aggregate attestation is
   requested for (duty.Slot, duty.AttestationDataRoot) and the signed aggregate-and-proof that is
   submitted names duty.ValidatorIndex as aggregator with duty.SlotSignature as selection proof. *)
Definition aggregate_out (j : job) : N * N * N * N := (j_dslot j, j_root j, j_val j, j_sig j).

(* ------------------------------------------------------------------------------------------- *)
(* The controller's history: subscriptionInfos (epoch -> info) and the scheduler's job table.   *)

Record state := mkState { st_infos : list (N * list sub); st_jobs : list job }.
Definition init : state := {| st_infos := []; st_jobs := [] |}.

Fixpoint get_info (ep : N) (m : list (N * list sub)) : option (list sub) :=
  match m with
  | [] => None
  | (k, v) :: m' => if k =? ep then Some v else get_info ep m'
  end.
Fixpoint set_info (ep : N) (v : list sub) (m : list (N * list sub)) : list (N * list sub) :=
  match m with
  | [] => [(ep, v)]
  | (k, w) :: m' => if k =? ep then (ep, v) :: m' else (k, w) :: set_info ep v m'
  end.

(* HandleHeadEvent's housekeeping of subscriptionInfos:
     for subscriptionEpoch := range s.subscriptionInfos {
         if subscriptionEpoch+1 < epoch { delete(s.subscriptionInfos, subscriptionEpoch) } }
   in uint64 arithmetic ([epoch] is the epoch of the head's slot): the information of the head's
   epoch, of the epoch before it and of every later epoch stays. *)
Definition stale64 (ep hepoch : N) : bool := wrap64 (ep + 1) <? hepoch.
Definition prune_infos (hepoch : N) (m : list (N * list sub)) : list (N * list sub) :=
  filter (fun kv => negb (stale64 (fst kv) hepoch)) m.

(* The same test written with a subtraction (`oldestRetainedEpoch := epoch - 1;
   subscriptionEpoch < oldestRetainedEpoch`), kept for the refutation theorem: in uint64 the bound
   of epoch 0 is 2^64-1 and everything goes. *)
Definition stale64_by_subtraction (ep hepoch : N) : bool := ep <? sub64 hepoch 1.

Inductive op :=
| OSub (epoch cur : N) (no_accounts duties_fail : bool) (sign_fail : list N) (duties : list duty)
    (* subscribeToBeaconCommittees(epoch, accounts) at current slot [cur]; [sign_fail]: slots whose
       SignSlotSelections call fails *)
| OAtt (dslot cur : N) (attest_fail : bool) (no_acct : list N) (atts : list att)
    (* AttestAndScheduleAggregate(duty of slot dslot) at current slot [cur]; [atts] is what
       attester.Attest returned; [no_acct]: validators whose account lookup fails or is empty *)
| OHead (hslot cur : N).
    (* HandleHeadEvent(head of slot [hslot]) at current slot [cur] (no reorganisation, no fast
       track, no sync committee verification): a head that is not of the current slot is ignored *)

Inductive out :=
| OutSub (calls : list (list subscription)) (stored : option (list sub))
    (* the SubmitBeaconCommitteeSubscriptions payloads of this call, and subscriptionInfos[epoch] afterwards *)
| OutAtt (jobs : list job)
    (* the scheduler's aggregation jobs afterwards, each with the duty it carries *)
| OutHead (infos : list (N * list sub)).
    (* the whole of subscriptionInfos afterwards *)

Definition sign_ok_of (sign_fail : list N) (s : N) : bool := negb (memb N.eqb s sign_fail).
Definition acct_ok_of (no_acct : list N) (v : N) : bool := negb (memb N.eqb v no_acct).

Definition step (pr : params) (st : state) (o : op) : state * out :=
  match o with
  | OSub ep cur no_accounts duties_fail sign_fail duties =>
      if no_accounts then
        (* Subscribe returns an empty map without calling anybody; the controller stores it *)
        ({| st_infos := set_info ep [] (st_infos st); st_jobs := st_jobs st |}, OutSub [] (Some []))
      else if duties_fail then
        (* Subscribe fails; the controller logs and keeps what it had *)
        (st, OutSub [] (get_info ep (st_infos st)))
      else
        let info := subscription_info (agg_target pr) (sign_ok_of sign_fail) duties in
        ({| st_infos := set_info ep info (st_infos st); st_jobs := st_jobs st |},
         OutSub [to_submit cur info] (Some info))
  | OAtt dslot cur attest_fail no_acct atts =>
      if attest_fail then (st, OutAtt (st_jobs st))
      else match atts with
           | [] => (st, OutAtt (st_jobs st))
           | _ =>
               match get_info (dslot / spe pr) (st_infos st) with
               | None => (st, OutAtt (st_jobs st))
               | Some info =>
                   let jobs := attest_run pr info cur (acct_ok_of no_acct) (st_jobs st) atts in
                   ({| st_infos := st_infos st; st_jobs := jobs |}, OutAtt jobs)
               end
           end
  | OHead hslot cur =>
      if hslot =? cur then
        let infos := prune_infos (hslot / spe pr) (st_infos st) in
        ({| st_infos := infos; st_jobs := st_jobs st |}, OutHead infos)
      else (st, OutHead (st_infos st))
  end.

Fixpoint run (pr : params) (st : state) (ops : list op) : state * list out :=
  match ops with
  | [] => (st, [])
  | o :: ops' =>
      let '(st1, x) := step pr st o in
      let '(st2, xs) := run pr st1 ops' in
      (st2, x :: xs)
  end.

(* ------------------------------------------------------------------------------------------- *)
(* Operations that complete while another one is waiting for somebody else.

   AttestAndScheduleAggregate first calls s.attester.Attest (the beacon node is asked for the
   attestation data, the attestations are signed and submitted: hundreds of milliseconds) and only
   THEN reads s.subscriptionInfos[epoch]; subscribeToBeaconCommittees first calls Subscribe (the
   duties request, one signing request per slot) and only THEN stores the result.  Neither holds a
   lock meanwhile, and both run as jobs / goroutines next to the head-event handler and to each
   other (start-up launches the epoch's subscribe and the already-due attestation job side by side;
   a reorganisation re-creates the attestation jobs and re-subscribes).  So a subscribe or a head
   event that completes while Attest is in flight has taken effect when the information is looked
   up, and an attest or head event that completes while Subscribe is in flight sees the
   information of before that subscribe: in both cases the operations [mid] that complete during
   the call come first in the controller's history and the waiting operation [o] after them.
   The current slot of [o] is the one read after the call returned (the attest loop reads
   CurrentSlot() per attestation after Attest; Subscribe reads it when it launches the submission). *)
Inductive hop :=
| HOp (o : op)
| HDuring (mid : list op) (o : op).
    (* [mid] complete while [o]'s first outside call (attester.Attest; the duties request of
       Subscribe) is in flight *)

Definition linearise (hs : list hop) : list op :=
  flat_map (fun h => match h with HOp o => [o] | HDuring mid o => mid ++ [o] end) hs.

(* The other order, kept for the refutation theorem: the waiting operation takes what it needs
   before the call (`subscriptionInfos[epoch]` looked up before s.attester.Attest), i.e. as far as
   the information is concerned it comes BEFORE whatever completes during the call. *)
Definition linearise_snapshot (hs : list hop) : list op :=
  flat_map (fun h => match h with HOp o => [o] | HDuring mid o => o :: mid end) hs.
