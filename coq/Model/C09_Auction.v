(* C09 — the relay auction: executable model of
     strategies/builderbid/best/builderbid.go      (single shot, soft/hard timeout)
     strategies/builderbid/deadline/builderbid.go  (relays re-queried until StartOfSlot+deadline)
     services/blockrelay/standard/auctionblock.go  (auctionBlock, cacheBid)
     services/blockrelay/standard/builderbid.go    (BuilderBid, immediateBuilderBid, cachedBid)
   written from the code, statement by statement.  Definitions only.

   ASSUMPTION (independence): the model describes ONE auction.  Nothing an instance keeps between
   auctions takes part: the strategies' relayPubkeys map is a cache of parsed keys keyed by the key
   bytes themselves (the key used is read from the relay configuration / the provider at every
   bid), and the blockrelay builderBidsCache is keyed by slot, parent hash and proposer key and is
   overwritten by every auction that ran the strategy.  The harness checks this: the 2nd-4th
   auction on a used strategy instance and blockrelay service is compared with this same model.
   The one legitimate memory -- BuilderBid answering from the cache for a key auctioned before --
   is [serve_cached] below, within one case (modes MAuction / MQuery), and [late_queries]: the
   BuilderBid calls made for that key after the auction has closed, when the relays may answer
   differently (the harness runs them on the same service with a second script per relay).

   Data: wei values are [N]; scores, offsets, factors and all times (milliseconds since the
   auction was started) are [Z]; [nat] only indexes scripts.  Relays, builders, relay keys,
   headers and bids are named by numbers chosen by the harness. *)
From Verif Require Import Lib.Base.
Open Scope N_scope.

(* ------------------------------------------------------------------------------------------ *)
(* What a relay can answer. *)

Record bid := {
  b_uid : N;                 (* identity of the bid object (the harness's name for the pointer) *)
  b_value : N;               (* message.value, wei *)
  b_builder : N;             (* message.pubkey: which builder *)
  b_zero_recipient : bool;   (* header.fee_recipient is the zero address *)
  b_ts_delta : Z;            (* header.timestamp - StartOfSlot(slot).Unix() *)
  b_signer : N;              (* id of the BLS key that signed the bid; 0 = no valid signature *)
  b_header : N               (* which execution payload header (HeaderHashTreeRoot) *)
}.

Inductive resp :=
| RErr                       (* the call returns an error *)
| RNil                       (* response without data *)
| REmpty                     (* data with a version but no content: IsEmpty() *)
| RMalformed                 (* signed bid without message: Value() fails *)
| RHang                      (* never answers *)
| RBid (b : bid).

(* How the address of a configured relay resolves in util.FetchBuilderClient. *)
Inductive rkind :=
| KFull                      (* client supplies bids and can unblind *)
| KNoUnblind                 (* supplies bids, cannot unblind *)
| KNoBid                     (* not a BuilderBidProvider *)
| KBadAddr.                  (* FetchBuilderClient fails (empty or unparsable address) *)

Record relay := {
  r_idx : N;                       (* name of the relay (position in the configuration) *)
  r_kind : rkind;
  r_min : N;                       (* RelayConfig.MinValue, wei *)
  r_cfg_key : option N;            (* RelayConfig.PublicKey *)
  r_adv_key : option N;            (* provider.Pubkey() *)
  r_grace : Z;                     (* RelayConfig.Grace, ms *)
  r_script : list (Z * resp)       (* k-th call: answered after the latency with the response;
                                      calls beyond the script never answer *)
}.

(* blockrelay.BuilderConfig; absent builders get the blank "standard" configuration *)
Record bconf := { bc_cat : N; bc_offset : option Z; bc_factor : option Z }.
Definition bconfs := list (N * bconf).
Definition std_cat : N := 0.
Definition blank_conf : bconf := {| bc_cat := std_cat; bc_offset := None; bc_factor := None |}.

Fixpoint lookup {A : Type} (k : N) (l : list (N * A)) : option A :=
  match l with
  | [] => None
  | (k', v) :: l' => if k =? k' then Some v else lookup k l'
  end.

Definition conf_of (cfgs : bconfs) (b : bid) : bconf :=
  match lookup (b_builder b) cfgs with Some c => c | None => blank_conf end.

(* setBuilderBid: score := value; if Offset != nil: score += Offset; if Factor != nil:
   score = big.Int.Div(score * Factor, 100).  big.Int.Div is Euclidean division; for the positive
   divisor 100 that is floor division, i.e. Coq's Z.div (NOT truncation: (-50)/100 = -1). *)
Definition score (cfgs : bconfs) (b : bid) : Z :=
  let c := conf_of cfgs b in
  let s := Z.of_N (b_value b) in
  let s := match bc_offset c with Some o => (s + o)%Z | None => s end in
  match bc_factor c with Some f => ((s * f) / 100)%Z | None => s end.

Definition cat_of (cfgs : bconfs) (b : bid) : N := bc_cat (conf_of cfgs b).

(* ------------------------------------------------------------------------------------------ *)
(* Per-relay eligibility: getBidValue, the minimum-value test, verifyBidDetails, verifyBidSignature *)

(* the key the signature is checked against: the configured one, else the advertised one *)
Definition eff_key (r : relay) : option N :=
  match r_cfg_key r with Some k => Some k | None => r_adv_key r end.

Definition sig_ok (r : relay) (b : bid) : bool :=
  match eff_key r with None => true | Some k => b_signer b =? k end.

Definition details_ok (r : relay) (b : bid) : bool :=
  negb (b_zero_recipient b) && (b_ts_delta b =? 0)%Z && sig_ok r b.

Definition eligible (r : relay) (b : bid) : bool :=
  negb (b_value b =? 0) && (r_min r <=? b_value b) && details_ok r b.

(* what the relay goroutine puts on the channels *)
Inductive delivery :=
| DErr                       (* error channel *)
| DNone                      (* response channel, nil bid *)
| DSilent                    (* nothing *)
| DBid (b : bid).            (* response channel, bid, score = value *)

(* best.builderBid after obtainBid *)
Definition classify_best (r : relay) (x : resp) : delivery :=
  match x with
  | RErr | REmpty | RMalformed => DErr
  | RNil => DNone
  | RHang => DSilent
  | RBid b =>
      if b_value b =? 0 then DErr
      else if b_value b <? r_min r then DNone
      else if details_ok r b then DBid b else DErr
  end.

(* deadline.builderBidAttempt; [last] is lastBid: only a bid with a strictly higher VALUE than the
   relay's previously forwarded bid is forwarded (bidBetter). *)
Definition classify_deadline (r : relay) (last : option bid) (x : resp) : delivery * option bid :=
  match x with
  | RErr | RMalformed => (DErr, last)
  | RNil => (DNone, last)
  | REmpty | RHang => (DSilent, last)
  | RBid b =>
      if b_value b =? 0 then (DErr, last)
      else if b_value b <? r_min r then (DSilent, last)
      else if details_ok r b then
             match last with
             | None => (DBid b, Some b)
             | Some l => if b_value l <? b_value b then (DBid b, Some b) else (DSilent, last)
             end
           else (DErr, last)
  end.

(* ------------------------------------------------------------------------------------------ *)
(* Which calls are answered, and when.  An event: (time the answer reached the relay goroutine,
   relay, index of the call, what the goroutine then delivers). *)

Record event := { e_time : Z; e_relay : N; e_call : N; e_del : delivery }.

Inductive strategy :=
| Best (timeout : Z)                 (* hard timeout, ms *)
| Deadline (deadline_at : Z) (gap : Z). (* StartOfSlot+deadline relative to the start (may be <= 0); bidGap *)

Definition queried (s : strategy) (r : relay) : bool :=
  match s, r_kind r with
  | _, KFull => true
  | Deadline _ _, KNoUnblind => true   (* the deadline strategy does not ask for unblinding ability *)
  | _, _ => false
  end.

(* best: one call per relay, after the grace sleep; its answer arrives whenever it arrives (the
   relay goroutines run on the caller's context, not on the timeout contexts). *)
Definition best_relay_events (r : relay) : list event :=
  match r_script r with
  | (lat, x) :: _ =>
      match x with
      | RHang => []
      | _ => [ {| e_time := r_grace r + lat; e_relay := r_idx r; e_call := 0; e_del := classify_best r x |} ]
      end
  | [] => []
  end%Z.

(* deadline: attempt k starts at t; a call that would end at or after the deadline instant D
   yields nothing (context error, or an answer nobody reads any more); after an answer at e the
   goroutine stops if D - e <= bidGap, else sleeps bidGap and calls again. *)
Fixpoint deadline_attempts (D gap : Z) (r : relay) (k : N) (t : Z) (last : option bid)
         (script : list (Z * resp)) : list event :=
  match script with
  | [] => []
  | (lat, x) :: rest =>
      match x with
      | RHang => []
      | _ =>
          let e := (t + lat)%Z in
          if (e <? D)%Z then
            let '(d, last') := classify_deadline r last x in
            {| e_time := e; e_relay := r_idx r; e_call := k; e_del := d |}
              :: (if (D - e <=? gap)%Z then [] else deadline_attempts D gap r (k + 1) (e + gap)%Z last' rest)
          else []
      end
  end.

Definition relay_events (s : strategy) (r : relay) : list event :=
  if queried s r then
    match s with
    | Best _ => best_relay_events r
    | Deadline D gap => deadline_attempts D gap r 0 (r_grace r) None (r_script r)
    end
  else [].

Definition all_events (s : strategy) (rs : list relay) : list event := flat_map (relay_events s) rs.

Definition cutoff (s : strategy) : Z := match s with Best T => T | Deadline D _ => D end.

(* arrival order when all instants differ: by time (stable) *)
Definition by_time (evs : list event) : list event := sort_by (fun e => Z.to_N (e_time e)) evs.

(* the (relay, bid) pairs handed to setBuilderBid, in the order the collector sees them *)
Definition forwarded (c : Z) (ord : list event) : list (N * bid) :=
  flat_map (fun e => match e_del e with
                     | DBid b => if (e_time e <? c)%Z then [(e_relay e, b)] else []
                     | _ => []
                     end) ord.

(* ------------------------------------------------------------------------------------------ *)
(* The collector: setBuilderBid folded over the forwarded bids. *)

Record part := { p_score : Z; p_cat : N; p_bid : bid }.

Record state := {
  st_win : option part;            (* Results.WinningParticipation *)
  st_providers : list N;           (* Results.Providers *)
  st_parts : list (N * part)       (* Results.Participation, keyed by relay *)
}.

Definition init : state := {| st_win := None; st_providers := []; st_parts := [] |}.

Fixpoint set_part (k : N) (v : part) (l : list (N * part)) : list (N * part) :=
  match l with
  | [] => [(k, v)]
  | (k', v') :: l' => if k =? k' then (k, v) :: l' else (k', v') :: set_part k v l'
  end.

Definition set_bid (cfgs : bconfs) (st : state) (rb : N * bid) : state :=
  let '(r, b) := rb in
  let sc := score cfgs b in
  let p := {| p_score := sc; p_cat := cat_of cfgs b; p_bid := b |} in
  let parts := set_part r p (st_parts st) in
  if (sc =? 0)%Z then {| st_win := st_win st; st_providers := st_providers st; st_parts := parts |}
  else
    match st_win st with
    | None => {| st_win := Some p; st_providers := [r]; st_parts := parts |}
    | Some w =>
        if (p_score w <? sc)%Z then {| st_win := Some p; st_providers := [r]; st_parts := parts |}
        else if b_header b =? b_header (p_bid w)
             then {| st_win := st_win st; st_providers := st_providers st ++ [r]; st_parts := parts |}
             else {| st_win := st_win st; st_providers := st_providers st; st_parts := parts |}
    end.

Definition collect (cfgs : bconfs) (fw : list (N * bid)) : state := fold_left (set_bid cfgs) fw init.

(* result of a strategy for a given arrival order of the events *)
Definition result_of (cfgs : bconfs) (s : strategy) (ord : list event) : state :=
  collect cfgs (forwarded (cutoff s) ord).

Definition strategy_result (cfgs : bconfs) (s : strategy) (rs : list relay) : state :=
  result_of cfgs s (by_time (all_events s rs)).

(* Results.AllProviders: every relay a goroutine was started for, in configuration order *)
Definition all_providers (s : strategy) (rs : list relay) : list N :=
  map r_idx (filter (queried s) rs).

(* when BuilderBid returns.  best: when responded+errored = len(Relays) -- [requests] counts
   configured relays, also those skipped -- or at the hard timeout; deadline: at the deadline. *)
Definition elapsed (s : strategy) (rs : list relay) : Z :=
  match s with
  | Best T =>
      let del := filter (fun e => (e_time e <? T)%Z) (all_events s rs) in
      if Nat.eqb (length del) (length rs) then fold_left Z.max (map e_time del) 0%Z else T
  | Deadline D _ => Z.max 0 D
  end.

(* the calls whose scripted answer reached the goroutine before the cut-off: (time, relay, call) *)
Definition calls_before (s : strategy) (rs : list relay) : list (Z * N * N) :=
  map (fun e => (e_time e, e_relay e, e_call e))
      (filter (fun e => (e_time e <? cutoff s)%Z) (by_time (all_events s rs))).

(* ------------------------------------------------------------------------------------------ *)
(* blockrelay: auctionBlock / cacheBid / BuilderBid *)

(* what cacheBid stores for the auction's key: nothing (the strategy was not run: no relays),
   the zero-value dummy, or the winning bid *)
Inductive cached := CNothing | CDummy | CBid (b : bid).

Definition auction_cache (rs : list relay) (st : state) : cached :=
  match rs with
  | [] => CNothing
  | _ => match st_win st with Some p => CBid (p_bid p) | None => CDummy end
  end.

Definition auction_state (cfgs : bconfs) (s : strategy) (rs : list relay) : state :=
  match rs with [] => init | _ => strategy_result cfgs s rs end.

(* BuilderBid on a cache hit: serve the bid only if its value is positive *)
Definition serve_cached (c : cached) : option N :=
  match c with
  | CBid b => if 0 <? b_value b then Some (b_uid b) else None
  | _ => None
  end.

(* immediateBuilderBid: run the auction now, serve the winner as it is *)
Definition serve_immediate (st : state) : option N :=
  match st_win st with Some p => Some (b_uid (p_bid p)) | None => None end.

Inductive mode :=
| MStrategy                  (* the strategy's BuilderBid called directly *)
| MAuction                   (* AuctionBlock, then BuilderBid for the same slot/parent/key *)
| MQuery.                    (* BuilderBid on an empty cache (immediate auction), then BuilderBid again *)

(* answers of the blockrelay BuilderBid calls the mode makes *)
Definition served (m : mode) (rs : list relay) (st : state) : list (option N) :=
  match m with
  | MStrategy => []
  | MAuction =>
      match auction_cache rs st with
      | CNothing => [serve_immediate st]        (* miss: a second, equally empty auction *)
      | c => [serve_cached c]
      end
  | MQuery =>
      match auction_cache rs st with
      | CNothing => [serve_immediate st; serve_immediate st]
      | c => [serve_immediate st; serve_cached c]
      end
  end.

(* ------------------------------------------------------------------------------------------ *)
(* BuilderBid calls made LATER for the key of an auction (the beacon node asks after the auction has
   closed, possibly several times, possibly long after), when the relays may answer differently from
   what they answered during the auction.  builderbid.go:BuilderBid: a cache entry -- the winning bid
   or the zero-value dummy -- is answered as it is (the dummy as "no bid"); only when there is no
   entry at all is an auction run now (immediateBuilderBid -> auctionBlock, which caches its result).
   [now] is the situation at the instant of the call: the strategy as seen from that instant (the
   deadline instant is relative to the start of the call) and the relays with what they answer now.
   Returns the entry afterwards, the answer, and whether relays were asked. *)
Definition shift (s : strategy) (t : Z) : strategy :=
  match s with Best T => Best T | Deadline D gap => Deadline (D - t) gap end.

Definition builder_bid (cfgs : bconfs) (c : cached) (now : strategy * list relay) : cached * option N * bool :=
  match c with
  | CNothing =>
      let st := auction_state cfgs (fst now) (snd now) in
      (auction_cache (snd now) st, serve_immediate st, match snd now with [] => false | _ => true end)
  | _ => (c, serve_cached c, false)
  end.

Fixpoint late_queries (cfgs : bconfs) (c : cached) (nows : list (strategy * list relay)) : list (option N * bool) :=
  match nows with
  | [] => []
  | now :: rest =>
      let '(c', a, asked) := builder_bid cfgs c now in (a, asked) :: late_queries cfgs c' rest
  end.

(* ------------------------------------------------------------------------------------------ *)
(* Arrival orders when several answers share an instant: every order of the tied events
   (the collector's channel order is then Go's scheduling choice). *)

Fixpoint inserts {A : Type} (x : A) (l : list A) : list (list A) :=
  match l with
  | [] => [[x]]
  | y :: l' => (x :: l) :: map (cons y) (inserts x l')
  end.

Fixpoint perms {A : Type} (l : list A) : list (list A) :=
  match l with
  | [] => [[]]
  | x :: l' => flat_map (inserts x) (perms l')
  end.

Definition groups (sorted : list event) : list (list event) :=
  fold_right (fun e acc =>
                match acc with
                | (e' :: g) :: gs => if (e_time e =? e_time e')%Z then (e :: e' :: g) :: gs else [e] :: (e' :: g) :: gs
                | _ => [[e]]
                end) [] sorted.

Definition linearizations (evs : list event) : list (list event) :=
  fold_right (fun g acc => flat_map (fun p => map (app p) acc) (perms g)) [[]] (groups (by_time evs)).
