(* C03 — the controller's scheduling when the beacon node is slow to answer a duties request.

   Model/C03_Controller.v runs every operation at one clock value: the node answers at once.  In
   the code the clock is sampled at particular statements, and a request to the node can take
   any time: scheduleAttestations / scheduleProposals read chainTimeService.CurrentSlot() AFTER
   the AttesterDuties / ProposerDuties answer has arrived and filter "past slot" / "current slot
   when told not to" against that value; scheduleSyncCommitteeMessages computes the window BEFORE its
   SyncCommitteeDuties request, and after it clamps the first slot to the current slot once more
   and tests "current slot when told not to"; refreshAttesterDutiesForEpoch decides whether the current slot's job was cancelled before
   the request.  This file writes the operations once more with one request kind (attester /
   proposer duties of an epoch, sync committee duties of a period) answered late:

     - everything of the operation that does not wait for that answer happens at the old clock
       (the other requests are answered at once; every scheduling call runs in its own goroutine,
       so nothing else waits);
     - then the clock moves on by [dl_slots] slots, the answer arrives, and the waiting calls
       continue at the new clock ([late]).

   With no delay ([None]) the operations are those of Model/C03_Controller.v
   (Proofs/C03_Delay.v, step_d_none).  Definitions only. *)
From Verif Require Import Lib.Base Model.C03_ChainTime Model.C03_Controller.
Open Scope N_scope.

Inductive rkind := RAtt | RProp | RSync.
Definition rkind_eqb (a b : rkind) : bool :=
  match a, b with RAtt, RAtt | RProp, RProp | RSync, RSync => true | _, _ => false end.

(* the request of kind [dl_kind] for epoch (sync: period) [dl_key] is answered [dl_slots] slots later *)
Record fdelay := { dl_kind : rkind; dl_key : N; dl_slots : N }.

Definition hits (d : option fdelay) (k : rkind) (key : N) : bool :=
  match d with
  | Some x => rkind_eqb (dl_kind x) k && (dl_key x =? key)
  | None => false
  end.

Definition dslots (d : option fdelay) : N := match d with Some x => dl_slots x | None => 0 end.

(* a scheduling call that is waiting for the node's answer, with what it had decided before asking *)
Inductive pending :=
| PAtt (epoch : N) (notcur : bool)
| PProp (epoch : N) (notcur : bool)
| PSync (altair_epoch cur0 epoch : N) (notcur : bool).

Definition tps := (table * list pending)%type.

Section Delay.
  Variable shadowed : bool.
  Variable c : config.
  Variable d : option fdelay.
  Let p := c_ct c.

  (* scheduleSyncCommitteeMessages with the two clock readings apart: [cur0] before the request
     (Altair guard, firstEpoch / firstSlot clamps), [cur1] after it (firstSlot clamped once more
     -- "the requests above may have taken us into a later slot" -- and the loop's current-slot test) *)
  Definition sched_sync2 (altair_epoch cur0 cur1 : N) (e : env) (epoch : N) (notcur : bool) (t : table) : table :=
    if negb (e_vals e) then t else
    if cur_epoch c cur0 <? altair_epoch then t else
    let '(fe, fs, ls) := sync_window c altair_epoch cur0 epoch in
    let vals := alookup (e_sync e) (fe / c_period c) in
    match vals with
    | [] => t
    | _ =>
      let pay := map (fun v => (v, 0, 0)) (sort_by (fun v => v) (dedup vals)) in
      (* if firstSlot < CurrentSlot() { firstSlot = CurrentSlot() }, after the duties and accounts *)
      let fs1 := if fs <? cur1 then cur1 else fs in
      fold_left (fun t slot =>
                   if (slot =? cur1) && notcur then t
                   else tsched t {| j_name := JSync slot; j_time := sync_time c slot; j_pay := pay |})
                (slot_range fs1 ls) t
    end.

  (* the calls, up to the request *)
  Definition sched_att_d (cur : N) (have_vals : bool) (ds : list aduty) (epoch : N) (notcur : bool) (tp : tps) : tps :=
    if negb have_vals then tp else
    if hits d RAtt epoch then (fst tp, snd tp ++ [PAtt epoch notcur])
    else (sched_att c cur have_vals ds epoch notcur (fst tp), snd tp).

  Definition sched_prop_d (cur : N) (have_vals : bool) (ds : list pduty) (epoch : N) (notcur : bool) (tp : tps) : tps :=
    if negb have_vals then tp else
    if hits d RProp epoch then (fst tp, snd tp ++ [PProp epoch notcur])
    else (sched_prop c cur have_vals ds epoch notcur (fst tp), snd tp).

  Definition sched_sync_d (altair_epoch cur : N) (e : env) (epoch : N) (notcur : bool) (tp : tps) : tps :=
    if negb (e_vals e) then tp else
    if cur_epoch c cur <? altair_epoch then tp else
    let '(fe, _, _) := sync_window c altair_epoch cur epoch in
    if hits d RSync (fe / c_period c) then (fst tp, snd tp ++ [PSync altair_epoch cur epoch notcur])
    else (sched_sync c altair_epoch cur e epoch notcur (fst tp), snd tp).

  (* ... and from the answer on *)
  Definition late (cur1 : N) (e : env) (pd : pending) (t : table) : table :=
    match pd with
    | PAtt ep nc => sched_att c cur1 (e_vals e) (alookup (e_att e) ep) ep nc t
    | PProp ep nc => sched_prop c cur1 (e_vals e) (alookup (e_prop e) ep) ep nc t
    | PSync ae cur0 ep nc => sched_sync2 ae cur0 cur1 e ep nc t
    end.

  Definition refresh_att_d (cur : N) (e : env) (epoch : N) (tp : tps) : tps :=
    let t := fst tp in
    if texists t (JPrep epoch) then tp else
    let cur_cancelled := epoch_has c epoch cur && texists t (JAtt cur) in
    let t1 := filter (fun j => match j_name j with JAtt s => negb (epoch_has c epoch s) | _ => true end) t in
    sched_att_d cur (e_vals e) (alookup (e_att e) epoch) epoch (negb cur_cancelled) (t1, snd tp).

  Definition refresh_prop_d (cur : N) (e : env) (epoch : N) (tp : tps) : tps :=
    let t1 := filter (fun j => match j_name j with
                               | JProp s | JEarly s => negb (epoch_has c epoch s)
                               | _ => true end) (fst tp) in
    sched_prop_d cur (e_vals e) (alookup (e_prop e) epoch) epoch true (t1, snd tp).

  Definition refresh_sync_d (handling : bool) (altair_epoch cur : N) (e : env) (epoch : N) (tp : tps) : tps :=
    if negb handling then tp else
    let t := fst tp in
    let period := epoch / c_period c in
    let fs := sub64 (first_slot_of_epoch p (feosp c altair_epoch period)) 1 in
    let le := sub64 (feosp c altair_epoch (add64 period 1)) 1 in
    let ls := sub64 (first_slot_of_epoch p (add64 le 1)) 2 in
    let t1 := if ls <? fs then t
              else filter (fun j => match j_name j with JSync s => negb ((fs <=? s) && (s <=? ls)) | _ => true end) t in
    if negb (e_vals e) then (t1, snd tp) else
    sched_sync_d altair_epoch cur e epoch false (t1, snd tp).

  Definition sps := (state * list pending)%type.
  Definition with_tps (st : state) (tp : tps) : sps := (set_jobs st (fst tp), snd tp).

  Definition on_prev_changed_d (sp : sps) : sps :=
    let st := fst sp in
    with_tps st (refresh_att_d (st_cur st) (st_env st) (cur_epoch c (st_cur st)) (st_jobs st, snd sp)).

  Definition on_cur_changed_d (sp : sps) : sps :=
    let st := fst sp in
    let ce := cur_epoch c (st_cur st) in
    let tp1 := refresh_prop_d (st_cur st) (st_env st) ce (st_jobs st, snd sp) in
    let tp2 := if ce mod c_period c =? 0
               then refresh_sync_d (st_altair st) (st_altair_epoch st) (st_cur st) (st_env st) (add64 ce (c_period c)) tp1
               else tp1 in
    let tp3 := refresh_att_d (st_cur st) (st_env st) (add64 ce 1) tp2 in
    with_tps st tp3.

  (* HandleHeadEvent: the handlers run in goroutines; the fast track (after its grace period) does
     not wait for a late answer *)
  Definition head_event_d (st : state) (slot prev cur_root : N) : sps :=
    if negb (slot =? st_cur st) then (st, []) else
    let epoch := slot_to_epoch p slot in
    let '(dp, dc) := reorg_decide (st_last_epoch st) (st_prev_root st) (st_cur_root st) epoch prev cur_root in
    let st0 := {| st_jobs := st_jobs st; st_cur := st_cur st; st_env := st_env st; st_altair := st_altair st;
                  st_altair_epoch := st_altair_epoch st; st_last_epoch := epoch;
                  st_prev_root := prev; st_cur_root := cur_root; st_tick := st_tick st;
                  st_att_log := st_att_log st; st_prop_log := st_prop_log st |} in
    let sp1 := if dp then on_prev_changed_d (st0, []) else (st0, []) in
    let sp2 := if dc then on_cur_changed_d sp1 else sp1 in
    if c_ft_att c then (run_if_exists (fst sp2) (JAtt slot), snd sp2) else sp2.

  Definition handle_altair_fork_epoch_d (st : state) (tp : tps) : tps :=
    if negb (st_altair st) then tp else
    let ae := st_altair_epoch st in
    let tp1 := sched_sync_d ae (st_cur st) (st_env st) ae false tp in
    let next := mul64 (add64 (ae / c_period c) 1) (c_period c) in
    if sub64 next ae <=? 5 then sched_sync_d ae (st_cur st) (st_env st) next false tp1 else tp1.

  (* epochTicker: the preparation job of the next epoch is set up without waiting for any answer *)
  Definition epoch_tick_d (st : state) : sps :=
    let ce := cur_epoch c (st_cur st) in
    if (Z.of_N ce <=? st_tick st)%Z then (st, []) else
    let e := st_env st in
    let tp1 := sched_prop_d (st_cur st) (e_vals e) (alookup (e_prop e) ce) ce false (st_jobs st, []) in
    let tp2 := if st_altair st then
                 let ta := if ce =? st_altair_epoch st then handle_altair_fork_epoch_d st tp1 else tp1 in
                 if ce mod c_period c =? sub64 (c_period c) 5
                 then sched_sync_d (st_altair_epoch st) (st_cur st) e (add64 ce 5) false ta
                 else ta
               else tp1 in
    let t3 := tsched (fst tp2) {| j_name := JPrep (add64 ce 1); j_time := prep_time c (st_cur st) ce; j_pay := [] |} in
    ({| st_jobs := t3; st_cur := st_cur st; st_env := e; st_altair := st_altair st;
        st_altair_epoch := st_altair_epoch st; st_last_epoch := st_last_epoch st;
        st_prev_root := st_prev_root st; st_cur_root := st_cur_root st; st_tick := Z.of_N ce;
        st_att_log := st_att_log st; st_prop_log := st_prop_log st |}, snd tp2).

  Definition prepare_for_epoch_d (st : state) (epoch : N) : sps :=
    let e := st_env st in
    with_tps st (sched_att_d (st_cur st) (e_vals e) (alookup (e_att e) epoch) epoch false (st_jobs st, [])).

  Definition start_d (st : state) : sps :=
    let e := st_env st in
    let cur := st_cur st in
    let ce := cur_epoch c cur in
    let '(handling, ae) := altair_details shadowed c in
    let tp1 := sched_prop_d cur (e_vals e) (alookup (e_prop e) ce) ce true ([], []) in
    let tp2 := sched_att_d cur (e_vals e) (alookup (e_att e) ce) ce true tp1 in
    let tp3 := if handling then
                 let this := feosp c ae (ce / c_period c) in
                 let ta := sched_sync_d ae cur e this true tp2 in
                 let next := feosp c ae (ce / c_period c + 1) in
                 if sub64 next ce <=? 5 then sched_sync_d ae cur e next true ta else ta
               else tp2 in
    let tp4 := sched_att_d cur (e_vals e) (alookup (e_att e) (add64 ce 1)) (add64 ce 1) true tp3 in
    ({| st_jobs := fst tp4; st_cur := cur; st_env := e; st_altair := handling; st_altair_epoch := ae;
        st_last_epoch := 0; st_prev_root := 0; st_cur_root := 0; st_tick := (-1)%Z;
        st_att_log := st_att_log st; st_prop_log := st_prop_log st |}, snd tp4).

  Definition fire_d (st : state) (n : jname) (head_slot : N) : sps :=
    match tget (st_jobs st) n with
    | None => (st, [])
    | Some j =>
        match n with
        | JPrep e => prepare_for_epoch_d (set_jobs st (tremove (st_jobs st) n)) e
        | _ => (fire c st n head_slot, [])
        end
    end.

  (* the part of an operation that does not wait for the late answer, and the calls left waiting *)
  Definition step_imm (st : state) (o : op) : sps :=
    let e := st_env st in
    match o with
    | Advance _ | SetEnv _ => (step shadowed c st o, [])
    | Start => start_d st
    | Tick => epoch_tick_d st
    | Head s pr cr => head_event_d st s pr cr
    | Fire n h => fire_d st n h
    | SchedAtt ep nc => with_tps st (sched_att_d (st_cur st) (e_vals e) (alookup (e_att e) ep) ep nc (st_jobs st, []))
    | SchedProp ep nc => with_tps st (sched_prop_d (st_cur st) (e_vals e) (alookup (e_prop e) ep) ep nc (st_jobs st, []))
    | SchedSync ep nc => with_tps st (sched_sync_d (st_altair_epoch st) (st_cur st) e ep nc (st_jobs st, []))
    | RefreshAtt ep => with_tps st (refresh_att_d (st_cur st) e ep (st_jobs st, []))
    | RefreshProp ep => with_tps st (refresh_prop_d (st_cur st) e ep (st_jobs st, []))
    | RefreshSync ep => with_tps st (refresh_sync_d (st_altair st) (st_altair_epoch st) (st_cur st) e ep (st_jobs st, []))
    end.

  (* the clock moves on, the answer arrives, the waiting calls finish *)
  Definition finish (sp : sps) : state :=
    let st := fst sp in
    let cur1 := st_cur st + dslots d in
    set_jobs (set_cur st cur1) (fold_left (fun t pd => late cur1 (st_env st) pd t) (snd sp) (st_jobs st)).

  Definition step_d (st : state) (o : op) : state := finish (step_imm st o).
End Delay.

(* histories: every operation with the delay (if any) of one of its requests *)
Definition dop := (op * option fdelay)%type.

Definition run_d (shadowed : bool) (c : config) (st : state) (ops : list dop) : state :=
  fold_left (fun st od => step_d shadowed c (snd od) st (fst od)) ops st.

Fixpoint trace_d (shadowed : bool) (c : config) (st : state) (ops : list dop) : list state :=
  match ops with
  | [] => []
  | od :: ops' => let st' := step_d shadowed c (snd od) st (fst od) in st' :: trace_d shadowed c st' ops'
  end.
