(* C20 (memory): the table of one-off jobs of the real scheduler (services/scheduler/advanced:
   Service.jobs), driven through its public interface only.
     ScheduleJob(name, t)  adds the entry unless the name exists (ErrJobAlreadyExists); the job's
                           goroutine removes it when its timer fires (time.After(time.Until(t)):
                           at once when t is not in the future) and runs the job
     CancelJob(name)       removes the entry; the job never runs
     RunJob(name)          removes the entry at once and runs the job
   [JAdvance d] lets d milliseconds pass; every timer that is due fires.
   Operations are applied at quiescence (the harness waits until every goroutine is parked), so a
   timer and an explicit Run/Cancel never race here (those ties are C02's subject).
   Definitions only. *)
From Verif Require Import Lib.Base.

Inductive jop :=
| JSchedule (id at_ms : N)     (* ScheduleJob(job-id, now + at_ms) *)
| JCancel (id : N)
| JRun (id : N)
| JAdvance (d : N).

Record jst := {
  j_now : N;                   (* milliseconds since the start *)
  j_tab : list (N * N);        (* the jobs map: id -> fire time *)
  j_runs : list N              (* ids whose job function has run, most recent first *)
}.

Definition jinit : jst := {| j_now := 0; j_tab := []; j_runs := [] |}.

Definition jmem (id : N) (t : list (N * N)) : bool := existsb (fun p => fst p =? id) t.
Definition jdel (id : N) (t : list (N * N)) : list (N * N) := filter (fun p => negb (fst p =? id)) t.

Definition jstep (s : jst) (o : jop) : jst :=
  match o with
  | JSchedule id a =>
      if jmem id (j_tab s) then s
      else if a =? 0 then {| j_now := j_now s; j_tab := j_tab s; j_runs := id :: j_runs s |}
      else {| j_now := j_now s; j_tab := (id, j_now s + a) :: j_tab s; j_runs := j_runs s |}
  | JCancel id => {| j_now := j_now s; j_tab := jdel id (j_tab s); j_runs := j_runs s |}
  | JRun id =>
      if jmem id (j_tab s)
      then {| j_now := j_now s; j_tab := jdel id (j_tab s); j_runs := id :: j_runs s |}
      else s
  | JAdvance d =>
      let now := j_now s + d in
      let due := filter (fun p => snd p <=? now) (j_tab s) in
      {| j_now := now;
         j_tab := filter (fun p => negb (snd p <=? now)) (j_tab s);
         j_runs := map fst due ++ j_runs s |}
  end.

Definition jrun (h : list jop) (s : jst) : jst := fold_left jstep h s.

(* what the harness observes after every operation: ListJobs (sorted ids) and the ids run so far (sorted) *)
Definition jobs_view (s : jst) : list N * list N :=
  (sort_by (fun x => x) (map fst (j_tab s)), sort_by (fun x => x) (j_runs s)).

Fixpoint jtrace (h : list jop) (s : jst) : list (list N * list N) :=
  match h with
  | [] => []
  | o :: h' => let s' := jstep s o in jobs_view s' :: jtrace h' s'
  end.
