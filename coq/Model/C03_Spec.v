(* C03 — the declarative reading of the controller's scheduling functions: what the job table
   must contain after each of them, name by name.  Definitions only; the equivalence with the
   procedural model (Model/C03_Controller.v, written from the code) is proved in Proofs/C03_Sched.v. *)
From Verif Require Import Lib.Base Model.C03_ChainTime Model.C03_Controller.
Open Scope N_scope.

Section Spec.
  Variable c : config.
  Let p := c_ct c.

  (* ----- attestations ----- *)
  (* the duties of the answer that lie in the requested epoch *)
  Definition att_in (ds : list aduty) (epoch : N) : list aduty :=
    filter (fun d => in_epoch c epoch (ad_slot d)) ds.

  (* the job of slot s: slot start plus the configured delay, the validators with that duty *)
  Definition att_job (ds : list aduty) (epoch s : N) : job :=
    {| j_name := JAtt s; j_time := (start_of_slot p s + c_att_delay c)%Z; j_pay := att_pay (att_in ds epoch) s |}.

  (* a slot gets a job: some duty names it, it lies in the requested epoch, it has not passed *)
  Definition att_wanted (cur : N) (notcur : bool) (ds : list aduty) (epoch s : N) : bool :=
    existsb (fun d => ad_slot d =? s) ds && in_epoch c epoch s && due cur notcur s.

  Definition spec_sched_att (cur : N) (have_vals : bool) (ds : list aduty) (epoch : N) (notcur : bool)
             (t : table) (n : jname) : option job :=
    match tget t n with
    | Some j => Some j                      (* an existing job is never replaced (ErrJobAlreadyExists) *)
    | None =>
        match n with
        | JAtt s => if have_vals && att_wanted cur notcur ds epoch s then Some (att_job ds epoch s) else None
        | _ => None
        end
    end.

  (* ----- proposals ----- *)
  Definition prop_in (ds : list pduty) (epoch : N) : list pduty :=
    filter (fun d => in_epoch c epoch (pd_slot d)) ds.
  Definition prop_job (ds : list pduty) (epoch s : N) : job :=
    {| j_name := JProp s; j_time := (start_of_slot p s + c_prop_delay c)%Z; j_pay := prop_pay (prop_in ds epoch) s |}.
  Definition early_job (s : N) : job :=
    {| j_name := JEarly s; j_time := start_of_slot p s; j_pay := [] |}.
  Definition prop_wanted (cur : N) (notcur : bool) (ds : list pduty) (epoch s : N) : bool :=
    existsb (fun d => pd_slot d =? s) ds && in_epoch c epoch s && due cur notcur s.

  Definition spec_sched_prop (cur : N) (have_vals : bool) (ds : list pduty) (epoch : N) (notcur : bool)
             (t : table) (n : jname) : option job :=
    match tget t n with
    | Some j => Some j
    | None =>
        match n with
        | JProp s => if have_vals && prop_wanted cur notcur ds epoch s then Some (prop_job ds epoch s) else None
        | JEarly s => if have_vals && prop_wanted cur notcur ds epoch s && (0 <? c_prop_delay c)%Z
                      then Some (early_job s) else None
        | _ => None
        end
    end.

  (* ----- sync committee message preparation ----- *)
  Definition sync_pay (vals : list N) : payload := map (fun v => (v, 0, 0)) (sort_by (fun v => v) (dedup vals)).
  Definition sync_job (vals : list N) (s : N) : job :=
    {| j_name := JSync s; j_time := sync_time c s; j_pay := sync_pay vals |}.

  (* the scheduling happens at all: validators known, chain at or past the Altair fork, the node
     names at least one validator for the period of the window's first epoch *)
  Definition sync_active (altair_epoch cur : N) (e : env) (epoch : N) : bool :=
    let '(fe, _, _) := sync_window c altair_epoch cur epoch in
    e_vals e && negb (cur_epoch c cur <? altair_epoch) &&
    negb (match alookup (e_sync e) (fe / c_period c) with [] => true | _ => false end).

  Definition sync_wanted (altair_epoch cur : N) (e : env) (epoch : N) (notcur : bool) (s : N) : bool :=
    let '(_, fs, ls) := sync_window c altair_epoch cur epoch in
    sync_active altair_epoch cur e epoch && (fs <=? s) && (s <=? ls) && negb ((s =? cur) && notcur).

  Definition spec_sched_sync (altair_epoch cur : N) (e : env) (epoch : N) (notcur : bool)
             (t : table) (n : jname) : option job :=
    match tget t n with
    | Some j => Some j
    | None =>
        match n with
        | JSync s =>
            if sync_wanted altair_epoch cur e epoch notcur s
            then let '(fe, _, _) := sync_window c altair_epoch cur epoch in
                 Some (sync_job (alookup (e_sync e) (fe / c_period c)) s)
            else None
        | _ => None
        end
    end.

  (* ----- refreshes after a change of dependent root ----- *)
  (* refreshAttesterDutiesForEpoch: unless the epoch is still waiting for its preparation job,
     every attestation job of the epoch is dropped and the epoch is scheduled afresh from the
     duties the node reports now; the current slot is rescheduled only if its job was still there. *)
  Definition spec_refresh_att (cur : N) (e : env) (epoch : N) (t : table) (n : jname) : option job :=
    if texists t (JPrep epoch) then tget t n else
    let notcur := negb (epoch_has c epoch cur && texists t (JAtt cur)) in
    let ds := alookup (e_att e) epoch in
    match n with
    | JAtt s =>
        if epoch_has c epoch s
        then if e_vals e && att_wanted cur notcur ds epoch s then Some (att_job ds epoch s) else None
        else spec_sched_att cur (e_vals e) ds epoch notcur t n
    | _ => tget t n
    end.

  Definition spec_refresh_prop (cur : N) (e : env) (epoch : N) (t : table) (n : jname) : option job :=
    let ds := alookup (e_prop e) epoch in
    match n with
    | JProp s =>
        if epoch_has c epoch s
        then if e_vals e && prop_wanted cur true ds epoch s then Some (prop_job ds epoch s) else None
        else spec_sched_prop cur (e_vals e) ds epoch true t n
    | JEarly s =>
        if epoch_has c epoch s
        then if e_vals e && prop_wanted cur true ds epoch s && (0 <? c_prop_delay c)%Z then Some (early_job s) else None
        else spec_sched_prop cur (e_vals e) ds epoch true t n
    | _ => tget t n
    end.
End Spec.

(* ------------------------------------------------------------------------------------------- *)
(* Vocabulary of the history-level theorems. *)

(* one job per name *)
Definition twf (t : table) : Prop := NoDup (map j_name t).

Section Timing.
  Variable c : config.
  Let p := c_ct c.

  (* the time a job of that name must have (the epoch-preparation job is not tied to a duty) *)
  Definition time_of (n : jname) : option Z :=
    match n with
    | JAtt s => Some (start_of_slot p s + c_att_delay c)%Z
    | JProp s => Some (start_of_slot p s + c_prop_delay c)%Z
    | JEarly s => Some (start_of_slot p s)
    | JSync s => Some (sync_time c s)
    | JPrep _ => None
    end.

  Definition canon_job (n : jname) (j : job) : Prop :=
    j_name j = n /\ match time_of n with Some z => j_time j = z | None => True end.

  (* every job is filed under its own name and timed at its slot's start plus the configured delay *)
  Definition timed (t : table) : Prop := forall n j, tget t n = Some j -> canon_job n j.
  Definition tbl_ok (t : table) : Prop := twf t /\ timed t.
End Timing.

(* after a start-up every job concerns a slot strictly after the current one *)
Definition later_name (cur : N) (n : jname) : Prop :=
  match n with
  | JAtt s | JProp s | JEarly s | JSync s => cur < s
  | JPrep _ => False
  end.
Definition later (cur : N) (t : table) : Prop := forall n j, tget t n = Some j -> later_name cur n.

Definition not_start (o : op) : Prop := match o with Start => False | _ => True end.

(* the slots attested for / proposed for so far, oldest first *)
Definition att_slots (st : state) : list N := map fst (st_att_log st).
Definition prop_slots (st : state) : list N := map fst (st_prop_log st).

Section Discipline.
  Variable shadowed : bool.
  Variable c : config.

  (* the uint64 slot arithmetic of the next three epochs does not wrap *)
  Definition bounded (s : N) : Prop := (s / ct_spe (c_ct c) + 3) * ct_spe (c_ct c) < two64.

  (* The discipline of a history: the events a running Vouch can see.  The clock moves forward;
     a job runs at or after the start of its slot (early only through the fast-track and
     propose-early paths, which are part of Head / Fire JEarly); the epoch ticker really runs only
     in the first slot of an epoch later than the one the process started in (the periodic job's
     first run is at the start of the NEXT epoch); "Prepare for epoch e" runs before epoch e
     begins; the entry points reachable only through the harness hooks are not events.
     [g] is the epoch in which the running process started (ghost). *)
  Definition op_ok (g : N) (st : state) (o : op) : Prop :=
    match o with
    | Advance s => st_cur st <= s /\ bounded s
    | SetEnv _ => True
    | Start => True
    | Tick => (Z.of_N (st_cur st / ct_spe (c_ct c)) <= st_tick st)%Z       (* a repeated tick: guarded *)
              \/ (g < st_cur st / ct_spe (c_ct c) /\ st_cur st = (st_cur st / ct_spe (c_ct c)) * ct_spe (c_ct c))
    | Head _ _ _ => True
    | Fire (JAtt s) _ | Fire (JProp s) _ | Fire (JEarly s) _ => s <= st_cur st
    | Fire (JPrep e) _ => st_cur st / ct_spe (c_ct c) < e /\ e * ct_spe (c_ct c) < two64
    | Fire (JSync _) _ => True
    | RefreshAtt _ => True
    | RefreshProp ep => ep = st_cur st / ct_spe (c_ct c)
    | SchedAtt _ _ | SchedProp _ _ | SchedSync _ _ | RefreshSync _ => False
    end.

  Definition ghost (g : N) (st : state) (o : op) : N :=
    match o with Start => st_cur st / ct_spe (c_ct c) | _ => g end.

  Fixpoint hist_ok (g : N) (st : state) (ops : list op) : Prop :=
    match ops with
    | [] => True
    | o :: ops' => op_ok g st o /\ hist_ok (ghost g st o) (step shadowed c st o) ops'
    end.
  (* the discipline, decidable *)
  Definition bounded_b (s : N) : bool := (s / ct_spe (c_ct c) + 3) * ct_spe (c_ct c) <? two64.
  Definition op_ok_b (g : N) (st : state) (o : op) : bool :=
    match o with
    | Advance s => (st_cur st <=? s) && bounded_b s
    | SetEnv _ | Start | Head _ _ _ | RefreshAtt _ => true
    | Tick => (Z.of_N (st_cur st / ct_spe (c_ct c)) <=? st_tick st)%Z
              || ((g <? st_cur st / ct_spe (c_ct c)) && (st_cur st =? (st_cur st / ct_spe (c_ct c)) * ct_spe (c_ct c)))
    | Fire (JAtt s) _ | Fire (JProp s) _ | Fire (JEarly s) _ => s <=? st_cur st
    | Fire (JPrep e) _ => (st_cur st / ct_spe (c_ct c) <? e) && (e * ct_spe (c_ct c) <? two64)
    | Fire (JSync _) _ => true
    | RefreshProp ep => ep =? st_cur st / ct_spe (c_ct c)
    | SchedAtt _ _ | SchedProp _ _ | SchedSync _ _ | RefreshSync _ => false
    end.


  Fixpoint hist_ok_b (g : N) (st : state) (ops : list op) : bool :=
    match ops with
    | [] => true
    | o :: ops' => op_ok_b g st o && hist_ok_b (ghost g st o) (step shadowed c st o) ops'
    end.

End Discipline.

(* ------------------------------------------------------------------------------------------- *)
(* MergeDuties: the (validator, committee, position) entries of a merged duty and of a list. *)
Definition tuples (m : mduty) : list (N * N * N) := combine (combine (md_vals m) (md_comms m)) (md_vcis m).
Definition flat (acc : list mduty) : list (N * (N * N * N)) :=
  flat_map (fun m => map (fun t => (md_slot m, t)) (tuples m)) acc.
Definition entry (d : fduty) : N * (N * N * N) := (fd_slot d, (fd_val d, fd_comm d, fd_vci d)).

(* parallel arrays of equal length, not empty, one committee size per entry *)
Definition wf_m (m : mduty) : Prop :=
  length (md_vals m) = length (md_comms m) /\ length (md_vals m) = length (md_vcis m) /\
  md_vals m <> [] /\ map fst (md_clens m) = md_comms m.
