(* C20 (goroutines): the fan-out / first-answer pattern.
   Transcribed from the seven `first` strategies
     strategies/{attestationdata,aggregateattestation,beaconblockheader,beaconblockproposal,
                 beaconblockroot,signedbeaconblock,synccommitteecontribution}/first/*.go
   and services/beaconblockproposer/standard/propose.go:unblindProposal.  All eight have this shape:

       respCh := make(chan T, CAP)
       for _, provider := range providers {            // n goroutines
           go func() {
               resp, err := provider.Call(ctx)          // [Return i ok]: the call comes back
               if err != nil { return }                 //   an error: the goroutine ends
               respCh <- resp                           // [Send i]: needs room in the buffer (or blocks)
           }()
       }
       select {
       case <-ctx.Done(): return error                  // [Timeout]: the collector gives up
       case r := <-respCh: return r                     // [Recv]: the collector takes one answer
       }

   The collector receives at most [k] times (k = 1 in all eight).  A goroutine that has a
   successful answer and finds the buffer full stays blocked on the send for ever once the
   collector is gone: nobody receives from respCh again.
   The `first` strategies run under context.WithTimeout, so [Timeout] eventually happens;
   unblindProposal runs under the caller's context, which has no deadline ([has_timeout] = false);
   instead (now) its collector also waits on a channel that is closed when every provider has
   given up without an answer ([f_detect] = true; action [GiveUp]).  On the tree before that
   repair ([f_detect] = false) the collector waits for ever when every relay fails.

   A handoff to a collector that is already waiting is modelled as Send followed by Recv (the
   buffer has capacity >= 1 in every instance).
   Definitions only. *)
From Verif Require Import Lib.Base.

Inductive sstat :=
| SCall        (* the provider call has not returned yet *)
| SReady       (* returned successfully; about to send / blocked on the send *)
| SDone.       (* the goroutine has ended (error return, or the send went through) *)

Definition sstat_eqb (a b : sstat) : bool :=
  match a, b with
  | SCall, SCall | SReady, SReady | SDone, SDone => true
  | _, _ => false
  end.

Record fstate := {
  f_snd : list sstat;     (* the n sender goroutines *)
  f_cap : N;              (* capacity of respCh *)
  f_buf : N;              (* answers sitting in respCh *)
  f_k : N;                (* the collector receives at most k answers *)
  f_recvd : N;            (* answers the collector has taken *)
  f_coll_done : bool;     (* the collector has returned *)
  f_has_timeout : bool;   (* the collector's context has a deadline *)
  f_detect : bool;        (* the collector is told when every provider has failed *)
  f_succ : N              (* GHOST: provider calls that returned successfully so far *)
}.

Inductive fact :=
| Return (i : nat) (ok : bool)
| Send (i : nat)
| Recv
| Timeout
| GiveUp.      (* the collector learns that every provider has given up without an answer *)

Fixpoint set_nth {A} (l : list A) (i : nat) (x : A) : list A :=
  match l, i with
  | [], _ => []
  | _ :: l', O => x :: l'
  | y :: l', S i' => y :: set_nth l' i' x
  end.

Definition with_snd (s : fstate) (l : list sstat) : fstate :=
  {| f_snd := l; f_cap := f_cap s; f_buf := f_buf s; f_k := f_k s; f_recvd := f_recvd s;
     f_coll_done := f_coll_done s; f_has_timeout := f_has_timeout s; f_detect := f_detect s; f_succ := f_succ s |}.

Definition count_stat (x : sstat) (l : list sstat) : N :=
  N.of_nat (length (filter (sstat_eqb x) l)).

Definition fstep (s : fstate) (a : fact) : option fstate :=
  match a with
  | Return i ok =>
      match nth_error (f_snd s) i with
      | Some SCall =>
          Some {| f_snd := set_nth (f_snd s) i (if ok then SReady else SDone);
                  f_cap := f_cap s; f_buf := f_buf s; f_k := f_k s; f_recvd := f_recvd s;
                  f_coll_done := f_coll_done s; f_has_timeout := f_has_timeout s; f_detect := f_detect s;
                  f_succ := if ok then f_succ s + 1 else f_succ s |}
      | _ => None
      end
  | Send i =>
      match nth_error (f_snd s) i with
      | Some SReady =>
          if f_buf s <? f_cap s then
            Some {| f_snd := set_nth (f_snd s) i SDone;
                    f_cap := f_cap s; f_buf := f_buf s + 1; f_k := f_k s; f_recvd := f_recvd s;
                    f_coll_done := f_coll_done s; f_has_timeout := f_has_timeout s; f_detect := f_detect s; f_succ := f_succ s |}
          else None
      | _ => None
      end
  | Recv =>
      if negb (f_coll_done s) && (0 <? f_buf s) && (f_recvd s <? f_k s) then
        Some {| f_snd := f_snd s; f_cap := f_cap s; f_buf := f_buf s - 1; f_k := f_k s;
                f_recvd := f_recvd s + 1;
                f_coll_done := (f_k s <=? f_recvd s + 1);
                f_has_timeout := f_has_timeout s; f_detect := f_detect s; f_succ := f_succ s |}
      else None
  | Timeout =>
      if negb (f_coll_done s) && f_has_timeout s then
        Some {| f_snd := f_snd s; f_cap := f_cap s; f_buf := f_buf s; f_k := f_k s; f_recvd := f_recvd s;
                f_coll_done := true; f_has_timeout := f_has_timeout s; f_detect := f_detect s; f_succ := f_succ s |}
      else None
  | GiveUp =>
      (* allFailedCh is closed by the last of the n goroutines to end without an answer *)
      if negb (f_coll_done s) && f_detect s && (count_stat SCall (f_snd s) =? 0) && (f_succ s =? 0) then
        Some {| f_snd := f_snd s; f_cap := f_cap s; f_buf := f_buf s; f_k := f_k s; f_recvd := f_recvd s;
                f_coll_done := true; f_has_timeout := f_has_timeout s; f_detect := f_detect s; f_succ := f_succ s |}
      else None
  end.

Definition finit (n : nat) (cap k : N) (has_timeout detect : bool) : fstate :=
  {| f_snd := repeat SCall n; f_cap := cap; f_buf := 0; f_k := k; f_recvd := 0;
     f_coll_done := (k =? 0); f_has_timeout := has_timeout; f_detect := detect; f_succ := 0 |}.

Definition fexec (s : fstate) (a : fact) : fstate :=
  match fstep s a with Some s' => s' | None => s end.

Definition frun (sch : list fact) (s : fstate) : fstate := fold_left fexec sch s.

(* goroutines that hold an answer and have not been able to send it *)
Definition blocked (s : fstate) : N := count_stat SReady (f_snd s).
Definition calling (s : fstate) : N := count_stat SCall (f_snd s).

(* Nothing can move any more: every provider call has returned, no sender can send, the collector
   cannot receive and (if it can time out, or be told that everybody failed) has returned. *)
Definition final (s : fstate) : bool :=
  (calling s =? 0) &&
  ((blocked s =? 0) || (f_cap s <=? f_buf s)) &&
  (f_coll_done s ||
   (negb (f_has_timeout s) && (f_buf s =? 0) && negb (f_detect s && (f_succ s =? 0)))).

(* the collector waits for ever: it has not returned, cannot time out, and no answer will come *)
Definition collector_stuck (s : fstate) : bool :=
  negb (f_coll_done s) && negb (f_has_timeout s) && negb (f_detect s) &&
  (calling s =? 0) && (f_buf s =? 0) && (blocked s =? 0).

(* The formula the goroutine counts are compared with. *)
Definition leak_formula (succ cap recvd : N) : N := succ - cap - recvd.   (* truncated subtraction on N: max 0 *)

(* --- the scripted scenario the harness runs: providers are released one at a time, the
   scheduler lets every goroutine run until it blocks after each release (so Send / Recv happen
   as early as they can), and the collector's timeout, if any, fires at a given position. *)
Inductive fev :=
| FRelease (i : nat) (ok : bool)    (* provider i returns *)
| FTimeout.                         (* the collector's context expires *)

(* all sends that can go through, in index order, interleaved with the collector's receive *)
Fixpoint settle_sends (n : nat) (i : nat) (s : fstate) : fstate :=
  match n with
  | O => s
  | S n' => settle_sends n' (S i) (fexec (fexec s (Send i)) Recv)
  end.

Definition settle (s : fstate) : fstate := fexec (settle_sends (length (f_snd s)) 0 s) GiveUp.

Definition fev_apply (s : fstate) (e : fev) : fstate :=
  match e with
  | FRelease i ok => settle (fexec s (Return i ok))
  | FTimeout => settle (fexec s Timeout)
  end.

Definition scenario (n : nat) (cap k : N) (has_timeout detect : bool) (evs : list fev) : fstate :=
  fold_left fev_apply evs (finit n cap k has_timeout detect).
