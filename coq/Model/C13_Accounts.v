(* C13 — executable model of
     services/accountmanager/dirk/service.go     (refreshAccounts, accountPathsToVerificationRegexes,
                                                  fetchAccountsForWallet, accountsForEpoch[ByIndex]WithFilter)
     services/accountmanager/wallet/service.go   (the same functions of the wallet manager)
     services/accountmanager/utils/utils.go      (IsSyncCommitteeEligible)
     services/validatorsmanager/standard         (RefreshValidatorsFromBeaconNode, ValidatorsByPubKey)
     go-eth2-client api/v1 ValidatorToState      (library function the filters call)
   Definitions only.  Written from the code, statement by statement; the differences between the
   two managers (which anchors are stripped, the `.*` default, the short circuit, the retention of
   the old account list) are kept.

   Regular expressions.  The code builds the *text* "^" + wallet part + "/" + account part + "$"
   and compiles it.  The model does the same string surgery on the specifier; for the two parts it
   asks a parse oracle [parse : string -> option (list re)] (Go's regexp/syntax, run by the harness
   on each part standalone: None = does not compile, Some alternatives = the top-level
   alternatives of the part) and joins the pieces with [textual_concat], which reproduces what
   compiling the concatenated text does: a top-level `|` of a part would escape the anchors, which
   is why the code encloses a part containing `|` in (?: ) first (utils.GroupAlternatives). *)
From Verif Require Import Lib.Base Lib.RegexM.
From Coq Require Import String Ascii.
Open Scope N_scope.

(* ---------------------------------------------------------------------------------------------
   String surgery (strings.Split, TrimPrefix, TrimSuffix, HasSuffix, utils.HasEndAnchor). *)
Open Scope string_scope.

Fixpoint split_slash (s : string) : list string :=
  match s with
  | EmptyString => [EmptyString]
  | String c s' =>
      if Ascii.eqb c "/" then EmptyString :: split_slash s'
      else match split_slash s' with
           | [] => [String c EmptyString]
           | x :: xs => String c x :: xs
           end
  end.

Definition trim_prefix_caret (s : string) : string :=
  match s with
  | String c s' => if Ascii.eqb c "^" then s' else s
  | EmptyString => s
  end.

Fixpoint has_suffix_dollar (s : string) : bool :=
  match s with
  | EmptyString => false
  | String c EmptyString => Ascii.eqb c "$"
  | String _ s' => has_suffix_dollar s'
  end.

Fixpoint trim_suffix_dollar (s : string) : string :=
  match s with
  | EmptyString => EmptyString
  | String c EmptyString => if Ascii.eqb c "$" then EmptyString else s
  | String c s' => String c (trim_suffix_dollar s')
  end.

(* utils.HasEndAnchor: the text ends with a `$` that is an anchor, i.e. one that is not escaped (an
   even number of backslashes precedes it) *)
Fixpoint count_backslashes (l : list ascii) : nat :=
  match l with
  | c :: l' => if Ascii.eqb c "\" then S (count_backslashes l') else O
  | [] => O
  end.
Definition has_end_anchor (s : string) : bool :=
  has_suffix_dollar s &&
  match rev (list_ascii_of_string s) with
  | _ :: rest => Nat.even (count_backslashes rest)
  | [] => false
  end.
(* utils.TrimEndAnchor *)
Definition trim_end_anchor (s : string) : string :=
  if has_end_anchor s then trim_suffix_dollar s else s.

Definition strip_anchors (s : string) : string := trim_end_anchor (trim_prefix_caret s).

Fixpoint has_char (c : ascii) (s : string) : bool :=
  match s with
  | EmptyString => false
  | String x s' => Ascii.eqb x c || has_char c s'
  end.

(* utils.GroupAlternatives on the text, and what it does to the part's top-level alternatives *)
Definition has_bar (s : string) : bool := has_char "|"%char s.
Definition group_text (s : string) : string := if has_bar s then "(?:" ++ s ++ ")" else s.

Definition slash : re := Chr 47.
Definition any_text : string := ".*".
Close Scope string_scope.

(* ---------------------------------------------------------------------------------------------
   Data. *)
Record account := {
  a_id : N;            (* identifies the account and its public key *)
  a_wallet : string;
  a_name : string;
  a_locked : bool      (* wallet manager: no configured passphrase unlocks it *)
}.

Record val := {
  v_pk : N;            (* public key = id of the account holding it *)
  v_index : N;
  v_elig : N;          (* activation eligibility epoch *)
  v_act : N;
  v_exit : N;
  v_wd : N;            (* withdrawable epoch *)
  v_slashed : bool;
  v_bal : N            (* effective balance *)
}.

Inductive vstate :=
| SUnknown | SPendingInitialized | SPendingQueued | SActiveOngoing | SActiveExiting | SActiveSlashed
| SExitedUnslashed | SExitedSlashed | SWithdrawalPossible | SWithdrawalDone.

(* go-eth2-client api/v1 ValidatorToState with balance = nil *)
Definition validator_to_state (v : val) (e far : N) : vstate :=
  if e <? v_act v then
    (if v_elig v =? far then SPendingInitialized else SPendingQueued)
  else if v_exit v =? far then SActiveOngoing
  else if e <? v_exit v then
    (if v_slashed v then SActiveSlashed else SActiveExiting)
  else if e <? v_wd v then
    (if v_slashed v then SExitedSlashed else SExitedUnslashed)
  else if v_bal v =? 0 then SWithdrawalDone
  else SWithdrawalPossible.

(* the filter of ValidatingAccountsForEpoch[ByIndex] *)
Definition is_validating (s : vstate) : bool :=
  match s with SActiveOngoing | SActiveExiting => true | _ => false end.

(* utils.IsSyncCommitteeEligible *)
Definition is_sync_eligible (s : vstate) : bool :=
  match s with
  | SActiveOngoing | SActiveExiting | SExitedUnslashed | SActiveSlashed | SExitedSlashed
  | SWithdrawalPossible => true
  | _ => false
  end.

(* ---------------------------------------------------------------------------------------------
   Specifier -> pattern. *)
Section Patterns.
  Local Open Scope string_scope.
  Variable parse : string -> option (list re).

  Record pattern := {
    p_key : string;     (* dirk: the wallet the pattern is filed under *)
    p_text : string;    (* the text handed to regexp.Compile *)
    p_re : re           (* what that text means *)
  }.

  Definition group (text : string) (alternatives : list re) : list re :=
    if has_bar text then [alts alternatives] else alternatives.

  Definition first_part (path : string) : string :=
    match split_slash path with p0 :: _ => p0 | [] => "" end.

  (* dirk accountPathsToVerificationRegexes, one path *)
  Definition dirk_parts (path : string) : option (string * string) :=
    match split_slash path with
    | [] => None
    | p0 :: rest =>
        if String.eqb p0 "" then None
        else
          let p1 := match rest with
                    | [] => any_text
                    | x :: _ => if String.eqb x "" then any_text else x
                    end in
          Some (strip_anchors p0, strip_anchors p1)
    end.

  Definition dirk_pattern (path : string) : option pattern :=
    match dirk_parts path with
    | None => None
    | Some (p0, p1) =>
        match parse p0, parse p1 with
        | Some ws, Some accs =>
            Some {| p_key := p0;
                    p_text := "^" ++ group_text p0 ++ "/" ++ group_text p1 ++ "$";
                    p_re := textual_concat [[Bol]; group p0 ws; [slash]; group p1 accs; [Eol]] |}
        | _, _ => None
        end
    end.

  (* wallet accountPathsToVerificationRegexes, one path: the wallet part is used as it is, an
     empty account part stays empty, the anchors of the account part are removed *)
  Definition wallet_parts (path : string) : option (string * string) :=
    match split_slash path with
    | [] => None
    | p0 :: rest =>
        if String.eqb p0 "" then None
        else
          let p1 := match rest with [] => any_text | x :: _ => x end in
          Some (p0, strip_anchors p1)
    end.

  Definition wallet_pattern (path : string) : option pattern :=
    match wallet_parts path with
    | None => None
    | Some (p0, p1) =>
        match parse p0, parse p1 with
        | Some ws, Some accs =>
            Some {| p_key := p0;
                    p_text := "^" ++ group_text p0 ++ "/" ++ group_text p1 ++ "$";
                    p_re := textual_concat [[Bol]; group p0 ws; [slash]; group p1 accs; [Eol]] |}
        | _, _ => None
        end
    end.

  Fixpoint filter_map {A B} (f : A -> option B) (l : list A) : list B :=
    match l with
    | [] => []
    | x :: l' => match f x with Some y => y :: filter_map f l' | None => filter_map f l' end
    end.

  Definition dirk_patterns (paths : list string) : list pattern := filter_map dirk_pattern paths.
  Definition wallet_patterns (paths : list string) : list pattern := filter_map wallet_pattern paths.

  Definition full_name (a : account) : string := a_wallet a ++ "/" ++ a_name a.
  Definition pattern_matches (a : account) (p : pattern) : bool := search (p_re p) (codes (full_name a)).

  (* dirk fetchAccountsForWallet: the patterns filed under the wallet's name; all accounts pass
     when there is exactly one and its text is ^<wallet>/.*$ *)
  Definition dirk_admits (pats : list pattern) (a : account) : bool :=
    let mine := filter (fun p => String.eqb (p_key p) (a_wallet a)) pats in
    let short_circuit :=
      match mine with
      | [p] => String.eqb (p_text p) ("^" ++ a_wallet a ++ "/.*$")
      | _ => false
      end in
    short_circuit || existsb (pattern_matches a) mine.

  (* wallet fetchAccountsForWallet: every pattern is tried on every account of every opened
     wallet; the account must then unlock *)
  Definition wallet_admits (pats : list pattern) (a : account) : bool :=
    existsb (pattern_matches a) pats && negb (a_locked a).
End Patterns.

(* ---------------------------------------------------------------------------------------------
   The two stores and their refresh procedures. *)
Inductive mgr := Dirk | Wallet.

Record config := {
  c_mgr : mgr;
  c_paths : list string;            (* the configured account specifiers *)
  c_universe : list account;        (* every account any wallet may ever offer in this run *)
  c_far : N                         (* FAR_FUTURE_EPOCH as given by the provider *)
}.

Record state := {
  st_accounts : list N;             (* ids of the known accounts (Go: s.accounts / s.pubKeys) *)
  st_vals : list val                (* the validators manager's maps *)
}.
Definition init : state := {| st_accounts := []; st_vals := [] |}.

(* how the beacon node reacts to the validators requests of one refresh: it fails every request,
   it answers every request from l, or it fails every request that names the public key pk
   (a request that times out or is rejected because of what it contains) and answers the others
   from l *)
Inductive vout := VErr | VOk (l : list val) | VFailOn (pk : N) (l : list val).

(* the validators the node may draw its answers from *)
Definition vout_vals (vo : vout) : list val :=
  match vo with VErr => [] | VOk l => l | VFailOn _ l => l end.

Definition mem_N (x : N) (l : list N) : bool := memb N.eqb x l.
Definition mem_str (x : string) (l : list string) : bool := memb String.eqb x l.

Section Run.
  Variable parse : string -> option (list re).
  Variable cfg : config.

  (* both managers open one wallet per first path component (before any stripping) *)
  Definition wallet_names : list string := map first_part (c_paths cfg).

  Definition admitted (offered : list N) : list N :=
    let pats := match c_mgr cfg with
                | Dirk => dirk_patterns parse (c_paths cfg)
                | Wallet => wallet_patterns parse (c_paths cfg)
                end in
    let names := wallet_names in
    map a_id
      (filter (fun a => mem_N (a_id a) offered && mem_str (a_wallet a) names &&
                        match c_mgr cfg with
                        | Dirk => dirk_admits pats a
                        | Wallet => wallet_admits pats a
                        end)
              (c_universe cfg)).

  (* refreshAccounts: dirk keeps the old list when nothing was obtained, wallet replaces *)
  Definition refresh_accounts (old : list N) (offered : list N) : list N :=
    let new := admitted offered in
    match c_mgr cfg with
    | Dirk => if isnil new && negb (isnil old) then old else new
    | Wallet => new
    end.

  (* the node answers for the requested keys (all validators when none is named) *)
  Definition node_answer (l : list val) (pubkeys : list N) : list val :=
    if isnil pubkeys then l else filter (fun v => mem_N (v_pk v) pubkeys) l.

  (* the node's reply to ONE request for pubkeys: None = the request failed *)
  Definition node_reply (vo : vout) (pubkeys : list N) : option (list val) :=
    match vo with
    | VErr => None
    | VOk l => Some (node_answer l pubkeys)
    | VFailOn pk l => if mem_N pk pubkeys then None else Some (node_answer l pubkeys)
    end.

  (* RefreshValidatorsFromBeaconNode: ONE request for all the public keys; an error or an empty
     answer leaves the maps alone, anything else replaces them *)
  Definition refresh_validators (old : list val) (pubkeys : list N) (vo : vout) : list val :=
    match node_reply vo pubkeys with
    | None => old
    | Some got => if isnil got then old else got
    end.

  Definition refresh (s : state) (offered : list N) (vo : vout) : state :=
    let accs := refresh_accounts (st_accounts s) offered in
    let vals :=
      match c_mgr cfg with
      | Dirk => if isnil accs then st_vals s else refresh_validators (st_vals s) accs vo
      | Wallet => refresh_validators (st_vals s) accs vo
      end in
    {| st_accounts := accs; st_vals := vals |}.

  (* ValidatorsByPubKey + the state filter + the index key *)
  Definition find_val (vals : list val) (pk : N) : option val :=
    find (fun v => v_pk v =? pk) vals.

  Definition query (s : state) (sync : bool) (e : N) (idx : option (list N)) : list (N * N) :=
    let keep := if sync then is_sync_eligible else is_validating in
    sort_by fst
      (filter_map
         (fun pk =>
            match find_val (st_vals s) pk with
            | None => None
            | Some v =>
                if match idx with Some l => mem_N (v_index v) l | None => true end
                   && keep (validator_to_state v e (c_far cfg))
                then Some (v_index v, pk) else None
            end)
         (st_accounts s)).

  Inductive op :=
  | Refresh (offered : list N) (vo : vout)
  | Query (sync : bool) (e : N) (idx : option (list N)).

  Inductive out :=
  | OProbe (known : list N)          (* after a refresh: ids answered by AccountByPublicKey *)
  | OQuery (l : list (N * N))        (* (validator index, account id), sorted by index *)
  | OCtorErr                         (* wallet manager: New failed *)
  | ODead.                           (* operation on a service that was never built *)

  Definition step (s : state) (o : op) : state * out :=
    match o with
    | Refresh offered vo =>
        let s' := refresh s offered vo in (s', OProbe (sort_by (fun x => x) (st_accounts s')))
    | Query sync e idx => (s, OQuery (query s sync e idx))
    end.

  Fixpoint run_from (s : state) (ops : list op) : list out :=
    match ops with
    | [] => []
    | o :: ops' => let '(s', x) := step s o in x :: run_from s' ops'
    end.

  (* the first operation is the constructor: the wallet manager's New fails when its first
     validator refresh (for the accounts it has just admitted) fails; dirk's New only logs that *)
  Definition ctor_fails (ops : list op) : bool :=
    match c_mgr cfg, ops with
    | Wallet, Refresh offered vo :: _ =>
        match node_reply vo (refresh_accounts [] offered) with None => true | Some _ => false end
    | _, _ => false
    end.

  Definition run (ops : list op) : list out :=
    if ctor_fails ops then OCtorErr :: map (fun _ => ODead) (tl ops) else run_from init ops.
End Run.
