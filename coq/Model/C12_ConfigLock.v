(* C12 -- the block relay keeps answering whatever the config source does.
   Executable model, definitions only.

   Part 1  the configuration state machine of services/blockrelay/standard/executionconfig.go
           (fetchExecutionConfig / obtainExecutionConfig) over fetch outcomes, and what
           ProposerConfig / auctionBlock answer for a given active configuration.
   Part 2  Go's sync.RWMutex (readers, holding writer, announced writer; writer-preferring) and
           thread programs given as control-flow graphs of lock operations; any number of
           threads, any schedule.  The boolean [wf_prog] (balanced on every path, no acquisition
           while holding, release only of what is held) is what the theorems assume.
   Part 3  projection of the C17 translator's graphs onto one mutex (the obligation
           [wf_prog (project mu g_blockrelay_standard)] is re-derived from the source on every run).
   Part 4  hand transcription of the four thread programs (current code, and the code before
           6cf77a3) and the scenario interpreter used by the correspondence check: the harness's
           command lists (spawn a request / release a gate) run on the SAME [cstep] function as
           the theorems speak about, with the configuration data attached. *)
From Verif Require Import Lib.Base Lib.Sched Lib.Lockset.

(* ============================================================================================ *)
(* Part 1: configuration state machine                                                           *)

(* A successfully parsed document.  [d_id] identifies it (the harness encodes it in the fee
   recipient); [d_bad] are the validators whose settings the document makes unresolvable
   (v2: a proposer entry without account and validator is reached before a matching entry);
   [d_relay]: the document configures a relay. *)
Record doc := { d_id : N; d_bad : list N; d_relay : bool }.

(* what the configuration source answers to one fetch *)
Inductive fetch_outcome :=
| FOk (d : doc)      (* a valid document *)
| FErr               (* majordomo.Fetch fails *)
| FNil               (* obtainExecutionConfig returns (nil, nil): dynamic source, no public keys *)
| FMalformed.        (* content that blockrelay.UnmarshalJSON rejects (empty, truncated, bad version, ...) *)

(* what the validating-accounts provider answers at the start of a refresh *)
Inductive accounts_outcome := AccErr | AccNone | AccSome.

Record refresh := { rf_acc : accounts_outcome; rf_fetch : fetch_outcome }.

(* s.executionConfig: None = Go nil (ProposerConfig then answers with the fallback values) *)
Definition cfgstate := option doc.

(* obtainExecutionConfig: (configuration, error?) *)
Definition obtain (o : fetch_outcome) : option doc * bool :=
  match o with
  | FOk d => (Some d, false)
  | FErr => (None, true)
  | FMalformed => (None, true)
  | FNil => (None, false)
  end.

(* the part of fetchExecutionConfig after the accounts checks.  [start] is the value read under
   the read lock ("start with our current execution configuration"), [reread] the value of
   s.executionConfig read again (without lock) on the two failure branches, [url_set] is
   configURL != "". The result is what is then stored under the write lock. *)
Definition fetch_after_accounts (url_set : bool) (start reread : cfgstate) (o : fetch_outcome) : cfgstate :=
  if url_set then
    match obtain o with
    | (_, true) => reread           (* err != nil: restore current *)
    | (None, false) => reread       (* nil configuration: restore current *)
    | (Some d, false) => Some d
    end
  else start.

(* fetchExecutionConfig run alone (no concurrent writer): new value of s.executionConfig *)
Definition fetch_execution_config (url_set : bool) (r : refresh) (cur : cfgstate) : cfgstate :=
  match rf_acc r with
  | AccErr => cur                   (* "Failed to obtain validating accounts; falling back": return *)
  | AccNone => cur                  (* "No validating accounts": return *)
  | AccSome => fetch_after_accounts url_set cur cur (rf_fetch r)
  end.

Definition refresh_all (url_set : bool) (rs : list refresh) (init : cfgstate) : cfgstate :=
  fold_left (fun c r => fetch_execution_config url_set r c) rs init.

(* declarative side: the documents obtained successfully, in order; the last one, else [init] *)
Definition good (r : refresh) : list doc :=
  match rf_acc r, rf_fetch r with
  | AccSome, FOk d => [d]
  | _, _ => []
  end.
Definition goods (rs : list refresh) : list doc := flat_map good rs.
Definition last_good (rs : list refresh) (init : cfgstate) : cfgstate :=
  match rev (goods rs) with
  | d :: _ => Some d
  | [] => init
  end.

(* observable answers *)
Inductive result :=
| RFee (n : N)       (* settings resolved; fee recipient of document n (0 = the fallback fee recipient) *)
| RErr               (* an error was returned *)
| RNoRelays          (* auction: empty result because the settings name no relay *)
| RDone              (* refresh / registration round: returned *)
| RAny.              (* not compared *)

Definition is_bad (d : doc) (v : N) : bool := memb N.eqb v (d_bad d).

(* Service.ProposerConfig under the read lock *)
Definition proposer_config (c : cfgstate) (v : N) : result :=
  match c with
  | None => RFee 0                                         (* no configuration: fallback information *)
  | Some d => if is_bad d v then RErr else RFee (d_id d)
  end.

(* auctionBlock: ProposerConfig, then no relays -> empty result, else the builder-bid provider is
   asked with these settings *)
Definition auction_block (c : cfgstate) (v : N) : result :=
  match c with
  | None => RNoRelays
  | Some d => if is_bad d v then RErr else if d_relay d then RFee (d_id d) else RNoRelays
  end.

(* Requests made WITHOUT an account (the account argument of Service.ProposerConfig is nil): the
   resolver then knows the validator by its public key only, which is how the harness's documents
   name the validators, so the settings are the same as with the account.

   ValidatorRegistrations (registrations forwarded by beacon nodes for validators Vouch does not
   control): per registration ProposerConfig(ctx, nil, pubkey); on error the registration is skipped,
   else it is handed to every relay of the settings.  Observable: forwarded to the relay ([RDone]) or
   to nobody ([RNoRelays]). *)
Definition forward_registration (c : cfgstate) (v : N) : result :=
  match c with
  | None => RNoRelays                                      (* fallback information names no relay *)
  | Some d => if is_bad d v then RNoRelays else if d_relay d then RDone else RNoRelays
  end.

(* UnblindBlock -> unblindersForProposal: ProposerConfig(ctx, nil, pubkey); an error is returned as
   "failed to obtain proposer configuration" ([RErr]); otherwise the relays of the settings are asked
   for unblinding providers; the harness's relay does not unblind, so the call ends with "no
   unblinders obtained" ([RNoRelays]). *)
Definition unblinders_for_proposal (c : cfgstate) (v : N) : result :=
  match c with
  | None => RNoRelays
  | Some d => if is_bad d v then RErr else RNoRelays
  end.

(* ============================================================================================ *)
(* Part 2: RWMutex and thread programs                                                           *)

Local Open Scope nat_scope.

(* OBlock: a step that may have to wait for something else than this mutex (the acquisition of
   another mutex of the service).  For the lock under study it is a skip; [wf_prog] forbids it while
   the lock is held, so that the holders of the lock never wait for anything foreign. *)
Inductive op := OSkip | OBlock | ORLock | ORUnlock | OLock | OUnlock.

Record pnode := { p_op : op; p_succ : list nat }.
Definition prog := list pnode.

(* a thread is about to execute node pc; or has executed the first half of Lock at node pc
   (holds the writers' mutex, has announced itself to the readers, waits for them to drain);
   or has returned *)
Inductive tpc := PAt (pc : nat) | PAnn (pc : nat) | PDone.

Record thr := { t_pc : tpc; t_r : nat; t_w : bool }.   (* read holds, write hold *)

Inductive wstate := WNone | WPending (i : nat) | WHeld (i : nat).

Record lock := { l_readers : nat; l_writer : wstate }.

Record sys := { s_threads : list thr; s_lock : lock }.

Definition free_lock : lock := {| l_readers := 0; l_writer := WNone |}.

Definition init_sys (es : list nat) : sys :=
  {| s_threads := map (fun e => {| t_pc := PAt e; t_r := 0; t_w := false |}) es; s_lock := free_lock |}.

Definition next_pc (nd : pnode) (c : nat) : option tpc :=
  match p_succ nd with
  | [] => Some PDone
  | succs => option_map PAt (nth_error succs c)
  end.

Definition set_thread (s : sys) (i : nat) (t : thr) (l : lock) : sys :=
  {| s_threads := update (s_threads s) i t; s_lock := l |}.

(* action (i, c): thread i takes its next atomic step and continues with successor number c.
   RLock   enabled iff no writer holds or has announced (Go: readerCount >= 0)
   Lock    two steps: announce (enabled iff the writers' mutex is free: no writer holds or has
           announced), then acquire (enabled iff the readers have drained)
   RUnlock / Unlock need the corresponding hold (Go: fatal error otherwise) *)
Definition cstep (g : prog) (s : sys) (a : nat * nat) : option sys :=
  let '(i, c) := a in
  let L := s_lock s in
  match nth_error (s_threads s) i with
  | None => None
  | Some t =>
      match t_pc t with
      | PDone => None
      | PAt pc =>
          match nth_error g pc with
          | None => None
          | Some nd =>
              match p_op nd with
              | OSkip | OBlock =>
                  match next_pc nd c with
                  | Some pc' => Some (set_thread s i {| t_pc := pc'; t_r := t_r t; t_w := t_w t |} L)
                  | None => None
                  end
              | ORLock =>
                  match l_writer L, next_pc nd c with
                  | WNone, Some pc' =>
                      Some (set_thread s i {| t_pc := pc'; t_r := S (t_r t); t_w := t_w t |}
                                       {| l_readers := S (l_readers L); l_writer := WNone |})
                  | _, _ => None
                  end
              | ORUnlock =>
                  match t_r t, next_pc nd c with
                  | S r, Some pc' =>
                      Some (set_thread s i {| t_pc := pc'; t_r := r; t_w := t_w t |}
                                       {| l_readers := pred (l_readers L); l_writer := l_writer L |})
                  | _, _ => None
                  end
              | OLock =>
                  match l_writer L with
                  | WNone =>
                      Some (set_thread s i {| t_pc := PAnn pc; t_r := t_r t; t_w := t_w t |}
                                       {| l_readers := l_readers L; l_writer := WPending i |})
                  | _ => None
                  end
              | OUnlock =>
                  match l_writer L, t_w t, next_pc nd c with
                  | WHeld j, true, Some pc' =>
                      if (j =? i)%nat then
                        Some (set_thread s i {| t_pc := pc'; t_r := t_r t; t_w := false |}
                                         {| l_readers := l_readers L; l_writer := WNone |})
                      else None
                  | _, _, _ => None
                  end
              end
          end
      | PAnn pc =>
          match nth_error g pc with
          | None => None
          | Some nd =>
              match l_readers L, l_writer L, next_pc nd c with
              | O, WPending j, Some pc' =>
                  if (j =? i)%nat then
                    Some (set_thread s i {| t_pc := pc'; t_r := t_r t; t_w := true |}
                                     {| l_readers := 0; l_writer := WHeld i |})
                  else None
              | _, _, _ => None
              end
          end
      end
  end.

Definition finished (t : thr) : bool := match t_pc t with PDone => true | _ => false end.
Definition all_finished (s : sys) : bool := forallb finished (s_threads s).
Definition lock_is_free (l : lock) : bool :=
  match l_readers l, l_writer l with O, WNone => true | _, _ => false end.

(* --- well-formedness: a checked assignment of the hold on entry of every node --------------- *)

Inductive hold := H0 | HR | HW.

Definition hold_eqb (a b : hold) : bool :=
  match a, b with H0, H0 | HR, HR | HW, HW => true | _, _ => false end.
Definition ohold_eqb := option_eqb hold_eqb.

(* no acquisition while holding; release only of what is held *)
Definition transfer1 (o : op) (h : hold) : option hold :=
  match o, h with
  | OSkip, _ => Some h
  | OBlock, H0 => Some H0          (* nothing foreign is waited for while holding *)
  | ORLock, H0 => Some HR
  | OLock, H0 => Some HW
  | ORUnlock, HR => Some H0
  | OUnlock, HW => Some H0
  | _, _ => None
  end.

Definition hassign := list (option hold).

Definition check_pnode (ls : hassign) (n : nat) (nd : pnode) : bool :=
  match nth n ls None with
  | None => true                                   (* not reached *)
  | Some h =>
      match transfer1 (p_op nd) h with
      | None => false
      | Some h' =>
          match p_succ nd with
          | [] => hold_eqb h' H0                    (* balanced on every path *)
          | succs => forallb (fun s => ohold_eqb (nth s ls None) (Some h')) succs
          end
      end
  end.

Fixpoint check_pnodes (ls : hassign) (n : nat) (g : prog) : bool :=
  match g with
  | [] => true
  | nd :: g' => check_pnode ls n nd && check_pnodes ls (S n) g'
  end.

Definition wf_assignment (g : prog) (entries : list nat) (ls : hassign) : bool :=
  (length ls =? length g)%nat &&
  forallb (fun e => ohold_eqb (nth e ls None) (Some H0)) entries &&
  check_pnodes ls 0 g.

(* inference by a fuelled worklist; NOT trusted: only its checked result is used *)
Fixpoint hpropagate (fuel : nat) (g : prog) (work : list (nat * hold)) (ls : hassign) : hassign :=
  match fuel with
  | O => ls
  | S fuel' =>
      match work with
      | [] => ls
      | (n, h) :: work' =>
          match nth n ls None with
          | Some _ => hpropagate fuel' g work' ls
          | None =>
              let ls' := set_nth ls n (Some h) in
              match nth_error g n with
              | None => hpropagate fuel' g work' ls'
              | Some nd =>
                  match transfer1 (p_op nd) h with
                  | None => hpropagate fuel' g work' ls'
                  | Some h' => hpropagate fuel' g (map (fun s => (s, h')) (p_succ nd) ++ work') ls'
                  end
              end
          end
      end
  end.

Definition pedges (g : prog) : nat := fold_right (fun nd acc => (length (p_succ nd) + acc)%nat) 0%nat g.

Definition hinfer (g : prog) (entries : list nat) : hassign :=
  hpropagate (S (length g + pedges g + length entries)) g (map (fun e => (e, H0)) entries) (repeat None (length g)).

Definition wf_prog (g : prog) (entries : list nat) : bool := wf_assignment g entries (hinfer g entries).

(* the hold the static assignment gives a thread *)
Definition static_hold (ls : hassign) (t : thr) : option hold :=
  match t_pc t with
  | PAt pc => nth pc ls None
  | PAnn _ => Some H0
  | PDone => Some H0
  end.

Definition count_static (ls : hassign) (h : hold) (ts : list thr) : nat :=
  length (filter (fun t => ohold_eqb (static_hold ls t) (Some h)) ts).

(* nodes of the failing check, for reports *)
Fixpoint bad_pnodes_from (ls : hassign) (n : nat) (g : prog) : list nat :=
  match g with
  | [] => []
  | nd :: g' => if check_pnode ls n nd then bad_pnodes_from ls (S n) g' else n :: bad_pnodes_from ls (S n) g'
  end.
Definition wf_report (g : prog) (entries : list nat) : list nat := bad_pnodes_from (hinfer g entries) 0 g.

(* --- termination measure for programs without cycles ---------------------------------------- *)
(* [rank] assigns every node a number that strictly decreases along every edge; a thread's weight
   counts the atomic steps it can still take (two per node: Lock takes two). *)
Definition rank_ok (rank : list nat) (g : prog) : bool :=
  (length rank =? length g)%nat &&
  forallb (fun '(n, nd) => forallb (fun s => (nth s rank 0 <? nth n rank 0)%nat) (p_succ nd))
          (combine (seq 0 (length g)) g).

Definition tweight (rank : list nat) (t : thr) : nat :=
  match t_pc t with
  | PAt pc => (2 * nth pc rank 0 + 2)%nat
  | PAnn pc => (2 * nth pc rank 0 + 1)%nat
  | PDone => 0%nat
  end.

Definition weight (rank : list nat) (s : sys) : nat := list_sum (map (tweight rank) (s_threads s)).

(* longest-path rank of a chain-like graph, computed by fuelled iteration (not trusted: rank_ok checks it) *)
Definition rank_step (g : prog) (rank : list nat) : list nat :=
  map (fun nd => fold_right (fun s acc => Nat.max (S (nth s rank 0)) acc) 0%nat (p_succ nd)) g.
Fixpoint rank_iter (fuel : nat) (g : prog) (rank : list nat) : list nat :=
  match fuel with O => rank | S f => rank_iter f g (rank_step g rank) end.
Definition rank_infer (g : prog) : list nat := rank_iter (length g) g (repeat 0%nat (length g)).

(* ============================================================================================ *)
(* Part 3: projection of a translator graph onto one mutex                                       *)

(* [strict]: the acquisition of another mutex is a foreign wait (OBlock); otherwise it is a skip *)
Definition op_of (strict : bool) (mu : mutex) (i : instr) : op :=
  match i with
  | ILock m x => if (m =? mu)%N then (if x then OLock else ORLock) else if strict then OBlock else OSkip
  | IUnlock m x => if (m =? mu)%N then (if x then OUnlock else ORUnlock) else OSkip
  | _ => OSkip
  end.

Definition project_gen (strict : bool) (mu : mutex) (g : graph) : prog :=
  map (fun nd => {| p_op := op_of strict mu (n_instr nd); p_succ := n_succ nd |}) g.
Definition project := project_gen false.
(* the projection for a LEAF mutex: no other mutex may be acquired inside its critical sections *)
Definition project_leaf := project_gen true.

Definition mutexes_of (g : graph) : list mutex :=
  nodup N.eq_dec (flat_map (fun nd => match n_instr nd with ILock m _ => [m] | IUnlock m _ => [m] | _ => [] end) g).

(* every mutex of the service, taken alone, is used in a well-formed way *)
Definition wf_graph (g : graph) (entries : list nat) : bool :=
  forallb (fun mu => wf_prog (project mu g) entries) (mutexes_of g).
(* the mutexes inside whose critical sections no other mutex is acquired *)
Definition leaf_mutexes (g : graph) (entries : list nat) : list mutex :=
  filter (fun mu => wf_prog (project_leaf mu g) entries) (mutexes_of g).

(* ============================================================================================ *)
(* Part 4: hand transcription and scenario interpreter                                           *)

Inductive kind :=
| KLookup | KAuction | KReg | KRefresh
(* requests made without an account (account = nil): *)
| KLookupNA     (* Service.ProposerConfig(ctx, nil, pubkey) *)
| KBid          (* BuilderBid with nothing cached: builderBidMu; immediateBuilderBid -> auctionBlock(..., nil) *)
| KFwd          (* ValidatorRegistrations of a validator Vouch does not control *)
| KUnblind.     (* UnblindBlock -> unblindersForProposal *)

(* the answer of a request of kind [k] for validator [v] resolved against configuration [c] *)
Definition answer_of (k : kind) (c : cfgstate) (v : N) : result :=
  match k with
  | KAuction | KBid => auction_block c v
  | KFwd => forward_registration c v
  | KUnblind => unblinders_for_proposal c v
  | _ => proposer_config c v
  end.

(* micro-steps of the four request kinds; each is one node of the lock graph plus a data action *)
Inductive mstep :=
| MNop
| MForeign     (* acquisition of another mutex of the service (builderBidMu in BuilderBid), outside executionConfigMu *)
| MRLock | MRUnlock | MLock | MUnlock
| MGate        (* v2 ProposerConfig asks the account for its name: the harness can hold the request here, inside the read lock *)
| MRelay       (* the registrations are handed to the relays (submitRelayRegistrations: one network round trip per relay, waited
                  for): the harness's relay can sit on the POST and so hold the request here.  A wait for something foreign
                  ([OBlock]): [wf_prog] accepts it only where the lock is not held *)
| MRead        (* resolve the settings from s.executionConfig *)
| MBranchErr   (* pre-6cf77a3 auctionBlock: "if err != nil { return }" before the outer RUnlock *)
| MRegRead     (* registration round: reads s.executionConfig (through currentExecutionConfig, under the read lock, since the C17 repair) *)
| MStart       (* refresh: executionConfig := s.executionConfig (under the read lock) *)
| MObtain      (* refresh: obtainExecutionConfig; on failure executionConfig = s.executionConfig (no lock) *)
| MWrite.      (* refresh: s.executionConfig = executionConfig (under the write lock) *)

Definition op_of_mstep (m : mstep) : op :=
  match m with
  | MRLock => ORLock | MRUnlock => ORUnlock | MLock => OLock | MUnlock => OUnlock
  | MForeign | MRelay => OBlock
  | _ => OSkip
  end.

Record spawn := { sp_kind : kind; sp_v : N; sp_gate : bool; sp_ref : refresh }.

(* [pre_fix] = the code before commit 6cf77a3 (outer RLock in auctionBlock, leaked on error) *)
Definition program (pre_fix : bool) (sp : spawn) : list mstep :=
  match sp_kind sp with
  | KLookup => [MRLock; MGate; MRead; MRUnlock]                 (* ProposerConfig: RLock; defer RUnlock *)
  | KAuction =>
      if pre_fix
      then [MRLock; MRLock; MGate; MRead; MRUnlock; MBranchErr; MRUnlock; MNop]
      else [MRLock; MGate; MRead; MRUnlock]                      (* auctionBlock -> ProposerConfig *)
  | KReg => [MRLock; MRegRead; MRUnlock; MRLock; MRegRead; MRUnlock; MRelay]   (* currentExecutionConfig() twice: nil test, then the round's snapshot; submit *)
  | KRefresh =>
      match rf_acc (sp_ref sp) with
      | AccSome => [MRLock; MStart; MRUnlock; MObtain; MLock; MWrite; MUnlock]
      | _ => [MNop]                                              (* early return before any lock *)
      end
  (* without an account nobody is asked for a name: no MGate (setAccountName returns at once) *)
  | KLookupNA => [MRLock; MRead; MRUnlock]
  | KBid => [MForeign; MRLock; MRead; MRUnlock; MNop]            (* builderBidMu.Lock(); ...; deferred Unlock *)
  | KFwd => [MNop; MRLock; MRead; MRUnlock; MRelay]              (* controlledValidatorsMu (read, released); lookup; submit *)
  | KUnblind => [MNop; MRLock; MRead; MRUnlock; MNop]            (* validators provider; lookup; providers *)
  end.

(* a straight-line program becomes a chain of nodes starting at [base]; MBranchErr has a second
   successor: the last node of the chain *)
Fixpoint chain (base last : nat) (ms : list mstep) : prog :=
  match ms with
  | [] => []
  | [m] => [{| p_op := op_of_mstep m; p_succ := [] |}]
  | m :: ms' =>
      {| p_op := op_of_mstep m;
         p_succ := match m with MBranchErr => [S base; last] | _ => [S base] end |} :: chain (S base) last ms'
  end.

(* all programs of a scenario side by side: (micro-steps, graph, entry of each program) *)
Fixpoint layout (base : nat) (ps : list (list mstep)) : list mstep * prog * list nat :=
  match ps with
  | [] => ([], [], [])
  | p :: ps' =>
      let n := length p in
      let '(ms, g, es) := layout (base + n) ps' in
      (p ++ ms, chain base (base + n - 1) p ++ g, base :: es)
  end.

Definition mk_spawn (k : kind) (acc : accounts_outcome) : spawn :=
  {| sp_kind := k; sp_v := 0%N; sp_gate := false; sp_ref := {| rf_acc := acc; rf_fetch := FErr |} |}.

(* the request kinds of the service: lookup, auction, registration round, refresh, refresh that returns
   early, and the requests made without an account *)
Definition request_kinds : list spawn :=
  [mk_spawn KLookup AccSome; mk_spawn KAuction AccSome; mk_spawn KReg AccSome; mk_spawn KRefresh AccSome; mk_spawn KRefresh AccErr;
   mk_spawn KLookupNA AccSome; mk_spawn KBid AccSome; mk_spawn KFwd AccSome; mk_spawn KUnblind AccSome].

Definition hand_layout (pre_fix : bool) := layout 0 (map (program pre_fix) request_kinds).
Definition hand_prog : prog := snd (fst (hand_layout false)).
Definition hand_entries : list nat := snd (hand_layout false).
Definition prefix_prog : prog := snd (fst (hand_layout true)).
Definition prefix_entries : list nat := snd (hand_layout true).

(* --- scenarios ------------------------------------------------------------------------------ *)

Inductive cmd :=
| Spawn (sp : spawn)      (* start a request in its own goroutine; it is thread number (spawns so far) *)
| Release (k : nat).      (* open the gate of thread k *)

(* the validating accounts of a registration round (harness: validators 1..4) *)
Definition reg_validators : list N := [1; 2; 3; 4]%N.

Record tinfo := { ti_sp : spawn; ti_open : bool; ti_local : cfgstate; ti_res : result }.

Record xstate := { x_sys : sys; x_cfg : cfgstate; x_info : list tinfo }.

Definition spawns_of (cmds : list cmd) : list spawn :=
  flat_map (fun c => match c with Spawn sp => [sp] | Release _ => [] end) cmds.

Definition spawn_thread (x : xstate) (sp : spawn) (e : nat) : xstate :=
  {| x_sys := {| s_threads := s_threads (x_sys x) ++ [{| t_pc := PAt e; t_r := 0; t_w := false |}];
                 s_lock := s_lock (x_sys x) |};
     x_cfg := x_cfg x;
     x_info := x_info x ++ [{| ti_sp := sp; ti_open := false; ti_local := None;
                               ti_res := match sp_kind sp with KReg | KRefresh => RDone | _ => RAny end |}] |}.

Section Scenario.
  Variable url_set : bool.
  Variable mprog : list mstep.
  Variable g : prog.

  Definition gate_closed (x : xstate) (ti : tinfo) : bool :=
    sp_gate (ti_sp ti) && negb (ti_open ti) && match x_cfg x with Some _ => true | None => false end.

  (* does the request have anything to hand to a relay?  A forwarded registration: when its settings were resolved and
     name a relay (answer [RDone]); a registration round: when the configuration it works from names a relay and resolves
     at least one of the validating accounts (the harness's accounts provider: validators 1..4) *)
  Definition hands_to_relay (ti : tinfo) : bool :=
    match sp_kind (ti_sp ti) with
    | KFwd => match ti_res ti with RDone => true | _ => false end
    | KReg => match ti_local ti with
              | Some d => d_relay d && existsb (fun v => negb (is_bad d v)) reg_validators
              | None => false
              end
    | _ => false
    end.

  (* the relay sits on the POST (harness: gated registration request) until the gate is opened *)
  Definition relay_closed (ti : tinfo) : bool :=
    sp_gate (ti_sp ti) && negb (ti_open ti) && hands_to_relay ti.

  Definition data_action (m : mstep) (cfg : cfgstate) (ti : tinfo) : cfgstate * tinfo :=
    match m with
    | MRead =>
        let r := answer_of (sp_kind (ti_sp ti)) cfg (sp_v (ti_sp ti)) in
        (cfg, {| ti_sp := ti_sp ti; ti_open := ti_open ti; ti_local := ti_local ti; ti_res := r |})
    | MStart => (cfg, {| ti_sp := ti_sp ti; ti_open := ti_open ti; ti_local := cfg; ti_res := ti_res ti |})
    | MRegRead => (cfg, {| ti_sp := ti_sp ti; ti_open := ti_open ti; ti_local := cfg; ti_res := ti_res ti |})
    | MObtain =>
        (cfg, {| ti_sp := ti_sp ti; ti_open := ti_open ti;
                 ti_local := fetch_after_accounts url_set (ti_local ti) cfg (rf_fetch (sp_ref (ti_sp ti)));
                 ti_res := ti_res ti |})
    | MWrite => (ti_local ti, ti)
    | _ => (cfg, ti)
    end.

  (* thread i takes one step if it can *)
  Definition advance (x : xstate) (i : nat) : option xstate :=
    match nth_error (s_threads (x_sys x)) i, nth_error (x_info x) i with
    | Some t, Some ti =>
        match t_pc t with
        | PDone => None
        | PAnn _ =>
            match cstep g (x_sys x) (i, 0%nat) with
            | Some s' => Some {| x_sys := s'; x_cfg := x_cfg x; x_info := x_info x |}
            | None => None
            end
        | PAt pc =>
            let m := nth pc mprog MNop in
            let blocked := match m with MGate => gate_closed x ti | MRelay => relay_closed ti | _ => false end in
            if blocked then None else
              let c := match m, ti_res ti with MBranchErr, RErr => 1%nat | _, _ => 0%nat end in
              match cstep g (x_sys x) (i, c) with
              | Some s' =>
                  (* the announce half of Lock does not pass the node: no data action yet *)
                  match m with
                  | MLock => Some {| x_sys := s'; x_cfg := x_cfg x; x_info := x_info x |}
                  | _ =>
                      let '(cfg', ti') := data_action m (x_cfg x) ti in
                      Some {| x_sys := s'; x_cfg := cfg'; x_info := update (x_info x) i ti' |}
                  end
              | None => None
              end
        end
    | _, _ => None
    end.

  Fixpoint first_advance (x : xstate) (is : list nat) : option xstate :=
    match is with
    | [] => None
    | i :: is' => match advance x i with Some x' => Some x' | None => first_advance x is' end
    end.

  (* run every thread that can run until none can (lowest thread number first) *)
  Fixpoint settle (fuel : nat) (x : xstate) : xstate :=
    match fuel with
    | O => x
    | S f =>
        match first_advance x (seq 0 (length (s_threads (x_sys x)))) with
        | Some x' => settle f x'
        | None => x
        end
    end.

  Definition fuel_of : nat := (2 * length mprog + 2)%nat.

  Definition open_gate (x : xstate) (k : nat) : xstate :=
    match nth_error (x_info x) k with
    | Some ti => {| x_sys := x_sys x; x_cfg := x_cfg x;
                    x_info := update (x_info x) k {| ti_sp := ti_sp ti; ti_open := true; ti_local := ti_local ti; ti_res := ti_res ti |} |}
    | None => x
    end.

  (* [es]: entries still to be handed out, one per Spawn *)
  Fixpoint run_cmds (settle_each : bool) (cmds : list cmd) (es : list nat) (x : xstate) : xstate :=
    match cmds with
    | [] => settle fuel_of x
    | Spawn sp :: cmds' =>
        match es with
        | [] => x
        | e :: es' =>
            let x1 := spawn_thread x sp e in
            run_cmds settle_each cmds' es' (if settle_each then settle fuel_of x1 else x1)
        end
    | Release k :: cmds' =>
        let x1 := open_gate x k in
        run_cmds settle_each cmds' es (if settle_each then settle fuel_of x1 else x1)
    end.
  (* the settled state after every command (for "when can a request have returned at the earliest") *)
  Fixpoint run_trace (cmds : list cmd) (es : list nat) (x : xstate) : list xstate :=
    match cmds with
    | [] => []
    | Spawn sp :: cmds' =>
        match es with
        | [] => []
        | e :: es' => let x1 := settle fuel_of (spawn_thread x sp e) in x1 :: run_trace cmds' es' x1
        end
    | Release k :: cmds' => let x1 := settle fuel_of (open_gate x k) in x1 :: run_trace cmds' es x1
    end.
End Scenario.

(* --- cross-check of the hand transcription against the translator's graph --------------------- *)
(* The set of lock-operation traces (on one mutex) a thread can produce from each node, computed by
   Kleene iteration over the graph (sets stay small: there are few distinct lock traces). *)
Definition op_eqb (a b : op) : bool :=
  match a, b with
  | OSkip, OSkip | OBlock, OBlock | ORLock, ORLock | ORUnlock, ORUnlock | OLock, OLock | OUnlock, OUnlock => true
  | _, _ => false
  end.
Definition tr_eqb := list_eqb op_eqb.
Fixpoint dedup_tr (l : list (list op)) : list (list op) :=
  match l with
  | [] => []
  | x :: l' => if memb tr_eqb x l' then dedup_tr l' else x :: dedup_tr l'
  end.
(* traces are cut after [trace_cap] operations (loops that lock would otherwise give unboundedly many);
   a cut trace is longer than every trace of the hand programs, so it never matches one *)
Definition trace_cap : nat := 6.
Definition tr_step (g : prog) (T : list (list (list op))) : list (list (list op)) :=
  map (fun nd => let pre := match p_op nd with OSkip | OBlock => [] | o => [o] end in
                 match p_succ nd with
                 | [] => [pre]
                 | succs => dedup_tr (map (fun t => firstn trace_cap (pre ++ t)) (flat_map (fun s => nth s T []) succs))
                 end) g.
Fixpoint tr_iter (fuel : nat) (g : prog) (T : list (list (list op))) : list (list (list op)) :=
  match fuel with O => T | S f => tr_iter f g (tr_step g T) end.
Definition lock_traces (g : prog) : list (list (list op)) := tr_iter (length g) g (map (fun _ => []) g).
Definition subset_tr (a b : list (list op)) : bool := forallb (fun x => memb tr_eqb x b) a.
Definition same_tr (a b : list (list op)) : bool := subset_tr a b && subset_tr b a.

(* some LEAF mutex of the service is used exactly as the hand transcription says executionConfigMu is:
   an entry whose traces are those of the refresh ({return early, RLock RUnlock Lock Unlock}), and
   every trace of every hand program is a trace of some entry of the service *)
Definition hand_matches_source (g : graph) (entries : list nat) : bool :=
  let TH := lock_traces hand_prog in
  existsb (fun mu =>
             let T := lock_traces (project_leaf mu g) in
             wf_prog (project_leaf mu g) entries &&
             existsb (fun e => same_tr (nth e T []) [[]; [ORLock; ORUnlock; OLock; OUnlock]]) entries &&
             forallb (fun he => negb (match nth he TH [] with [] => true | _ => false end) &&
                                existsb (fun e => subset_tr (nth he TH []) (nth e T [])) entries) hand_entries)
          (mutexes_of g).

(* prediction for a scenario: per thread (returned?, answer), and whether the lock is free at the end *)
Definition predict (pre_fix url_set : bool) (init : cfgstate) (cmds : list cmd) : list (bool * result) * bool * cfgstate :=
  let '(ms, g, es) := layout 0 (map (program pre_fix) (spawns_of cmds)) in
  let x := run_cmds url_set ms g true cmds es {| x_sys := init_sys []; x_cfg := init; x_info := [] |} in
  (map (fun '(t, ti) => (finished t, if finished t then ti_res ti else RAny)) (combine (s_threads (x_sys x)) (x_info x)),
   lock_is_free (s_lock (x_sys x)), x_cfg x).

(* per thread: 1 + index of the first command after whose settling the interpreter has the request
   returned (0 = never): no implementation whose blocking is the model's can return it earlier *)
Definition thread_finished (x : xstate) (i : nat) : bool :=
  match nth_error (s_threads (x_sys x)) i with Some t => finished t | None => false end.

Fixpoint first_finished (i : nat) (k : nat) (xs : list xstate) : nat :=
  match xs with
  | [] => 0
  | x :: xs' => if thread_finished x i then S k else first_finished i (S k) xs'
  end.

Definition predict_done_at (url_set : bool) (init : cfgstate) (cmds : list cmd) : list nat :=
  let '(ms, g, es) := layout 0 (map (program false) (spawns_of cmds)) in
  let xs := run_trace url_set ms g cmds es {| x_sys := init_sys []; x_cfg := init; x_info := [] |} in
  map (fun i => first_finished i 0 xs) (seq 0 (length (spawns_of cmds))).
