(* C07: the declarative side.  What the three collection loops of Model/C07_Strategies.v are
   SUPPOSED to compute, written without counters, phases or loops:

     - an event list is consumed up to the shortest prefix on which a *stop condition* holds
       ([consumed]); the stop condition is a plain predicate of the consumed prefix (how many
       nodes have answered, is the hard-timeout event in it, did the soft timeout find a response
       in hand, has a value reached the exit count);
     - the result is a function of the responses of that prefix: the first maximal one (best),
       the plurality value subject to the threshold (majority), the first one (first).

   Proofs/C07.v shows that the loops of the model compute exactly this, for every event list.

   Definitions only. *)
From Verif Require Import Lib.Base Model.C07_Strategies.
Open Scope N_scope.

Section EventLists.
  Context {V : Type}.
  Definition is_resp (e : event V) : bool := match e with EResp _ _ => true | _ => false end.
  Definition is_err (e : event V) : bool := match e with EErr _ => true | _ => false end.
  Definition is_soft (e : event V) : bool := match e with ESoft => true | _ => false end.
  Definition is_hard (e : event V) : bool := match e with EHard => true | _ => false end.

  (* the contents of the responses of an event list, in order *)
  Fixpoint resps (es : list (event V)) : list V :=
    match es with
    | [] => []
    | EResp _ v :: es' => v :: resps es'
    | _ :: es' => resps es'
    end.
  Definition nresp (es : list (event V)) : Z := Z.of_nat (length (resps es)).
  Definition nerr (es : list (event V)) : Z := Z.of_nat (length (filter is_err es)).
  (* how many nodes have been heard of *)
  Definition msgs (es : list (event V)) : Z := (nresp es + nerr es)%Z.

  (* "the soft timeout found a response in hand": the FIRST soft-timeout event of the list is
     preceded by a response *)
  Fixpoint soft_resp (seen : bool) (es : list (event V)) : bool :=
    match es with
    | [] => false
    | EResp _ _ :: es' => soft_resp true es'
    | ESoft :: _ => seen
    | _ :: es' => soft_resp seen es'
    end.
End EventLists.

(* the shortest prefix of [es] on which [stop] holds; all of [es] if there is none *)
Section Consumed.
  Context {E : Type} (stop : list E -> bool).
  Fixpoint consumed_from (pre es : list E) : list E :=
    match es with
    | [] => pre
    | e :: es' => if stop pre then pre else consumed_from (pre ++ [e]) es'
    end.
  Definition consumed (es : list E) : list E := consumed_from [] es.
End Consumed.

Section Stops.
  Context {V A : Type}.
  Variable acc : A -> V -> A.
  Variable early : A -> bool.
  Variable requests : Z.

  (* what the responses of a prefix amount to *)
  Definition accf (a0 : A) (pre : list (event V)) : A := fold_left acc (resps pre) a0.

  (* best / latest / beaconblockroot-majority: every node heard of, or the exit count reached, or
     the hard timeout, or the soft timeout with a response in hand *)
  Definition b_stop (a0 : A) (pre : list (event V)) : bool :=
    (requests <=? msgs pre)%Z || early (accf a0 pre) || existsb is_hard pre || soft_resp false pre.

  (* attestationdata/majority: the soft timeout plays no part *)
  Definition m_stop (a0 : A) (pre : list (event V)) : bool :=
    (requests <=? msgs pre)%Z || early (accf a0 pre) || existsb is_hard pre.
End Stops.

(* first: a response, or the timeout *)
Definition f_stop {V} (pre : list (event V)) : bool := existsb is_resp pre || existsb is_hard pre.

(* ------------------------------------------------------------------------------------------- *)
(* best: "the first maximal response" for a strict order [gt] on scores: it strictly outscores
   every response before it and is not outscored by any response after it. *)
Section FirstMax.
  Context {V S : Type} (sc : V -> S) (gt : S -> S -> bool).
  Definition first_max (vs : list V) (b : V) : Prop :=
    exists l1 l2, vs = l1 ++ b :: l2
                  /\ (forall v, In v l1 -> gt (sc b) (sc v) = true)
                  /\ (forall v, In v l2 -> gt (sc v) (sc b) = false).
  (* the weaker statement that holds for any transitive irreflexive [gt] (float64 with NaN) *)
  Definition unbeaten (vs : list V) (b : V) : Prop :=
    In b vs /\ forall v, In v vs -> gt (sc v) (sc b) = false.
End FirstMax.

(* majority: how often a key was reported *)
Section Counting.
  Context {V : Type} (key : V -> N).
  Definition votes (vs : list V) (k : N) : Z := Z.of_nat (length (filter (fun v => key v =? k) vs)).
End Counting.

(* ------------------------------------------------------------------------------------------- *)
(* The timed layer in words: node [p0] gives the answer [v] (at its latency [pv_time p0]): it
   answers with content, and either in time or without regard for its context. *)
Definition gives (pr : params) (p0 : prov) (v : value) : Prop :=
  pv_beh p0 = BRespond v /\ ((pv_time p0 <=? p_timeout pr) || pv_deaf p0 = true).

(* ... and the strategy's validity rules accept it *)
Definition gives_ok (st : strategy) (pr : params) (p0 : prov) (v : value) : Prop :=
  gives pr p0 v /\ accepts st pr (v_raw v) = true.

(* the harness gives equal ids exactly to equal contents *)
Definition ids_ok (ps : list prov) : Prop :=
  forall p1 p2 v1 v2, In p1 ps -> In p2 ps -> pv_beh p1 = BRespond v1 -> pv_beh p2 = BRespond v2 ->
                      v_id v1 = v_id v2 -> v_raw v1 = v_raw v2.

(* how many nodes give an acceptable answer with this id before / no later than an instant *)
Definition okb (st : strategy) (pr : params) (p0 : prov) : option value :=
  match pv_beh p0 with
  | BRespond v => if ((pv_time p0 <=? p_timeout pr) || pv_deaf p0) && accepts st pr (v_raw v) then Some v else None
  | _ => None
  end.
Definition cnt (st : strategy) (pr : params) (ps : list prov) (inb : N -> bool) (id : N) : Z :=
  Z.of_nat (length (filter (fun p0 => match okb st pr p0 with
                                      | Some v => (v_id v =? id) && inb (pv_time p0)
                                      | None => false
                                      end) ps)).

(* the threshold a majority strategy applies *)
Definition maj_thr (st : strategy) (pr : params) : Z :=
  match template_of st with TMajAtt => Z.of_N (p_threshold pr) | _ => 0%Z end.

(* does a return at instant [ot] precede the majority strategy's decision point (block root: the
   soft timeout, at which it settles for what it has; attestation data: the hard timeout, its soft
   timeout decides nothing)?  Then the value used must already be final: the most frequently
   reported of all the acceptable answers given within the timeout. *)
Definition maj_final (tp : template) (T ot : N) : bool :=
  match tp with TMajAtt => true | _ => ot <? T / 2 end.

(* the content a node returns has the type the strategy's interface fixes *)
Definition raw_family (st : strategy) (r : raw) : bool :=
  match st, r with
  | (AttBest | AttMajority | AttFirst), RAtt _ _ _ _ _ _ => true
  | (AggBest | AggFirst), RAgg _ _ _ => true
  | (PropBest | PropFirst), RProp _ _ _ _ => true
  | (ContribBest | ContribFirst), RContrib _ _ => true
  | (RootFirst | RootLatest | RootMajority), RRoot _ => true
  | (HeaderFirst | BlockFirst), ROpaque _ => true
  | _, _ => false
  end.
Definition typed (st : strategy) (ps : list prov) : Prop :=
  forall p v, In p ps -> pv_beh p = BRespond v -> raw_family st (v_raw v) = true.
