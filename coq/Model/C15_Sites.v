(* C15: the call sites of scheduleSyncCommitteeMessages in services/controller/standard/service.go.
   Definitions only.

   Which validators a call is made for decides who messages in the period: the call asks the node
   for the duties of the indices it is handed and fetches accounts for those indices only, so a
   committee member that is not among them never messages although Vouch holds its account.  Every
   call site hands over the indices of syncCommitteeIndicesForEpoch, i.e. the keys of the account
   manager's SyncCommitteeAccountsForEpoch: the ACTIVE validators PLUS those that have exited but
   are not yet withdrawable (a sync committee is fixed a whole period in advance: a validator that
   exits in the meantime is still a member).  The list of active validators
   (ValidatingAccountsForEpoch, accountsAndIndicesForEpoch) that the same functions hold for
   proposals and attestations is NOT what is handed over.

   A site is given a template [i : sched_in]: the clock ([si_cur]), the answer of
   syncCommitteeIndicesForEpoch at the site ([si_indices]; [] when that request fails: the site
   logs and makes no call, and a call with no index returns at once), and the environment of the
   call it makes ([si_duties], [si_accts]).  The site decides whether the call is made, the epoch
   argument and notCurrentSlot.  Every site yields a fixed number of operations of a history
   (Model/C15_Hist.v), a call that is not made being the call without indices ([no_call]: it
   requests nothing and schedules nothing), so that the harness observes the scheduler once per
   operation.  The two calls of start-up and of the fork handler run in goroutines of their own; they
   are for different periods, hence for disjoint slots (C15_windows_tile). *)
From Verif Require Import Lib.Base Lib.JobTab Model.C15_Sync Model.C15_Hist.

(* var syncCommitteePreparationEpochs = uint64(5) *)
Definition prep_epochs : N := 5.

Definition call (i : sched_in) (epoch : N) (notcur : bool) : hop :=
  HSched {| si_epoch := epoch; si_cur := si_cur i; si_notcur := notcur; si_indices := si_indices i;
            si_duties := si_duties i; si_accts := si_accts i |}.

Definition no_call (i : sched_in) : hop :=
  HSched {| si_epoch := si_epoch i; si_cur := si_cur i; si_notcur := si_notcur i; si_indices := [];
            si_duties := si_duties i; si_accts := si_accts i |}.

(* epochTicker, "Update the _next_ period if we close to an EPOCHS_PER_SYNC_COMMITTEE_PERIOD boundary":
     if uint64(currentEpoch)%epp == epp-syncCommitteePreparationEpochs {
       indices := syncCommitteeIndicesForEpoch(currentEpoch)
       go scheduleSyncCommitteeMessages(currentEpoch+5, indices, false) }
   (in an epoch other than the fork epoch; there the ticker also starts handleAltairForkEpoch, which
   is [site_fork]) *)
Definition site_tick (p : params) (i : sched_in) : list hop :=
  let ce := epoch_of_slot p (si_cur i) in
  if ce mod epp p =? sub64 (epp p) prep_epochs
  then [call i (add64 ce prep_epochs) false]
  else [no_call i].

(* handleAltairForkEpoch: indices of the fork epoch for the fork epoch's period; indices of the next
   period's first epoch for the next period when it begins within 5 epochs of the fork *)
Definition site_fork (p : params) (i1 i2 : sched_in) : list hop :=
  let npe := mul64 (add64 (fork p / epp p) 1) (epp p) in
  [ call i1 (fork p) false;
    if sub64 npe (fork p) <=? prep_epochs then call i2 npe false else no_call i2 ].

(* New: indices of the current epoch for this period, indices of the next epoch for the next period
   when it begins within 5 epochs; both with notCurrentSlot *)
Definition site_startup (p : params) (i1 i2 : sched_in) : list hop :=
  let ce := epoch_of_slot p (si_cur i1) in
  let this := first_epoch_of_period p (ce / epp p) in
  let next := first_epoch_of_period p (add64 (ce / epp p) 1) in
  [ call i1 this true;
    if sub64 next ce <=? prep_epochs then call i2 next true else no_call i2 ].

Inductive site :=
| SOp (o : hop)                     (* an operation of Model/C15_Hist.v as it is *)
| STick (i : sched_in)
| SFork (i1 i2 : sched_in)
| SStart (i1 i2 : sched_in).

Definition site_hops (p : params) (s : site) : list hop :=
  match s with
  | SOp o => [o]
  | STick i => site_tick p i
  | SFork i1 i2 => site_fork p i1 i2
  | SStart i1 i2 => site_startup p i1 i2
  end.

(* the history the harness runs: the case's [c_hist] is printed as [sites_hops par [...]] *)
Definition sites_hops (p : params) (l : list site) : list hop := flat_map (site_hops p) l.

(* The edit the sites are compared with: the ticker hands over the ACTIVE validators it already
   holds ([act]) instead of asking for the sync committee eligible ones. *)
Definition site_tick_active (p : params) (act : list N) (i : sched_in) : list hop :=
  site_tick p {| si_epoch := si_epoch i; si_cur := si_cur i; si_notcur := si_notcur i; si_indices := act;
                 si_duties := si_duties i; si_accts := si_accts i |}.
