(* C14 -- declarative vocabulary of the property statements (definitions only).

   Nothing here is executed by the correspondence check; these are the notions the theorems of
   Properties/C14.v are stated with, written independently of the fold of the model. *)
From Verif Require Import Lib.Base Model.C14_Subscriptions.

(* keys *)
Definition dkey (d : duty) : N * N := (d_slot d, d_comm d).
Definition skey (e : sub) : N * N := (s_slot e, s_comm e).
Definition pkey (p : subscription) : N * N := (p_slot p, p_comm p).
Definition akey (a : att) : N * N := (a_slot a, a_comm a).
Definition jkey (j : job) : N * N := (j_slot j, j_comm j).

(* every byte of a digest is a byte *)
Definition bytes (bs : list N) : Prop := Forall (fun b => b < 256) bs.

(* The beacon node's answer is self-consistent: duties of one slot agree on committees_at_slot,
   duties of one committee of one slot agree on the committee's length. *)
Definition consistent_duties (ds : list duty) : Prop :=
  forall a b, In a ds -> In b ds -> d_slot a = d_slot b ->
    d_cas a = d_cas b /\ (d_comm a = d_comm b -> d_len a = d_len b).

(* digests as the harness supplies them: 32 bytes each (8 suffice) *)
Definition digests_ok (ds : list duty) : Prop :=
  forall d, In d ds -> bytes (d_hash d) /\ (8 <= length (d_hash d))%nat.

(* The consensus specification's selection rule applied to a duty's own committee length and the
   digest of its slot signature. *)
Definition selected (target : N) (d : duty) : bool := spec_is_aggregator (d_len d) target (d_hash d).

(* [d] is a duty for the pair (s, c) whose slot could be signed *)
Definition duty_for (sign_ok : N -> bool) (ds : list duty) (s c : N) (d : duty) : Prop :=
  In d ds /\ d_slot d = s /\ d_comm d = c /\ sign_ok s = true.

(* the last element of a list *)
Fixpoint last_opt {A} (l : list A) : option A :=
  match l with
  | [] => None
  | [x] => Some x
  | _ :: l' => last_opt l'
  end.

(* Which validator a committee's subscription names, given the committee's members in the order
   they are walked: the first one that is an aggregator, otherwise the last one. *)
Definition choose (target : N) (L : list duty) (M : list duty) : option sub :=
  match find (agg_of target L) M with
  | Some d => Some (mk_sub target L d)
  | None => option_map (mk_sub target L) (last_opt M)
  end.

(* the members of (s, c) in walking order *)
Definition members (sign_ok : N -> bool) (L : list duty) (s c : N) : list duty :=
  filter (same_key s c) (filter (fun d => sign_ok (d_slot d)) L).

(* The controller's history, declaratively: the subscription info of epoch [ep] after the
   operations [ops] is that of the last subscribe of [ep] that did not fail to fetch the duties. *)
Fixpoint last_info (pr : params) (ep : N) (ops : list op) (acc : option (list sub)) : option (list sub) :=
  match ops with
  | [] => acc
  | OSub ep' cur no_accounts duties_fail sign_fail ds :: ops' =>
      last_info pr ep ops'
        (if ep' =? ep then
           if no_accounts then Some []
           else if duties_fail then acc
           else Some (subscription_info (agg_target pr) (sign_ok_of sign_fail) ds)
         else acc)
  | OAtt _ _ _ _ _ :: ops' => last_info pr ep ops' acc
  | OHead hslot cur :: ops' =>
      (* a head event of the current slot drops the epoch once the head's epoch is two or more
         epochs later *)
      last_info pr ep ops' (if (hslot =? cur) && stale64 ep (hslot / spe pr) then None else acc)
  end.
