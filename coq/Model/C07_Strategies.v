(* C07: the multi-node data strategies (best / majority / first).

   Transcribed from strategies/*/{best,latest,majority,first}/*.go.  Fourteen strategies share
   three loop shapes:

   - [bstep]  (loop 1 until the soft timeout, loop 2 until the hard timeout, counters responded /
              errored / timedOut / softTimedOut): attestationdata/best, aggregateattestation/best,
              beaconblockproposal/best, synccommitteecontribution/best, beaconblockroot/latest and
              -- with the extra loop condition "highestCount < absoluteMajority" --
              beaconblockroot/majority;
   - [mstep]  (attestationDataLoop1 / attestationDataLoop2: counters responded / errored only, the
              soft timeout merely moves from loop 1 to loop 2): attestationdata/majority;
   - [fstep]  (one select over ctx.Done and a response channel): the seven "first" strategies.

   An event list is the sequence of choices the collecting goroutine's [select] makes: a response
   or an error taken from the channels (what the per-provider goroutine sent after applying the
   strategy's validity rules), the soft context's Done, the hard context's Done.  The timed layer
   at the end of the file builds, from per-provider behaviours (what, when), every event order
   that the fake clock allows (events of one instant in any order).

   Definitions only. *)
From Verif Require Import Lib.Base.
From Coq Require Import QArith.
Open Scope N_scope.

(* ------------------------------------------------------------------------------------------- *)
(* Events and phases *)

Inductive event (V : Type) :=
| EResp (p : N) (v : V)      (* respCh: provider p's response passed the validity rules *)
| EErr (p : N)               (* errCh: provider p failed, or its response was rejected *)
| ESoft                      (* softCtx.Done() *)
| EHard.                     (* ctx.Done() of the hard timeout *)
Arguments EResp {V}. Arguments EErr {V}. Arguments ESoft {V}. Arguments EHard {V}.

Inductive phase := L1 | L2 | Done.

Definition phase_eqb (a b : phase) : bool :=
  match a, b with L1, L1 | L2, L2 | Done, Done => true | _, _ => false end.

(* ------------------------------------------------------------------------------------------- *)
(* Template 1: the best/latest loop, with an optional early exit on the accumulator
   (beaconblockroot/majority).  [A] is what the loop accumulates: the best response so far, or
   the table of counts. *)

Section BLoop.
  Context {V A : Type}.
  Variable acc : A -> V -> A.          (* what a consumed response does to the accumulator *)
  Variable early : A -> bool.          (* extra loop exit; [fun _ => false] for best/latest *)
  Variable requests : Z.               (* len(providers), a Go int *)

  Record bst := mk_bst {
    b_resp : Z; b_err : Z; b_to : Z; b_soft : Z;   (* responded, errored, timedOut, softTimedOut *)
    b_acc : A;
    b_phase : phase
  }.

  Definition b_set_phase (s : bst) (ph : phase) : bst :=
    mk_bst (b_resp s) (b_err s) (b_to s) (b_soft s) (b_acc s) ph.

  (* for responded+errored+timedOut+softTimedOut != requests [&& highest < absoluteMajority] *)
  Definition b_cond1 (s : bst) : bool :=
    negb (b_resp s + b_err s + b_to s + b_soft s =? requests)%Z && negb (early (b_acc s)).
  (* for responded+errored+timedOut != requests [&& highest < absoluteMajority] *)
  Definition b_cond2 (s : bst) : bool :=
    negb (b_resp s + b_err s + b_to s =? requests)%Z && negb (early (b_acc s)).

  (* re-evaluate the loop condition(s) after a select case has run *)
  Definition b_settle (s : bst) : bst :=
    match b_phase s with
    | L1 => if b_cond1 s then s
            else if b_cond2 s then b_set_phase s L2 else b_set_phase s Done
    | L2 => if b_cond2 s then s else b_set_phase s Done
    | Done => s
    end.

  Definition b_on_resp (s : bst) (v : V) : bst :=
    mk_bst (b_resp s + 1) (b_err s) (b_to s) (b_soft s) (acc (b_acc s) v) (b_phase s).
  Definition b_on_err (s : bst) : bst :=
    mk_bst (b_resp s) (b_err s + 1) (b_to s) (b_soft s) (b_acc s) (b_phase s).
  (* case <-softCtx.Done() of loop 1 *)
  Definition b_on_soft (s : bst) : bst :=
    let to' := if (0 <? b_resp s)%Z then (requests - b_resp s - b_err s)%Z else b_to s in
    mk_bst (b_resp s) (b_err s) to' (requests - b_resp s - b_err s - to')%Z (b_acc s) (b_phase s).
  (* case <-ctx.Done() of loop 2 *)
  Definition b_on_hard (s : bst) : bst :=
    mk_bst (b_resp s) (b_err s) (requests - b_resp s - b_err s)%Z (b_soft s) (b_acc s) (b_phase s).

  Definition bstep (s : bst) (e : event V) : bst :=
    match b_phase s with
    | Done => s
    | L1 =>
        match e with
        | EResp _ v => b_settle (b_on_resp s v)
        | EErr _ => b_settle (b_on_err s)
        | ESoft => b_settle (b_on_soft s)
        | EHard =>
            (* loop 1 does not select on the hard context; but the soft context is its child, so
               it is done as well: loop 1 takes the soft case, loop 2 then the hard one *)
            let s' := b_settle (b_on_soft s) in
            match b_phase s' with L2 => b_settle (b_on_hard s') | _ => s' end
        end
    | L2 =>
        match e with
        | EResp _ v => b_settle (b_on_resp s v)
        | EErr _ => b_settle (b_on_err s)
        | ESoft => s                     (* loop 2 does not select on the soft context *)
        | EHard => b_settle (b_on_hard s)
        end
    end.

  Definition b_init (a0 : A) : bst := b_settle (mk_bst 0 0 0 0 a0 L1).
  Definition brun (a0 : A) (es : list (event V)) : bst := fold_left bstep es (b_init a0).
End BLoop.

(* ------------------------------------------------------------------------------------------- *)
(* Template 2: attestationDataLoop1 / attestationDataLoop2 of attestationdata/majority.
   Both loops run "for responded+errored != requests && largestCount < exit"; the soft timeout
   only leaves loop 1, the hard timeout leaves loop 2. *)

Section MLoop.
  Context {V A : Type}.
  Variable acc : A -> V -> A.
  Variable early : A -> bool.          (* largestCount >= exit *)
  Variable requests : Z.

  Record mst := mk_mst { m_resp : Z; m_err : Z; m_acc : A; m_phase : phase }.

  Definition m_cond (s : mst) : bool :=
    negb (m_resp s + m_err s =? requests)%Z && negb (early (m_acc s)).

  (* a loop whose condition fails is left; loop 2 has the same condition, so it is left too *)
  Definition m_settle (s : mst) : mst :=
    match m_phase s with
    | Done => s
    | _ => if m_cond s then s else mk_mst (m_resp s) (m_err s) (m_acc s) Done
    end.

  Definition mstep (s : mst) (e : event V) : mst :=
    match m_phase s with
    | Done => s
    | L1 =>
        match e with
        | EResp _ v => m_settle (mk_mst (m_resp s + 1) (m_err s) (acc (m_acc s) v) L1)
        | EErr _ => m_settle (mk_mst (m_resp s) (m_err s + 1) (m_acc s) L1)
        | ESoft => m_settle (mk_mst (m_resp s) (m_err s) (m_acc s) L2)   (* return from loop 1 *)
        | EHard => mk_mst (m_resp s) (m_err s) (m_acc s) Done   (* soft ctx is a child: loop 1 returns, loop 2 returns *)
        end
    | L2 =>
        match e with
        | EResp _ v => m_settle (mk_mst (m_resp s + 1) (m_err s) (acc (m_acc s) v) L2)
        | EErr _ => m_settle (mk_mst (m_resp s) (m_err s + 1) (m_acc s) L2)
        | ESoft => s
        | EHard => mk_mst (m_resp s) (m_err s) (m_acc s) Done
        end
    end.

  Definition m_init (a0 : A) : mst := m_settle (mk_mst 0 0 a0 L1).
  Definition mrun (a0 : A) (es : list (event V)) : mst := fold_left mstep es (m_init a0).
End MLoop.

(* ------------------------------------------------------------------------------------------- *)
(* Template 3: "first".  Erroring providers send nothing; the select takes the first response or
   the timeout. *)

Section First.
  Context {V : Type}.
  Inductive fst_state := FWait | FDone (r : option V).

  Definition fstep (s : fst_state) (e : event V) : fst_state :=
    match s with
    | FDone _ => s
    | FWait =>
        match e with
        | EResp _ v => FDone (Some v)
        | EHard => FDone None
        | EErr _ | ESoft => FWait
        end
    end.
  Definition frun (es : list (event V)) : fst_state := fold_left fstep es FWait.
End First.

(* ------------------------------------------------------------------------------------------- *)
(* Accumulators *)

(* best: strictly-greater replacement.  Go keeps bestScore beside the best response; it is always
   the score of that response. *)
Section BestAcc.
  Context {V S : Type}.
  Variable sc : V -> S.
  Variable gt : S -> S -> bool.
  Definition upd_best (best : option V) (v : V) : option V :=
    match best with
    | None => Some v                                   (* best == nil *)
    | Some b => if gt (sc v) (sc b) then Some v else Some b   (* resp.score > bestScore *)
    end.
End BestAcc.

(* majority: table key -> (first response with that key, count), in insertion order.  The Go
   code keeps three maps keyed by the hash tree root (responses, counts, providers); the first
   response and the count are what it reads back. *)
Section Table.
  Context {V : Type}.
  Variable key : V -> N.
  Definition table := list (N * (V * Z)).

  Fixpoint bump (t : table) (v : V) : table :=
    match t with
    | [] => [(key v, (v, 1%Z))]
    | (k, (v0, c)) :: t' => if k =? key v then (k, (v0, (c + 1)%Z)) :: t' else (k, (v0, c)) :: bump t' v
    end.

  (* largestCount / highestCount: Go updates it incrementally; it is the maximum of the counts *)
  Definition largest (t : table) : Z := fold_left (fun m e => Z.max m (snd (snd e))) t 0%Z.

  (* the final "for root, ... := range map" selection, for one iteration order of the map:
     more votes win; equal votes: the higher head slot wins *)
  Variable slot_of : V -> N.            (* blockRootToSlotCache lookup of the head, 0 on error *)
  Definition sel_state := (option V * Z * N)%type.
  Definition sel_step (b : sel_state) (e : N * (V * Z)) : sel_state :=
    let '(bd, bc, bs) := b in
    let '(_, (v, c)) := e in
    if (bc <? c)%Z then (Some v, c, slot_of v)
    else if (c =? bc)%Z then (if bs <? slot_of v then (Some v, bc, slot_of v) else b)
    else b.
  Definition select (order : table) : sel_state := fold_left sel_step order (None, 0%Z, 0).

  (* bestCount == 0 -> error; bestCount < threshold -> error (attestation data only;
     beaconblockroot/majority has no threshold: 0) *)
  Definition maj_result (threshold : Z) (order : table) : option V :=
    let '(bd, bc, _) := select order in
    if (bc =? 0)%Z then None else if (bc <? threshold)%Z then None else bd.
End Table.

(* ------------------------------------------------------------------------------------------- *)
(* Instantiation: what the fourteen strategies receive, reject and score *)

Inductive strategy :=
| AttBest | AttMajority | AttFirst
| AggBest | AggFirst
| PropBest | PropFirst
| ContribBest | ContribFirst
| RootFirst | RootLatest | RootMajority
| HeaderFirst | BlockFirst.

Inductive template := TBest | TMajAtt | TMajRoot | TFirst.

Definition template_of (st : strategy) : template :=
  match st with
  | AttBest | AggBest | PropBest | ContribBest | RootLatest => TBest
  | AttMajority => TMajAtt
  | RootMajority => TMajRoot
  | AttFirst | AggFirst | PropFirst | ContribFirst | RootFirst | HeaderFirst | BlockFirst => TFirst
  end.

(* the part of a response the strategies look at *)
Inductive raw :=
| RAtt (nil_data nil_target : bool) (aslot source target : N) (head_root : N)
| RAgg (nil_data : bool) (bits_set bits_len : N)
| RProp (version : N) (fee : N) (cv ev : N)   (* fee: 0 zero address, 1 non-zero, 2 payload missing *)
| RContrib (nil_data : bool) (bits_set : N)
| RRoot (root : N)
| ROpaque (nil_data : bool).                   (* headers, signed blocks: nothing is inspected *)

(* [v_id] identifies the content: the harness gives equal ids exactly to equal contents (this is
   what the hash tree root of the majority strategies distinguishes) *)
Record value := mk_value { v_id : N; v_raw : raw }.

Record params := mk_params {
  p_timeout : N;                    (* hard timeout, ns *)
  p_spe : N; p_slot : N;            (* chain time; opts.Slot *)
  p_threshold : N;                  (* attestationdata/majority only *)
  p_cache : list (N * N)            (* blockRootToSlotCache: root -> slot *)
}.

Fixpoint lookup (m : list (N * N)) (k : N) : option N :=
  match m with
  | [] => None
  | (k', x) :: m' => if k' =? k then Some x else lookup m' k
  end.

(* the per-provider goroutine's checks before a response is sent to respCh *)
Definition accepts (st : strategy) (pr : params) (r : raw) : bool :=
  match st, r with
  | (AttBest | AttMajority), RAtt nd nt _ _ tgt _ =>
      negb nd && negb nt && (tgt =? p_slot pr / p_spe pr)
  | AggBest, RAgg nd _ _ => negb nd
  | ContribBest, RContrib nd _ => negb nd
  | PropBest, RProp ver fee _ _ =>
      (* phase0 = 1, altair = 2: no fee recipient; bellatrix..deneb = 3..5; anything else:
         FeeRecipient() fails with "unsupported version" *)
      (ver =? 1) || (ver =? 2) || ((3 <=? ver) && (ver <=? 5) && (fee =? 1))
  | _, _ => true
  end.

(* float64 scores; NaN only arises as 0/0 of an empty aggregation bitlist *)
Inductive score := SNaN | SFin (q : Q).

Definition sgt (a b : score) : bool :=          (* Go's > on float64 *)
  match a, b with
  | SFin x, SFin y => negb (Qle_bool x y)
  | _, _ => false
  end.

Definition qN (n : N) : Q := inject_Z (Z.of_N n).

(* Float64() of math/big Int for a non-negative integer: the nearest float64, ties to the even significand
   (53 significant bits; the exponent range is not reached below 2^1024).  The result is an integer
   again and is given as such.  beaconblockproposal/best: consensus and execution value are summed
   as big.Int FIRST and the sum is converted once. *)
Definition round53 (n : N) : N :=
  let k := N.log2 n in
  if k <? 53 then n else
  let s := k - 52 in                      (* bits dropped *)
  let q := n / 2 ^ s in                   (* 53-bit significand, 2^52 <= q < 2^53 *)
  let r := n mod 2 ^ s in
  let h := 2 ^ (s - 1) in
  (if (h <? r) || ((r =? h) && N.odd q) then q + 1 else q) * 2 ^ s.

Definition head_slot (pr : params) (root : N) : N :=
  match lookup (p_cache pr) root with Some s => s | None => 0 end.

Definition score_of (st : strategy) (pr : params) (r : raw) : score :=
  match st, r with
  | AttBest, RAtt _ _ aslot src tgt root =>
      let base := qN (src + tgt) in
      match lookup (p_cache pr) root with
      | Some h => SFin (base + Qmake 1 (N.succ_pos (aslot - h)))%Q   (* 1/(1+slot-head), head <= slot *)
      | None => SFin base
      end
  | AggBest, RAgg _ set len =>
      if len =? 0 then SNaN else SFin (Qmake (Z.of_N set) (N.succ_pos (len - 1)))
  | PropBest, RProp _ _ cv ev => SFin (qN (round53 (cv + ev)))   (* wei, any size: 2^64 wei is 18.45 ETH *)
  | ContribBest, RContrib _ set => SFin (qN set)
  | RootLatest, RRoot root => SFin (qN (head_slot pr root))
  | _, _ => SFin 0
  end.

Definition vscore (st : strategy) (pr : params) (v : value) : score := score_of st pr (v_raw v).

(* head slot the majority tie-break looks up: of the attestation's head root / of the root *)
Definition vslot (pr : params) (v : value) : N :=
  match v_raw v with
  | RAtt _ _ _ _ _ root => head_slot pr root
  | RRoot root => head_slot pr root
  | _ => 0
  end.

(* ------------------------------------------------------------------------------------------- *)
(* Providers and the timed layer *)

Inductive behaviour :=
| BRespond (v : value)     (* answers with this content (which the strategy may reject) *)
| BError                   (* answers with an error *)
| BNever.                  (* answers nothing until its context ends *)

Record prov := mk_prov {
  pv_id : N;
  pv_time : N;             (* latency, ns of fake time *)
  pv_deaf : bool;          (* ignores its context: answers at pv_time even after the hard timeout *)
  pv_beh : behaviour
}.

Definition tevent := (N * event value)%type.

(* what provider goroutine sends, and when.  A provider that honours its context and has not
   answered by the hard timeout returns the context's error at that instant. *)
Definition deliver (st : strategy) (pr : params) (p : prov) : list tevent :=
  let T := p_timeout pr in
  match pv_beh p with
  | BNever => [(T, EErr (pv_id p))]
  | BError => if (pv_time p <=? T) || pv_deaf p then [(pv_time p, EErr (pv_id p))] else [(T, EErr (pv_id p))]
  | BRespond v =>
      if (pv_time p <=? T) || pv_deaf p
      then [(pv_time p, if accepts st pr (v_raw v) then EResp (pv_id p) v else EErr (pv_id p))]
      else [(T, EErr (pv_id p))]
  end.

Definition timeline (st : strategy) (pr : params) (ps : list prov) : list tevent :=
  let T := p_timeout pr in
  let timers := match template_of st with
                | TFirst => [(T, EHard)]
                | _ => [(T / 2, ESoft); (T, EHard)]       (* s.timeout/2 *)
                end in
  sort_by (@fst N (event value)) (timers ++ flat_map (deliver st pr) ps).

(* all orders of one list *)
Fixpoint insert_all {A} (x : A) (l : list A) : list (list A) :=
  match l with
  | [] => [[x]]
  | y :: l' => (x :: l) :: map (cons y) (insert_all x l')
  end.
Fixpoint perms {A} (l : list A) : list (list A) :=
  match l with
  | [] => [[]]
  | x :: l' => flat_map (insert_all x) (perms l')
  end.

(* split a time-sorted list into its groups of simultaneous events *)
Fixpoint groups (l : list tevent) : list (list tevent) :=
  match l with
  | [] => []
  | x :: l' =>
      match groups l' with
      | (y :: g) :: gs => if fst x =? fst y then (x :: y :: g) :: gs else [x] :: (y :: g) :: gs
      | gs => [x] :: gs
      end
  end.

(* every order the fake clock allows: events of distinct instants in time order, events of one
   instant in any order *)
Fixpoint schedules_of (gs : list (list tevent)) : list (list tevent) :=
  match gs with
  | [] => [[]]
  | g :: gs' => flat_map (fun p => map (app p) (schedules_of gs')) (perms g)
  end.
Definition schedules (l : list tevent) : list (list tevent) := schedules_of (groups l).

(* run a template over a timed schedule, remembering the instant of the step that finished it *)
Section Timed.
  Context {S : Type}.
  Variable step : S -> event value -> S.
  Variable finished : S -> bool.
  Definition tstep (st : S * N) (te : tevent) : S * N :=
    if finished (fst st) then st else (step (fst st) (snd te), fst te).
  Definition trun (s0 : S) (tes : list tevent) : S * N := fold_left tstep tes (s0, 0).
End Timed.

(* what the caller sees *)
Inductive result :=
| RVal (id : N)        (* the content with this id *)
| RNil                 (* a response whose data is nil (only "first" passes these on) *)
| RErr
| RHang                (* not finished after all events: never for a timeline, which has EHard *)
| RPanic.              (* harness only: the implementation panicked *)

Definition is_nil (r : raw) : bool :=
  match r with
  | RAtt nd _ _ _ _ _ => nd
  | RAgg nd _ _ => nd
  | RContrib nd _ => nd
  | ROpaque nd => nd
  | _ => false
  end.

Definition result_of (o : option value) : result :=
  match o with
  | None => RErr
  | Some v => if is_nil (v_raw v) then RNil else RVal (v_id v)
  end.

Definition outcome := (result * N)%type.

(* the exit count of attestationdata/majority:
     strictMajority := requests/2 + 1; if s.threshold > strictMajority { strictMajority = s.threshold }
   the loops stop early only once a value can neither be overtaken nor fall short of the threshold
   (the pinned tree stopped at requests/2+1 whatever the threshold and then reported "count lower
   than threshold" although enough nodes were about to report the value: fixed) *)
Definition att_exit (requests threshold : Z) : Z := Z.max (requests / 2 + 1) threshold.

Definition no_early {A} (_ : A) : bool := false.

Definition outcomes (st : strategy) (pr : params) (ps : list prov) : list outcome :=
  let requests := Z.of_nat (length ps) in
  let scheds := schedules (timeline st pr ps) in
  match template_of st with
  | TBest =>
      map (fun sch =>
             let '(s, t) := trun (bstep (upd_best (vscore st pr) sgt) no_early requests)
                                 (fun s => phase_eqb (b_phase s) Done)
                                 (b_init no_early requests None) sch in
             (match b_phase s with Done => result_of (b_acc s) | _ => RHang end, t)) scheds
  | TMajRoot =>
      let early := fun t : table => (requests / 2 + 1 <=? largest t)%Z in
      flat_map (fun sch =>
             let '(s, t) := trun (bstep (bump v_id) early requests)
                                 (fun s => phase_eqb (b_phase s) Done)
                                 (b_init early requests []) sch in
             match b_phase s with
             | Done => map (fun order => (result_of (maj_result (vslot pr) 0 order), t)) (perms (b_acc s))
             | _ => [(RHang, t)]
             end) scheds
  | TMajAtt =>
      let early := fun t : table => (att_exit requests (Z.of_N (p_threshold pr)) <=? largest t)%Z in
      flat_map (fun sch =>
             let '(s, t) := trun (mstep (bump v_id) early requests)
                                 (fun s => phase_eqb (m_phase s) Done)
                                 (m_init early requests []) sch in
             match m_phase s with
             | Done => map (fun order => (result_of (maj_result (vslot pr) (Z.of_N (p_threshold pr)) order), t))
                           (perms (m_acc s))
             | _ => [(RHang, t)]
             end) scheds
  | TFirst =>
      map (fun sch =>
             let '(s, t) := trun fstep (fun s => match s with FDone _ => true | FWait => false end) FWait sch in
             (match s with FDone o => result_of o | FWait => RHang end, t)) scheds
  end.
