(* C03 — the controller's scheduling of duties over an abstract scheduler.

   Written from services/controller/standard/{service,attester,proposer,synccommitteemessenger,
   events}.go and services/attester/helpers.go.  The scheduler is the abstract one of
   services/scheduler.Service: a table name -> job; ScheduleJob of an existing name fails with
   ErrJobAlreadyExists and changes nothing; CancelJob / RunJobIfExists remove the job.
   Slots, epochs, validator indices: uint64 as N (wrap-around written with add64/sub64/mul64
   exactly where the code computes in uint64).  Times: Z nanoseconds, through C03_ChainTime.
   Definitions only. *)
From Verif Require Import Lib.Base Model.C03_ChainTime.
Open Scope N_scope.

(* ------------------------------------------------------------------------------------------- *)
(* Job names.  "Attestations for slot %d", "Beacon block proposal for slot %d",
   "Early beacon block proposal for slot %d", "Prepare for epoch %d",
   "Prepare sync committee messages for slot %d". *)
Inductive jname :=
| JAtt (slot : N)
| JProp (slot : N)
| JEarly (slot : N)
| JPrep (epoch : N)
| JSync (slot : N).

Definition jname_eqb (a b : jname) : bool :=
  match a, b with
  | JAtt x, JAtt y => x =? y
  | JProp x, JProp y => x =? y
  | JEarly x, JEarly y => x =? y
  | JPrep x, JPrep y => x =? y
  | JSync x, JSync y => x =? y
  | _, _ => false
  end.

(* What a job will do when it runs: the validators it covers, as (validator index, committee
   index, position in committee) for attestations; (validator, 0, 0) for proposals and sync
   committee messages; nothing for the others. *)
Definition payload := list (N * N * N).

Record job := { j_name : jname; j_time : Z; j_pay : payload }.
Definition table := list job.

Fixpoint tget (t : table) (n : jname) : option job :=
  match t with
  | [] => None
  | j :: t' => if jname_eqb (j_name j) n then Some j else tget t' n
  end.
Definition texists (t : table) (n : jname) : bool :=
  match tget t n with Some _ => true | None => false end.
(* ScheduleJob *)
Definition tsched (t : table) (j : job) : table :=
  if texists t (j_name j) then t else t ++ [j].
(* CancelJob / CancelJobIfExists / removal on run *)
Definition tremove (t : table) (n : jname) : table :=
  filter (fun j => negb (jname_eqb (j_name j) n)) t.

(* ------------------------------------------------------------------------------------------- *)
(* Configuration of one controller instance and the environment it talks to. *)

Record config := {
  c_ct : ctparams;
  c_att_delay : Z;          (* maxAttestationDelay, ns *)
  c_prop_delay : Z;         (* maxProposalDelay, ns *)
  c_ft_att : bool;          (* fastTrackAttestations *)
  c_period : N;             (* epochsPerSyncCommitteePeriod *)
  c_spec_altair : option N; (* ALTAIR_FORK_EPOCH of the chain's spec, if present *)
  c_have_agg : bool         (* a sync committee aggregator is configured *)
}.

Record aduty := { ad_slot : N; ad_val : N; ad_comm : N; ad_vci : N }.
Record pduty := { pd_slot : N; pd_val : N }.

(* What the beacon node and the account manager answer.  Responses are whatever the node says:
   any slots, any validators. *)
Record env := {
  e_att : list (N * list aduty);   (* AttesterDuties by requested epoch *)
  e_prop : list (N * list pduty);  (* ProposerDuties by requested epoch *)
  e_sync : list (N * list N);      (* SyncCommitteeDuties by sync period of the requested epoch: validators *)
  e_vals : bool                    (* the account manager reports at least one validating account *)
}.

Fixpoint alookup {A} (l : list (N * list A)) (k : N) : list A :=
  match l with
  | [] => []
  | (k', v) :: l' => if k' =? k then v else alookup l' k
  end.

(* altairDetails (service.go).  [shadowed] = true is the pinned tree: the fork epoch fetched
   inside the [if] is assigned to a new variable that shadows the result, so the function
   returns epoch 0 whatever the spec says. *)
Definition altair_details (shadowed : bool) (c : config) : bool * N :=
  let handling := c_have_agg c && negb (c_period c =? 0) in
  if handling then
    match c_spec_altair c with
    | None => (false, 0)
    | Some f => (true, if shadowed then 0 else f)
    end
  else (false, 0).

(* ------------------------------------------------------------------------------------------- *)
(* Controller state. *)

Record state := {
  st_jobs : table;
  st_cur : N;                 (* chain time: the current slot (environment) *)
  st_env : env;
  st_altair : bool;           (* handlingAltair *)
  st_altair_epoch : N;        (* altairForkEpoch as held by the service *)
  st_last_epoch : N;          (* lastBlockEpoch *)
  st_prev_root : N;           (* previousDutyDependentRoot (0 = zero root) *)
  st_cur_root : N;            (* currentDutyDependentRoot *)
  st_tick : Z;                (* epochTickerData.latestEpochRan *)
  st_att_log : list (N * payload);   (* attester.Attest invocations, oldest first *)
  st_prop_log : list (N * payload)   (* beaconblockproposer.Propose invocations *)
}.

Definition set_jobs (st : state) (t : table) : state :=
  {| st_jobs := t; st_cur := st_cur st; st_env := st_env st; st_altair := st_altair st;
     st_altair_epoch := st_altair_epoch st; st_last_epoch := st_last_epoch st;
     st_prev_root := st_prev_root st; st_cur_root := st_cur_root st; st_tick := st_tick st;
     st_att_log := st_att_log st; st_prop_log := st_prop_log st |}.

Section Controller.
  Variable shadowed : bool.
  Variable c : config.
  Let p := c_ct c.
  Let spe := ct_spe p.

  Definition cur_epoch (cur : N) : N := cur / spe.   (* mock chain time: CurrentEpoch = CurrentSlot / spe *)

  (* the filter of scheduleAttestations / scheduleProposals:
       firstSlot := FirstSlotOfEpoch(epoch); lastSlot := FirstSlotOfEpoch(epoch+1) - 1
       if duty.Slot < firstSlot || duty.Slot > lastSlot { continue } *)
  Definition in_epoch (epoch slot : N) : bool :=
    let first := first_slot_of_epoch p epoch in
    let last := sub64 (first_slot_of_epoch p (add64 epoch 1)) 1 in
    negb ((slot <? first) || (last <? slot)).

  (* if duty.Slot() < currentSlot { continue }; if duty.Slot() == currentSlot && notCurrentSlot { continue } *)
  Definition due (cur : N) (notcur : bool) (slot : N) : bool :=
    negb (slot <? cur) && negb ((slot =? cur) && notcur).

  Fixpoint dedup (l : list N) : list N :=
    match l with
    | [] => []
    | x :: l' => if memb N.eqb x l' then dedup l' else x :: dedup l'
    end.

  Definition triple_key (t : N * N * N) : N :=
    let '(v, cm, vci) := t in (cm * two64 + v) * two64 + vci.

  (* MergeDuties, per slot: the duties of the slot in (committee, validator) order. *)
  Definition att_pay (ds : list aduty) (slot : N) : payload :=
    sort_by triple_key
      (map (fun d => (ad_val d, ad_comm d, ad_vci d)) (filter (fun d => ad_slot d =? slot) ds)).

  (* scheduleAttestations(epoch, validatorIndices, notCurrentSlot) at current slot [cur] given the
     node's response [ds].  One goroutine per merged duty calls ScheduleJob; the names are
     distinct, so the resulting table does not depend on their order. *)
  Definition sched_att (cur : N) (have_vals : bool) (ds : list aduty) (epoch : N) (notcur : bool) (t : table) : table :=
    if negb have_vals then t else
    let filtered := filter (fun d => in_epoch epoch (ad_slot d)) ds in
    fold_left (fun t slot =>
                 if due cur notcur slot
                 then tsched t {| j_name := JAtt slot; j_time := (start_of_slot p slot + c_att_delay c)%Z;
                                  j_pay := att_pay filtered slot |}
                 else t)
              (dedup (map ad_slot filtered)) t.

  (* scheduleProposals.  One goroutine per duty; two duties of one slot race for the job name, so
     the job carries one of the slot's validators: the model keeps all candidates. *)
  Definition prop_pay (ds : list pduty) (slot : N) : payload :=
    map (fun d => (pd_val d, 0, 0)) (filter (fun d => pd_slot d =? slot) ds).

  Definition sched_prop (cur : N) (have_vals : bool) (ds : list pduty) (epoch : N) (notcur : bool) (t : table) : table :=
    if negb have_vals then t else
    let filtered := filter (fun d => in_epoch epoch (pd_slot d)) ds in
    fold_left (fun t slot =>
                 if due cur notcur slot
                 then
                   let t1 := if (0 <? c_prop_delay c)%Z
                             then tsched t {| j_name := JEarly slot; j_time := start_of_slot p slot; j_pay := [] |}
                             else t in
                   tsched t1 {| j_name := JProp slot; j_time := (start_of_slot p slot + c_prop_delay c)%Z;
                                j_pay := prop_pay filtered slot |}
                 else t)
              (dedup (map pd_slot filtered)) t.

  (* firstEpochOfSyncPeriod *)
  Definition feosp (altair_epoch period : N) : N :=
    let e := mul64 period (c_period c) in
    if e <? altair_epoch then altair_epoch else e.

  (* slots first, first+1, ..., last in uint64 (none when last < first) *)
  Definition slot_range (first last : N) : list N :=
    if last <? first then [] else map (fun i => first + N.of_nat i) (seq 0 (N.to_nat (last - first + 1))).

  (* scheduleSyncCommitteeMessages(epoch, validatorIndices, notCurrentSlot): one "prepare" job per
     slot of the window. *)
  Definition sync_window (altair_epoch cur epoch : N) : N * N * N :=   (* firstEpoch, firstSlot, lastSlot *)
    let period := epoch / c_period c in
    let fe0 := feosp altair_epoch period in
    let fe := if fe0 <? cur_epoch cur then cur_epoch cur else fe0 in
    (* firstSlot := FirstSlotOfEpoch(firstEpoch); if firstSlot > 0 { firstSlot-- } *)
    let f0 := first_slot_of_epoch p fe in
    let fs0 := if 0 <? f0 then f0 - 1 else f0 in
    let fs := if fs0 <? cur then cur else fs0 in
    let le := sub64 (feosp altair_epoch (add64 period 1)) 1 in
    let ls := sub64 (first_slot_of_epoch p (add64 le 1)) 2 in
    (fe, fs, ls).

  Definition sync_time (slot : N) : Z := (start_of_slot p slot + Z.quot (- ct_dur p * 6) 4)%Z.

  Definition sched_sync (altair_epoch cur : N) (e : env) (epoch : N) (notcur : bool) (t : table) : table :=
    if negb (e_vals e) then t else
    if cur_epoch cur <? altair_epoch then t else
    let '(fe, fs, ls) := sync_window altair_epoch cur epoch in
    let vals := alookup (e_sync e) (fe / c_period c) in
    match vals with
    | [] => t
    | _ =>
      let pay := map (fun v => (v, 0, 0)) (sort_by (fun v => v) (dedup vals)) in
      fold_left (fun t slot =>
                   if (slot =? cur) && notcur then t
                   else tsched t {| j_name := JSync slot; j_time := sync_time slot; j_pay := pay |})
                (slot_range fs ls) t
    end.

  (* for slot := FirstSlotOfEpoch(epoch); slot < FirstSlotOfEpoch(epoch+1); slot++ *)
  Definition epoch_has (epoch slot : N) : bool :=
    (first_slot_of_epoch p epoch <=? slot) && (slot <? first_slot_of_epoch p (add64 epoch 1)).

  (* refreshAttesterDutiesForEpoch *)
  Definition refresh_att (cur : N) (e : env) (epoch : N) (t : table) : table :=
    if texists t (JPrep epoch) then t else
    let cur_cancelled := epoch_has epoch cur && texists t (JAtt cur) in
    let t1 := filter (fun j => match j_name j with JAtt s => negb (epoch_has epoch s) | _ => true end) t in
    sched_att cur (e_vals e) (alookup (e_att e) epoch) epoch (negb cur_cancelled) t1.

  (* refreshProposerDutiesForEpoch *)
  Definition refresh_prop (cur : N) (e : env) (epoch : N) (t : table) : table :=
    let t1 := filter (fun j => match j_name j with
                               | JProp s | JEarly s => negb (epoch_has epoch s)
                               | _ => true end) t in
    sched_prop cur (e_vals e) (alookup (e_prop e) epoch) epoch true t1.

  (* refreshSyncCommitteeDutiesForEpochPeriod *)
  Definition refresh_sync (handling : bool) (altair_epoch cur : N) (e : env) (epoch : N) (t : table) : table :=
    if negb handling then t else
    let period := epoch / c_period c in
    let fs := sub64 (first_slot_of_epoch p (feosp altair_epoch period)) 1 in
    let le := sub64 (feosp altair_epoch (add64 period 1)) 1 in
    let ls := sub64 (first_slot_of_epoch p (add64 le 1)) 2 in
    let t1 := if ls <? fs then t
              else filter (fun j => match j_name j with JSync s => negb ((fs <=? s) && (s <=? ls)) | _ => true end) t in
    if negb (e_vals e) then t1 else
    sched_sync altair_epoch cur e epoch false t1.

  (* checkEventForReorg: which refreshes the event triggers, and the new stored roots.
     Returns (previous-root handler fires, current-root handler fires). *)
  Definition reorg_decide (last_epoch prev_stored cur_stored epoch prev cur_root : N) : bool * bool :=
    if last_epoch =? 0 then (false, false)
    else if last_epoch <? epoch then
      (negb (prev_stored =? 0) && negb (cur_stored =? prev), false)
    else
      (negb (prev_stored =? 0) && negb (prev_stored =? prev),
       negb (cur_stored =? 0) && negb (cur_stored =? cur_root)).

  (* handlePreviousDependentRootChanged / handleCurrentDependentRootChanged *)
  Definition on_prev_changed (st : state) : state :=
    set_jobs st (refresh_att (st_cur st) (st_env st) (cur_epoch (st_cur st)) (st_jobs st)).

  Definition on_cur_changed (st : state) : state :=
    let ce := cur_epoch (st_cur st) in
    let t1 := refresh_prop (st_cur st) (st_env st) ce (st_jobs st) in
    let t2 := if ce mod c_period c =? 0
              then refresh_sync (st_altair st) (st_altair_epoch st) (st_cur st) (st_env st) (add64 ce (c_period c)) t1
              else t1 in
    let t3 := refresh_att (st_cur st) (st_env st) (add64 ce 1) t2 in
    set_jobs st t3.

  (* a job runs: AttestAndScheduleAggregate -> attester.Attest; beaconBlockProposer.Propose *)
  Definition log_att (st : state) (slot : N) (pay : payload) : state :=
    {| st_jobs := st_jobs st; st_cur := st_cur st; st_env := st_env st; st_altair := st_altair st;
       st_altair_epoch := st_altair_epoch st; st_last_epoch := st_last_epoch st;
       st_prev_root := st_prev_root st; st_cur_root := st_cur_root st; st_tick := st_tick st;
       st_att_log := st_att_log st ++ [(slot, pay)]; st_prop_log := st_prop_log st |}.
  Definition log_prop (st : state) (slot : N) (pay : payload) : state :=
    {| st_jobs := st_jobs st; st_cur := st_cur st; st_env := st_env st; st_altair := st_altair st;
       st_altair_epoch := st_altair_epoch st; st_last_epoch := st_last_epoch st;
       st_prev_root := st_prev_root st; st_cur_root := st_cur_root st; st_tick := st_tick st;
       st_att_log := st_att_log st; st_prop_log := st_prop_log st ++ [(slot, pay)] |}.

  (* scheduler.RunJobIfExists(name) for an attestation / proposal job *)
  Definition run_if_exists (st : state) (n : jname) : state :=
    match tget (st_jobs st) n with
    | None => st
    | Some j =>
        let st1 := set_jobs st (tremove (st_jobs st) n) in
        match n with
        | JAtt s => log_att st1 s (j_pay j)
        | JProp s => log_prop st1 s (j_pay j)
        | _ => st1
        end
    end.

  (* HandleHeadEvent *)
  Definition head_event (st : state) (slot prev cur_root : N) : state :=
    if negb (slot =? st_cur st) then st else
    let epoch := slot_to_epoch p slot in
    let '(dp, dc) := reorg_decide (st_last_epoch st) (st_prev_root st) (st_cur_root st) epoch prev cur_root in
    let st0 := {| st_jobs := st_jobs st; st_cur := st_cur st; st_env := st_env st; st_altair := st_altair st;
                  st_altair_epoch := st_altair_epoch st; st_last_epoch := epoch;
                  st_prev_root := prev; st_cur_root := cur_root; st_tick := st_tick st;
                  st_att_log := st_att_log st; st_prop_log := st_prop_log st |} in
    let st1 := if dp then on_prev_changed st0 else st0 in
    let st2 := if dc then on_cur_changed st1 else st1 in
    (* fastTrackJobs, after the grace period *)
    if c_ft_att c then run_if_exists st2 (JAtt slot) else st2.

  (* handleAltairForkEpoch *)
  Definition handle_altair_fork_epoch (st : state) (t : table) : table :=
    if negb (st_altair st) then t else
    let ae := st_altair_epoch st in
    let t1 := sched_sync ae (st_cur st) (st_env st) ae false t in
    let next := mul64 (add64 (ae / c_period c) 1) (c_period c) in
    if sub64 next ae <=? 5 then sched_sync ae (st_cur st) (st_env st) next false t1 else t1.

  (* the time of "Prepare for epoch e+1": half-way through the epoch plus half a slot, in whole seconds *)
  Definition prep_time (cur : N) (epoch : N) : Z :=
    let edur := (start_of_epoch p (add64 epoch 1) - start_of_epoch p epoch)%Z in
    let sdur := (start_of_slot p (add64 cur 1) - start_of_slot p cur)%Z in
    (start_of_epoch p epoch + ((edur + sdur) / (2 * ns_per_s)) * ns_per_s)%Z.

  (* epochTicker *)
  Definition epoch_tick (st : state) : state :=
    let ce := cur_epoch (st_cur st) in
    if (Z.of_N ce <=? st_tick st)%Z then st else
    let e := st_env st in
    let t1 := sched_prop (st_cur st) (e_vals e) (alookup (e_prop e) ce) ce false (st_jobs st) in
    let t2 := if st_altair st then
                let ta := if ce =? st_altair_epoch st then handle_altair_fork_epoch st t1 else t1 in
                if ce mod c_period c =? sub64 (c_period c) 5
                then sched_sync (st_altair_epoch st) (st_cur st) e (add64 ce 5) false ta
                else ta
              else t1 in
    let t3 := tsched t2 {| j_name := JPrep (add64 ce 1); j_time := prep_time (st_cur st) ce; j_pay := [] |} in
    {| st_jobs := t3; st_cur := st_cur st; st_env := e; st_altair := st_altair st;
       st_altair_epoch := st_altair_epoch st; st_last_epoch := st_last_epoch st;
       st_prev_root := st_prev_root st; st_cur_root := st_cur_root st; st_tick := Z.of_N ce;
       st_att_log := st_att_log st; st_prop_log := st_prop_log st |}.

  (* prepareForEpoch *)
  Definition prepare_for_epoch (st : state) (epoch : N) : state :=
    let e := st_env st in
    set_jobs st (sched_att (st_cur st) (e_vals e) (alookup (e_att e) epoch) epoch false (st_jobs st)).

  (* New: a fresh process (fresh scheduler, fresh reorg tracking, fresh ticker state) schedules the
     rest of the current epoch and the next one; the current slot is never scheduled
     (waitedForGenesis is never set on the service, so notCurrentSlot is always true). *)
  Definition start (st : state) : state :=
    let e := st_env st in
    let cur := st_cur st in
    let ce := cur_epoch cur in
    let '(handling, ae) := altair_details shadowed c in
    let t1 := sched_prop cur (e_vals e) (alookup (e_prop e) ce) ce true [] in
    let t2 := sched_att cur (e_vals e) (alookup (e_att e) ce) ce true t1 in
    let t3 := if handling then
                let this := feosp ae (ce / c_period c) in
                let ta := sched_sync ae cur e this true t2 in
                let next := feosp ae (ce / c_period c + 1) in
                if sub64 next ce <=? 5 then sched_sync ae cur e next true ta else ta
              else t2 in
    let t4 := sched_att cur (e_vals e) (alookup (e_att e) (add64 ce 1)) (add64 ce 1) true t3 in
    {| st_jobs := t4; st_cur := cur; st_env := e; st_altair := handling; st_altair_epoch := ae;
       st_last_epoch := 0; st_prev_root := 0; st_cur_root := 0; st_tick := (-1)%Z;
       st_att_log := st_att_log st; st_prop_log := st_prop_log st |}.

  (* ----------------------------------------------------------------------------------------- *)
  (* Operations of a history. *)
  Inductive op :=
  | Advance (slot : N)                       (* the clock: the current slot becomes [slot] *)
  | SetEnv (e : env)                         (* the beacon node's view of the duties changes *)
  | Start                                    (* the process (re)starts *)
  | Tick                                     (* the epoch ticker's job function runs *)
  | Head (slot prev cur_root : N)            (* a head event is delivered *)
  | Fire (n : jname) (head_slot : N)         (* the scheduler runs job [n] (if it exists); [head_slot] is
                                                what the node reports as head slot to proposeEarly *)
  | SchedAtt (epoch : N) (notcur : bool)     (* direct calls (through the hook wrappers) *)
  | SchedProp (epoch : N) (notcur : bool)
  | SchedSync (epoch : N) (notcur : bool)
  | RefreshAtt (epoch : N)
  | RefreshProp (epoch : N)
  | RefreshSync (epoch : N).

  Definition set_cur (st : state) (cur : N) : state :=
    {| st_jobs := st_jobs st; st_cur := cur; st_env := st_env st; st_altair := st_altair st;
       st_altair_epoch := st_altair_epoch st; st_last_epoch := st_last_epoch st;
       st_prev_root := st_prev_root st; st_cur_root := st_cur_root st; st_tick := st_tick st;
       st_att_log := st_att_log st; st_prop_log := st_prop_log st |}.
  Definition set_env (st : state) (e : env) : state :=
    {| st_jobs := st_jobs st; st_cur := st_cur st; st_env := e; st_altair := st_altair st;
       st_altair_epoch := st_altair_epoch st; st_last_epoch := st_last_epoch st;
       st_prev_root := st_prev_root st; st_cur_root := st_cur_root st; st_tick := st_tick st;
       st_att_log := st_att_log st; st_prop_log := st_prop_log st |}.

  Definition fire (st : state) (n : jname) (head_slot : N) : state :=
    match tget (st_jobs st) n with
    | None => st
    | Some j =>
        match n with
        | JAtt _ | JProp _ => run_if_exists st n
        | JEarly s =>
            (* proposeEarly: if header.Slot == duty.Slot()-1 { RunJobIfExists("Beacon block proposal ...") } *)
            let st1 := set_jobs st (tremove (st_jobs st) n) in
            if head_slot =? sub64 s 1 then run_if_exists st1 (JProp s) else st1
        | JPrep e => prepare_for_epoch (set_jobs st (tremove (st_jobs st) n)) e
        | JSync _ => set_jobs st (tremove (st_jobs st) n)
        end
    end.

  Definition step (st : state) (o : op) : state :=
    let e := st_env st in
    match o with
    | Advance s => set_cur st s
    | SetEnv e' => set_env st e'
    | Start => start st
    | Tick => epoch_tick st
    | Head s pr cr => head_event st s pr cr
    | Fire n h => fire st n h
    | SchedAtt ep nc => set_jobs st (sched_att (st_cur st) (e_vals e) (alookup (e_att e) ep) ep nc (st_jobs st))
    | SchedProp ep nc => set_jobs st (sched_prop (st_cur st) (e_vals e) (alookup (e_prop e) ep) ep nc (st_jobs st))
    | SchedSync ep nc => set_jobs st (sched_sync (st_altair_epoch st) (st_cur st) e ep nc (st_jobs st))
    | RefreshAtt ep => set_jobs st (refresh_att (st_cur st) e ep (st_jobs st))
    | RefreshProp ep => set_jobs st (refresh_prop (st_cur st) e ep (st_jobs st))
    | RefreshSync ep => set_jobs st (refresh_sync (st_altair st) (st_altair_epoch st) (st_cur st) e ep (st_jobs st))
    end.

  Definition run (st : state) (ops : list op) : state := fold_left step ops st.

  (* every intermediate state, for the correspondence check *)
  Fixpoint trace (st : state) (ops : list op) : list state :=
    match ops with
    | [] => []
    | o :: ops' => let st' := step st o in st' :: trace st' ops'
    end.
End Controller.

Definition empty_env : env := {| e_att := []; e_prop := []; e_sync := []; e_vals := true |}.

(* a controller built directly from its parts (hook constructor): nothing scheduled *)
Definition init_state (handling : bool) (altair_epoch : N) : state :=
  {| st_jobs := []; st_cur := 0; st_env := empty_env; st_altair := handling; st_altair_epoch := altair_epoch;
     st_last_epoch := 0; st_prev_root := 0; st_cur_root := 0; st_tick := (-1)%Z;
     st_att_log := []; st_prop_log := [] |}.

(* ------------------------------------------------------------------------------------------- *)
(* MergeDuties (services/attester/helpers.go), statement by statement: sort by (slot, committee,
   validator); append to per-slot parallel arrays; one duty per slot; duties ordered by slot. *)

Record fduty := {   (* an api AttesterDuty *)
  fd_slot : N; fd_val : N; fd_comm : N; fd_vci : N; fd_clen : N; fd_cas : N
}.

Record mduty := {   (* an attester.Duty *)
  md_slot : N;
  md_cas : N;
  md_vals : list N;
  md_comms : list N;
  md_vcis : list N;
  md_clens : list (N * N)   (* committee index -> length; later entries override earlier ones *)
}.

Definition fd_key (d : fduty) : N := (fd_slot d * two64 + fd_comm d) * two64 + fd_val d.

(* append one api duty to the per-slot maps (an association list kept in slot order) *)
Fixpoint merge_insert (d : fduty) (acc : list mduty) : list mduty :=
  match acc with
  | [] => [ {| md_slot := fd_slot d; md_cas := fd_cas d; md_vals := [fd_val d]; md_comms := [fd_comm d];
               md_vcis := [fd_vci d]; md_clens := [(fd_comm d, fd_clen d)] |} ]
  | m :: acc' =>
      if md_slot m =? fd_slot d then
        {| md_slot := md_slot m; md_cas := fd_cas d; md_vals := md_vals m ++ [fd_val d];
           md_comms := md_comms m ++ [fd_comm d]; md_vcis := md_vcis m ++ [fd_vci d];
           md_clens := md_clens m ++ [(fd_comm d, fd_clen d)] |} :: acc'
      else if fd_slot d <? md_slot m then
        {| md_slot := fd_slot d; md_cas := fd_cas d; md_vals := [fd_val d]; md_comms := [fd_comm d];
           md_vcis := [fd_vci d]; md_clens := [(fd_comm d, fd_clen d)] |} :: m :: acc'
      else m :: merge_insert d acc'
  end.

Definition merge_duties (ds : list fduty) : list mduty :=
  fold_left (fun acc d => merge_insert d acc) (sort_by fd_key ds) [].

(* committeeLengths[committee]: the last write wins *)
Fixpoint clen_lookup (l : list (N * N)) (cm : N) : option N :=
  match l with
  | [] => None
  | (k, v) :: l' => match clen_lookup l' cm with Some x => Some x | None => if k =? cm then Some v else None end
  end.
