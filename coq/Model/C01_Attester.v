(* C01 / C04: the attester (services/attester/standard).
   Transcribed from attest.go (Attest, attest, createAttestations, fetchValidatorIndices,
   obtainAttestationData, validateAttestationData, housekeepAttestedMap), service.go (the
   [attested] map and its mutex) and services/attester/service.go (Duty and its parallel arrays).

   One call of Attest is a thread; its atomic steps are the critical sections of [attestedMu]
   (one to create the per-epoch map, one PER VALIDATOR to test-and-mark, one in the housekeeping)
   and the returns of the four environment calls (attestation data, validating accounts, signer,
   submitter).  A history is any number of such threads over any duties, interleaved by any
   schedule.  Environment outcomes are scripted per call of Attest.

   Definitions only. *)
From Verif Require Import Lib.Base.

Definition vidx := N.
Definition epoch := N.
Definition slot := N.

(* ---------------------------------------------------------------------------------------------
   Go maps with N keys as association lists (first binding wins; [aset] replaces in place). *)
Section Assoc.
  Context {V : Type}.
  Fixpoint aget (m : list (N * V)) (k : N) : option V :=
    match m with
    | [] => None
    | (k', v) :: m' => if k' =? k then Some v else aget m' k
    end.
  Fixpoint aset (m : list (N * V)) (k : N) (v : V) : list (N * V) :=
    match m with
    | [] => [(k, v)]
    | (k', v') :: m' => if k' =? k then (k, v) :: m' else (k', v') :: aset m' k v
    end.
  (* delete(m, k) *)
  Definition adel (m : list (N * V)) (k : N) : list (N * V) :=
    filter (fun p => negb (fst p =? k)) m.
  (* for k := range m { if k < lo { delete(m, k) } } *)
  Definition adel_below (m : list (N * V)) (lo : N) : list (N * V) :=
    filter (fun p => negb (fst p <? lo)) m.
  (* the keys that loop deletes *)
  Definition keys_below (m : list (N * V)) (lo : N) : list N :=
    map fst (filter (fun p => fst p <? lo) m).
End Assoc.

(* ---------------------------------------------------------------------------------------------
   Data. *)

(* attester.Duty: slot and the three parallel arrays, plus committee index -> committee length *)
Record duty := {
  d_slot : slot;
  d_vals : list vidx;            (* validatorIndices *)
  d_comms : list N;              (* committeeIndices *)
  d_poss : list N;               (* validatorCommitteeIndices (position in the committee) *)
  d_sizes : list (N * N)         (* committeeLengths *)
}.

(* phase0.AttestationData as returned by the beacon node (roots are opaque numbers) *)
Record adata := {
  a_slot : slot;
  a_root : N;
  a_src : epoch;
  a_src_root : N;
  a_tgt : epoch;
  a_tgt_root : N
}.

(* what an attestation says / what a signature is over *)
Record vote := {
  vt_slot : slot;
  vt_comm : N;
  vt_root : N;
  vt_src : epoch;
  vt_src_root : N;
  vt_tgt : epoch;
  vt_tgt_root : N
}.

(* A signature is represented by its content: who signed what.  (BLS itself is C06's.) *)
Definition sigval := (vidx * vote)%type.

Record att := {
  at_len : N;                    (* length of the aggregation bitlist *)
  at_bits : list N;              (* set bits *)
  at_vote : vote;
  at_sig : sigval
}.

(* environment outcomes of one call of Attest *)
Record script := {
  s_fetch : option adata;          (* attestation data provider: None = error *)
  s_accounts : option (list vidx); (* accounts provider: None = error; Some l = the validators it has a
                                      validating account for, in the iteration order of the returned Go map *)
  s_sign : option (list vidx);     (* signer: None = error; Some l = validators it returns a zero signature for *)
  s_submit : bool                  (* submitter: true = accepted *)
}.

Record run := { r_duty : duty; r_script : script }.

(* per-account information computed by Attest: validator, committee index, position, committee size *)
Definition sarg := (vidx * N * N * N)%type.
Definition sa_v (a : sarg) : vidx := fst (fst (fst a)).
Definition sa_comm (a : sarg) : N := snd (fst (fst a)).
Definition sa_pos (a : sarg) : N := snd (fst a).
Definition sa_size (a : sarg) : N := snd a.

Record signreq := {
  sr_run : nat;                  (* which call of Attest (not an argument of the real call) *)
  sr_pairs : list (vidx * N);    (* accounts[i] (by validator index), committeeIndices[i] *)
  sr_slot : slot;
  sr_root : N;
  sr_src : epoch;
  sr_src_root : N;
  sr_tgt : epoch;
  sr_tgt_root : N
}.

Inductive event :=
| SignReq (q : signreq)                  (* SignBeaconAttestations called *)
| Submit (r : nat) (atts : list att).    (* SubmitAttestations called *)

(* ---------------------------------------------------------------------------------------------
   The pure part of Attest (C04). *)

Definition epoch_of (spe : N) (sl : slot) : epoch := sl / spe.

(* validateAttestationData (with the C01 repair: target epoch must EQUAL the duty's epoch) *)
Definition valid_data (spe : N) (d : duty) (a : adata) : bool :=
  (a_slot a =? d_slot d) && (a_src a <=? a_tgt a) && (a_tgt a =? epoch_of spe (d_slot d)).

(* validatorIndexToArrayIndexMap: for i, index := range duty.ValidatorIndices() { m[index] = i }
   (with the C04 repair: built from the duty's own array, not from the filtered list) *)
Fixpoint index_map (vals : list vidx) (j : nat) (m : list (N * nat)) : list (N * nat) :=
  match vals with
  | [] => m
  | v :: vals' => index_map vals' (S j) (aset m v j)
  end.

(* m[v] of a Go map: the zero value when absent *)
Definition idx_of (vals : list vidx) (v : vidx) : nat :=
  match aget (index_map vals 0 []) v with Some j => j | None => 0%nat end.

Definition size_of (d : duty) (c : N) : N :=
  match aget (d_sizes d) c with Some s => s | None => 0 end.

Definition arg_of (d : duty) (v : vidx) : sarg :=
  let j := idx_of (d_vals d) v in
  let c := nth j (d_comms d) 0 in
  (v, c, nth j (d_poss d) 0, size_of d c).

(* ValidatingAccountsForEpochByIndex: the accounts among the requested indices *)
Definition accounts_for (avail requested : list vidx) : list vidx :=
  filter (fun v => memb N.eqb v requested) avail.

Definition sign_args (d : duty) (claimed avail : list vidx) : list sarg :=
  map (arg_of d) (accounts_for avail claimed).

Definition mkvote (sl : slot) (c : N) (a : adata) : vote :=
  {| vt_slot := sl; vt_comm := c; vt_root := a_root a; vt_src := a_src a; vt_src_root := a_src_root a;
     vt_tgt := a_tgt a; vt_tgt_root := a_tgt_root a |}.

Definition mk_signreq (i : nat) (d : duty) (a : adata) (args : list sarg) : signreq :=
  {| sr_run := i; sr_pairs := map (fun x => (sa_v x, sa_comm x)) args; sr_slot := d_slot d;
     sr_root := a_root a; sr_src := a_src a; sr_src_root := a_src_root a;
     sr_tgt := a_tgt a; sr_tgt_root := a_tgt_root a |}.

(* the signer: one signature per account, over exactly what it was passed; zero for [unsigned] *)
Definition sign_one (sl : slot) (a : adata) (unsigned : list vidx) (x : sarg) : option sigval :=
  if memb N.eqb (sa_v x) unsigned then None else Some (sa_v x, mkvote sl (sa_comm x) a).

(* createAttestations: bitlist of the committee size with the validator's bit set (SetBitAt beyond
   the length is a no-op), the duty's slot, the account's committee index, the data's root, source
   and target; accounts with a zero signature are skipped, and so are accounts whose committee
   size exceeds maxValidatorsPerCommittee (no bitlist is allocated for such a duty) *)
Definition max_committee : N := 2048.

Definition make_att (d : duty) (a : adata) (x : sarg) (sg : sigval) : att :=
  {| at_len := sa_size x;
     at_bits := if sa_pos x <? sa_size x then [sa_pos x] else [];
     at_vote := mkvote (d_slot d) (sa_comm x) a;
     at_sig := sg |}.

Fixpoint create_atts (d : duty) (a : adata) (args : list sarg) (sigs : list (option sigval)) : list att :=
  match args, sigs with
  | x :: args', sg :: sigs' =>
      match sg with
      | Some s => if sa_size x <=? max_committee then make_att d a x s :: create_atts d a args' sigs'
                  else create_atts d a args' sigs'
      | None => create_atts d a args' sigs'
      end
  | _, _ => []
  end.

Definition attestations (d : duty) (a : adata) (args : list sarg) (unsigned : list vidx) : list att :=
  create_atts d a args (map (sign_one (d_slot d) a unsigned) args).

(* ---------------------------------------------------------------------------------------------
   Threads and the shared state (C01). *)

Inductive pc :=
| PEnsure                      (* about to run the "ensure we have a map for this epoch" section *)
| PClaim (todo : list vidx)    (* about to test-and-mark the head of [todo] *)
| PFetch                       (* waiting for the attestation data *)
| PAccounts                    (* data validated; waiting for the validating accounts *)
| PSign                        (* SignBeaconAttestations called; waiting for the signatures *)
| PSubmit                      (* SubmitAttestations called; waiting for the result *)
| PHousekeep                   (* about to run housekeepAttestedMap *)
| PDone.

Record tstate := {
  t_pc : pc;
  t_claimed : list vidx;       (* validatorIndices: the filtered list, in duty order *)
  t_data : adata;              (* attestationData (meaningful from PAccounts on) *)
  t_args : list sarg           (* the per-account arrays (meaningful from PSign on) *)
}.

Record state := {
  g_att : list (N * list vidx);   (* s.attested: epoch -> set of validator indices *)
  g_thr : nat -> tstate;
  g_trace : list event;           (* calls to signer and submitter, in order *)
  g_purged : list epoch;          (* GHOST: epochs deleted by housekeeping so far (never read by [step]) *)
  g_panic : bool                  (* a Go panic has ended the process *)
}.

Definition data0 : adata := {| a_slot := 0; a_root := 0; a_src := 0; a_src_root := 0; a_tgt := 0; a_tgt_root := 0 |}.
Definition t0 : tstate := {| t_pc := PEnsure; t_claimed := []; t_data := data0; t_args := [] |}.
Definition init : state :=
  {| g_att := []; g_thr := fun _ => t0; g_trace := []; g_purged := []; g_panic := false |}.

Definition next_claim (todo : list vidx) : pc :=
  match todo with [] => PFetch | _ => PClaim todo end.

Definition set_thr (st : state) (i : nat) (t : tstate) : state :=
  {| g_att := g_att st; g_thr := fun j => if Nat.eqb j i then t else g_thr st j;
     g_trace := g_trace st; g_purged := g_purged st; g_panic := g_panic st |}.
Definition set_att (st : state) (m : list (N * list vidx)) : state :=
  {| g_att := m; g_thr := g_thr st; g_trace := g_trace st; g_purged := g_purged st; g_panic := g_panic st |}.
Definition emit (st : state) (ev : event) : state :=
  {| g_att := g_att st; g_thr := g_thr st; g_trace := g_trace st ++ [ev]; g_purged := g_purged st; g_panic := g_panic st |}.
Definition purge_below (st : state) (lo : epoch) : state :=
  {| g_att := adel_below (g_att st) lo; g_thr := g_thr st; g_trace := g_trace st;
     g_purged := keys_below (g_att st) lo ++ g_purged st; g_panic := g_panic st |}.
Definition panic (st : state) : state :=
  {| g_att := g_att st; g_thr := g_thr st; g_trace := g_trace st; g_purged := g_purged st; g_panic := true |}.

Definition with_pc (t : tstate) (p : pc) : tstate :=
  {| t_pc := p; t_claimed := t_claimed t; t_data := t_data t; t_args := t_args t |}.

(* one atomic step of thread [i], which executes [r] *)
Definition tstep (spe : N) (i : nat) (r : run) (st : state) : state :=
  let d := r_duty r in
  let sc := r_script r in
  let t := g_thr st i in
  let e := epoch_of spe (d_slot d) in
  match t_pc t with
  | PEnsure =>
      (* if _, exists := s.attested[epoch]; !exists { s.attested[epoch] = make(map...) } *)
      let st1 := match aget (g_att st) e with
                 | Some _ => st
                 | None => set_att st (aset (g_att st) e [])
                 end in
      set_thr st1 i (with_pc t (next_claim (d_vals d)))
  | PClaim [] => set_thr st i (with_pc t PFetch)
  | PClaim (v :: todo) =>
      match aget (g_att st) e with
      | None =>
          (* the inner map was deleted meanwhile: reading a nil map says "absent", the write
             s.attested[epoch][index] = struct{}{} panics (assignment to entry in nil map) *)
          panic st
      | Some marked =>
          if memb N.eqb v marked
          then set_thr st i (with_pc t (next_claim todo))
          else set_thr (set_att st (aset (g_att st) e (v :: marked))) i
                 {| t_pc := next_claim todo; t_claimed := t_claimed t ++ [v]; t_data := t_data t; t_args := t_args t |}
      end
  | PFetch =>
      match d_comms d with
      | [] => panic st                       (* duty.CommitteeIndices()[0] *)
      | _ :: _ =>
          match s_fetch sc with
          | None => set_thr st i (with_pc t PDone)
          | Some a =>
              if valid_data spe d a
              then set_thr st i {| t_pc := PAccounts; t_claimed := t_claimed t; t_data := a; t_args := t_args t |}
              else set_thr st i (with_pc t PDone)
          end
      end
  | PAccounts =>
      match s_accounts sc with
      | None => set_thr st i (with_pc t PDone)
      | Some avail =>
          let args := sign_args d (t_claimed t) avail in
          set_thr (emit st (SignReq (mk_signreq i d (t_data t) args))) i
            {| t_pc := PSign; t_claimed := t_claimed t; t_data := t_data t; t_args := args |}
      end
  | PSign =>
      match s_sign sc with
      | None => set_thr st i (with_pc t PDone)
      | Some unsigned =>
          match attestations d (t_data t) (t_args t) unsigned with
          | [] => set_thr st i (with_pc t PDone)     (* "No signed attestations; not submitting"; Attest then fails *)
          | atts => set_thr (emit st (Submit i atts)) i (with_pc t PSubmit)
          end
      end
  | PSubmit =>
      if s_submit sc then set_thr st i (with_pc t PHousekeep) else set_thr st i (with_pc t PDone)
  | PHousekeep =>
      (* if epoch > 1 { for k := range s.attested { if k < epoch-1 { delete(s.attested, k) } } } *)
      let st1 := if 1 <? e then purge_below st (e - 1) else st in
      set_thr st1 i (with_pc t PDone)
  | PDone => st
  end.

Definition step (spe : N) (rs : list run) (st : state) (i : nat) : state :=
  if g_panic st then st
  else match nth_error rs i with
       | Some r => tstep spe i r st
       | None => st
       end.

Fixpoint exec (spe : N) (rs : list run) (sch : list nat) (st : state) : state :=
  match sch with
  | [] => st
  | i :: sch' => exec spe rs sch' (step spe rs st i)
  end.

(* the epoch whose marks thread [i] is about to test-and-mark, if that is its next step *)
Definition claim_epoch (spe : N) (rs : list run) (st : state) (i : nat) : option epoch :=
  if g_panic st then None
  else match nth_error rs i with
       | Some r => match t_pc (g_thr st i) with
                   | PClaim (_ :: _) => Some (epoch_of spe (d_slot (r_duty r)))
                   | _ => None
                   end
       | None => None
       end.

(* window_ok: no test-and-mark for epoch e is executed after housekeeping has deleted epoch e
   (housekeeping of a duty of epoch e+2 or later).  This is exactly the class "an epoch is delivered
   again after duties two or more epochs newer have completed" (known finding
   C01-stale-epoch-redelivery). *)
Fixpoint window_ok (spe : N) (rs : list run) (sch : list nat) (st : state) : Prop :=
  match sch with
  | [] => True
  | i :: sch' =>
      (forall e, claim_epoch spe rs st i = Some e -> ~ In e (g_purged st)) /\
      window_ok spe rs sch' (step spe rs st i)
  end.

Fixpoint window_okb (spe : N) (rs : list run) (sch : list nat) (st : state) : bool :=
  match sch with
  | [] => true
  | i :: sch' =>
      match claim_epoch spe rs st i with
      | Some e => negb (memb N.eqb e (g_purged st))
      | None => true
      end && window_okb spe rs sch' (step spe rs st i)
  end.

(* all (validator, epoch) pairs a signature was requested for, in order, with multiplicity *)
Definition event_signs (spe : N) (ev : event) : list (vidx * epoch) :=
  match ev with
  | SignReq q => map (fun p => (fst p, epoch_of spe (sr_slot q))) (sr_pairs q)
  | Submit _ _ => []
  end.
Definition sign_list (spe : N) (tr : list event) : list (vidx * epoch) := flat_map (event_signs spe) tr.

(* ---------------------------------------------------------------------------------------------
   Running in segments, as the harness does: a thread that is woken (started, or an environment
   call returned) runs until it blocks on the next environment call or finishes. *)
Definition blocked (p : pc) : bool :=
  match p with
  | PFetch | PAccounts | PSign | PSubmit | PDone => true
  | PEnsure | PClaim _ | PHousekeep => false
  end.

Fixpoint run_on (fuel : nat) (spe : N) (rs : list run) (st : state) (i : nat) : state * list nat :=
  match fuel with
  | O => (st, [])
  | S f =>
      if g_panic st || blocked (t_pc (g_thr st i)) then (st, [])
      else let '(st', sch) := run_on f spe rs (step spe rs st i) i in (st', i :: sch)
  end.

(* wake thread i: one step (consume the awaited outcome / start), then run until blocked.
   Returns the new state and the schedule (list of thread choices) that was executed. *)
Definition wake (spe : N) (rs : list run) (st : state) (i : nat) : state * list nat :=
  match nth_error rs i with
  | None => (st, [])
  | Some r =>
      match t_pc (g_thr st i) with
      | PDone => (st, [])
      | _ =>
          let fuel := S (S (length (d_vals (r_duty r)))) in
          let '(st', sch) := run_on fuel spe rs (step spe rs st i) i in (st', i :: sch)
      end
  end.

Fixpoint wake_all (spe : N) (rs : list run) (st : state) (ws : list nat) : state * list nat :=
  match ws with
  | [] => (st, [])
  | i :: ws' =>
      let '(st1, s1) := wake spe rs st i in
      let '(st2, s2) := wake_all spe rs st1 ws' in
      (st2, s1 ++ s2)
  end.
