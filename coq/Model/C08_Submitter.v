(* C08: multinode submitters (services/submitter/multinode/submit*.go), the immediate submitter
   (services/submitter/immediate/service.go) and util/scatter.go.
   Transcribed from the code, statement by statement.  Definitions only.

   Shape of every multinode Submit<Kind>:
     guard (empty payload => error at once, nobody contacted);
     sem := NewWeighted(processConcurrency); flag := false; cond;
     one goroutine per configured node:  sem.Acquire; serviceInfo (a NodeVersion request to that
        node, made and awaited inside the node's own goroutine); submit the WHOLE payload
        (attestations: through util.Scatter, i.e. one concurrent call per extent);
        classify the error (attestations, sync messages, sync contributions only; the classifier
        calls serviceInfo again, i.e. a second NodeVersion request to that node);
        on success: flag := true; cond.Signal();
     one goroutine: Sleep(timeout); cond.Signal();
     cond.Wait(); success := flag.
   Times are fake milliseconds (testing/synctest); a node's reply is scripted. *)
From Verif Require Import Lib.Base.

(* ------------------------------------------------------------------------------------------- *)
(* util/scatter.go                                                                              *)

(* calculateExtentSize; Go's int division and remainder are Z.quot / Z.rem *)
Definition extent_size (items conc gomax : Z) : Z :=
  let dc := if (conc <=? 0)%Z then gomax else conc in
  let e := Z.quot items dc in
  if (e =? 0)%Z then 1%Z
  else if (Z.rem items e >? 0)%Z then (e + 1)%Z else e.

(* workers := inputLen / extentSize; if inputLen%extentSize != 0 { workers++ } *)
Definition worker_count (items e : Z) : Z :=
  if (Z.rem items e =? 0)%Z then Z.quot items e else (Z.quot items e + 1)%Z.

(* offset := worker*extentSize; entries := extentSize; if offset+entries > inputLen { entries = inputLen-offset } *)
Definition extent_of (items e w : Z) : Z * Z :=
  let off := (w * e)%Z in
  (off, if (off + e >? items)%Z then (items - off)%Z else e).

(* the (offset, entries) pairs Scatter hands to its workers; None = "no data with which to work" *)
Definition scatter_extents (items conc gomax : Z) : option (list (Z * Z)) :=
  if (items <=? 0)%Z then None
  else
    let e := extent_size items conc gomax in
    Some (map (fun w => extent_of items e (Z.of_nat w)) (seq 0 (Z.to_nat (worker_count items e)))).

(* ------------------------------------------------------------------------------------------- *)
(* Submission kinds, clients, structured error descriptions                                     *)

Inductive kind :=
| KAttestations | KProposal | KAggregates | KSyncMessages | KSyncContributions
| KBeaconSubs | KSyncSubs | KProposalPreps.

(* helpers.go serviceInfo: strings.Contains on the lower-cased node version, in this order;
   Unknown = no NodeVersionProvider, NodeVersion error, or none of the five names *)
Inductive client := Lighthouse | Lodestar | Prysm | Teku | Nimbus | Unknown.

(* the message texts the harness can put into an error (one per failure entry) *)
Inductive phrase :=
| PhPriorAtt          (* "PriorAttestationKnown { ... }" *)
| PhUnknownHead       (* "UnknownHeadBlock { ... }" *)
| PhUnknownTarget     (* "Attempt to send attestation for unknown target" *)
| PhPriorSyncMsg      (* "Verification: PriorSyncCommitteeMessageKnown { ... }" *)
| PhPriorSyncMsgInfix (* "Error: Verification: PriorSyncCommitteeMessageKnown ..." (not a prefix) *)
| PhTekuDupSync       (* "Ignoring sync committee message as a duplicate was processed during validation" *)
| PhTekuDupSyncExt    (* the same followed by more text (not equal) *)
| PhAggKnown          (* "Verification: AggregatorAlreadyKnown ..." *)
| PhAggKnownInfix     (* "Error: Verification: AggregatorAlreadyKnown ..." (not a prefix) *)
| PhReal              (* "Verification: InvalidSignature" *)
| PhEmpty.            (* "" *)

(* how the error text is laid out *)
Inductive shape :=
| ShPlain        (* no '{' anywhere; the phrases (braces stripped) are listed in the text *)
| ShGarbled      (* "...: {body with failures}" truncated or followed by garbage: json.Unmarshal fails *)
| ShWrongTypes   (* body whose code/index have the JSON type the client's struct does not accept *)
| ShNoFailures   (* well-formed body without a "failures" member (e.g. 503 syncing) *)
| ShNullFailures (* well-formed body with "failures": null *)
| ShFailures.    (* well-formed body, "failures": [ entries ] *)

(* an entry None is a JSON null inside the failures array *)
Record err_desc := { e_shape : shape; e_entries : list (option phrase) }.

Inductive reply := RAccept | RError (e : err_desc).
(* a scripted call: answer after d ms of fake time, or never (blocks until the context ends) *)
Inductive beh := BReply (d : N) (r : reply) | BHang.

(* A scripted node: a call whose payload contains item k of an override (k, b) behaves as b
   (first such override in list order), any other call as the default.
   The node's version endpoint (helpers.go serviceInfo -> NodeVersion) has a latency of its own:
   n_ver1 for the request made before the payload is submitted, n_ver2 for a request made after the
   node has been handed the payload (the error classifiers'); Some d = answered after d ms,
   None = never answered (blocks until the context ends). *)
Record node := { n_client : client; n_default : beh; n_over : list (N * beh);
                 n_ver1 : option N; n_ver2 : option N }.

Record input := {
  i_kind : kind;
  i_len : N;            (* number of items of the payload (1 for a proposal) *)
  i_conc : Z;           (* processConcurrency *)
  i_timeout : N;        (* ms, > 0 *)
  i_nodes : list node
}.

(* ------------------------------------------------------------------------------------------- *)
(* Error classification                                                                         *)

Definition phrase_eqb (a b : phrase) : bool :=
  match a, b with
  | PhPriorAtt, PhPriorAtt | PhUnknownHead, PhUnknownHead | PhUnknownTarget, PhUnknownTarget
  | PhPriorSyncMsg, PhPriorSyncMsg | PhPriorSyncMsgInfix, PhPriorSyncMsgInfix
  | PhTekuDupSync, PhTekuDupSync | PhTekuDupSyncExt, PhTekuDupSyncExt
  | PhAggKnown, PhAggKnown | PhAggKnownInfix, PhAggKnownInfix
  | PhReal, PhReal | PhEmpty, PhEmpty => true
  | _, _ => false
  end.

(* The message tests of the three handlers:
   submitattestations.go handleAttestationsError: strings.Contains on the whole text;
   submitsynccommitteemessages.go: HasPrefix (lighthouse), == (teku) on each failure message;
   submitsynccommitteecontributions.go: HasPrefix (lighthouse only). *)
Definition tol_phrase (k : kind) (c : client) (p : phrase) : bool :=
  match k, c, p with
  | KAttestations, Lighthouse, PhPriorAtt => true
  | KAttestations, Lighthouse, PhUnknownHead => true
  | KAttestations, Nimbus, PhUnknownTarget => true
  | KSyncMessages, Lighthouse, PhPriorSyncMsg => true
  | KSyncMessages, Teku, PhTekuDupSync => true
  | KSyncContributions, Lighthouse, PhAggKnown => true
  | _, _, _ => false
  end.

Fixpoint somes {A} (l : list (option A)) : list A :=
  match l with
  | [] => []
  | Some x :: l' => x :: somes l'
  | None :: l' => somes l'
  end.

(* the phrases that occur somewhere in err.Error() *)
Definition visible (e : err_desc) : list phrase :=
  match e_shape e with
  | ShNoFailures | ShNullFailures => []
  | _ => somes (e_entries e)
  end.

(* errorStr[strings.Index(errorStr,"{"):] unmarshalled into the client's struct:
   None = no '{' or json.Unmarshal error; Some fs = resp.Failures *)
Definition parsed_failures (e : err_desc) : option (list (option phrase)) :=
  match e_shape e with
  | ShPlain | ShGarbled | ShWrongTypes => None
  | ShNoFailures | ShNullFailures => Some []
  | ShFailures => Some (e_entries e)
  end.

(* the loop over resp.Failures: a nil entry is a real error; the result is "allowable" when the
   list is non-empty and every entry is tolerated  (len(Failures) > 0 && len(Failures) == allowed) *)
Definition all_tolerated (ok : phrase -> bool) (fs : list (option phrase)) : bool :=
  match fs with
  | [] => false
  | _ => forallb (fun f => match f with Some p => ok p | None => false end) fs
  end.

Definition parsed_tolerated (k : kind) (c : client) (e : err_desc) : bool :=
  match parsed_failures e with
  | Some fs => all_tolerated (tol_phrase k c) fs
  | None => false
  end.

(* does the handler of kind k turn error e from a node of type c into "no error"? *)
Definition tolerated (k : kind) (c : client) (e : err_desc) : bool :=
  match k with
  | KAttestations => existsb (tol_phrase k c) (visible e)
  | KSyncMessages =>
      match c with
      | Lighthouse | Teku => parsed_tolerated k c e
      | _ => false
      end
  | KSyncContributions =>
      match c with
      | Lighthouse => parsed_tolerated k c e
      | _ => false
      end
  | _ => false    (* proposal, aggregates, subscriptions, preparations: every error is an error *)
  end.

(* ------------------------------------------------------------------------------------------- *)
(* One node                                                                                     *)

(* the guard at the top of Submit<Kind>: len(x) == 0 (subscriptions == nil for beacon committee
   subscriptions, and the harness never passes nil) *)
Definition guard_ok (k : kind) (len : N) : bool :=
  match k with
  | KBeaconSubs => true
  | _ => negb (len =? 0)
  end.

(* the calls (offset, count) one node receives *)
Definition calls_of (k : kind) (len : N) (conc : Z) : list (N * N) :=
  match k with
  | KAttestations =>
      match scatter_extents (Z.of_N len) conc 1 with
      | Some l => map (fun p => (Z.to_N (fst p), Z.to_N (snd p))) l
      | None => []
      end
  | _ => [(0, len)]
  end.

Definition call_beh (nd : node) (call : N * N) : beh :=
  match find (fun ob => (fst call <=? fst ob) && (fst ob <? fst call + snd call)) (n_over nd) with
  | Some ob => snd ob
  | None => n_default nd
  end.

Definition node_behs (k : kind) (len : N) (conc : Z) (nd : node) : list beh :=
  map (call_beh nd) (calls_of k len conc).

(* Scatter waits for every worker: the node's goroutine ends when its slowest call returns *)
Definition node_dur (bs : list beh) : option N :=
  fold_right (fun b acc => match b, acc with
                           | BReply d _, Some m => Some (N.max d m)
                           | _, _ => None
                           end) (Some 0) bs.

Fixpoint err_calls (bs : list beh) : list (N * err_desc) :=
  match bs with
  | [] => []
  | BReply d (RError e) :: bs' => (d, e) :: err_calls bs'
  | _ :: bs' => err_calls bs'
  end.

Definition oadd (a b : option N) : option N :=
  match a, b with
  | Some x, Some y => Some (x + y)
  | _, _ => None
  end.

(* Does the node's goroutine ask the node for its version a second time?  Only the classifiers do:
   submitattestations.go handleAttestationsError calls serviceInfo for every error (the one Scatter
   kept); submitsynccommitteemessages.go and submitsynccommitteecontributions.go only once they
   have found a '{' in the error text (every rendering but ShPlain has one); the five other kinds
   have no classifier. *)
Definition has_brace (e : err_desc) : bool := match e_shape e with ShPlain => false | _ => true end.

Definition asks_again (k : kind) (bs : list beh) : bool :=
  match k with
  | KAttestations => match err_calls bs with [] => false | _ => true end
  | KSyncMessages | KSyncContributions => existsb (fun p => has_brace (snd p)) (err_calls bs)
  | _ => false
  end.

(* From the moment the node's goroutine holds its token to the moment it has classified the
   node's answer (and releases the token): version request, the calls, for a rejection that is
   classified the second version request.  None = never. *)
Definition node_span (k : kind) (nd : node) (bs : list beh) : option N :=
  oadd (n_ver1 nd) (oadd (node_dur bs) (if asks_again k bs then n_ver2 nd else Some 0)).

Definition max_delay (l : list (N * err_desc)) : N := fold_right (fun p m => N.max (fst p) m) 0 l.

Inductive verdict := VOk | VErr | VAny.

(* `case err = <-errorCh` overwrites: the error that is classified is the one sent last, i.e. of
   the erroring call that returns last; calls returning at the same instant are unordered. *)
Definition node_verdict (k : kind) (c : client) (bs : list beh) : verdict :=
  match err_calls bs with
  | [] => VOk
  | ecs =>
      let m := max_delay ecs in
      let cls := map (fun p => tolerated k c (snd p)) (filter (fun p => fst p =? m) ecs) in
      if forallb (fun b => b) cls then VOk
      else if forallb negb cls then VErr
      else VAny
  end.

(* ------------------------------------------------------------------------------------------- *)
(* The semaphore.  All goroutines call Acquire at time 0 in some order (the schedule); the first
   `conc` get a token, the others queue first-in first-out and get the tokens as they are
   released.  slots = the times at which the tokens become free (None = never). *)

Definition ole (a b : option N) : bool :=
  match a, b with
  | Some x, Some y => x <=? y
  | Some _, None => true
  | None, Some _ => false
  | None, None => true
  end.

(* removes one minimal element *)
Fixpoint take_min (slots : list (option N)) : option (option N * list (option N)) :=
  match slots with
  | [] => None
  | s :: rest =>
      match take_min rest with
      | None => Some (s, [])
      | Some (m, rest') => if ole s m then Some (s, rest) else Some (m, s :: rest')
      end
  end.

Fixpoint sem_run (slots : list (option N)) (order : list nat) (dur : nat -> option N)
  : list (nat * option N) :=
  match order with
  | [] => []
  | i :: rest =>
      match take_min slots with
      | None => (i, None) :: sem_run slots rest dur
      | Some (f, others) => (i, f) :: sem_run (oadd f (dur i) :: others) rest dur
      end
  end.

Fixpoint lookup_start (i : nat) (l : list (nat * option N)) : option N :=
  match l with
  | [] => None
  | (j, s) :: l' => if Nat.eqb i j then s else lookup_start i l'
  end.

(* ------------------------------------------------------------------------------------------- *)
(* The whole submission                                                                         *)

Record node_view := {
  v_start : option N;        (* when the node's goroutine got its token; None = never *)
  v_at : option N;           (* when it had the node's version and handed the payload over; None = never *)
  v_calls : list (N * N);    (* the calls the node received (all issued at v_at) *)
  v_done : option N;         (* when its goroutine classified the result; None = never *)
  v_verdict : verdict        (* what it would store: VOk = flag set and Signal *)
}.

Definition node_durs (inp : input) : list (option N) :=
  map (fun nd => node_span (i_kind inp) nd (node_behs (i_kind inp) (i_len inp) (i_conc inp) nd)) (i_nodes inp).

Definition starts (inp : input) (order : list nat) : list (nat * option N) :=
  let durs := node_durs inp in
  sem_run (repeat (Some 0) (Z.to_nat (i_conc inp))) order (fun i => nth i durs None).

Definition view_of (inp : input) (sts : list (nat * option N)) (i : nat) (nd : node) : node_view :=
  let bs := node_behs (i_kind inp) (i_len inp) (i_conc inp) nd in
  let st := lookup_start i sts in
  let at_ := oadd st (n_ver1 nd) in
  {| v_start := st;
     v_at := at_;
     v_calls := match at_ with Some _ => calls_of (i_kind inp) (i_len inp) (i_conc inp) | None => [] end;
     v_done := oadd st (node_span (i_kind inp) nd bs);
     v_verdict := node_verdict (i_kind inp) (n_client nd) bs |}.

Definition views (inp : input) (order : list nat) : list node_view :=
  let sts := starts inp order in
  map (fun p => view_of inp sts (fst p) (snd p)) (combine (seq 0 (length (i_nodes inp))) (i_nodes inp)).

(* The possible sets of instants at which some goroutine stores the flag and signals: a VAny node
   (same-instant chunk errors of different classes) may or may not. *)
Fixpoint worlds (vs : list node_view) : list (list N) :=
  match vs with
  | [] => [[]]
  | v :: vs' =>
      let ws := worlds vs' in
      match v_done v, v_verdict v with
      | Some t, VOk => map (cons t) ws
      | Some t, VAny => map (cons t) ws ++ ws
      | _, _ => ws
      end
  end.

Definition list_min (l : list N) : option N :=
  match l with
  | [] => None
  | x :: l' => Some (fold_right N.min x l')
  end.

(* (success, return time) outcomes given the instants `ts` of the successful signals.
   The caller is inside cond.Wait from fake time 0 on, so any signal at t > 0 wakes it; a signal
   at t = 0 can be sent before Wait and is then lost (the next signal wakes the caller).  At
   t = T the timeout's signal and the node's store are unordered. *)
Definition outcomes_of (T : N) (ts : list N) : list (bool * N) :=
  match list_min ts with
  | None => [(false, T)]
  | Some m =>
      if m =? 0 then
        match list_min (filter (fun t => 0 <? t) (T :: ts)) with
        | Some nx => [(true, 0); (true, nx)]
        | None => [(true, 0)]
        end
      else if m <? T then [(true, m)]
      else if m =? T then [(true, T); (false, T)]
      else [(false, T)]
  end.

Definition outcomes (inp : input) (order : list nat) : list (bool * N) :=
  flat_map (outcomes_of (i_timeout inp)) (worlds (views inp order)).

Definition idle_view : node_view := {| v_start := None; v_at := None; v_calls := []; v_done := None; v_verdict := VErr |}.

(* Submit<Kind>: what each node sees, and the possible (success, return time) pairs *)
Definition run (inp : input) (order : list nat) : list node_view * list (bool * N) :=
  if guard_ok (i_kind inp) (i_len inp)
  then (views inp order, outcomes inp order)
  else (map (fun _ => idle_view) (i_nodes inp), [(false, 0)]).

(* ------------------------------------------------------------------------------------------- *)
(* services/submitter/immediate: one node, the payload as it is, its error as it is (wrapped).  *)
(* Result: (calls received, success).  A hanging node is not modelled (no timeout of its own).  *)
Definition immediate (len : N) (r : reply) : list (N * N) * bool :=
  if len =? 0 then ([], false)
  else ([(0, len)], match r with RAccept => true | RError _ => false end).

(* ------------------------------------------------------------------------------------------- *)
(* A caller's context that carries a deadline.
   Submit<Kind> itself never looks at ctx: the timeout goroutine sleeps s.timeout whatever the
   context says and cond.Wait knows no context, so the call returns when a node's goroutine has
   stored the flag or at the configured timeout, never because of the caller's deadline.  ctx only
   reaches, unchanged, sem.Acquire(ctx, 1) (x/sync v0.9: fails once ctx is done, also when a token
   is free or was handed over at that moment), serviceInfo -> NodeVersion(ctx), the node's
   Submit<Kind>(ctx, ...) and the classifier (attestations: serviceInfo(ctx) again).
   A node that honours its request context (the HTTP client does) refuses a request made with a
   finished context and ends a request in flight with the context's error when the deadline
   passes; no classifier tolerates "context deadline exceeded" (and the attestation classifier's
   version request is then refused too), so that node's goroutine stores nothing.  Hence, with
   deadline D: whatever the model says happens strictly before D happens as it says (tokens are
   released early only at D); a goroutine that would store exactly at D may or may not (the two
   timers are unordered); one that would store later does not.  A node that ignores the context
   (cl_deaf: a submitter need not honour it) is stopped only at sem.Acquire: it is handed the
   payload and stores as modelled iff it got its token before D. *)
Record caller := { cl_deadline : N;      (* ms after the call, > 0 *)
                   cl_deaf : bool }.     (* the nodes ignore the request context *)

Inductive tri := TNo | TMaybe | TYes.

(* does something the model places at instant t (None = never) happen under the caller's deadline? *)
Definition upto (cl : option caller) (t : option N) : tri :=
  match t, cl with
  | None, _ => TNo
  | Some _, None => TYes
  | Some t, Some c => if t <? cl_deadline c then TYes else if t =? cl_deadline c then TMaybe else TNo
  end.

Definition deaf (cl : option caller) : bool := match cl with Some c => cl_deaf c | None => false end.

(* is the node handed the payload (at v_at, the calls v_calls)? *)
Definition handed_over (cl : option caller) (v : node_view) : tri :=
  match v_at v with
  | None => TNo
  | Some _ => upto cl (if deaf cl then v_start v else v_at v)
  end.

(* does the node's goroutine reach its store (at v_done, if the verdict is VOk)? *)
Definition stores (cl : option caller) (v : node_view) : tri :=
  match v_done v with
  | None => TNo
  | Some _ => upto cl (if deaf cl then v_start v else v_done v)
  end.

Definition restrict (cl : option caller) (v : node_view) : node_view :=
  match stores cl v with
  | TYes => v
  | TMaybe => {| v_start := v_start v; v_at := v_at v; v_calls := v_calls v; v_done := v_done v;
                 v_verdict := match v_verdict v with VOk => VAny | x => x end |}
  | TNo => {| v_start := v_start v; v_at := v_at v; v_calls := v_calls v; v_done := None;
              v_verdict := v_verdict v |}
  end.

Definition outcomes_dl (cl : option caller) (inp : input) (order : list nat) : list (bool * N) :=
  flat_map (outcomes_of (i_timeout inp)) (worlds (map (restrict cl) (views inp order))).

(* Submit<Kind>(ctx, ...) with a caller's deadline: the views are those of `run` (to be read through
   handed_over), the outcomes those the restricted stores allow *)
Definition run_dl (cl : option caller) (inp : input) (order : list nat) : list node_view * list (bool * N) :=
  if guard_ok (i_kind inp) (i_len inp)
  then (views inp order, outcomes_dl cl inp order)
  else (map (fun _ => idle_view) (i_nodes inp), [(false, 0)]).

(* ------------------------------------------------------------------------------------------- *)
(* The client monitor.  In every submit<Kind> goroutine s.clientMonitor.ClientOperation(...) is called
   after the node's answer (and, for the three classified kinds, after handle...Error with its version
   request) and before `submissionCompleted.Store(true); w.Signal()`, in the node's own goroutine,
   before the deferred sem.Release.  A monitor whose ClientOperation takes m ms (a contended metrics
   backend) therefore delays the node's store, its signal and the release of its token by m, and
   nothing else: the submission behaves as if every answer of every node came m ms later.  (Only
   without a caller's deadline: ClientOperation takes no context.) *)
Definition slow_beh (m : N) (b : beh) : beh :=
  match b with BReply d r => BReply (d + m) r | BHang => BHang end.

Definition slow_node (m : N) (nd : node) : node :=
  {| n_client := n_client nd; n_default := slow_beh m (n_default nd);
     n_over := map (fun ob => (fst ob, slow_beh m (snd ob))) (n_over nd);
     n_ver1 := n_ver1 nd; n_ver2 := n_ver2 nd |}.

Definition slow_by (m : N) (inp : input) : input :=
  {| i_kind := i_kind inp; i_len := i_len inp; i_conc := i_conc inp; i_timeout := i_timeout inp;
     i_nodes := map (slow_node m) (i_nodes inp) |}.

Definition run_mon (m : N) (inp : input) (order : list nat) : list node_view * list (bool * N) :=
  run_dl None (slow_by m inp) order.

(* services/submitter/immediate with a scripted node (answers per request, by the items the request
   carries): the one request carries the whole payload, so the node answers it as call_beh says;
   a node that never answers is not modelled (no timeout of its own; never generated). *)
Definition immediate_node (nd : node) (len : N) : list (N * N) * bool :=
  match call_beh nd (0, len) with
  | BReply _ r => immediate len r
  | BHang => immediate len (RError {| e_shape := ShPlain; e_entries := [] |})
  end.
