(* C20 (memory, shutdown accounting): the per-slot / per-epoch bookkeeping maps of a long run.
   Each Go map is represented by the list of its keys (the values play no role in the property).
   Transcribed from

     services/attester/standard/attest.go       fetchValidatorIndices (creates attested[epoch]),
                                                housekeepAttestedMap (after a successful Attest)
     services/controller/standard/attester.go   scheduleAttestations (sets pendingAttestations[slot],
                                                schedules "Attestations for slot N"),
                                                AttestAndScheduleAggregate (defer delete of the mark)
     services/controller/standard/events.go     refreshAttesterDutiesForEpoch (cancels the epoch's jobs,
                                                reschedules), subscribeToBeaconCommittees
                                                (subscriptionInfos[epoch] = ..), HandleHeadEvent
                                                (removes old subscriptionInfos)
     services/synccommitteemessenger/standard/service.go   Message (SetBeaconBlockRoot on the
                                                aggregator, UpdateSyncCommitteeDataRecord,
                                                RemoveHistoricDataUsedForSlotVerification)
     services/synccommitteeaggregator/standard/service.go  SetBeaconBlockRoot, Aggregate
     services/blockrelay/standard/auctionblock.go          cacheBid (builderBidsCache)
     services/scheduler: the table of one-off jobs (abstract: schedule adds unless present,
                                                start / cancel remove)

   [step fx] is the model of the code; the boolean [fx] selects the housekeeping:
     fx = true   the code as it is now (with the C20 repairs: delete-all-older in the attester and
                 in HandleHeadEvent, mark cleared when a job is cancelled, pruning in
                 SetBeaconBlockRoot / Message / cacheBid);
     fx = false  the tree before those repairs (delete(epoch-2) only; marks survive a cancel;
                 roots removed only by the slot's aggregation; slot data never cleaned when
                 inclusion verification is off; bids never pruned).  Used by the `_refuted` theorems
                 and by the corpus witnesses.
   Fields named g_* are GHOST: they are never read by the non-ghost part of [step].
   Definitions only. *)
From Verif Require Import Lib.Base.

Definition slot := N.
Definition epoch := N.

(* --- key sets as lists ----------------------------------------------------------------------- *)
Definition mem (x : N) (l : list N) : bool := existsb (N.eqb x) l.
Definition ins (x : N) (l : list N) : list N := if mem x l then l else x :: l.      (* m[x] = v *)
Definition rem (x : N) (l : list N) : list N := filter (fun y => negb (y =? x)) l.  (* delete(m, x) *)
Definition keep_ge (lo : N) (l : list N) : list N := filter (fun y => lo <=? y) l.  (* delete every key < lo *)
Definition size (l : list N) : N := N.of_nat (length l).

(* --- constants of the code -------------------------------------------------------------------- *)
Definition max_slot_data : N := 100.    (* maxSlotDataRecordsBeforeCleanUp *)
Definition min_slot_data : N := 32.     (* minSlotDataRecordsToKeep *)
Definition bid_window : N := 32.        (* builderBidsCacheSlots (auctionblock.go) *)

Record sys := {
  attested : list epoch;     (* attester: keys of attested *)
  marks : list slot;         (* controller: keys of pendingAttestations (the value is always true) *)
  jobs : list slot;          (* scheduler: slots with a job "Attestations for slot s" in the table *)
  running : list slot;       (* slots whose job function (AttestAndScheduleAggregate) is executing *)
  subs : list epoch;         (* controller: keys of subscriptionInfos *)
  roots : list slot;         (* sync committee aggregator: keys of beaconBlockRoots *)
  sdata : list slot;         (* sync committee messenger: keys of slotDataRecords *)
  bids : list slot;          (* block relay: keys of builderBidsCache *)
  g_succ : epoch;            (* GHOST: highest epoch of a successful Attest so far *)
  g_start : slot;            (* GHOST: highest slot whose attestation job has started *)
  g_head : epoch;            (* GHOST: epoch of the last head event for the current slot *)
  g_now : slot;              (* GHOST: chain time (current slot) at the last op that reads it *)
  g_msg : slot;              (* GHOST: slot of the last sync committee message *)
  g_auc : slot               (* GHOST: slot of the last block auction *)
}.

Definition init : sys :=
  {| attested := []; marks := []; jobs := []; running := []; subs := []; roots := []; sdata := [];
     bids := []; g_succ := 0; g_start := 0; g_head := 0; g_now := 0; g_msg := 0; g_auc := 0 |}.

Inductive op :=
(* scheduleAttestations(epoch, .., notCurrentSlot) once the duties have been fetched, filtered to
   the epoch and merged: [duty_slots] are the slots of the merged duties, chain time is [cur] *)
| OSched (cur : slot) (notcur : bool) (duty_slots : list slot)
(* the scheduler starts the job of slot s (timer, or RunJob from fastTrackJobs): the job leaves the
   table; AttestAndScheduleAggregate -> Attest -> fetchValidatorIndices creates attested[epoch(s)] *)
| OStart (s : slot)
(* ... and the job function returns; [ok]: Attest succeeded (housekeepAttestedMap ran) *)
| OFinish (s : slot) (ok : bool)
(* refreshAttesterDutiesForEpoch(e) at chain time cur: cancels the jobs of the epoch's slots;
   [resched] = None when accountsAndIndicesForEpoch fails or is empty, else the new duty slots;
   [sub_ok]: the beacon committee subscriber returned a subscription map *)
| ORefresh (cur : slot) (e : epoch) (resched : option (list slot)) (sub_ok : bool)
(* subscribeToBeaconCommittees(e) at chain time cur *)
| OSubscribe (cur : slot) (e : epoch) (ok : bool)
(* HandleHeadEvent for a head at slot s while the chain time is cur *)
| OHead (cur : slot) (s : slot)
(* synccommitteemessenger Message(duty of slot s); [ok]: the head root was obtained *)
| OMessage (s : slot) (ok : bool)
(* synccommitteeaggregator Aggregate(duty of slot s) *)
| OAggregate (s : slot)
(* blockrelay auctionBlock for slot s reaching cacheBid *)
| OAuction (s : slot).

Section Step.
  Variable spe : N.          (* SLOTS_PER_EPOCH *)
  Variable fx : bool.

  Definition epoch_of (s : slot) : epoch := s / spe.

  (* --- attester ------------------------------------------------------------------------------ *)
  (* housekeepAttestedMap: if epoch > 1 { tree: delete(attested, epoch-2)
                                          now:  delete every key < epoch-1 } *)
  Definition housekeep (e : epoch) (l : list epoch) : list epoch :=
    if 1 <? e then (if fx then keep_ge (e - 1) l else rem (e - 2) l) else l.

  (* --- controller: scheduleAttestations ------------------------------------------------------- *)
  Definition sched_filter (cur : slot) (notcur : bool) (ds : list slot) : list slot :=
    filter (fun d => negb (d <? cur) && negb ((d =? cur) && notcur)) ds.

  (* mark every kept slot; ScheduleJob adds the job unless one of that name exists *)
  Definition sched_apply (st : sys) (ds : list slot) : sys :=
    {| attested := attested st;
       marks := fold_left (fun m d => ins d m) ds (marks st);
       jobs := fold_left (fun j d => ins d j) ds (jobs st);
       running := running st; subs := subs st; roots := roots st; sdata := sdata st; bids := bids st;
       g_succ := g_succ st; g_start := g_start st; g_head := g_head st; g_now := g_now st;
       g_msg := g_msg st; g_auc := g_auc st |}.

  (* slots of epoch e, as the cancel loop enumerates them *)
  Definition in_epoch (e : epoch) (s : slot) : bool := (e * spe <=? s) && (s <? (e + 1) * spe).

  Definition subscribe (e : epoch) (ok : bool) (l : list epoch) : list epoch := if ok then ins e l else l.

  (* HandleHeadEvent: tree: delete(subscriptionInfos, epoch-2) (uint64 arithmetic);
                      now:  delete every key k with k+1 < epoch *)
  Definition head_clean (e : epoch) (l : list epoch) : list epoch :=
    if fx then filter (fun k => e <=? k + 1) l else rem (sub64 e 2) l.

  (* SetBeaconBlockRoot: now also deletes every key k with k + SLOTS_PER_EPOCH < slot *)
  Definition root_set (s : slot) (l : list slot) : list slot :=
    let l1 := ins s l in
    if fx then filter (fun k => s <=? k + spe) l1 else l1.

  (* RemoveHistoricDataUsedForSlotVerification(cur) *)
  Definition sdata_clean (cur : slot) (l : list slot) : list slot :=
    if max_slot_data <? size l then filter (fun k => negb (k <? sub64 cur min_slot_data)) l else l.

  (* Message: UpdateSyncCommitteeDataRecord, then (now) the clean-up; on the tree the clean-up is
     reached only from the head event handler when inclusion verification is enabled (default off) *)
  Definition sdata_set (s : slot) (l : list slot) : list slot :=
    let l1 := ins s l in if fx then sdata_clean s l1 else l1.

  (* cacheBid: now also deletes every key k with k + bid_window < slot *)
  Definition bid_set (s : slot) (l : list slot) : list slot :=
    let l1 := ins s l in
    if fx then filter (fun k => s <=? k + bid_window) l1 else l1.

  Definition step (st : sys) (o : op) : sys :=
    match o with
    | OSched cur notcur ds =>
        let st1 := sched_apply st (sched_filter cur notcur ds) in
        {| attested := attested st1; marks := marks st1; jobs := jobs st1; running := running st1;
           subs := subs st1; roots := roots st1; sdata := sdata st1; bids := bids st1;
           g_succ := g_succ st1; g_start := g_start st1; g_head := g_head st1; g_now := cur;
           g_msg := g_msg st1; g_auc := g_auc st1 |}
    | OStart s =>
        if mem s (jobs st) then
          {| attested := ins (epoch_of s) (attested st);
             marks := marks st; jobs := rem s (jobs st); running := ins s (running st);
             subs := subs st; roots := roots st; sdata := sdata st; bids := bids st;
             g_succ := g_succ st; g_start := N.max (g_start st) s; g_head := g_head st; g_now := g_now st;
             g_msg := g_msg st; g_auc := g_auc st |}
        else st
    | OFinish s ok =>
        if mem s (running st) then
          {| attested := if ok then housekeep (epoch_of s) (attested st) else attested st;
             marks := rem s (marks st);                     (* the defer of AttestAndScheduleAggregate *)
             jobs := jobs st; running := rem s (running st);
             subs := subs st; roots := roots st; sdata := sdata st; bids := bids st;
             g_succ := if ok then N.max (g_succ st) (epoch_of s) else g_succ st;
             g_start := g_start st; g_head := g_head st; g_now := g_now st;
             g_msg := g_msg st; g_auc := g_auc st |}
        else st
    | ORefresh cur e resched sub_ok =>
        (* CancelJob for every slot of the epoch; a successful cancel withdraws the job and (now)
           clears the slot's pending mark *)
        let cancelled := filter (in_epoch e) (jobs st) in
        let jobs1 := filter (fun s => negb (in_epoch e s)) (jobs st) in
        let marks1 := if fx then filter (fun s => negb (mem s cancelled)) (marks st) else marks st in
        let st1 := {| attested := attested st; marks := marks1; jobs := jobs1; running := running st;
                      subs := subs st; roots := roots st; sdata := sdata st; bids := bids st;
                      g_succ := g_succ st; g_start := g_start st; g_head := g_head st; g_now := cur;
                      g_msg := g_msg st; g_auc := g_auc st |} in
        match resched with
        | None => st1
        | Some ds =>
            (* go scheduleAttestations(.., !cancelled[currentSlot]); go subscribeToBeaconCommittees(e) *)
            let st2 := sched_apply st1 (sched_filter cur (negb (mem cur cancelled)) ds) in
            {| attested := attested st2; marks := marks st2; jobs := jobs st2; running := running st2;
               subs := subscribe e sub_ok (subs st2); roots := roots st2; sdata := sdata st2; bids := bids st2;
               g_succ := g_succ st2; g_start := g_start st2; g_head := g_head st2; g_now := cur;
               g_msg := g_msg st2; g_auc := g_auc st2 |}
        end
    | OSubscribe cur e ok =>
        {| attested := attested st; marks := marks st; jobs := jobs st; running := running st;
           subs := subscribe e ok (subs st); roots := roots st; sdata := sdata st; bids := bids st;
           g_succ := g_succ st; g_start := g_start st; g_head := g_head st; g_now := cur;
           g_msg := g_msg st; g_auc := g_auc st |}
    | OHead cur s =>
        if s =? cur then
          {| attested := attested st; marks := marks st; jobs := jobs st; running := running st;
             subs := head_clean (epoch_of s) (subs st); roots := roots st; sdata := sdata st; bids := bids st;
             g_succ := g_succ st; g_start := g_start st; g_head := epoch_of s; g_now := cur;
             g_msg := g_msg st; g_auc := g_auc st |}
        else
          {| attested := attested st; marks := marks st; jobs := jobs st; running := running st;
             subs := subs st; roots := roots st; sdata := sdata st; bids := bids st;
             g_succ := g_succ st; g_start := g_start st; g_head := g_head st; g_now := cur;
             g_msg := g_msg st; g_auc := g_auc st |}
    | OMessage s ok =>
        if ok then
          {| attested := attested st; marks := marks st; jobs := jobs st; running := running st;
             subs := subs st; roots := root_set s (roots st); sdata := sdata_set s (sdata st); bids := bids st;
             g_succ := g_succ st; g_start := g_start st; g_head := g_head st; g_now := g_now st;
             g_msg := s; g_auc := g_auc st |}
        else st
    | OAggregate s =>
        {| attested := attested st; marks := marks st; jobs := jobs st; running := running st;
           subs := subs st; roots := rem s (roots st); sdata := sdata st; bids := bids st;
           g_succ := g_succ st; g_start := g_start st; g_head := g_head st; g_now := g_now st;
           g_msg := g_msg st; g_auc := g_auc st |}
    | OAuction s =>
        {| attested := attested st; marks := marks st; jobs := jobs st; running := running st;
           subs := subs st; roots := roots st; sdata := sdata st; bids := bid_set s (bids st);
           g_succ := g_succ st; g_start := g_start st; g_head := g_head st; g_now := g_now st;
           g_msg := g_msg st; g_auc := s |}
    end.

  Definition run (h : list op) (st : sys) : sys := fold_left step h st.

  (* HasPendingAttestations(slot) *)
  Definition has_pending (st : sys) (s : slot) : bool := mem s (marks st).
  (* the slot's attestation job has been set up and has neither finished nor been withdrawn *)
  Definition in_flight (st : sys) (s : slot) : bool := mem s (jobs st) || mem s (running st).

  (* --- the conditions under which the theorems are stated (evaluated along the run) ---------- *)

  (* chain time does not go backwards *)
  Definition time_ok (st : sys) (o : op) : bool :=
    match o with
    | OSched cur _ _ | ORefresh cur _ _ _ | OSubscribe cur _ _ | OHead cur _ => g_now st <=? cur
    | _ => true
    end.

  (* attestation jobs start in slot order (the scheduler's timers; fast track starts the current slot) *)
  Definition starts_ok (st : sys) (o : op) : bool :=
    match o with OStart s => g_start st <=? s | _ => true end.

  (* duties are not set up again for a slot whose job is executing (the controller reschedules
     the current slot only if it cancelled that slot's job, and never a past slot) *)
  Definition resched_ok (st : sys) (o : op) : bool :=
    match o with
    | OSched cur notcur ds => forallb (fun d => negb (mem d (running st))) (sched_filter cur notcur ds)
    | ORefresh cur e (Some ds) _ =>
        forallb (fun d => negb (mem d (running st)))
                (sched_filter cur (negb (mem cur (filter (in_epoch e) (jobs st)))) ds)
    | _ => true
    end.

  (* subscriptions are made for the current epoch or the next one (start-up, prepareForEpoch,
     refreshAttesterDutiesForEpoch of the current / next epoch) *)
  Definition subs_ok (st : sys) (o : op) : bool :=
    match o with
    | OSubscribe cur e _ => (epoch_of cur <=? e) && (e <=? epoch_of cur + 1)
    | ORefresh cur e (Some _) _ => (epoch_of cur <=? e) && (e <=? epoch_of cur + 1)
    | _ => true
    end.

  (* sync committee messages / auctions are made in slot order *)
  Definition msgs_ok (st : sys) (o : op) : bool :=
    match o with OMessage s _ => g_msg st <=? s | _ => true end.
  Definition aucs_ok (st : sys) (o : op) : bool :=
    match o with OAuction s => g_auc st <=? s | _ => true end.

  Fixpoint guarded (g : sys -> op -> bool) (h : list op) (st : sys) : bool :=
    match h with
    | [] => true
    | o :: h' => g st o && guarded g h' (step st o)
    end.

  (* sizes after every op: what the harness observes *)
  Definition sizes (st : sys) : list N :=
    [size (attested st); size (marks st); size (jobs st); size (running st); size (subs st);
     size (roots st); size (sdata st); size (bids st)].

  Fixpoint trace (h : list op) (st : sys) : list (list N) :=
    match h with
    | [] => []
    | o :: h' => let st' := step st o in sizes st' :: trace h' st'
    end.
End Step.
