(* C02 -- sequential histories over the table of names (several jobs, several names).
   Definitions only.  Built on the table functions of Model/C02_Script.v (t_schedule, t_run,
   t_cancel, t_exists, t_list), which are what ScheduleJob / SchedulePeriodicJob / RunJob /
   CancelJob / JobExists / ListJobs do inside their jobsMutex sections.

   A history is what the harness runs against the real scheduler: every job is scheduled far in
   the future (its timer never expires during the history), jobFunc returns at once, and after
   every operation the system is left to come to rest before the next one is issued.  In that
   regime a job found in the table is idle (not active, not finalised), so -- by the job machine
   of Model/C02_Scheduler.v -- RunJob on it returns nil and jobFunc is called exactly once
   (C02_run_success_runs), a one-off job then being gone from the table (removed at claim time)
   and a periodic one staying; CancelJob on it returns nil and jobFunc is never called. *)
From Verif Require Import Lib.Base Model.C02_Scheduler Model.C02_Script.

Inductive top :=
| TSched (n : name) (periodic : bool)   (* ScheduleJob / SchedulePeriodicJob *)
| TRun (n : name)                       (* RunJob *)
| TRunIf (n : name)                     (* RunJobIfExists: the same table section, no result *)
| TCancel (n : name)                    (* CancelJob *)
| TCancelIf (n : name)                  (* CancelJobIfExists: CancelJob with its result dropped *)
| TExists (n : name)                    (* JobExists *)
| TList                                 (* ListJobs *)
| TCancelAll                            (* CancelJobs with a prefix that every name has *)
| TCancelSet (l : list name).           (* CancelJobs with a prefix that exactly the names of [l] have (the harness
                                           computes [l] from the prefix and the names it uses: what "prefix" means) *)

Inductive tout :=
| TCode (c : code)
| TBool (b : bool)
| TNames (l : list name)                (* sorted *)
| TSilent                               (* RunJobIfExists / CancelJobIfExists return nothing *)
| TOther.                               (* observed side only: an error that is none of the scheduler's *)

Record tabst := {
  tb_table : table;                 (* name -> job id *)
  tb_per : list (N * bool);         (* job id -> periodic? *)
  tb_next : N;                      (* next job id = number of accepted jobs so far *)
  tb_runs : list (N * N)            (* job id -> calls of jobFunc *)
}.

Definition tb_init : tabst := {| tb_table := []; tb_per := []; tb_next := 0; tb_runs := [] |}.

Fixpoint assoc_get {V} (l : list (N * V)) (k : N) : option V :=
  match l with
  | [] => None
  | (k', v) :: l' => if k =? k' then Some v else assoc_get l' k
  end.

Fixpoint bump (l : list (N * N)) (k : N) : list (N * N) :=
  match l with
  | [] => [(k, 1)]
  | (k', v) :: l' => if k =? k' then (k', v + 1) :: l' else (k', v) :: bump l' k
  end.

Definition is_periodic (s : tabst) (j : N) : bool :=
  match assoc_get (tb_per s) j with Some b => b | None => false end.

Definition tb_step (s : tabst) (o : top) : tabst * tout :=
  match o with
  | TSched n p =>
      let '(t', c) := t_schedule (tb_table s) n (tb_next s) in
      match c with
      | Nil => ({| tb_table := t'; tb_per := (tb_next s, p) :: tb_per s; tb_next := tb_next s + 1;
                   tb_runs := (tb_next s, 0) :: tb_runs s |}, TCode Nil)
      | _ => (s, TCode c)
      end
  | TRun n =>
      match t_get (tb_table s) n with
      | Some j =>
          let '(t', _) := t_run (tb_table s) n (is_periodic s j) in
          ({| tb_table := t'; tb_per := tb_per s; tb_next := tb_next s; tb_runs := bump (tb_runs s) j |}, TCode Nil)
      | None => (s, TCode ErrNoSuchJob)
      end
  | TRunIf n =>
      match t_get (tb_table s) n with
      | Some j =>
          let '(t', _) := t_run (tb_table s) n (is_periodic s j) in
          ({| tb_table := t'; tb_per := tb_per s; tb_next := tb_next s; tb_runs := bump (tb_runs s) j |}, TSilent)
      | None => (s, TSilent)
      end
  | TCancelIf n =>
      match t_cancel (tb_table s) n with
      | (t', Some _) => ({| tb_table := t'; tb_per := tb_per s; tb_next := tb_next s; tb_runs := tb_runs s |}, TSilent)
      | (_, None) => (s, TSilent)
      end
  | TCancel n =>
      match t_cancel (tb_table s) n with
      | (t', Some _) => ({| tb_table := t'; tb_per := tb_per s; tb_next := tb_next s; tb_runs := tb_runs s |}, TCode Nil)
      | (_, None) => (s, TCode ErrNoSuchJob)
      end
  | TExists n => (s, TBool (t_exists (tb_table s) n))
  | TList => (s, TNames (sort_by (fun x => x) (t_list (tb_table s))))
  | TCancelAll =>
      (* CancelJobs collects the matching names, then CancelJobIfExists on each: every entry goes *)
      ({| tb_table := fold_left (fun t n => fst (t_cancel t n)) (t_list (tb_table s)) (tb_table s);
          tb_per := tb_per s; tb_next := tb_next s; tb_runs := tb_runs s |}, TCode Nil)
  | TCancelSet l =>
      (* the listed names that have the prefix are collected, then CancelJobIfExists on each *)
      ({| tb_table := fold_left (fun t n => fst (t_cancel t n))
                                (filter (fun n => existsb (N.eqb n) l) (t_list (tb_table s))) (tb_table s);
          tb_per := tb_per s; tb_next := tb_next s; tb_runs := tb_runs s |}, TCode Nil)
  end.

Fixpoint tb_run (s : tabst) (ops : list top) : tabst * list tout :=
  match ops with
  | [] => (s, [])
  | o :: ops' =>
      let '(s1, x) := tb_step s o in
      let '(s2, xs) := tb_run s1 ops' in
      (s2, x :: xs)
  end.

(* runs per job id, ids ascending *)
Definition tb_final_runs (s : tabst) : list (N * N) := sort_by fst (tb_runs s).

(* What a job's goroutine does to the table when it leaves through its context, timer or
   no-more-instances branch.  As found it deleted BY NAME ([t_del]); RunJob and CancelJob release
   the name when they claim the job, so by then the name may belong to a newer job.  Repaired
   (removeJob): the entry is removed only while it still refers to the leaving job [j]. *)
Definition t_release (t : table) (n : name) (j : N) : table :=
  match t_get t n with
  | Some j' => if j' =? j then t_del t n else t
  | None => t
  end.
