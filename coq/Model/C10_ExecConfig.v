(* C10: execution configuration -> proposer settings.
   Transcribed from
     services/blockrelay/v2/executionconfig.go   (ProposerConfig, setInitialRelayOptions,
        setProposerSpecificOptions, setProposerConfigOptions, generateRelayConfig, setRelayConfig,
        updateRelayConfig, MarshalJSON, UnmarshalJSON)
     services/blockrelay/v2/{proposerconfig,baserelayconfig,proposerrelayconfig}.go (JSON codecs)
     services/blockrelay/v1/{executionconfig,proposerconfig,builderconfig}.go
     services/blockrelay/executionconfig.go      (version dispatch)
   Definitions only.

   Conventions.  Addresses, public keys, relay addresses and account patterns are numbers
   (byte strings and relay address strings are numbered by the harness per case: the model only
   compares them for equality and against zero; account patterns are numbered by what they match
   among a set of probe names that includes the case's validators, so a pattern and the anchored
   text the implementation stores or marshals for it have the same number exactly when they
   behave alike).  Whether an account pattern matches a validator is an input ([v_accts]):
   regular-expression matching is Go's, on the documented meaning of the pattern.  Durations are nanoseconds, minimum values are decimals [m * 10^e] in wei.
   Go maps are key-unique association lists; the model iterates them in list order (the proofs
   show that the order only permutes the resulting relay list). *)
From Verif Require Import Lib.Base.

(* ------------------------------------------------------------------------------------------ *)
(* Values *)

Definition dec := (N * Z)%type.                       (* m * 10^e ; zero is (0,0) *)
Definition dec_zero : dec := (0, 0%Z).
Definition dec_shift (k : Z) (d : dec) : dec :=
  if fst d =? 0 then dec_zero else (fst d, (snd d + k)%Z).
Definition dec_eqb (a b : dec) : bool := (fst a =? fst b) && (snd a =? snd b)%Z.

Definition ns_per_ms : N := 1000000.

Definition or_else {A} (o : option A) (d : A) : A := match o with Some x => x | None => d end.
Definition or_opt {A} (o1 o2 : option A) : option A := match o1 with Some _ => o1 | None => o2 end.

(* the Go map read  m[k] *)
Fixpoint aget {A} (m : list (N * A)) (k : N) : option A :=
  match m with
  | [] => None
  | (k', x) :: m' => if k' =? k then Some x else aget m' k
  end.

(* the Go map write through a stored pointer: replaces the value at an existing key *)
Fixpoint aset {A} (m : list (N * A)) (k : N) (x : A) : list (N * A) :=
  match m with
  | [] => []
  | (k', y) :: m' => if k' =? k then (k', x) :: m' else (k', y) :: aset m' k x
  end.

(* ------------------------------------------------------------------------------------------ *)
(* Version 2 configuration (the Go structs after UnmarshalJSON) *)

Record base_relay := {
  br_pk : option N; br_fee : option N; br_gas : option N; br_grace : option N; br_min : option dec }.

Record prop_relay := {
  pr_disabled : bool;
  pr_pk : option N; pr_fee : option N; pr_gas : option N; pr_grace : option N; pr_min : option dec }.

(* ProposerConfig.Account != nil  ->  SelAcct ; otherwise the Validator field (possibly zero) *)
Inductive selector := SelKey (k : N) | SelAcct (rid : N).

Record proposer := {
  p_sel : selector;
  p_fee : option N; p_gas : option N; p_grace : option N; p_min : option dec;
  p_reset : bool;
  p_relays : list (N * prop_relay) }.

Record config2 := {
  e_fee : option N; e_gas : option N; e_grace : option N; e_min : option dec;
  e_relays : list (N * base_relay);
  e_props : list proposer }.

(* A validator as the lookup sees it: its public key and the account patterns that match the
   name "wallet/account" ("<unknown>/..." forms included), as decided by Go's regexp. *)
Record validator := { v_key : N; v_accts : list N }.

(* beaconblockproposer.RelayConfig / ProposerConfig *)
Record relay_cfg := {
  rc_addr : N; rc_pk : option N; rc_fee : N; rc_gas : N; rc_grace : N; rc_min : dec }.
Record prop_cfg := { pc_fee : N; pc_relays : list relay_cfg }.

(* --- setRelayConfig --- *)
Definition set_relay_config (rc : relay_cfg) (br : base_relay) (fbfee fbgas : N) : relay_cfg :=
  {| rc_addr := rc_addr rc;
     rc_pk := or_opt (br_pk br) (rc_pk rc);
     rc_fee := or_else (br_fee br) fbfee;
     rc_gas := or_else (br_gas br) fbgas;
     rc_grace := or_else (br_grace br) (rc_grace rc);
     rc_min := or_else (br_min br) (rc_min rc) |}.

(* --- setInitialRelayOptions: one iteration of the loop over e.Relays --- *)
Definition initial_relay (c : config2) (fee fbgas : N) (a : N) (br : base_relay) : relay_cfg :=
  let rc0 := {| rc_addr := a; rc_pk := None; rc_fee := 0; rc_gas := 0;
                rc_grace := or_else (e_grace c) 0;
                rc_min := or_else (e_min c) dec_zero |} in
  set_relay_config rc0 br fee (or_else (e_gas c) fbgas).

Definition set_initial_relay_options (c : config2) (fee fbgas : N) : list relay_cfg :=
  map (fun ab => initial_relay c fee fbgas (fst ab) (snd ab)) (e_relays c).

(* --- updateRelayConfig --- *)
Definition update_relay_config (rc : relay_cfg) (pr : prop_relay) : relay_cfg :=
  {| rc_addr := rc_addr rc;
     rc_pk := or_opt (pr_pk pr) (rc_pk rc);
     rc_fee := or_else (pr_fee pr) (rc_fee rc);
     rc_gas := or_else (pr_gas pr) (rc_gas rc);
     rc_grace := or_else (pr_grace pr) (rc_grace rc);
     rc_min := or_else (pr_min pr) (rc_min rc) |}.

(* --- generateRelayConfig (the "MinValue.Sign() == 1" arm is dead: the value is fresh) --- *)
Definition generate_relay_config (c : config2) (p : proposer) (a : N) (pr : prop_relay)
           (fbfee fbgas : N) : relay_cfg :=
  {| rc_addr := a;
     rc_pk := pr_pk pr;
     rc_fee := match pr_fee pr with Some x => x | None =>
               match p_fee p with Some x => x | None =>
               match e_fee c with Some x => x | None => fbfee end end end;
     rc_gas := match pr_gas pr with Some x => x | None =>
               match p_gas p with Some x => x | None =>
               match e_gas c with Some x => x | None => fbgas end end end;
     rc_grace := match pr_grace pr with Some x => x | None =>
                 match p_grace p with Some x => x | None =>
                 match e_grace c with Some x => x | None => 0 end end end;
     rc_min := match pr_min pr with Some x => x | None =>
               match p_min p with Some x => x | None =>
               match e_min c with Some x => x | None => dec_zero end end end |}.

(* --- setProposerConfigOptions --- *)
(* the four "for _, configRelay := range config.Relays" loops, one field each *)
Definition apply_proposer_level (p : proposer) (rc : relay_cfg) : relay_cfg :=
  {| rc_addr := rc_addr rc;
     rc_pk := rc_pk rc;
     rc_fee := or_else (p_fee p) (rc_fee rc);
     rc_gas := or_else (p_gas p) (rc_gas rc);
     rc_grace := or_else (p_grace p) (rc_grace rc);
     rc_min := or_else (p_min p) (rc_min rc) |}.

Definition update_existing (p : proposer) (rc : relay_cfg) : list relay_cfg :=
  match aget (p_relays p) (rc_addr rc) with
  | Some pr => if pr_disabled pr then [] else [update_relay_config rc pr]
  | None => [rc]
  end.

Definition add_new (c : config2) (p : proposer) (updated : list N) (fbfee fbgas : N)
           (apr : N * prop_relay) : list relay_cfg :=
  if memb N.eqb (fst apr) updated || pr_disabled (snd apr) then []
  else [generate_relay_config c p (fst apr) (snd apr) fbfee fbgas].

Definition set_proposer_config_options (c : config2) (cfg : prop_cfg) (p : proposer)
           (fbfee fbgas : N) : prop_cfg :=
  let rs1 := map (apply_proposer_level p) (pc_relays cfg) in
  let rs2 := if p_reset p then [] else rs1 in
  let existing := flat_map (update_existing p) rs2 in
  let updated := map rc_addr rs2 in
  let added := flat_map (add_new c p updated fbfee fbgas) (p_relays p) in
  {| pc_fee := or_else (p_fee p) (pc_fee cfg); pc_relays := existing ++ added |}.

(* --- setProposerSpecificOptions --- *)
Inductive match_res := MYes | MNo | MInvalid.

Definition matches (p : proposer) (v : validator) : match_res :=
  match p_sel p with
  | SelAcct rid => if memb N.eqb rid (v_accts v) then MYes else MNo
  | SelKey k => if k =? 0 then MInvalid else if k =? v_key v then MYes else MNo
  end.

Fixpoint set_proposer_specific_options (c : config2) (cfg : prop_cfg) (ps : list proposer)
         (v : validator) (fbfee fbgas : N) : option prop_cfg :=
  match ps with
  | [] => Some cfg
  | p :: ps' =>
      match matches p v with
      | MInvalid => None                               (* "proposer config without either ..." *)
      | MNo => set_proposer_specific_options c cfg ps' v fbfee fbgas
      | MYes => Some (set_proposer_config_options c cfg p fbfee fbgas)     (* break *)
      end
  end.

(* --- ExecutionConfig.ProposerConfig (v2) --- *)
Definition proposer_config_v2 (c : config2) (v : validator) (fbfee fbgas : N) : option prop_cfg :=
  let fee := or_else (e_fee c) fbfee in
  let cfg := {| pc_fee := fee; pc_relays := set_initial_relay_options c fee fbgas |} in
  set_proposer_specific_options c cfg (e_props c) v fbfee fbgas.

(* ------------------------------------------------------------------------------------------ *)
(* The documented precedence, declaratively (the specification side of C10). *)

Fixpoint first_some {A} (l : list (option A)) (d : A) : A :=
  match l with
  | [] => d
  | Some x :: _ => x
  | None :: l' => first_some l' d
  end.

Definition obind {A B} (o : option A) (f : A -> option B) : option B :=
  match o with Some x => f x | None => None end.

(* the first proposer entry that matches; [None] when an entry with neither account nor
   non-zero key is reached first *)
Fixpoint first_match (ps : list proposer) (v : validator) : option (option proposer) :=
  match ps with
  | [] => Some None
  | p :: ps' =>
      match matches p v with
      | MInvalid => None
      | MYes => Some (Some p)
      | MNo => first_match ps' v
      end
  end.

Definition empty_proposer : proposer :=
  {| p_sel := SelKey 0; p_fee := None; p_gas := None; p_grace := None; p_min := None;
     p_reset := false; p_relays := [] |}.

(* the relay-level defaults a proposer inherits: none after reset_relays *)
Definition inherited (c : config2) (p : proposer) : list (N * base_relay) :=
  if p_reset p then [] else e_relays c.

Definition relay_disabled (p : proposer) (a : N) : bool :=
  match aget (p_relays p) a with Some pr => pr_disabled pr | None => false end.

(* each field: proposer-relay entry, proposer entry, relay-level default, top level, fallback *)
Definition resolve_relay (c : config2) (p : proposer) (fbfee fbgas : N) (a : N) : relay_cfg :=
  let br := aget (inherited c p) a in
  let pr := aget (p_relays p) a in
  {| rc_addr := a;
     rc_pk := or_opt (obind pr pr_pk) (obind br br_pk);
     rc_fee := first_some [obind pr pr_fee; p_fee p; obind br br_fee; e_fee c] fbfee;
     rc_gas := first_some [obind pr pr_gas; p_gas p; obind br br_gas; e_gas c] fbgas;
     rc_grace := first_some [obind pr pr_grace; p_grace p; obind br br_grace; e_grace c] 0;
     rc_min := first_some [obind pr pr_min; p_min p; obind br br_min; e_min c] dec_zero |}.

(* inherited relays, then the relays only the proposer names; disabled ones removed *)
Definition resolve_addrs (c : config2) (p : proposer) : list N :=
  let inh := map fst (inherited c p) in
  filter (fun a => negb (relay_disabled p a))
         (inh ++ filter (fun a => negb (memb N.eqb a inh)) (map fst (p_relays p))).

Definition resolve_with (c : config2) (p : proposer) (fbfee fbgas : N) : prop_cfg :=
  {| pc_fee := first_some [p_fee p; e_fee c] fbfee;
     pc_relays := map (resolve_relay c p fbfee fbgas) (resolve_addrs c p) |}.

Definition resolve_v2 (c : config2) (v : validator) (fbfee fbgas : N) : option prop_cfg :=
  match first_match (e_props c) v with
  | None => None
  | Some None => Some (resolve_with c empty_proposer fbfee fbgas)
  | Some (Some p) => Some (resolve_with c p fbfee fbgas)
  end.

(* ------------------------------------------------------------------------------------------ *)
(* Version 1 (legacy) configuration *)

Record builder1 := { b_enabled : bool; b_grace : N; b_relays : list N }.
Record proposer1 := { q_fee : N; q_gas : N; q_builder : option builder1 }.
(* map entries may be nil pointers (JSON null) *)
Record config1 := { c1_props : list (N * option proposer1); c1_default : option proposer1 }.

Definition empty_builder : builder1 := {| b_enabled := false; b_grace := 0; b_relays := [] |}.

(* the fallback entry built when neither a proposer entry nor a default is available *)
Definition fallback1 (fbfee fbgas : N) : proposer1 :=
  {| q_fee := fbfee; q_gas := fbgas; q_builder := Some empty_builder |}.

(* ExecutionConfig.ProposerConfig (v1).  The "fill in" step works on local copies: the shared
   configuration is not altered (repo commit "do not mutate the shared v1 execution
   configuration when resolving a proposer"). *)
Definition proposer_config_v1 (c : config1) (key fbfee fbgas : N) : prop_cfg :=
  let entry := match aget (c1_props c) key with          (* proposerConfig, exists := map[pubkey] *)
               | Some (Some q) => Some q
               | Some None                                (* exists but is a nil pointer (JSON null) *)
               | None => c1_default c                     (* try the default config (fix: a null
                                                             entry used to skip it) *)
               end in
  let q := match entry with
           | Some q => q
           | None => fallback1 fbfee fbgas                (* nil: the fallback config *)
           end in
  let gas := if q_gas q =? 0 then fbgas else q_gas q in
  let b := match q_builder q with Some b => b | None => empty_builder end in
  {| pc_fee := q_fee q;
     pc_relays :=
       if b_enabled b
       then map (fun a => {| rc_addr := a; rc_pk := None; rc_fee := q_fee q; rc_gas := gas;
                             rc_grace := b_grace b; rc_min := dec_zero |}) (b_relays b)
       else [] |}.

(* the documented legacy lookup: proposer entry, else default, else fallback; the gas limit alone
   falls back field-wise; relays only when the builder is enabled *)
Definition select1 (c : config1) (key fbfee fbgas : N) : proposer1 :=
  match aget (c1_props c) key with
  | Some (Some q) => q
  | Some None                                  (* a null entry is no entry *)
  | None => or_else (c1_default c) (fallback1 fbfee fbgas)
  end.

Definition resolve_v1 (c : config1) (key fbfee fbgas : N) : prop_cfg :=
  let q := select1 c key fbfee fbgas in
  let gas := if q_gas q =? 0 then fbgas else q_gas q in
  {| pc_fee := q_fee q;
     pc_relays :=
       match q_builder q with
       | Some b =>
           if b_enabled b
           then map (fun a => {| rc_addr := a; rc_pk := None; rc_fee := q_fee q; rc_gas := gas;
                                 rc_grace := b_grace b; rc_min := dec_zero |}) (b_relays b)
           else []
       | None => []
       end |}.

(* docs/execlayer.md, "Precedence of configuration values", reads differently: PER VALUE, "if a
   value is found in the validator-specific proposer_config section it is used; if not, and a
   value is found in the default_config section it is used; otherwise, the fallback value is
   used" (its example: an entry with only a fee recipient takes the builder of the default
   configuration).  The code selects one whole entry instead ([resolve_v1]); the two differ when
   the validator's entry lacks a gas limit the default has, or lacks a builder the default has (known finding C10-v1-entry-not-fieldwise; Proofs/C10.v proves both directions). *)
Definition gas_of1 (q : proposer1) : option N := if q_gas q =? 0 then None else Some (q_gas q).

Definition resolve_v1_doc (c : config1) (key fbfee fbgas : N) : prop_cfg :=
  let entry := match aget (c1_props c) key with Some (Some q) => Some q | _ => None end in
  let def := c1_default c in
  let fee := first_some [option_map q_fee entry; option_map q_fee def] fbfee in
  let gas := first_some [obind entry gas_of1; obind def gas_of1] fbgas in
  let builder := or_opt (obind entry q_builder) (obind def q_builder) in
  {| pc_fee := fee;
     pc_relays :=
       match builder with
       | Some b =>
           if b_enabled b
           then map (fun a => {| rc_addr := a; rc_pk := None; rc_fee := fee; rc_gas := gas;
                                 rc_grace := b_grace b; rc_min := dec_zero |}) (b_relays b)
           else []
       | None => []
       end |}.

(* the lookups on which the two readings coincide: no entry for the key, or a complete one *)
Definition v1_entry_complete (c : config1) (key : N) : bool :=
  match aget (c1_props c) key with
  | None | Some None => true
  | Some (Some q) => negb (q_gas q =? 0) && match q_builder q with Some _ => true | None => false end
  end.

(* ------------------------------------------------------------------------------------------ *)
(* Both versions behind the ExecutionConfigurator interface *)

Inductive config := CV1 (c : config1) | CV2 (c : config2).

Inductive outcome := OOk (p : prop_cfg) | OErr | OPanic.

(* a lookup does not alter the configuration (v2 never did; v1 since the fix above) *)
Definition lookup (c : config) (v : validator) (fbfee fbgas : N) : outcome :=
  match c with
  | CV1 c1 => OOk (proposer_config_v1 c1 (v_key v) fbfee fbgas)
  | CV2 c2 => match proposer_config_v2 c2 v fbfee fbgas with Some p => OOk p | None => OErr end
  end.

Definition lookups (c : config) (vs : list validator) (fbfee fbgas : N) : list outcome :=
  map (fun v => lookup c v fbfee fbgas) vs.

(* the specification of a lookup (no state) *)
Definition resolve (c : config) (v : validator) (fbfee fbgas : N) : outcome :=
  match c with
  | CV1 c1 => OOk (resolve_v1 c1 (v_key v) fbfee fbgas)
  | CV2 c2 => match resolve_v2 c2 v fbfee fbgas with Some p => OOk p | None => OErr end
  end.

(* the same with the per-value reading of docs/execlayer.md for the legacy format *)
Definition resolve_doc (c : config) (v : validator) (fbfee fbgas : N) : outcome :=
  match c with
  | CV1 c1 => OOk (resolve_v1_doc c1 (v_key v) fbfee fbgas)
  | CV2 _ => resolve c v fbfee fbgas
  end.

(* ------------------------------------------------------------------------------------------ *)
(* JSON documents as value trees.  String leaves are already decoded by the harness's leaf
   codecs (hex, strconv, shopspring/decimal, pattern numbering); [LBad] is a string the codec of
   that field rejects, [LEmpty] the empty string (which every field treats as "absent"). *)

Inductive fld :=
| FVersion | FFee | FGas | FGrace | FMin | FRelays | FProposers | FProposer | FReset | FDisabled
| FPk | FPropCfg | FDefault | FBuilder | FEnabled.

Definition fld_idx (f : fld) : N :=
  match f with
  | FVersion => 0 | FProposer => 1 | FDisabled => 2 | FPk => 3 | FFee => 4 | FGas => 5
  | FGrace => 6 | FMin => 7 | FReset => 8 | FRelays => 9 | FProposers => 10
  | FPropCfg => 11 | FDefault => 12 | FBuilder => 13 | FEnabled => 14
  end.
Definition fld_eqb (a b : fld) : bool := fld_idx a =? fld_idx b.

Inductive leaf :=
| LEmpty | LBad
| LAddr (a : N)        (* 20-byte hex *)
| LKey (k : N)         (* 48-byte hex *)
| LNum (n : N)         (* decimal digits of a uint64 (gas limit) / non-negative int64 (grace ms) *)
| LDec (d : dec)       (* non-negative decimal, in ether *)
| LRegex (rid : N)     (* an account pattern that compiles *)
| LRelay (a : N).      (* a v1 relay address string *)

Inductive json :=
| JNull
| JBool (b : bool)
| JNum (n : N)                       (* a non-negative integer number *)
| JStr (l : leaf)
| JArr (l : list json)
| JObj (l : list (fld * json))       (* a struct-shaped object (unknown keys dropped) *)
| JMap (l : list (N * json)).        (* a map-shaped object: relay address / public key -> value *)

(* encoding/json: an absent field, like null, leaves the Go zero value *)
Fixpoint field (f : fld) (o : list (fld * json)) : json :=
  match o with
  | [] => JNull
  | (g, j) :: o' => if fld_eqb g f then j else field f o'
  end.

(* decoders of one string field: None = unmarshal error, Some None = absent *)
Definition d_addr (j : json) : option (option N) :=
  match j with
  | JNull | JStr LEmpty => Some None
  | JStr (LAddr a) => Some (Some a)
  | _ => None
  end.
Definition d_key (j : json) : option (option N) :=
  match j with
  | JNull | JStr LEmpty => Some None
  | JStr (LKey k) => Some (Some k)
  | _ => None
  end.
Definition d_num (j : json) : option (option N) :=
  match j with
  | JNull | JStr LEmpty => Some None
  | JStr (LNum n) => Some (Some n)
  | _ => None
  end.
(* time.Duration(ms) * time.Millisecond must fit int64: larger values are refused
   (fix: they used to wrap around into an arbitrary, possibly negative, grace) *)
Definition max_grace_ms : N := 9223372036854.          (* MaxInt64 / 10^6 *)
Definition d_grace (j : json) : option (option N) :=
  match j with
  | JNull | JStr LEmpty => Some None
  | JStr (LNum ms) => if ms <=? max_grace_ms then Some (Some (ms * ns_per_ms)) else None
  | _ => None
  end.
Definition d_min (j : json) : option (option dec) :=
  match j with
  | JNull | JStr LEmpty => Some None
  | JStr (LDec d) => Some (Some (dec_shift 18 d))
  | _ => None
  end.
Definition d_bool (j : json) : option bool :=
  match j with
  | JNull => Some false
  | JBool b => Some b
  | _ => None
  end.

(* all elements must decode *)
Fixpoint all_some {A} (l : list (option A)) : option (list A) :=
  match l with
  | [] => Some []
  | Some x :: l' => option_map (cons x) (all_some l')
  | None :: _ => None
  end.

(* a map of objects; null entries are rejected (fix: they used to panic at lookup time) *)
Definition d_map {A} (dec_entry : json -> option A) (j : json) : option (list (N * A)) :=
  match j with
  | JNull => Some []
  | JMap l => all_some (map (fun kj => option_map (pair (fst kj)) (dec_entry (snd kj))) l)
  | _ => None
  end.

Definition base_relay_of_json (j : json) : option base_relay :=
  match j with
  | JObj o =>
      match d_key (field FPk o), d_addr (field FFee o), d_num (field FGas o),
            d_grace (field FGrace o), d_min (field FMin o) with
      | Some pk, Some fee, Some gas, Some gr, Some mn =>
          Some {| br_pk := pk; br_fee := fee; br_gas := gas; br_grace := gr; br_min := mn |}
      | _, _, _, _, _ => None
      end
  | _ => None
  end.

Definition prop_relay_of_json (j : json) : option prop_relay :=
  match j with
  | JObj o =>
      match d_bool (field FDisabled o), d_key (field FPk o), d_addr (field FFee o),
            d_num (field FGas o), d_grace (field FGrace o), d_min (field FMin o) with
      | Some dis, Some pk, Some fee, Some gas, Some gr, Some mn =>
          Some {| pr_disabled := dis; pr_pk := pk; pr_fee := fee; pr_gas := gas;
                  pr_grace := gr; pr_min := mn |}
      | _, _, _, _, _, _ => None
      end
  | _ => None
  end.

Definition d_selector (j : json) : option selector :=
  match j with
  | JStr (LKey k) => Some (SelKey k)
  | JStr (LRegex r) => Some (SelAcct r)
  | _ => None                                  (* absent / empty: "proposer is missing" *)
  end.

Definition proposer_of_json (j : json) : option proposer :=
  match j with
  | JObj o =>
      match d_selector (field FProposer o), d_addr (field FFee o), d_num (field FGas o),
            d_grace (field FGrace o), d_min (field FMin o), d_bool (field FReset o),
            d_map prop_relay_of_json (field FRelays o) with
      | Some sel, Some fee, Some gas, Some gr, Some mn, Some rst, Some rs =>
          Some {| p_sel := sel; p_fee := fee; p_gas := gas; p_grace := gr; p_min := mn;
                  p_reset := rst; p_relays := rs |}
      | _, _, _, _, _, _, _ => None
      end
  | _ => None
  end.

Definition d_arr {A} (dec_entry : json -> option A) (j : json) : option (list A) :=
  match j with
  | JNull => Some []
  | JArr l => all_some (map dec_entry l)
  | _ => None
  end.

Definition config2_of_json (j : json) : option config2 :=
  match j with
  | JObj o =>
      match field FVersion o with
      | JNum 2 =>
          match d_addr (field FFee o), d_num (field FGas o), d_grace (field FGrace o),
                d_min (field FMin o), d_map base_relay_of_json (field FRelays o),
                d_arr proposer_of_json (field FProposers o) with
          | Some fee, Some gas, Some gr, Some mn, Some rs, Some ps =>
              Some {| e_fee := fee; e_gas := gas; e_grace := gr; e_min := mn;
                      e_relays := rs; e_props := ps |}
          | _, _, _, _, _, _ => None
          end
      | _ => None
      end
  | _ => None
  end.

(* --- v1 --- *)
Definition d_relay1 (j : json) : option N :=
  match j with JStr (LRelay a) => Some a | _ => None end.

Definition builder1_of_json (j : json) : option builder1 :=
  match j with
  | JObj o =>
      match d_bool (field FEnabled o), d_grace (field FGrace o), d_arr d_relay1 (field FRelays o) with
      | Some en, Some gr, Some rs =>
          match en, rs with
          | true, [] => None                                       (* "relays missing" *)
          | _, _ => Some {| b_enabled := en; b_grace := or_else gr 0; b_relays := rs |}
          end
      | _, _, _ => None
      end
  | _ => None
  end.

Definition proposer1_of_json (j : json) : option proposer1 :=
  match j with
  | JObj o =>
      match field FFee o with
      | JStr (LAddr fee) =>
          match d_num (field FGas o) with
          | Some gas =>
              match field FBuilder o with
              | JNull => Some {| q_fee := fee; q_gas := or_else gas 0; q_builder := None |}
              | jb => option_map (fun b => {| q_fee := fee; q_gas := or_else gas 0; q_builder := Some b |})
                                 (builder1_of_json jb)
              end
          | None => None
          end
      | _ => None                                                  (* missing or undecodable *)
      end
  | _ => None
  end.

(* a pointer-valued map entry: null stays nil *)
Definition d_nullable {A} (dec_entry : json -> option A) (j : json) : option (option A) :=
  match j with
  | JNull => Some None
  | _ => option_map Some (dec_entry j)
  end.

(* no key occurs twice *)
Fixpoint nodupb (l : list N) : bool :=
  match l with
  | [] => true
  | x :: l' => negb (memb N.eqb x l') && nodupb l'
  end.

(* the keys of "proposer_config" are hex strings: two spellings of one public key ("0xAB..",
   "0xab..", "ab..") are refused (fix: the entry that won used to depend on Go's map order) *)
Definition config1_of_json (j : json) : option config1 :=
  match j with
  | JObj o =>
      match d_map (d_nullable proposer1_of_json) (field FPropCfg o) with
      | Some ps =>
          if negb (nodupb (map fst ps)) then None else
          match field FDefault o with
          | JNull => None                                          (* "default config missing" *)
          | jd => option_map (fun d => {| c1_props := ps; c1_default := Some d |}) (proposer1_of_json jd)
          end
      | None => None
      end
  | _ => None
  end.

(* blockrelay.UnmarshalJSON: dispatch on "version" *)
Definition unmarshal (j : json) : option config :=
  match j with
  | JObj o =>
      match field FVersion o with
      | JNull | JNum 0 => option_map CV1 (config1_of_json j)
      | JNum 2 => option_map CV2 (config2_of_json j)
      | _ => None
      end
  | _ => None
  end.

(* --- MarshalJSON (omitempty everywhere except "version", "proposer", "enabled") --- *)
Definition opt_fld {A} (f : fld) (enc : A -> json) (o : option A) : list (fld * json) :=
  match o with Some x => [(f, enc x)] | None => [] end.

Definition enc_addr (a : N) : json := JStr (LAddr a).
Definition enc_key (k : N) : json := JStr (LKey k).
Definition enc_num (n : N) : json := JStr (LNum n).
Definition enc_grace (g : N) : json := JStr (LNum (g / ns_per_ms)).          (* Milliseconds() *)
Definition enc_min (d : dec) : json := JStr (LDec (dec_shift (-18) d)).     (* Shift(-18): exact *)

Definition map_fld {A} (f : fld) (enc : A -> json) (l : list (N * A)) : list (fld * json) :=
  match l with
  | [] => []
  | _ => [(f, JMap (map (fun kx => (fst kx, enc (snd kx))) l))]
  end.

Definition base_relay_to_json (b : base_relay) : json :=
  JObj (opt_fld FPk enc_key (br_pk b) ++ opt_fld FFee enc_addr (br_fee b) ++ opt_fld FGas enc_num (br_gas b)
        ++ opt_fld FGrace enc_grace (br_grace b) ++ opt_fld FMin enc_min (br_min b)).

Definition prop_relay_to_json (r : prop_relay) : json :=
  JObj ((if pr_disabled r then [(FDisabled, JBool true)] else [])
        ++ opt_fld FPk enc_key (pr_pk r) ++ opt_fld FFee enc_addr (pr_fee r) ++ opt_fld FGas enc_num (pr_gas r)
        ++ opt_fld FGrace enc_grace (pr_grace r) ++ opt_fld FMin enc_min (pr_min r)).

Definition enc_selector (s : selector) : json :=
  match s with SelKey k => JStr (LKey k) | SelAcct r => JStr (LRegex r) end.

Definition proposer_to_json (p : proposer) : json :=
  JObj ([(FProposer, enc_selector (p_sel p))]
        ++ opt_fld FFee enc_addr (p_fee p) ++ opt_fld FGas enc_num (p_gas p)
        ++ opt_fld FGrace enc_grace (p_grace p) ++ opt_fld FMin enc_min (p_min p)
        ++ (if p_reset p then [(FReset, JBool true)] else [])
        ++ map_fld FRelays prop_relay_to_json (p_relays p)).

Definition config2_to_json (c : config2) : json :=
  JObj ([(FVersion, JNum 2)]
        ++ opt_fld FFee enc_addr (e_fee c) ++ opt_fld FGas enc_num (e_gas c)
        ++ opt_fld FGrace enc_grace (e_grace c) ++ opt_fld FMin enc_min (e_min c)
        ++ map_fld FRelays base_relay_to_json (e_relays c)
        ++ match e_props c with [] => [] | ps => [(FProposers, JArr (map proposer_to_json ps))] end).

Definition builder1_to_json (b : builder1) : json :=
  JObj ([(FEnabled, JBool (b_enabled b))]
        ++ (if 0 <? b_grace b then [(FGrace, enc_grace (b_grace b))] else [])
        ++ match b_relays b with [] => [] | rs => [(FRelays, JArr (map (fun a => JStr (LRelay a)) rs))] end).

Definition proposer1_to_json (q : proposer1) : json :=
  JObj ([(FFee, enc_addr (q_fee q))]                 (* fix: used to be omitted when zero *)
        ++ (if q_gas q =? 0 then [] else [(FGas, enc_num (q_gas q))])
        ++ opt_fld FBuilder builder1_to_json (q_builder q)).

Definition nullable_to_json {A} (enc : A -> json) (o : option A) : json :=
  match o with Some x => enc x | None => JNull end.

Definition config1_to_json (c : config1) : json :=
  JObj (map_fld FPropCfg (nullable_to_json proposer1_to_json) (c1_props c)
        ++ opt_fld FDefault proposer1_to_json (c1_default c)).

Definition marshal (c : config) : json :=
  match c with CV1 c1 => config1_to_json c1 | CV2 c2 => config2_to_json c2 end.
