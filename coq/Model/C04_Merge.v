(* C04: attester.MergeDuties (services/attester/helpers.go) and attester.NewDuty
   (services/attester/service.go): how the beacon node's per-validator attester duties become the
   per-slot [duty] (slot, three parallel arrays, committee index -> committee length) that Attest
   reads.  Transcribed statement by statement; the five Go maps keyed by slot (validatorIndices,
   committeeIndices, validatorCommitteeIndices, committeeLengths, committeesAtSlots) are one
   association list slot -> the per-slot values ([duty]; the number of committees at the slot is
   not read by Attest and is not kept).

   Definitions only. *)
From Verif Require Import Lib.Base Model.C01_Attester.

(* api.AttesterDuty: one row of the beacon node's answer *)
Record api_duty := {
  ad_slot : N;     (* Slot *)
  ad_val : N;      (* ValidatorIndex *)
  ad_comm : N;     (* CommitteeIndex *)
  ad_pos : N;      (* ValidatorCommitteeIndex: position of the validator in its committee *)
  ad_len : N;      (* CommitteeLength *)
  ad_cas : N       (* CommitteesAtSlot *)
}.

(* sort.Slice(attesterDuties, ...): by slot, then committee index, then validator index (all
   uint64, so the key is the lexicographic order).  Rows with equal keys are equal in the three
   fields; their relative order (Go's sort is not stable) is the insertion sort's here. *)
Definition ad_key (r : api_duty) : N := (ad_slot r * two64 + ad_comm r) * two64 + ad_val r.

Definition empty_duty (s : N) : duty :=
  {| d_slot := s; d_vals := []; d_comms := []; d_poss := []; d_sizes := [] |}.

(* the body of "for _, duty := range attesterDuties": create the slot's entries when absent,
   append to the three arrays, committeeLengths[duty.Slot][duty.CommitteeIndex] = duty.CommitteeLength *)
Definition add_row (acc : list (N * duty)) (r : api_duty) : list (N * duty) :=
  let d := match aget acc (ad_slot r) with Some d => d | None => empty_duty (ad_slot r) end in
  aset acc (ad_slot r)
       {| d_slot := ad_slot r;
          d_vals := d_vals d ++ [ad_val r];
          d_comms := d_comms d ++ [ad_comm r];
          d_poss := d_poss d ++ [ad_pos r];
          d_sizes := aset (d_sizes d) (ad_comm r) (ad_len r) |}.

(* "for slot := range validatorIndices { NewDuty(...) }": NewDuty refuses a duty only when one of
   its committee indices has no length, which cannot happen here (every row writes its own); the
   map's iteration order is erased by the final sort by slot (slots are unique keys). *)
Definition merge_duties (ds : list api_duty) : list duty :=
  sort_by d_slot (map snd (fold_left add_row (sort_by ad_key ds) [])).

(* the merged duty of a slot, if any *)
Definition merged_at (ds : list api_duty) (s : N) : option duty :=
  find (fun d => d_slot d =? s) (merge_duties ds).
