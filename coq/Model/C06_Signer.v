(* C06 — executable model of services/signer/standard (vouch), written from the code statement by
   statement, definitions only.

   Files modelled: service.go (New: the domain types and SLOTS_PER_EPOCH read from the chain spec),
   helpers.go (sign, signRootsMulti, signRootsByAccountType), signbeaconattestation.go,
   signbeaconattestations.go, signbeaconblockproposal.go, signrandaoreveal.go, signslotselection.go,
   signsynccommitteeselection.go, signaggregateandproof.go, signsynccommitteeroot.go,
   signcontributonandproof.go, signvalidatorregistration.go.

   What is abstract (the environment of the signer service):
   * the two-to-one hash [H] of SSZ merkleisation (Section variable; SHA-256 in the check);
   * the type of signatures [sig] and the zero signature;
   * the domain provider (eth2client.DomainProvider): a record of two functions, [None] = error;
   * the accounts' signing methods (e2wtypes.AccountSigner / AccountProtectingSigner /
     AccountProtectingMultiSigner): a record [env] of functions from the method's arguments to an
     optional signature.  [honest] below is the behaviour the interfaces document (a wallet account
     signs the 32 bytes it is given; a protecting (remote) signer signs
     hash_tree_root(SigningData(root, domain)) of what it is given); the theorems assume it, the
     harness's mock accounts implement it with real BLS keys.
   hash_tree_root of the go-eth2-client containers is Lib/Ssz.v (the library is environment; the
   correspondence check compares every root the accounts were asked to sign with Ssz.v's). *)
From Verif Require Import Lib.Base Lib.Ssz.

(* An account as the signer service sees it: the key that signs for it and the interfaces its
   Go type implements (the service only ever type-asserts on these four). *)
Record account := Account {
  a_key : N;          (* names the BLS key of the account (the composite key of a distributed account) *)
  a_signer : bool;    (* implements e2wtypes.AccountSigner *)
  a_prot : bool;      (* implements e2wtypes.AccountProtectingSigner *)
  a_multi : bool;     (* implements e2wtypes.AccountProtectingMultiSigner *)
  a_dist : bool;      (* implements e2wtypes.DistributedAccount *)
  a_fail : bool       (* its signing operations fail: an error from a single-signature method, a nil
                         entry in the result of a multi-signature method *)
}.

(* Service fields set by New from the chain spec. *)
Record service := Service {
  s_spe : N;
  s_proposer : N; s_attester : N; s_randao : N; s_selection : N; s_aggregate : N;
  s_sync : option N; s_sync_selection : option N; s_contribution : option N; s_builder : option N
}.

Record provider := Provider {
  p_domain : N -> N -> option N;        (* Domain(ctx, domainType, epoch) *)
  p_genesis : N -> option N             (* GenesisDomain(ctx, domainType) *)
}.

Inductive res (A : Type) := Ok (x : A) | Err | Panic.
Arguments Ok {A} x.
Arguments Err {A}.
Arguments Panic {A}.

(* builderv1.ValidatorRegistration as the caller hands it to SignValidatorRegistration.  Its
   Timestamp is a Go time.Time: an instant with nanosecond resolution, here the nanoseconds since
   the Unix epoch (negative before 1970; the zero time.Time is -62135596800 s).  The location and
   the monotonic reading of a time.Time take no part in Unix() and are not modelled (the harness
   varies the location).  What is signed, sent on the wire and verified by relays is the
   builder-specs ValidatorRegistrationV1, whose timestamp is a uint64 of SECONDS:
   go-builder-client's HashTreeRoot / MarshalSSZ put uint64(Timestamp.Unix()), and Unix() rounds
   DOWN (the sub-second part is dropped, never rounded to the nearest second). *)
Record go_registration := GoRegistration {
  gr_fee_recipient : N; gr_gas_limit : N; gr_time_ns : Z; gr_pubkey : N }.

(* time.Time.Unix() *)
Definition unix_seconds (t_ns : Z) : Z := (t_ns / 1000000000)%Z.
(* the conversion uint64(int64) *)
Definition to_uint64 (z : Z) : N := Z.to_N (z mod 18446744073709551616)%Z.

(* the registration message (builder-specs) that a Go registration stands for *)
Definition wire_registration (g : go_registration) : registration :=
  Registration (gr_fee_recipient g) (gr_gas_limit g) (to_uint64 (unix_seconds (gr_time_ns g))) (gr_pubkey g).

Inductive request :=
| ReqAttestation (a : account) (d : att_data)
| ReqAttestations (accs : list account) (slot : N) (idxs : list N) (bbr se sr te tr : N)
| ReqProposal (a : account) (h : block_header)
| ReqRandao (a : account) (slot : N)
| ReqSlotSelections (accs : list account) (slot : N)
| ReqSyncSelections (accs : list account) (slot : N) (subs : list N)
| ReqAggregateAndProof (a : account) (slot root : N)
| ReqSyncRoots (accs : list account) (epoch root : N)
| ReqContributions (accs : list account) (cps : list contribution_and_proof)
| ReqRegistration (a : account) (reg : option go_registration).  (* None: nil / unsupported version / nil V1 *)

(* sigs[i] = v for a slice (an out-of-range index cannot occur where this is used; it is a no-op here) *)
Fixpoint upd_nth {A} (i : nat) (v : A) (l : list A) : list A :=
  match l, i with
  | [], _ => []
  | _ :: r, O => v :: r
  | x :: r, S i' => x :: upd_nth i' v r
  end.

Section Signer.
  Variable H : N -> N -> N.
  Variable sig : Type.
  Variable zero_sig : sig.

  Record env := Env {
    e_sign : account -> N -> option sig;                       (* Sign(ctx, data) *)
    e_generic : account -> N -> N -> option sig;               (* SignGeneric(ctx, root, domain) *)
    e_att : account -> att_data -> N -> option sig;            (* SignBeaconAttestation(ctx, fields..., domain) *)
    e_prop : account -> block_header -> N -> option sig;       (* SignBeaconProposal(ctx, fields..., domain) *)
    (* SignGenericMulti(ctx, accounts, data, domain) called on the first account *)
    e_multi_generic : account -> list account -> list N -> N -> option (list (option sig));
    (* SignBeaconAttestations(ctx, slot, accounts, committeeIndices, blockRoot, ..., domain) on the first account;
       the att_data argument carries the shared fields (its ad_index is unused) *)
    e_multi_att : account -> list account -> list N -> att_data -> N -> option (list (option sig))
  }.

  Variable P : provider.
  Variable E : env.

  (* ---------------------------------------------------------------------------------------- *)
  (* helpers.go                                                                                 *)

  (* sign: protected method if the account has one, else SigningData root and plain Sign.
     (the nil-account guard is not modelled: requests carry accounts.)
     [account.(e2wtypes.AccountSigner)] is an unchecked assertion: it panics on other accounts. *)
  Definition sign_one (a : account) (root domain : N) : res sig :=
    if a_prot a then
      match e_generic E a root domain with Some s => Ok s | None => Err end
    else if a_signer a then
      match e_sign E a (htr_signing_data H root domain) with Some s => Ok s | None => Err end
    else Panic.

  Definition sig_or_zero (o : option sig) : sig := match o with Some s => s | None => zero_sig end.

  (* sigs := make([]BLSSignature, n); for i := range signatures { if signatures[i] != nil { copy(sigs[i], ...) } }
     -- indexing past n panics *)
  Definition copy_sigs (n : nat) (signatures : list (option sig)) : res (list sig) :=
    if Nat.ltb n (length signatures) then Panic
    else Ok (map sig_or_zero signatures ++ repeat zero_sig (n - length signatures)).

  (* the non-multi loop of signRootsMulti *)
  Fixpoint sign_each (items : list (account * N)) (domain : N) : res (list sig) :=
    match items with
    | [] => Ok []
    | (a, root) :: r =>
        if a_signer a then
          match e_sign E a (htr_signing_data H root domain) with
          | None => Err
          | Some s => match sign_each r domain with Ok l => Ok (s :: l) | Err => Err | Panic => Panic end
          end
        else Err                                 (* "unknown signer type; cannot sign" *)
    end.

  (* signRootsMulti (callers pass lists of equal length) *)
  Definition sign_roots_multi (items : list (account * N)) (domain : N) : res (list sig) :=
    match items with
    | [] => Err                                  (* "no accounts; cannot sign" *)
    | (a0, _) :: _ =>
        if a_multi a0 then
          match e_multi_generic E a0 (map fst items) (map snd items) domain with
          | None => Err
          | Some signatures => copy_sigs (length items) signatures
          end
        else sign_each items domain
    end.

  (* The split by account kind.  The two Go maps (position in the sub-batch -> position in the
     request) have the keys 0..len-1 in order, so each is the list of its values.  Returns
     ((individual items, their request positions), (distributed items, their request positions)). *)
  Fixpoint split_from {A} (i : nat) (items : list (account * A))
    : (list (account * A) * list nat) * (list (account * A) * list nat) :=
    match items with
    | [] => (([], []), ([], []))
    | it :: r =>
        let '((o, om), (d, dm)) := split_from (S i) r in
        if a_dist (fst it) then ((o, om), (it :: d, i :: dm)) else ((it :: o, i :: om), (d, dm))
    end.

  (* for i := range signatures { sigs[sigMap[i]] = signatures[i] } *)
  Fixpoint scatter (idx : list nat) (vals : list sig) (sigs : list sig) : list sig :=
    match idx, vals with
    | i :: idx', v :: vals' => scatter idx' vals' (upd_nth i v sigs)
    | _, _ => sigs
    end.

  (* the common tail of signRootsByAccountType and SignBeaconAttestations: individual accounts
     first, then distributed ones, in series; all or nothing *)
  Definition sign_split {A} (sign_group : list (account * A) -> res (list sig))
             (items : list (account * A)) : res (list sig) :=
    let '((o, om), (d, dm)) := split_from 0 items in
    let sigs0 := repeat zero_sig (length items) in
    let r1 := match o with
              | [] => Ok sigs0
              | _ => match sign_group o with Ok l => Ok (scatter om l sigs0) | Err => Err | Panic => Panic end
              end in
    match r1 with
    | Ok sigs1 =>
        match d with
        | [] => Ok sigs1
        | _ => match sign_group d with Ok l => Ok (scatter dm l sigs1) | Err => Err | Panic => Panic end
        end
    | Err => Err
    | Panic => Panic
    end.

  (* signRootsByAccountType *)
  Definition sign_roots_by_account_type (accs : list account) (roots : list N) (domain : N) : res (list sig) :=
    if negb (Nat.eqb (length accs) (length roots)) then Err
    else sign_split (fun g => sign_roots_multi g domain) (combine accs roots).

  (* ---------------------------------------------------------------------------------------- *)
  (* The requests                                                                               *)

  Variable Sv : service.
  Definition epoch_of (slot : N) : N := slot / s_spe Sv.           (* phase0.Epoch(slot / s.slotsPerEpoch) *)

  (* binary.LittleEndian.PutUint64(root[:], x) on a zeroed 32-byte array *)
  Definition put_uint64_le (x : N) : N :=
    be_number (le_bytes 8 x ++ skipn 8 (repeat 0 32)).

  Definition one (r : res sig) : res (list sig) :=
    match r with Ok s => Ok [s] | Err => Err | Panic => Panic end.

  (* SignBeaconAttestation *)
  Definition sign_attestation (a : account) (d : att_data) : res sig :=
    match p_domain P (s_attester Sv) (epoch_of (ad_slot d)) with
    | None => Err
    | Some domain =>
        if a_prot a then
          match e_att E a d domain with Some s => Ok s | None => Err end
        else sign_one a (htr_att_data H d) domain
    end.

  (* signBeaconAttestations: one kind of account *)
  Fixpoint sign_attestation_each (items : list (account * N)) (shared : att_data) : res (list sig) :=
    match items with
    | [] => Ok []
    | (a, idx) :: r =>
        match sign_attestation a (AttData (ad_slot shared) idx (ad_block_root shared) (ad_source_epoch shared)
                                          (ad_source_root shared) (ad_target_epoch shared) (ad_target_root shared)) with
        | Ok s => match sign_attestation_each r shared with Ok l => Ok (s :: l) | Err => Err | Panic => Panic end
        | Err => Err
        | Panic => Panic
        end
    end.

  Definition sign_attestations_group (items : list (account * N)) (shared : att_data) (domain : N) : res (list sig) :=
    match items with
    | [] => Ok []
    | (a0, _) :: _ =>
        if a_multi a0 then
          match e_multi_att E a0 (map fst items) (map snd items) shared domain with
          | None => Err
          | Some signatures => copy_sigs (length items) signatures
          end
        else sign_attestation_each items shared
    end.

  (* SignBeaconAttestations; committeeIndices[i] panics when there are fewer indices than accounts *)
  Definition sign_attestations (accs : list account) (idxs : list N) (shared : att_data) : res (list sig) :=
    match accs with
    | [] => Err                                  (* "no accounts supplied" *)
    | _ =>
        match p_domain P (s_attester Sv) (epoch_of (ad_slot shared)) with
        | None => Err
        | Some domain =>
            if Nat.ltb (length idxs) (length accs) then Panic
            else sign_split (fun g => sign_attestations_group g shared domain) (combine accs idxs)
        end
    end.

  (* SignBeaconBlockProposal *)
  Definition sign_proposal (a : account) (h : block_header) : res sig :=
    match p_domain P (s_proposer Sv) (epoch_of (bh_slot h)) with
    | None => Err
    | Some domain =>
        if a_prot a then
          match e_prop E a h domain with Some s => Ok s | None => Err end
        else sign_one a (htr_block_header H h) domain
    end.

  (* SignRANDAOReveal *)
  Definition sign_randao (a : account) (slot : N) : res sig :=
    let epoch := epoch_of slot in
    match p_domain P (s_randao Sv) epoch with
    | None => Err
    | Some domain => sign_one a (put_uint64_le epoch) domain
    end.

  (* SignSlotSelections *)
  Definition sign_slot_selections (accs : list account) (slot : N) : res (list sig) :=
    match p_domain P (s_selection Sv) (epoch_of slot) with
    | None => Err
    | Some domain =>
        let slot_bytes := put_uint64_le slot in
        sign_roots_by_account_type accs (map (fun _ => slot_bytes) accs) domain
    end.

  (* SignSyncCommitteeSelections; subcommitteeIndices[i] panics when there are fewer than accounts *)
  Definition sign_sync_selections (accs : list account) (slot : N) (subs : list N) : res (list sig) :=
    match s_sync_selection Sv with
    | None => Err
    | Some dt =>
        match p_domain P dt (epoch_of slot) with
        | None => Err
        | Some domain =>
            if Nat.ltb (length subs) (length accs) then Panic
            else sign_roots_by_account_type accs
                   (map (fun sub => htr_sync_selection_data H slot sub) (firstn (length accs) subs)) domain
        end
    end.

  (* SignAggregateAndProof *)
  Definition sign_aggregate_and_proof (a : account) (slot root : N) : res sig :=
    match p_domain P (s_aggregate Sv) (epoch_of slot) with
    | None => Err
    | Some domain => sign_one a root domain
    end.

  (* SignSyncCommitteeRoots *)
  Definition sign_sync_roots (accs : list account) (epoch root : N) : res (list sig) :=
    match s_sync Sv with
    | None => Err
    | Some dt =>
        match p_domain P dt epoch with
        | None => Err
        | Some domain => sign_roots_by_account_type accs (map (fun _ => root) accs) domain
        end
    end.

  (* SignContributionAndProofs; contributionAndProofs[0] panics on an empty request *)
  Definition sign_contributions (accs : list account) (cps : list contribution_and_proof) : res (list sig) :=
    match s_contribution Sv with
    | None => Err
    | Some dt =>
        if negb (Nat.eqb (length accs) (length cps)) then Err
        else match cps with
             | [] => Panic
             | cp0 :: _ =>
                 let epoch := epoch_of (co_slot (cp_contribution cp0)) in
                 (* one domain for all items: they must all be for the same epoch *)
                 if negb (forallb (fun cp => epoch_of (co_slot (cp_contribution cp)) =? epoch) cps) then Err
                 else
                 match p_domain P dt epoch with
                 | None => Err
                 | Some domain =>
                     sign_roots_by_account_type accs (map (htr_contribution_and_proof H) cps) domain
                 end
             end
    end.

  (* SignValidatorRegistration *)
  Definition sign_registration (a : account) (reg : option go_registration) : res sig :=
    match reg with
    | None => Err
    | Some r =>
        match s_builder Sv with
        | None => Err
        | Some dt =>
            match p_genesis P dt with
            | None => Err
            | Some domain => sign_one a (htr_registration H (wire_registration r)) domain  (* registration.V1.HashTreeRoot() *)
            end
        end
    end.

  Definition run (q : request) : res (list sig) :=
    match q with
    | ReqAttestation a d => one (sign_attestation a d)
    | ReqAttestations accs slot idxs bbr se sr te tr => sign_attestations accs idxs (AttData slot 0 bbr se sr te tr)
    | ReqProposal a h => one (sign_proposal a h)
    | ReqRandao a slot => one (sign_randao a slot)
    | ReqSlotSelections accs slot => sign_slot_selections accs slot
    | ReqSyncSelections accs slot subs => sign_sync_selections accs slot subs
    | ReqAggregateAndProof a slot root => one (sign_aggregate_and_proof a slot root)
    | ReqSyncRoots accs epoch root => sign_sync_roots accs epoch root
    | ReqContributions accs cps => sign_contributions accs cps
    | ReqRegistration a reg => one (sign_registration a reg)
    end.

  (* ---------------------------------------------------------------------------------------- *)
  (* The documented behaviour of the accounts, for an abstract BLS signing function.            *)

  Variable sign : N -> N -> sig.               (* sign key message: BLS Sign(sk_key, 32-byte message) *)

  Definition honest_one (a : account) (signing_root : N) : option sig :=
    if a_fail a then None else Some (sign (a_key a) signing_root).

  Definition att_with_index (shared : att_data) (idx : N) : att_data :=
    AttData (ad_slot shared) idx (ad_block_root shared) (ad_source_epoch shared) (ad_source_root shared)
            (ad_target_epoch shared) (ad_target_root shared).

  Definition honest : env := {|
    e_sign := fun a data => honest_one a data;
    e_generic := fun a root domain => honest_one a (compute_signing_root H root domain);
    e_att := fun a d domain => honest_one a (compute_signing_root H (htr_att_data H d) domain);
    e_prop := fun a h domain => honest_one a (compute_signing_root H (htr_block_header H h) domain);
    e_multi_generic := fun _ accs roots domain =>
      Some (map (fun '(a, root) => honest_one a (compute_signing_root H root domain)) (combine accs roots));
    e_multi_att := fun _ accs idxs shared domain =>
      Some (map (fun '(a, idx) => honest_one a (compute_signing_root H (htr_att_data H (att_with_index shared idx)) domain))
                (combine accs idxs))
  |}.

  (* The same accounts behind a remote signer with TRANSIENT failures, decided call by call by the
     signer and not by the kind of account: a multi-signature call has no signature for a member
     that could sign alone ([bf]: threshold not reached for it in this round; a nil entry), a
     multi-signature call fails as a whole on the account it is made on ([be]), a single-signature
     call fails for an account that a multi-signature call signs for ([sf]).  Whatever IS signed is
     signed as documented.  [honest] is the case where the three predicates are false everywhere. *)
  Variables bf be sf : account -> bool.

  Definition flaky_single (a : account) (signing_root : N) : option sig :=
    if a_fail a || sf a then None else Some (sign (a_key a) signing_root).

  Definition flaky_member (a : account) (signing_root : N) : option sig :=
    if a_fail a || bf a then None else Some (sign (a_key a) signing_root).

  Definition honest_flaky : env := {|
    e_sign := fun a data => flaky_single a data;
    e_generic := fun a root domain => flaky_single a (compute_signing_root H root domain);
    e_att := fun a d domain => flaky_single a (compute_signing_root H (htr_att_data H d) domain);
    e_prop := fun a h domain => flaky_single a (compute_signing_root H (htr_block_header H h) domain);
    e_multi_generic := fun a0 accs roots domain =>
      if be a0 then None
      else Some (map (fun '(a, root) => flaky_member a (compute_signing_root H root domain)) (combine accs roots));
    e_multi_att := fun a0 accs idxs shared domain =>
      if be a0 then None
      else Some (map (fun '(a, idx) => flaky_member a (compute_signing_root H (htr_att_data H (att_with_index shared idx)) domain))
                     (combine accs idxs))
  |}.
End Signer.

Arguments Env {sig}.
Arguments e_sign {sig}.
Arguments e_generic {sig}.
Arguments e_att {sig}.
Arguments e_prop {sig}.
Arguments e_multi_generic {sig}.
Arguments e_multi_att {sig}.

(* ------------------------------------------------------------------------------------------ *)
(* Sessions: the requests made one after another (or at once) to ONE service instance.          *)
(* service.go: every field of Service is assigned once, by New; no Sign* method and nothing in  *)
(* helpers.go assigns a field of the service, and the package has no variable that they write   *)
(* (only the logger, set by New): handling a request leaves the service as it found it.  The    *)
(* domain provider is a node outside vouch: what it answers may differ from one request to the  *)
(* next (it may be down for one and up for the next), so every request of a session comes with  *)
(* the provider as it answers during that request.                                              *)

Section Session.
  Variable H : N -> N -> N.
  Variable sig : Type.
  Variable zero_sig : sig.
  Variable E : env sig.

  (* one request: its outcome and the service afterwards *)
  Definition handle (Sv : service) (pq : provider * request) : res (list sig) * service :=
    (run H sig zero_sig (fst pq) E Sv (snd pq), Sv).

  Fixpoint run_session (Sv : service) (qs : list (provider * request)) : list (res (list sig)) :=
    match qs with
    | [] => []
    | pq :: r => let (out, Sv') := handle Sv pq in out :: run_session Sv' r
    end.
End Session.

(* The same with the accounts' signers as they behave during each request: a remote signer may
   have no signature for a member of one batch and sign for it in the next request (transient
   failures), so every request of the session also comes with the environment of account methods
   as it answers during that request.  The service itself is still returned as it was found. *)
Section SessionEnv.
  Variable H : N -> N -> N.
  Variable sig : Type.
  Variable zero_sig : sig.

  Definition handle_env (Sv : service) (peq : provider * env sig * request) : res (list sig) * service :=
    (run H sig zero_sig (fst (fst peq)) (snd (fst peq)) Sv (snd peq), Sv).

  Fixpoint run_session_env (Sv : service) (qs : list (provider * env sig * request)) : list (res (list sig)) :=
    match qs with
    | [] => []
    | peq :: r => let (out, Sv') := handle_env Sv peq in out :: run_session_env Sv' r
    end.
End SessionEnv.

(* Overlapping requests.  vouch makes its requests to the one signer service from many goroutines;
   an account call (a lock, a remote signer, a threshold of peers) can take long, and other requests
   enter and leave the service meanwhile.  An execution is a list of events: [EStart k] -- the k-th
   request enters the service and reads its fields; [EFinish k] -- its account calls are answered
   (by the node and the signers as they answer for THAT request) and it returns.  In the code every
   argument of an account call is a value of the request's own: the object root and the domain are
   local arrays of the call frame, the signing root is the array that [HashTreeRoot] returns, the
   per-account data of a batch call are slices of arrays made for that call; no [Sign*] method or
   helper writes a field of [Service] or a package variable.  So the model of a request in flight is
   the service as the request read it, and the shared service after an event is the service as
   [handle_env] returns it (unchanged).  Events of requests that were never started, or that do not
   exist, are ignored. *)
Inductive event := EStart (k : nat) | EFinish (k : nat).

Section Overlap.
  Variable H : N -> N -> N.
  Variable sig : Type.
  Variable zero_sig : sig.

  Fixpoint in_flight (k : nat) (fl : list (nat * service)) : option service :=
    match fl with
    | [] => None
    | (j, Sv) :: r => if Nat.eqb j k then Some Sv else in_flight k r
    end.

  Fixpoint land (k : nat) (fl : list (nat * service)) : list (nat * service) :=
    match fl with
    | [] => []
    | (j, Sv) :: r => if Nat.eqb j k then r else (j, Sv) :: land k r
    end.

  Fixpoint run_overlapped (Sv : service) (qs : list (provider * env sig * request))
           (fl : list (nat * service)) (evs : list event) : list (nat * res (list sig)) :=
    match evs with
    | [] => []
    | EStart k :: r => run_overlapped Sv qs ((k, Sv) :: fl) r
    | EFinish k :: r =>
        match in_flight k fl, nth_error qs k with
        | Some Svk, Some peq =>
            let (out, _) := handle_env H sig zero_sig Svk peq in
            (k, out) :: run_overlapped (snd (handle_env H sig zero_sig Sv peq)) qs (land k fl) r
        | _, _ => run_overlapped Sv qs fl r
        end
    end.
End Overlap.

(* ------------------------------------------------------------------------------------------ *)
(* The specification side: the duty messages, and what the consensus / builder specs sign.      *)

Inductive message :=
| MAttestation (d : att_data)                       (* validator.md get_attestation_signature *)
| MBlock (h : block_header)                         (* get_block_signature (htr(block) = htr(header)) *)
| MRandao (slot : N)                                (* get_epoch_signature for the block at slot *)
| MSlotSelection (slot : N)                         (* get_slot_signature *)
| MSyncSelection (slot sub : N)                     (* altair get_sync_committee_selection_proof *)
| MAggregateAndProof (slot root : N)                (* get_aggregate_and_proof_signature; root = htr(AggregateAndProof), slot = aggregate.data.slot *)
| MSyncMessage (epoch root : N)                     (* altair get_sync_committee_message at the given current epoch *)
| MContribution (cp : contribution_and_proof)       (* altair get_contribution_and_proof_signature *)
| MRegistration (r : registration).                 (* builder-specs: registration signature *)

Section Spec.
  Variable H : N -> N -> N.
  Variable c : chain.

  Definition spec_domain_type (m : message) : N :=
    match m with
    | MAttestation _ => DOMAIN_BEACON_ATTESTER
    | MBlock _ => DOMAIN_BEACON_PROPOSER
    | MRandao _ => DOMAIN_RANDAO
    | MSlotSelection _ => DOMAIN_SELECTION_PROOF
    | MSyncSelection _ _ => DOMAIN_SYNC_COMMITTEE_SELECTION_PROOF
    | MAggregateAndProof _ _ => DOMAIN_AGGREGATE_AND_PROOF
    | MSyncMessage _ _ => DOMAIN_SYNC_COMMITTEE
    | MContribution _ => DOMAIN_CONTRIBUTION_AND_PROOF
    | MRegistration _ => DOMAIN_APPLICATION_BUILDER
    end.

  (* the epoch whose fork the domain is taken from *)
  Definition spec_epoch (m : message) : N :=
    match m with
    | MAttestation d => ad_target_epoch d
    | MBlock h => compute_epoch_at_slot c (bh_slot h)
    | MRandao slot => compute_epoch_at_slot c slot
    | MSlotSelection slot => compute_epoch_at_slot c slot
    | MSyncSelection slot _ => compute_epoch_at_slot c slot
    | MAggregateAndProof slot _ => compute_epoch_at_slot c slot
    | MSyncMessage epoch _ => epoch
    | MContribution cp => compute_epoch_at_slot c (co_slot (cp_contribution cp))
    | MRegistration _ => 0
    end.

  Definition spec_object_root (m : message) : N :=
    match m with
    | MAttestation d => htr_att_data H d
    | MBlock h => htr_block_header H h
    | MRandao slot => u64_chunk (compute_epoch_at_slot c slot)
    | MSlotSelection slot => u64_chunk slot
    | MSyncSelection slot sub => htr_sync_selection_data H slot sub
    | MAggregateAndProof _ root => root
    | MSyncMessage _ root => root
    | MContribution cp => htr_contribution_and_proof H cp
    | MRegistration r => htr_registration H r
    end.

  Definition spec_domain (m : message) : N :=
    match m with
    | MRegistration _ => builder_domain H c DOMAIN_APPLICATION_BUILDER
    | _ => get_domain H c (spec_domain_type m) (spec_epoch m)
    end.

  Definition spec_signing_root (m : message) : N :=
    compute_signing_root H (spec_object_root m) (spec_domain m).
End Spec.

(* the i-th account and message of a request *)
Definition request_items (q : request) : list (account * message) :=
  match q with
  | ReqAttestation a d => [(a, MAttestation d)]
  | ReqAttestations accs slot idxs bbr se sr te tr =>
      map (fun '(a, idx) => (a, MAttestation (AttData slot idx bbr se sr te tr))) (combine accs idxs)
  | ReqProposal a h => [(a, MBlock h)]
  | ReqRandao a slot => [(a, MRandao slot)]
  | ReqSlotSelections accs slot => map (fun a => (a, MSlotSelection slot)) accs
  | ReqSyncSelections accs slot subs => map (fun '(a, sub) => (a, MSyncSelection slot sub)) (combine accs subs)
  | ReqAggregateAndProof a slot root => [(a, MAggregateAndProof slot root)]
  | ReqSyncRoots accs epoch root => map (fun a => (a, MSyncMessage epoch root)) accs
  | ReqContributions accs cps => map (fun '(a, cp) => (a, MContribution cp)) (combine accs cps)
  | ReqRegistration a (Some r) => [(a, MRegistration (wire_registration r))]
  | ReqRegistration a None => []
  end.

(* The service as New builds it from a chain spec that carries the specification's constants, and
   the domain provider of a node of that chain (go-eth2-client: Domain = get_domain for the fork of
   the epoch; GenesisDomain = the genesis fork version, and the zero genesis validators root for
   the application (builder) domain type). *)
Definition spec_service (c : chain) : service := {|
  s_spe := ch_spe c;
  s_proposer := DOMAIN_BEACON_PROPOSER; s_attester := DOMAIN_BEACON_ATTESTER; s_randao := DOMAIN_RANDAO;
  s_selection := DOMAIN_SELECTION_PROOF; s_aggregate := DOMAIN_AGGREGATE_AND_PROOF;
  s_sync := Some DOMAIN_SYNC_COMMITTEE; s_sync_selection := Some DOMAIN_SYNC_COMMITTEE_SELECTION_PROOF;
  s_contribution := Some DOMAIN_CONTRIBUTION_AND_PROOF; s_builder := Some DOMAIN_APPLICATION_BUILDER
|}.

Definition spec_provider (H : N -> N -> N) (c : chain) : provider := {|
  p_domain := fun ty epoch => Some (get_domain H c ty epoch);
  p_genesis := fun ty =>
    Some (compute_domain H ty (ch_genesis_version c) (if ty =? DOMAIN_APPLICATION_BUILDER then 0 else ch_gvr c))
|}.
