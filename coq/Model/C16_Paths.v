(* C16 — no data from a beacon node, relay or configuration can crash Vouch.

   Executable models of eight input paths, written from the code statement by statement at the
   granularity of nil-ness, lengths, indices, slice-to-array conversion and allocation sizes, with
   an explicit three-way outcome  Ok v | Err e | Panic.  Definitions only.

   Every model takes the guards the code has as *parameters* (a boolean per guard, [true] = the
   guard is present).  The code as it is now is the instance with every guard present
   ([..._now]); the instances with a guard removed are used for the "guard is necessary"
   witnesses (the historical defects) and by the correspondence check when the tree regresses.

   Strings (graffiti, file contents) are lists of bytes ([list N]); identities (relays, validators,
   accounts, addresses) are [N]. *)
From Verif Require Import Lib.Base.

Inductive outcome (A E : Type) : Type :=
| Ok (v : A)
| Err (e : E)
| Panic.
Arguments Ok {A E} v.
Arguments Err {A E} e.
Arguments Panic {A E}.

Definition is_panic {A E} (o : outcome A E) : bool :=
  match o with Panic => true | _ => false end.
Definition is_ok {A E} (o : outcome A E) : bool :=
  match o with Ok _ => true | _ => false end.
Definition is_err {A E} (o : outcome A E) : bool :=
  match o with Err _ => true | _ => false end.

Definition bind {A B E} (o : outcome A E) (f : A -> outcome B E) : outcome B E :=
  match o with Ok v => f v | Err e => Err e | Panic => Panic end.

Definition lenN {A} (l : list A) : N := N.of_nat (length l).

(* ------------------------------------------------------------------------------------------- *)
(* Bytes: the Go functions the paths use.                                                        *)

Fixpoint prefix_b (p s : list N) : bool :=
  match p, s with
  | [], _ => true
  | x :: p', y :: s' => (x =? y) && prefix_b p' s'
  | _ :: _, [] => false
  end.

(* bytes.Contains / strings.Contains *)
Fixpoint contains (p s : list N) : bool :=
  prefix_b p s || match s with [] => false | _ :: s' => contains p s' end.

(* bytes.ReplaceAll / strings.ReplaceAll for a non-empty pattern: leftmost, non-overlapping.
   [skip] = bytes of the current match still to be consumed. *)
Fixpoint replace_go (pat rep : list N) (skip : nat) (s : list N) : list N :=
  match s with
  | [] => []
  | c :: s' =>
      match skip with
      | S k => replace_go pat rep k s'
      | O => if prefix_b pat s then rep ++ replace_go pat rep (pred (length pat)) s'
             else c :: replace_go pat rep O s'
      end
  end.
Definition replace_all (pat rep s : list N) : list N :=
  match pat with [] => s | _ => replace_go pat rep O s end.

(* number of (leftmost, non-overlapping) occurrences *)
Fixpoint count_go (pat : list N) (skip : nat) (s : list N) : nat :=
  match s with
  | [] => O
  | _ :: s' =>
      match skip with
      | S k => count_go pat k s'
      | O => if prefix_b pat s then S (count_go pat (pred (length pat)) s') else count_go pat O s'
      end
  end.

(* copy(dst[:], src) into a zeroed [32]byte *)
Definition pad32 (l : list N) : list N := firstn 32 (l ++ repeat 0 32).

(* "{{CLIENT}}" *)
Definition tmpl_client : list N := [123; 123; 67; 76; 73; 69; 78; 84; 125; 125].

(* what a beacon node says when asked for its client name *)
Inductive node_client :=
| NCNot                         (* the provider is not a NodeClientProvider *)
| NCErr                         (* NodeClient failed: "not updating graffiti" *)
| NCName (name : list N).

(* ------------------------------------------------------------------------------------------- *)
(* Path 1 — services/beaconblockproposer/standard/propose.go: Propose -> obtainGraffiti ->
   proposeBlock, from the proposal response to the selection of the unblinding providers (and the
   submission that follows).                                                                      *)

Record prov := { pv_id : N; pv_unblinds : bool }.
Record auction := { au_providers : list prov; au_all : list prov }.

Inductive auction_in :=
| ANoAuctioneer                (* s.blockAuctioneer == nil *)
| AErr                         (* AuctionBlock returned an error: auctionResults stays nil *)
| ARes (a : auction).

Inductive graffiti_in :=
| GNoProvider
| GErr                         (* the graffiti provider failed *)
| GBytes (l : list N).         (* any length *)

(* spec.DataVersion: 0 unknown, 1 phase0, 2 altair, 3 bellatrix, 4 capella, 5 deneb, >5 not handled *)
Record proposal := {
  pr_version : N;
  pr_blinded : bool;             (* the Eth-Execution-Payload-Blinded header *)
  pr_present : bool;             (* the container selected by (version, blinded) is non-nil *)
  pr_slot_ok : bool              (* its slot is the duty's slot *)
}.

Record p1_in := {
  p1_graffiti : graffiti_in;
  p1_node_client : node_client;  (* the proposal provider itself as a NodeClientProvider (single-node set-ups) *)
  p1_auction : auction_in;
  p1_proposal : option proposal; (* None: the proposal provider returned an error *)
  p1_sign_ok : bool;
  p1_unblind_all : bool;         (* s.unblindFromAllRelays *)
  p1_unblind_ok : bool;          (* the first selected relay returns the payload; the others answer 400 *)
  p1_submit_ok : bool
}.

Inductive p1_err := EProposal | EConfirm | ESign | ENoAuction | ENoRelays | EUnblind | ESubmit.

(* what the mocks see *)
Record p1_trace := {
  t_graffiti : list N;           (* the 32 bytes passed to Proposal *)
  t_signed : bool;
  t_unblind : list N;            (* relays asked to unblind, in selection order *)
  t_submitted : bool
}.

Definition p1_out := (p1_trace * outcome unit p1_err)%type.

Definition version_handled (v : N) : bool := (1 <=? v) && (v <=? 5).
Definition version_unblindable (v : N) : bool := (3 <=? v) && (v <=? 5).

(* obtainGraffiti: the {{CLIENT}} replacement when the proposal provider can name its client *)
Definition client_replaced (l : list N) (nc : node_client) : list N :=
  if contains tmpl_client l then
    match nc with NCName n => replace_all tmpl_client n l | _ => l end
  else l.

Definition graffiti_of (g : graffiti_in) (nc : node_client) : list N :=
  match g with
  | GNoProvider => repeat 0 32
  | GErr => repeat 0 32                         (* Propose: graffiti = [32]byte{} *)
  | GBytes l => pad32 (client_replaced l nc)    (* copy(res[:], graffiti) *)
  end.

Definition unblind_candidates (all_flag : bool) (a : auction) : list prov :=
  if (lenN (au_providers a) =? 0) || all_flag then au_all a else au_providers a.

(* an unblinded Deneb proposal whose contents are nil: not something the decoders deliver *)
Definition lib_nil_deneb (p : proposal) : bool :=
  (pr_version p =? 5) && negb (pr_blinded p) && negb (pr_present p).

(* what go-eth2-client's decoders guarantee about a proposal they deliver (as far as this path
   depends on it) *)
Definition delivered (i : p1_in) : Prop :=
  forall p, p1_proposal i = Some p -> lib_nil_deneb p = false.

Definition propose (nil_guard : bool) (i : p1_in) : p1_out :=
  let g := graffiti_of (p1_graffiti i) (p1_node_client i) in
  let tr signed unb sub := {| t_graffiti := g; t_signed := signed; t_unblind := unb; t_submitted := sub |} in
  (* auctionResults *)
  let aur := match p1_auction i with ARes a => Some a | _ => None end in
  match p1_proposal i with
  | None => (tr false [] false, Err EProposal)
  | Some p =>
      (* outside what the decoders deliver: go-eth2-client's proposalPresent evaluates
         v.Deneb.Block on a nil v.Deneb (every other missing container is an ErrDataMissing) *)
      if lib_nil_deneb p then (tr false [] false, Panic)
      (* confirmProposalData: proposal.Slot() fails when the data is missing or the version unknown *)
      else if negb (version_handled (pr_version p) && pr_present p) then (tr false [] false, Err EConfirm)
      else if negb (pr_slot_ok p) then (tr false [] false, Err EConfirm)
      (* signProposalData *)
      else if negb (p1_sign_ok i) then (tr false [] false, Err ESign)
      else if pr_blinded p then
        match aur with
        | None =>
            if nil_guard then (tr true [] false, Err ENoAuction)
            else (tr true [] false, Panic)          (* auctionResults.AllProviders on nil *)
        | Some a =>
            let provs := filter pv_unblinds (unblind_candidates (p1_unblind_all i) a) in
            match provs with
            | [] => (tr true [] false, Err ENoRelays)
            | _ =>
                let asked := map pv_id provs in
                if p1_unblind_ok i && version_unblindable (pr_version p) then
                  (tr true asked true, if p1_submit_ok i then Ok tt else Err ESubmit)
                else (tr true asked false, Err EUnblind)
            end
        end
      else (tr true [] true, if p1_submit_ok i then Ok tt else Err ESubmit)
  end.

Definition propose_now := propose true.

(* ------------------------------------------------------------------------------------------- *)
(* Path 2 — strategies/builderbid/best/builderbid.go: issueBuilderBidRequests over relay address
   strings.  A relay address is classified by what util.FetchBuilderClient does with it.         *)

Inductive fetch_res :=
| FEmpty                        (* "" : "no address supplied" *)
| FParseErr                     (* url.Parse fails in builderClientHeaders *)
| FNewErr                       (* the http client constructor rejects it (bad port, bad user key) *)
| FClient (id : N) (bids unblinds : bool).

(* [log_from_client] = the error branch logs builderClient.Address() (the code before 78c4015);
   now it logs relay.Address. *)
Fixpoint issue (log_from_client : bool) (relays : list fetch_res) : outcome (list N) unit :=
  match relays with
  | [] => Ok []
  | r :: rs =>
      match r with
      | FClient id bids unblinds =>
          if bids && unblinds then bind (issue log_from_client rs) (fun l => Ok (id :: l))
          else issue log_from_client rs                 (* logged with the non-nil client; skipped *)
      | _ => if log_from_client then Panic else issue log_from_client rs
      end
  end.
Definition issue_now := issue false.

(* what BuilderBid then waits for: len(proposerConfig.Relays), skipped relays included *)
Definition issue_requests (relays : list fetch_res) : N := lenN relays.

(* ------------------------------------------------------------------------------------------- *)
(* Path 3 — strategies/beaconblockproposal/best: the {{CLIENT}} substitution, per provider in
   map-iteration order; [opts] is reassigned, so a rewritten graffiti is what later providers see. *)

Inductive conv := ConvSlice     (* [32]byte(providerGraffiti) after truncation to 32 *)
                | ConvCopy.     (* copy into a zeroed [32]byte *)

Definition convert (c : conv) (l : list N) : outcome (list N) unit :=
  match c with
  | ConvSlice =>
      let l' := if 32 <? lenN l then firstn 32 l else l in
      if lenN l' <? 32 then Panic else Ok (firstn 32 l')
  | ConvCopy => Ok (pad32 l)
  end.

Definition graffiti_step (c : conv) (g : list N) (p : node_client) : outcome (list N) unit :=
  if contains tmpl_client g then
    match p with
    | NCNot => Ok g
    | NCErr => convert c g
    | NCName n => convert c (replace_all tmpl_client n g)
    end
  else Ok g.

(* the graffiti each provider's request carries *)
Fixpoint graffiti_loop (c : conv) (g : list N) (ps : list node_client) : outcome (list (list N)) unit :=
  match ps with
  | [] => Ok []
  | p :: ps' =>
      bind (graffiti_step c g p) (fun g' =>
      bind (graffiti_loop c g' ps') (fun l => Ok (g' :: l)))
  end.
Definition graffiti_now := graffiti_loop ConvCopy.

(* ------------------------------------------------------------------------------------------- *)
(* Path 4 — services/blockrelay: UnmarshalJSON of an execution configuration document and
   ProposerConfig on the result, at the granularity of null entries.                             *)

(* v2 *)
Inductive pkey :=
| PKAccounts (accts : list N)    (* account regexp: the account ids it matches *)
| PKValidator (k : N)            (* a non-zero validator public key *)
| PKNeither.                     (* "0x00..00": neither account nor validator *)

Record prelay := { prl_addr : N; prl_entry : option bool }.   (* None = null; Some disabled *)
Record proposer := { pp_key : pkey; pp_reset : bool; pp_relays : list prelay }.
Record v2doc := {
  d2_fields_ok : bool;                          (* every scalar field at every level parses *)
  d2_relays : list (N * bool);                  (* address, entry is null *)
  d2_proposers : list (option proposer)         (* None = null *)
}.

(* v1 *)
Record v1builder := { b1_enabled : bool; b1_relays : list N }.
Record v1prop := { p1_builder : option v1builder }.           (* "builder": null / absent = None *)
Record v1doc := {
  d1_fields_ok : bool;
  d1_proposers : list (N * option v1prop);      (* pubkey, entry (None = null) *)
  d1_default : option v1prop                    (* None = null / absent *)
}.

(* A document that is a bare JSON value instead of an object (surrounding white space allowed). *)
Inductive bare :=
| BNull                         (* null: the metadata probe accepts it (nothing is set: version 0) *)
| BValue.                       (* true / false / a number / a string / an array: the metadata probe fails *)

Inductive doc :=
| DUnavailable                  (* the configuration source cannot be read (or no accounts to ask for) *)
| DMalformed                    (* not JSON, or a value of the wrong JSON type *)
| DVersion (n : N)              (* "version": n with n not in {0, 2} *)
| DV1 (d : v1doc)
| DV2 (d : v2doc)
| DBare (b : bare).

(* What blockrelay.UnmarshalJSON hands back with a nil error: a configuration, or — only if the
   decoder were to decode into a pointer that encoding/json may leave nil — a nil pointer to v1.ExecutionConfig
   inside a non-nil ExecutionConfigurator interface ([CNilV1]). *)
Inductive config := CV1 (d : v1doc) | CV2 (d : v2doc) | CNilV1.

Inductive cfg_err := CEDecode | CELookup.

Definition has_null_prelay (p : proposer) : bool :=
  existsb (fun r => match prl_entry r with None => true | Some _ => false end) (pp_relays p).

(* what the UnmarshalJSON method of v1.ExecutionConfig sees for the document `null`: json.Unmarshal of null
   into executionConfigJSON sets nothing *)
Definition v1doc_of_null : v1doc := {| d1_fields_ok := true; d1_proposers := []; d1_default := None |}.

(* [null_guard] = the decoders reject null relay / proposer / proposer-relay entries (776ef9a).
   [by_value]   = blockrelay.UnmarshalJSON decodes into a local struct value and returns its address
                  (the code as it is), so that the version's own UnmarshalJSON runs for every
                  document, `null` included; [false] = it decodes into a nil pointer that
                  encoding/json allocates: for `null` the pointer is left nil, no UnmarshalJSON runs,
                  and the nil pointer is returned with a nil error. *)
Definition decode_gen (null_guard by_value : bool) (d : doc) : outcome config cfg_err :=
  match d with
  | DUnavailable => Err CEDecode
  | DMalformed => Err CEDecode
  | DVersion _ => Err CEDecode
  | DBare BValue => Err CEDecode                      (* "failed to unmarshal metadata" *)
  | DBare BNull =>                                    (* metadata: version 0, the v1 branch *)
      if by_value then
        match d1_default v1doc_of_null with
        | None => Err CEDecode                        (* "default config missing" *)
        | Some _ => Ok (CV1 v1doc_of_null)
        end
      else Ok CNilV1
  | DV1 d1 =>
      if negb (d1_fields_ok d1) then Err CEDecode
      else match d1_default d1 with
           | None => Err CEDecode                     (* "default config missing" *)
           | Some _ => Ok (CV1 d1)
           end
  | DV2 d2 =>
      if negb (d2_fields_ok d2) then Err CEDecode
      else if null_guard && existsb snd (d2_relays d2) then Err CEDecode
      else if null_guard && existsb (fun p => match p with None => true | Some _ => false end) (d2_proposers d2) then Err CEDecode
      else if null_guard && existsb (fun p => match p with None => false | Some p => has_null_prelay p end) (d2_proposers d2) then Err CEDecode
      else Ok (CV2 d2)
  end.
Definition decode (null_guard : bool) : doc -> outcome config cfg_err := decode_gen null_guard true.

(* setInitialRelayOptions: setRelayConfig dereferences every base relay entry *)
Fixpoint initial_relays (rs : list (N * bool)) : outcome (list N) cfg_err :=
  match rs with
  | [] => Ok []
  | (a, isnull) :: rs' =>
      if isnull then Panic else bind (initial_relays rs') (fun l => Ok (a :: l))
  end.

Definition find_prelay (a : N) (l : list prelay) : option prelay :=
  find (fun r => prl_addr r =? a) l.

(* "Update existing relays" *)
Fixpoint update_existing (cfg : list N) (p : proposer) : outcome (list N) cfg_err :=
  match cfg with
  | [] => Ok []
  | a :: cfg' =>
      match find_prelay a (pp_relays p) with
      | Some r =>
          match prl_entry r with
          | None => Panic                                   (* proposerRelayConfig.Disabled on nil *)
          | Some disabled =>
              bind (update_existing cfg' p) (fun l => Ok (if disabled then l else a :: l))
          end
      | None => bind (update_existing cfg' p) (fun l => Ok (a :: l))
      end
  end.

(* "Add new relays": !alreadyUpdated && !proposerRelayConfig.Disabled (short-circuit) *)
Fixpoint add_new (updated : list N) (rs : list prelay) : outcome (list N) cfg_err :=
  match rs with
  | [] => Ok []
  | r :: rs' =>
      if memb N.eqb (prl_addr r) updated then add_new updated rs'
      else match prl_entry r with
           | None => Panic
           | Some disabled =>
               bind (add_new updated rs') (fun l => Ok (if disabled then l else prl_addr r :: l))
           end
  end.

Definition apply_proposer (cfg : list N) (p : proposer) : outcome (list N) cfg_err :=
  let cfg := if pp_reset p then [] else cfg in
  bind (update_existing cfg p) (fun kept =>
  bind (add_new cfg (pp_relays p)) (fun added => Ok (kept ++ added))).

Definition pkey_match (k : pkey) (account pubkey : N) : option bool :=
  match k with
  | PKAccounts l => Some (memb N.eqb account l)
  | PKValidator v => Some (v =? pubkey)
  | PKNeither => None
  end.

(* setProposerSpecificOptions: first match wins *)
Fixpoint proposer_specific (cfg : list N) (ps : list (option proposer)) (account pubkey : N)
  : outcome (list N) cfg_err :=
  match ps with
  | [] => Ok cfg
  | None :: _ => Panic                                        (* proposerConfig.Account on nil *)
  | Some p :: ps' =>
      match pkey_match (pp_key p) account pubkey with
      | None => Err CELookup
      | Some true => apply_proposer cfg p
      | Some false => proposer_specific cfg ps' account pubkey
      end
  end.

Definition lookup2 (d : v2doc) (account pubkey : N) : outcome (list N) cfg_err :=
  bind (initial_relays (d2_relays d)) (fun cfg => proposer_specific cfg (d2_proposers d) account pubkey).

(* v1: [nil_guard] = the `if proposerConfig == nil` fallback in ProposerConfig *)
Definition v1_relays (p : v1prop) : list N :=
  match p1_builder p with
  | None => []                                                 (* builder == nil -> &BuilderConfig{} *)
  | Some b => if b1_enabled b then b1_relays b else []
  end.

Definition lookup1 (nil_guard : bool) (d : v1doc) (pubkey : N) : outcome (list N) cfg_err :=
  let entry := match find (fun e => fst e =? pubkey) (d1_proposers d) with
               | Some (_, Some p) => Some p
               | Some (_, None) => d1_default d   (* present but null is no entry: `!exists || proposerConfig == nil` *)
               | None => d1_default d
               end in
  match entry with
  | Some p => Ok (v1_relays p)
  | None => if nil_guard then Ok [] else Panic
  end.

Definition lookup (nil_guard : bool) (c : option config) (account pubkey : N) : outcome (list N) cfg_err :=
  match c with
  | None => Ok []                                              (* blockrelay ProposerConfig: no configuration, fallback *)
  | Some (CV1 d) => lookup1 nil_guard d pubkey
  | Some (CV2 d) => lookup2 d account pubkey
  | Some CNilV1 => Panic                                       (* e.ProposerConfigs on a nil receiver *)
  end.

(* fetchExecutionConfig: a failed fetch keeps the current configuration.  Its second test,
   `executionConfig == nil`, compares the *interface* with nil: it is true only for the (nil, nil)
   answer of obtainExecutionConfig (no public keys), never for a value UnmarshalJSON returned — a nil
   pointer inside the interface included.  So whatever [decode_gen] accepts is installed. *)
Definition refresh_gen (null_guard by_value : bool) (cur : option config) (d : doc) : option config :=
  match decode_gen null_guard by_value d with
  | Ok c => Some c
  | _ => cur
  end.
Definition refresh (null_guard : bool) : option config -> doc -> option config := refresh_gen null_guard true.

(* submitValidatorRegistrations / submitValidatorRegistrationsForAccounts with the configuration in
   force, for the one validating account of the tie (account 1, public key 1): no configuration ->
   nothing to do; executionConfig.ProposerConfig fails -> "Failed to generate registrations for
   validator; continuing with the others"; otherwise one registration per relay of the answer, sent
   to every relay whose address FetchBuilderClient accepts (an empty address is refused there).
   Result: the relays that receive a registration. *)
Definition reg_account : N := 1.
Definition reg_pubkey : N := 1.
Definition registration_round (c : option config) : outcome (list N) cfg_err :=
  match lookup true c reg_account reg_pubkey with
  | Ok l => Ok (filter (fun a => negb (a =? 0)) l)
  | Err _ => Ok []
  | Panic => Panic
  end.

Definition refresh_all (null_guard : bool) (cur : option config) (ds : list doc) : option config :=
  fold_left (refresh null_guard) ds cur.

(* ------------------------------------------------------------------------------------------- *)
(* Path 5 — services/attester: MergeDuties / NewDuty, then Attest -> createAttestations.        *)

Record aduty := { ad_slot : N; ad_cidx : N; ad_vidx : N; ad_vcidx : N; ad_clen : N; ad_cas : N }.

Record mduty := {
  md_slot : N; md_cas : N;
  md_vidx : list N; md_cidx : list N; md_vcidx : list N;
  md_clens : list (N * N)         (* committee index -> length, sorted by index (a Go map) *)
}.

Definition aduty_le (a b : aduty) : bool :=
  if ad_slot a <? ad_slot b then true else if ad_slot b <? ad_slot a then false
  else if ad_cidx a <? ad_cidx b then true else if ad_cidx b <? ad_cidx a then false
  else ad_vidx a <=? ad_vidx b.

Fixpoint insert_duty (x : aduty) (l : list aduty) : list aduty :=
  match l with
  | [] => [x]
  | y :: l' => if aduty_le x y then x :: l else y :: insert_duty x l'
  end.
Definition sort_duties (l : list aduty) : list aduty := fold_right insert_duty [] l.

(* map write m[k] = v on an association list kept sorted by key *)
Fixpoint map_set (k v : N) (m : list (N * N)) : list (N * N) :=
  match m with
  | [] => [(k, v)]
  | (k', v') :: m' =>
      if k =? k' then (k, v) :: m'
      else if k <? k' then (k, v) :: m
      else (k', v') :: map_set k v m'
  end.
Definition map_get (k : N) (m : list (N * N)) : option N :=
  match find (fun e => fst e =? k) m with Some e => Some (snd e) | None => None end.

(* the loop body of MergeDuties for one slot's duties (already in sorted order) *)
Definition add_to (d : aduty) (m : mduty) : mduty :=
  {| md_slot := md_slot m; md_cas := ad_cas d;
     md_vidx := md_vidx m ++ [ad_vidx d]; md_cidx := md_cidx m ++ [ad_cidx d];
     md_vcidx := md_vcidx m ++ [ad_vcidx d];
     md_clens := map_set (ad_cidx d) (ad_clen d) (md_clens m) |}.

Definition empty_mduty (slot : N) : mduty :=
  {| md_slot := slot; md_cas := 0; md_vidx := []; md_cidx := []; md_vcidx := []; md_clens := [] |}.

(* group a slot-sorted list: the accumulator's head is the slot being filled *)
Fixpoint group (ds : list aduty) (acc : list mduty) : list mduty :=
  match ds with
  | [] => acc
  | d :: ds' =>
      match acc with
      | m :: acc' => if md_slot m =? ad_slot d then group ds' (add_to d m :: acc')
                     else group ds' (add_to d (empty_mduty (ad_slot d)) :: acc)
      | [] => group ds' [add_to d (empty_mduty (ad_slot d))]
      end
  end.

(* NewDuty: every committee index needs a committee length *)
Definition new_duty_ok (m : mduty) : bool :=
  forallb (fun c => match map_get c (md_clens m) with Some _ => true | None => false end) (md_cidx m).

Definition merge (ds : list aduty) : list mduty :=
  match ds with
  | [] => []
  | _ => filter new_duty_ok (rev (group (sort_duties ds) []))
  end.

(* Attest on one merged duty.  [held] = validators the account manager has an account for;
   every held validator is signed for.  One row per attestation: validator, committee index,
   bitlist length, whether the validator's bit is set. *)
Definition max_committee : N := 2048.
Definition max_alloc : N := 281474976710656.          (* runtime maxAlloc on linux/amd64: 2^48 bytes *)

Fixpoint dedup (l : list N) (seen : list N) : list N :=
  match l with
  | [] => []
  | x :: l' => if memb N.eqb x seen then dedup l' seen else x :: dedup l' (x :: seen)
  end.

(* validatorIndexToArrayIndexMap[index] = i : the last position wins *)
Fixpoint last_index (x : N) (l : list N) (i : nat) (cur : option nat) : option nat :=
  match l with
  | [] => cur
  | y :: l' => last_index x l' (S i) (if y =? x then Some i else cur)
  end.

Definition att_row := (N * N * N * bool)%type.

(* bitfield.NewBitlist(n): make([]byte, n/8+1) *)
Definition new_bitlist (n : N) : outcome unit unit :=
  if max_alloc <? n / 8 + 1 then Panic else Ok tt.

Definition create_one (size_guard : bool) (m : mduty) (v : N) : outcome (option att_row) unit :=
  let i := match last_index v (md_vidx m) O None with Some i => i | None => O end in
  match nth_error (md_cidx m) i, nth_error (md_vcidx m) i with
  | Some c, Some pos =>
      let size := match map_get c (md_clens m) with Some s => s | None => 0 end in
      if size_guard && (max_committee <? size) then Ok None      (* skipped with a warning *)
      else bind (new_bitlist size) (fun _ => Ok (Some (v, c, size, pos <? size)))
  | _, _ => Panic                                               (* index out of range *)
  end.

Fixpoint create_all (size_guard : bool) (m : mduty) (vs : list N) : outcome (list att_row) unit :=
  match vs with
  | [] => Ok []
  | v :: vs' =>
      bind (create_one size_guard m v) (fun r =>
      bind (create_all size_guard m vs') (fun l => Ok (match r with Some x => x :: l | None => l end)))
  end.

Inductive att_err := AENone.     (* "no attestations succeeded" and friends: one class *)

Definition attest (size_guard : bool) (m : mduty) (held : list N) : outcome (list att_row) att_err :=
  match md_cidx m with
  | [] => Panic                                                (* duty.CommitteeIndices()[0] *)
  | _ =>
      let vs := filter (fun v => memb N.eqb v held) (dedup (md_vidx m) []) in
      match create_all size_guard m vs with
      | Panic => Panic
      | Err _ => Err AENone
      | Ok [] => Err AENone                                    (* nothing signed / nothing created *)
      | Ok l => Ok (sort_by (fun r => fst (fst (fst r))) l)
      end
  end.

Definition attest_all (size_guard : bool) (ds : list aduty) (held : list N)
  : list (N * outcome (list att_row) att_err) :=
  map (fun m => (md_slot m, attest size_guard m held)) (merge ds).
Definition attest_all_now := attest_all true.

(* ------------------------------------------------------------------------------------------- *)
(* Path 6 — services/cache/standard/events.go: handleHead -> updateExecutionHeadFromBlock.       *)

Record block_shape := {
  bk_version : N;                 (* as pr_version; 6 = a version this vouch does not handle *)
  bk_container : bool;            (* block.<Version> != nil *)
  bk_message : bool;              (* .Message != nil *)
  bk_body : bool;                 (* .Body != nil *)
  bk_payload : bool;              (* .ExecutionPayload != nil *)
  bk_state_zero : bool;           (* payload state root is all zeroes *)
  bk_exec : N                     (* identifies (block hash, block number) *)
}.

Inductive head_in :=
| HNoData                         (* event.Data == nil *)
| HFetchErr                       (* SignedBeaconBlock failed *)
| HBlock (b : block_shape).

(* result: Some x = execution chain head set to x; None = left alone *)
Definition payload_update (b : block_shape) : option N :=
  if bk_payload b && negb (bk_state_zero b) then Some (bk_exec b) else None.

(* [guard_all] = every version checks container/message/body like the Bellatrix branch does *)
Definition update_head (guard_all : bool) (b : block_shape) : outcome (option N) unit :=
  let v := bk_version b in
  if (v =? 1) || (v =? 2) then Ok None
  else if v =? 3 then
    if bk_container b && bk_message b && bk_body b then Ok (payload_update b) else Ok None
  else if (v =? 4) || (v =? 5) then
    if bk_container b && bk_message b && bk_body b then Ok (payload_update b)
    else if guard_all then Ok None else Panic
  else Ok None.                                               (* "Unhandled block version" *)

Definition handle_head (guard_all : bool) (h : head_in) : outcome (option N) unit :=
  match h with
  | HNoData => Ok None
  | HFetchErr => Ok None
  | HBlock b => update_head guard_all b
  end.
Definition handle_head_now := handle_head false.

(* what go-eth2-client's decoders guarantee for a block they deliver *)
Definition decoder_wf (b : block_shape) : bool :=
  if (1 <=? bk_version b) && (bk_version b <=? 5) then bk_container b && bk_message b && bk_body b else true.

(* ------------------------------------------------------------------------------------------- *)
(* Path 7 — services/submitter/multinode/submitsynccommitteemessages.go: classification of a
   node's error body.                                                                           *)

Inductive server := SLighthouse | STeku | SOther.
Inductive failure := FNull | FTolerated | FReal.
Inductive err_body :=
| BNoJson                         (* no '{' in the error text *)
| BBadJson                        (* a '{' but the rest does not decode into the server's shape *)
| BFailures (l : list failure).   (* decoded; "failures" absent = [] *)

Fixpoint count_tolerated (nil_guard : bool) (l : list failure) : outcome N unit :=
  match l with
  | [] => Ok 0
  | f :: l' =>
      match f with
      | FNull => if nil_guard then count_tolerated nil_guard l' else Panic
      | FTolerated => bind (count_tolerated nil_guard l') (fun n => Ok (n + 1))
      | FReal => count_tolerated nil_guard l'
      end
  end.

(* Ok tt = the rejection is tolerated (the submission counts as accepted); Err tt = a real error *)
Definition classify (nil_guard : bool) (s : server) (b : err_body) : outcome unit unit :=
  match b with
  | BNoJson => Err tt
  | BBadJson => Err tt
  | BFailures l =>
      match s with
      | SOther => Err tt
      | _ => bind (count_tolerated nil_guard l) (fun n =>
             if (0 <? lenN l) && (lenN l =? n) then Ok tt else Err tt)
      end
  end.
Definition classify_now := classify true.

(* ------------------------------------------------------------------------------------------- *)
(* Path 8 — services/graffitiprovider/dynamic/service.go over file contents.                     *)

Definition LF : N := 10.
Definition CR : N := 13.
Definition is_space (c : N) : bool :=          (* unicode.IsSpace on ASCII *)
  (c =? 9) || (c =? 10) || (c =? 11) || (c =? 12) || (c =? 13) || (c =? 32).

Fixpoint trim_left (s : list N) : list N :=
  match s with
  | c :: s' => if is_space c then trim_left s' else s
  | [] => []
  end.
Definition trim_space (s : list N) : list N := rev (trim_left (rev (trim_left s))).

(* strings.Split(s, "\n"): never empty *)
Fixpoint split_lf (s : list N) (cur : list N) : list (list N) :=
  match s with
  | [] => [rev cur]
  | c :: s' => if c =? LF then rev cur :: split_lf s' [] else split_lf s' (c :: cur)
  end.

Definition graffiti_lines (data : list N) : list (list N) :=
  split_lf (trim_space (replace_all [LF; LF] [LF] (replace_all [CR; LF] [LF] data))) [].

Inductive fetch := FData (d : list N) | FNotFound | FOther.

Inductive gr_err := GEFetch.

(* rand.Intn(n) panics for n <= 0 *)
Definition pick_domain (n : N) : outcome unit gr_err := if n =? 0 then Panic else Ok tt.

(* result: the candidate lines (one is chosen at random); [] stands for "no graffiti" *)
Definition dynamic_graffiti (primary : fetch) (fallback : option fetch) : outcome (list (list N)) gr_err :=
  let res := match primary, fallback with
             | FData d, _ => FData d
             | _, Some f => f
             | p, None => p
             end in
  match res with
  | FNotFound => Ok [[]]                                       (* []byte{} *)
  | FOther => Err GEFetch
  | FData d =>
      let ls := graffiti_lines d in
      bind (pick_domain (lenN ls)) (fun _ => Ok ls)
  end.

(* ------------------------------------------------------------------------------------------- *)
(* Specification-side definitions used by the theorems and by the check's predicate.            *)

(* path 2: the relays that can be asked: a client that supplies bids and can unblind *)
Definition good_relays (rs : list fetch_res) : list N :=
  flat_map (fun r => match r with FClient id true true => [id] | _ => [] end) rs.
Definition is_fetch_error (r : fetch_res) : bool :=
  match r with FClient _ _ _ => false | _ => true end.

(* path 3 *)
Definition can_name (p : node_client) : bool := match p with NCName _ => true | _ => false end.

(* path 4 *)
Definition doc_has_null (d : doc) : bool :=
  match d with
  | DV2 d2 => existsb snd (d2_relays d2)
              || existsb (fun p => match p with None => true | Some p => has_null_prelay p end) (d2_proposers d2)
  | _ => false
  end.

(* path 7 *)
Definition all_tolerated (l : list failure) : bool :=
  forallb (fun f => match f with FTolerated => true | _ => false end) l.
Definition has_null_failure (l : list failure) : bool :=
  existsb (fun f => match f with FNull => true | _ => false end) l.
