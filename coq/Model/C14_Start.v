(* C14 -- process start: what the controller's constructor subscribes.  Executable model,
   definitions only.

   Written from services/controller/standard/service.go, New:

     epoch := CurrentEpoch()
     accounts, validatorIndices, err := accountsAndIndicesForEpoch(ctx, epoch)
     nextEpochAccounts, nextEpochValidatorIndices, err := accountsAndIndicesForEpoch(ctx, epoch+1)
     ...
     go subscribeToBeaconCommittees(ctx, epoch, accounts)
     go subscribeToBeaconCommittees(ctx, epoch+1, nextEpochAccounts)

   Each of the two epochs is subscribed with the validators validating in THAT epoch (a validator
   activated at epoch+1 is in the second set only, one exiting at the end of [epoch] in the first
   only), so the attester duties the node answers with are that epoch's duties of that epoch's
   validators: the [view] of the epoch (Model.C14_Reorg.view: what the account manager and the node
   answer about one epoch).  The constructor gives up when the account manager fails, so a start
   whose views are incomplete subscribes nothing for the missing epoch.  What completes while one of
   the two subscriptions waits for the node is its view's [v_mid]. *)
From Verif Require Import Lib.Base Model.C14_Subscriptions Model.C14_Reorg.

Definition start_sub (cur ep : N) (v : option view) : list op :=
  match v with
  | None => []
  | Some v => v_mid v ++ [OSub ep cur (v_no_accounts v) (v_duties_fail v) (v_sign_fail v) (v_duties v)]
  end.

Definition start_epochs (pr : params) (cur : N) : list N := [cur / spe pr; cur / spe pr + 1].

Definition start_ops (pr : params) (cur : N) (views : list view) : list op :=
  flat_map (fun ep => start_sub cur ep (find_view ep views)) (start_epochs pr cur).

Definition start_events (pr : params) (cur : N) (views : list view) : list ev :=
  map (fun o => EOp (HOp o)) (start_ops pr cur views).

(* The seeded shape, kept for the refutation: both epochs subscribed with the answers about the
   start-up epoch (its validators, hence only their duties). *)
Definition start_ops_same_accounts (pr : params) (cur : N) (views : list view) : list op :=
  flat_map (fun ep =>
    match find_view (cur / spe pr) views, find_view ep views with
    | Some v0, Some v =>
        let mine := map d_val (v_duties v0) in
        v_mid v ++ [OSub ep cur (v_no_accounts v0) (v_duties_fail v) (v_sign_fail v)
                         (filter (fun d => existsb (N.eqb (d_val d)) mine) (v_duties v))]
    | _, _ => []
    end) (start_epochs pr cur).
