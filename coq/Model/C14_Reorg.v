(* C14 -- head events that carry duty dependent roots: the reorganisation path of the controller.
   Executable model, definitions only.

   Written from services/controller/standard/events.go
     HandleHeadEvent, checkEventForReorg, handlePreviousDependentRootChanged,
     handleCurrentDependentRootChanged, refreshAttesterDutiesForEpoch, subscribeToBeaconCommittees.

   A head event of the current slot is compared with what the previous head event left behind
   (lastBlockEpoch, previousDutyDependentRoot, currentDutyDependentRoot).  The PREVIOUS duty
   dependent root governs the attester duties of the CURRENT epoch, the CURRENT duty dependent root
   those of the NEXT epoch: when one of them changes the attester duties of that epoch are refreshed
   (refreshAttesterDutiesForEpoch: the epoch's attestation jobs are cancelled and re-created, and
   the epoch is re-subscribed in a goroutine: subscribeToBeaconCommittees stores the new
   information when Subscribe has returned).  Nothing touches subscriptionInfos[epoch] before that
   store, so whatever completes while the re-subscription is in flight -- an attestation of the
   epoch in particular -- still finds the information of the previous subscribe.

   So a head event is [OHead] (the housekeeping) followed, for every refreshed epoch, by what
   completes while its re-subscription waits for the beacon node ([v_mid]) and then the [OSub] of
   the duties the node answers with now ([view]: the node's and the account manager's answers for
   that epoch after the head event).  Dependent roots are identified by numbers, 0 = the zero root. *)
From Verif Require Import Lib.Base Model.C14_Subscriptions.

(* what checkEventForReorg remembers *)
Record rstate := mkR { r_epoch : N; r_prev : N; r_cur : N }.
Definition rinit : rstate := mkR 0 0 0.

(* checkEventForReorg: (previous dependent root changed, current dependent root changed) for a head
   of epoch [hepoch] carrying the roots [prev], [curr]:
     if s.lastBlockEpoch != 0 {
       if epoch > s.lastBlockEpoch {          // change of epoch: new previous root = old current root?
         if old previous != zero && old current != previous { go handlePreviousDependentRootChanged }
       } else {
         if old previous != zero && old previous != previous { go handlePreviousDependentRootChanged }
         if old current  != zero && old current  != current  { go handleCurrentDependentRootChanged } } } *)
Definition reorg_decide (rs : rstate) (hepoch prev curr : N) : bool * bool :=
  if r_epoch rs =? 0 then (false, false)
  else if r_epoch rs <? hepoch then
    (negb (r_prev rs =? 0) && negb (r_cur rs =? prev), false)
  else
    (negb (r_prev rs =? 0) && negb (r_prev rs =? prev),
     negb (r_cur rs =? 0) && negb (r_cur rs =? curr)).

(* handlePreviousDependentRootChanged refreshes CurrentEpoch(), handleCurrentDependentRootChanged
   refreshes CurrentEpoch()+1 (uint64). *)
Definition refresh_epochs (pr : params) (cur : N) (d : bool * bool) : list N :=
  (if fst d then [cur / spe pr] else []) ++ (if snd d then [wrap64 (cur / spe pr + 1)] else []).

(* A head event without a reorganisation (the [OHead] of the plain histories): the beacon node's
   roots are consistent with the ones it sent before -- same roots within an epoch; on a change of
   epoch the new previous root is the old current one. *)
Definition quiet (rs : rstate) (hepoch : N) : rstate :=
  if r_epoch rs <? hepoch then mkR hepoch (r_cur rs) (r_cur rs) else mkR hepoch (r_prev rs) (r_cur rs).

Definition track_op (pr : params) (rs : rstate) (o : op) : rstate :=
  match o with
  | OHead hslot cur => if hslot =? cur then quiet rs (hslot / spe pr) else rs
  | _ => rs
  end.
Definition track (pr : params) (rs : rstate) (ops : list op) : rstate := fold_left (track_op pr) ops rs.

(* What the rest of the world answers about one epoch after the head event. *)
Record view := mkView {
  v_epoch : N;
  v_unprepared : bool;     (* the job "Prepare for epoch <v_epoch>" is still scheduled: nothing to refresh *)
  v_acct_fail : bool;      (* ValidatingAccountsForEpoch fails *)
  v_no_accounts : bool;    (* ... or returns no validator: "No active validators; not validating" *)
  v_duties_fail : bool;    (* the attester duties request of Subscribe fails *)
  v_sign_fail : list N;
  v_duties : list duty;
  v_mid : list op          (* what completes while the re-subscription waits for the duties *)
}.

Fixpoint find_view (ep : N) (vs : list view) : option view :=
  match vs with
  | [] => None
  | v :: vs' => if v_epoch v =? ep then Some v else find_view ep vs'
  end.

(* refreshAttesterDutiesForEpoch(ep) as far as subscriptionInfos and the submissions go *)
Definition refresh_ops (cur : N) (ep : N) (v : option view) : list op :=
  match v with
  | None => []                         (* nobody answers for the epoch: the accounts request fails *)
  | Some v =>
      if v_unprepared v || v_acct_fail v || v_no_accounts v then []
      else v_mid v ++ [OSub ep cur false (v_duties_fail v) (v_sign_fail v) (v_duties v)]
  end.

Inductive ev :=
| EOp (h : hop)
| EHead (hslot cur prev curr : N) (views : list view).
    (* HandleHeadEvent(head of slot [hslot] with the duty dependent roots [prev], [curr]) at
       current slot [cur] *)

Definition head_ops (pr : params) (rs : rstate) (hslot cur prev curr : N) (views : list view) : list op :=
  flat_map (fun ep => refresh_ops cur ep (find_view ep views))
           (refresh_epochs pr cur (reorg_decide rs (hslot / spe pr) prev curr)).

Fixpoint expand (pr : params) (rs : rstate) (evs : list ev) : list op :=
  match evs with
  | [] => []
  | EOp h :: evs' =>
      let ops := linearise [h] in
      ops ++ expand pr (track pr rs ops) evs'
  | EHead hslot cur prev curr views :: evs' =>
      if hslot =? cur then
        let ops := head_ops pr rs hslot cur prev curr views in
        OHead hslot cur :: ops ++ expand pr (track pr (mkR (hslot / spe pr) prev curr) ops) evs'
      else
        (* not the head of the current slot: ignored before anything is compared or recorded *)
        OHead hslot cur :: expand pr rs evs'
  end.

(* The seeded shapes, kept for the refutation theorems: the current dependent root refreshing the
   current epoch instead of the next one; the epoch's information deleted when the refresh starts. *)
Definition refresh_epochs_same (pr : params) (cur : N) (d : bool * bool) : list N :=
  (if fst d then [cur / spe pr] else []) ++ (if snd d then [cur / spe pr] else []).

Definition drop_info (ep : N) (st : state) : state :=
  {| st_infos := filter (fun kv => negb (fst kv =? ep)) (st_infos st); st_jobs := st_jobs st |}.
