(* C02 -- executable model of services/scheduler/advanced/service.go (one job control block).
   Definitions only.  Written from the code, statement by statement; granularity: one action =
   one access to shared state that another thread can observe.

   Threads that touch one job:
     G  the job's goroutine (ScheduleJob / SchedulePeriodicJob: select over ctx / cancelCh / runCh / timer)
     R  a RunJob / RunJobIfExists call: table section under jobsMutex, then runJob under job.stateLock
     C  a CancelJob call: table section under jobsMutex, then the finalised/cancelCh section under stateLock
   Shared state: the table entry name -> job (jobsMutex), job.active / job.finalised (atomics; the
   goroutine reads and writes [active] WITHOUT stateLock), runCh / cancelCh (capacity 1), stateLock.

   Reductions (each justified by what can observe the intermediate state):
   - a jobsMutex critical section (lookup [+ delete]) is one action;
   - finaliseJob (Lock; finalised=true; close; close; Unlock) is one action enabled when stateLock
     is free: [finalised] and the closed-ness of the channels are read/used by others only under
     stateLock;
   - in runJob, "Lock" is its own action, then "load active, load finalised" is one action
     (finalised cannot change while the lock is held), then "store active", "send", "unlock" are
     separate actions because the goroutine reads/writes [active] and receives concurrently.
   One-off jobs: the table section of RunJob/CancelJob deletes the entry, so at most one external
   call ever obtains the job pointer ([r_pc]/[c_pc] are single slots, exact).  Periodic jobs:
   RunJob does not delete; any number of calls may hold the pointer; they are serialised by
   stateLock, so one slot for "the call inside the critical section" is exact, and the action
   [REnter] (a pointer holder takes the lock) is enabled whenever the lock is free. *)
From Verif Require Import Lib.Base.

Inductive kind := OneOff | Periodic.

(* The timer branch of the one-off goroutine when it finds [active] set (claimed by RunJob):
   Pinned = `break` (the tree as found: exits without running, finalising or consuming runCh);
   Fixed  = receive the pending run signal and continue as the run branch does. *)
Inductive variant := Pinned | Fixed.

Record config := { k_kind : kind; k_variant : variant }.

Inductive code := Nil | ErrNoSuchJob | ErrJobRunning | ErrJobFinalised | ErrJobAlreadyExists.

(* program counter of the goroutine: the NEXT thing it does *)
Inductive gpc :=
| GRt        (* periodic: call runtimeFunc *)
| GSel       (* blocked in select *)
| GCtxDel    (* ctx branch: delete(s.jobs, name) *)
| GCtxFin    (* ctx branch: finaliseJob *)
| GCanFin    (* cancel branch: finaliseJob *)
| GRunCall   (* run branch: call jobFunc *)
| GRunBusy   (* jobFunc executing (run branch) *)
| GRunFin    (* one-off run branch: finaliseJob *)
| GRunClr    (* run branch: active.Store(false) *)
| GTimChk    (* timer branch: active.Load() *)
| GTimRecv   (* Fixed one-off timer branch, active was set: <-runCh *)
| GTimDel    (* one-off timer branch: delete(s.jobs, name) *)
| GTimSet    (* timer branch: active.Store(true) *)
| GTimCall   (* timer branch: call jobFunc *)
| GTimBusy   (* jobFunc executing (timer branch) *)
| GTimClr    (* timer branch: active.Store(false) *)
| GTimFin    (* one-off timer branch: finaliseJob *)
| GEndDel    (* periodic, runtimeFunc returned an error: delete(s.jobs, name) *)
| GEndFin    (* periodic, runtimeFunc returned an error: finaliseJob *)
| GDone.     (* goroutine has returned *)

Inductive rpc :=
| RNone | RHave (* one-off: holds the job pointer, not yet locked *)
| RLocked (* holds stateLock; next: load active, finalised *)
| RSet    (* next: active.Store(true) *)
| RSend   (* next: runCh <- {} *)
| RUnl    (* next: Unlock, return nil *)
| RDone (c : code).

Inductive cpc :=
| CNone | CHave
| CLocked (* holds stateLock; next: load finalised; store finalised *)
| CSend   (* next: cancelCh <- {} *)
| CUnl    (* next: Unlock, return nil *)
| CDone (c : code).

Record jstate := {
  in_table : bool;      (* s.jobs[name] is this job *)
  active : bool;
  finalised : bool;
  runq : bool;          (* runCh holds a value *)
  run_closed : bool;
  cancelq : bool;
  cancel_closed : bool;
  timer_due : bool;     (* the channel of time.After(...) of the current select is ready *)
  ctx_done : bool;
  g_pc : gpc;
  r_pc : rpc;
  c_pc : cpc;
  runs : N;             (* calls of jobFunc so far, saturating at 2 *)
  running : N;          (* calls of jobFunc in progress, saturating at 2 *)
  run_ok : bool;        (* some RunJob returned nil *)
  cancel_ok : bool;     (* some CancelJob returned nil *)
  panicked : bool       (* send on / close of a closed channel *)
}.

Inductive branch := BCtx | BCancel | BRun | BTimer.
Inductive rtout := RtNext | RtStop.   (* runtimeFunc: a time | ErrNoMoreInstances or another error *)

Inductive act :=
(* environment *)
| TimerFire            (* the select's timer channel becomes ready *)
| CtxCancel            (* the parent context is cancelled *)
| JobReturn            (* the running jobFunc returns *)
| ExtDelete            (* another goroutine executes delete(s.jobs, name) for this name.  In the tree as
                          found an older same-name job whose ctx/timer branch ran late did exactly that
                          (delete by name); since the removeJob repair a goroutine removes the name only
                          while it still refers to its own job, so this action no longer has a source in
                          the code.  It is kept: every theorem holds even under it. *)
| RunLookup            (* a RunJob call executes its jobsMutex section *)
| CancelLookup         (* a CancelJob call executes its jobsMutex section *)
(* thread steps *)
| REnter               (* a pointer holder of RunJob acquires stateLock *)
| RStep                (* the RunJob call inside the critical section takes its next step *)
| RReset               (* periodic: the slot of a returned RunJob call is free again *)
| CStep                (* the CancelJob call takes its next step *)
| GPick (b : branch)   (* the goroutine's select chooses a ready branch *)
| GRtOut (o : rtout)   (* periodic: runtimeFunc returns *)
| GStep.               (* the goroutine takes its next step (not select / runtimeFunc / waiting for jobFunc) *)

Definition all_acts : list act :=
  [TimerFire; CtxCancel; JobReturn; ExtDelete; RunLookup; CancelLookup; REnter; RStep; RReset; CStep;
   GPick BCtx; GPick BCancel; GPick BRun; GPick BTimer; GRtOut RtNext; GRtOut RtStop; GStep].

(* thread (non-environment) actions: those the system takes by itself once enabled *)
Definition thread_act (a : act) : bool :=
  match a with
  | REnter | RStep | RReset | CStep | GPick _ | GStep | JobReturn => true
  | _ => false
  end.

Definition init (cf : config) : jstate :=
  {| in_table := true; active := false; finalised := false; runq := false; run_closed := false;
     cancelq := false; cancel_closed := false; timer_due := false; ctx_done := false;
     g_pc := match k_kind cf with OneOff => GSel | Periodic => GRt end;
     r_pc := RNone; c_pc := CNone; runs := 0; running := 0;
     run_ok := false; cancel_ok := false; panicked := false |}.

Definition lock_free (s : jstate) : bool :=
  match r_pc s with RLocked | RSet | RSend | RUnl => false | _ =>
    match c_pc s with CLocked | CSend | CUnl => false | _ => true end end.

Definition sat2 (n : N) : N := if 2 <=? n then 2 else n.

(* setters *)
Definition set_g (s : jstate) (g : gpc) : jstate :=
  {| in_table := in_table s; active := active s; finalised := finalised s; runq := runq s; run_closed := run_closed s;
     cancelq := cancelq s; cancel_closed := cancel_closed s; timer_due := timer_due s; ctx_done := ctx_done s;
     g_pc := g; r_pc := r_pc s; c_pc := c_pc s; runs := runs s; running := running s;
     run_ok := run_ok s; cancel_ok := cancel_ok s; panicked := panicked s |}.
Definition set_r (s : jstate) (r : rpc) : jstate :=
  {| in_table := in_table s; active := active s; finalised := finalised s; runq := runq s; run_closed := run_closed s;
     cancelq := cancelq s; cancel_closed := cancel_closed s; timer_due := timer_due s; ctx_done := ctx_done s;
     g_pc := g_pc s; r_pc := r; c_pc := c_pc s; runs := runs s; running := running s;
     run_ok := run_ok s; cancel_ok := cancel_ok s; panicked := panicked s |}.
Definition set_c (s : jstate) (c : cpc) : jstate :=
  {| in_table := in_table s; active := active s; finalised := finalised s; runq := runq s; run_closed := run_closed s;
     cancelq := cancelq s; cancel_closed := cancel_closed s; timer_due := timer_due s; ctx_done := ctx_done s;
     g_pc := g_pc s; r_pc := r_pc s; c_pc := c; runs := runs s; running := running s;
     run_ok := run_ok s; cancel_ok := cancel_ok s; panicked := panicked s |}.
Definition set_table (s : jstate) (b : bool) : jstate :=
  {| in_table := b; active := active s; finalised := finalised s; runq := runq s; run_closed := run_closed s;
     cancelq := cancelq s; cancel_closed := cancel_closed s; timer_due := timer_due s; ctx_done := ctx_done s;
     g_pc := g_pc s; r_pc := r_pc s; c_pc := c_pc s; runs := runs s; running := running s;
     run_ok := run_ok s; cancel_ok := cancel_ok s; panicked := panicked s |}.
Definition set_active (s : jstate) (b : bool) : jstate :=
  {| in_table := in_table s; active := b; finalised := finalised s; runq := runq s; run_closed := run_closed s;
     cancelq := cancelq s; cancel_closed := cancel_closed s; timer_due := timer_due s; ctx_done := ctx_done s;
     g_pc := g_pc s; r_pc := r_pc s; c_pc := c_pc s; runs := runs s; running := running s;
     run_ok := run_ok s; cancel_ok := cancel_ok s; panicked := panicked s |}.
Definition set_finalised (s : jstate) (b : bool) : jstate :=
  {| in_table := in_table s; active := active s; finalised := b; runq := runq s; run_closed := run_closed s;
     cancelq := cancelq s; cancel_closed := cancel_closed s; timer_due := timer_due s; ctx_done := ctx_done s;
     g_pc := g_pc s; r_pc := r_pc s; c_pc := c_pc s; runs := runs s; running := running s;
     run_ok := run_ok s; cancel_ok := cancel_ok s; panicked := panicked s |}.
Definition set_runq (s : jstate) (b : bool) : jstate :=
  {| in_table := in_table s; active := active s; finalised := finalised s; runq := b; run_closed := run_closed s;
     cancelq := cancelq s; cancel_closed := cancel_closed s; timer_due := timer_due s; ctx_done := ctx_done s;
     g_pc := g_pc s; r_pc := r_pc s; c_pc := c_pc s; runs := runs s; running := running s;
     run_ok := run_ok s; cancel_ok := cancel_ok s; panicked := panicked s |}.
Definition set_cancelq (s : jstate) (b : bool) : jstate :=
  {| in_table := in_table s; active := active s; finalised := finalised s; runq := runq s; run_closed := run_closed s;
     cancelq := b; cancel_closed := cancel_closed s; timer_due := timer_due s; ctx_done := ctx_done s;
     g_pc := g_pc s; r_pc := r_pc s; c_pc := c_pc s; runs := runs s; running := running s;
     run_ok := run_ok s; cancel_ok := cancel_ok s; panicked := panicked s |}.
Definition set_timer (s : jstate) (b : bool) : jstate :=
  {| in_table := in_table s; active := active s; finalised := finalised s; runq := runq s; run_closed := run_closed s;
     cancelq := cancelq s; cancel_closed := cancel_closed s; timer_due := b; ctx_done := ctx_done s;
     g_pc := g_pc s; r_pc := r_pc s; c_pc := c_pc s; runs := runs s; running := running s;
     run_ok := run_ok s; cancel_ok := cancel_ok s; panicked := panicked s |}.
Definition set_ctx (s : jstate) (b : bool) : jstate :=
  {| in_table := in_table s; active := active s; finalised := finalised s; runq := runq s; run_closed := run_closed s;
     cancelq := cancelq s; cancel_closed := cancel_closed s; timer_due := timer_due s; ctx_done := b;
     g_pc := g_pc s; r_pc := r_pc s; c_pc := c_pc s; runs := runs s; running := running s;
     run_ok := run_ok s; cancel_ok := cancel_ok s; panicked := panicked s |}.
Definition set_counts (s : jstate) (n m : N) : jstate :=
  {| in_table := in_table s; active := active s; finalised := finalised s; runq := runq s; run_closed := run_closed s;
     cancelq := cancelq s; cancel_closed := cancel_closed s; timer_due := timer_due s; ctx_done := ctx_done s;
     g_pc := g_pc s; r_pc := r_pc s; c_pc := c_pc s; runs := n; running := m;
     run_ok := run_ok s; cancel_ok := cancel_ok s; panicked := panicked s |}.
Definition set_run_ok (s : jstate) : jstate :=
  {| in_table := in_table s; active := active s; finalised := finalised s; runq := runq s; run_closed := run_closed s;
     cancelq := cancelq s; cancel_closed := cancel_closed s; timer_due := timer_due s; ctx_done := ctx_done s;
     g_pc := g_pc s; r_pc := r_pc s; c_pc := c_pc s; runs := runs s; running := running s;
     run_ok := true; cancel_ok := cancel_ok s; panicked := panicked s |}.
Definition set_cancel_ok (s : jstate) : jstate :=
  {| in_table := in_table s; active := active s; finalised := finalised s; runq := runq s; run_closed := run_closed s;
     cancelq := cancelq s; cancel_closed := cancel_closed s; timer_due := timer_due s; ctx_done := ctx_done s;
     g_pc := g_pc s; r_pc := r_pc s; c_pc := c_pc s; runs := runs s; running := running s;
     run_ok := run_ok s; cancel_ok := true; panicked := panicked s |}.
Definition set_panic (s : jstate) : jstate :=
  {| in_table := in_table s; active := active s; finalised := finalised s; runq := runq s; run_closed := run_closed s;
     cancelq := cancelq s; cancel_closed := cancel_closed s; timer_due := timer_due s; ctx_done := ctx_done s;
     g_pc := g_pc s; r_pc := r_pc s; c_pc := c_pc s; runs := runs s; running := running s;
     run_ok := run_ok s; cancel_ok := cancel_ok s; panicked := true |}.

(* finaliseJob, as one action (enabled when stateLock is free): finalised.Store(true);
   close(cancelCh); close(runCh).  Closing a closed channel panics. *)
Definition finalise (s : jstate) : jstate :=
  let s1 := if cancel_closed s || run_closed s then set_panic s else s in
  {| in_table := in_table s1; active := active s1; finalised := true; runq := runq s1; run_closed := true;
     cancelq := cancelq s1; cancel_closed := true; timer_due := timer_due s1; ctx_done := ctx_done s1;
     g_pc := g_pc s1; r_pc := r_pc s1; c_pc := c_pc s1; runs := runs s1; running := running s1;
     run_ok := run_ok s1; cancel_ok := cancel_ok s1; panicked := panicked s1 |}.

(* calling jobFunc *)
Definition call_job (s : jstate) : jstate := set_counts s (sat2 (runs s + 1)) (sat2 (running s + 1)).
Definition return_job (s : jstate) : jstate := set_counts s (runs s) (N.pred (running s)).

(* --- the goroutine ------------------------------------------------------------------------- *)

(* select: which branches are ready.  (A receive from a closed channel is also ready; the channels
   are closed only by this goroutine just before it returns, so that case never arises, but the
   model keeps Go's semantics.) *)
Definition ready (s : jstate) (b : branch) : bool :=
  match b with
  | BCtx => ctx_done s
  | BCancel => cancelq s || cancel_closed s
  | BRun => runq s || run_closed s
  | BTimer => timer_due s
  end.

Definition g_pick (cf : config) (s : jstate) (b : branch) : option jstate :=
  match g_pc s with
  | GSel =>
      if ready s b then
        Some (match b with
              | BCtx => set_g s GCtxDel
              | BCancel => set_g (set_cancelq s false) GCanFin
              | BRun => set_g (set_runq s false) GRunCall
              | BTimer => set_g s GTimChk
              end)
      else None
  | _ => None
  end.

Definition g_step (cf : config) (s : jstate) : option jstate :=
  let fin (s : jstate) (next : gpc) := if lock_free s then Some (set_g (finalise s) next) else None in
  match g_pc s with
  | GRt | GSel | GRunBusy | GTimBusy | GDone => None
  (* case <-ctx.Done(): jobsMutex.Lock; delete(s.jobs,name); Unlock; finaliseJob(job) *)
  | GCtxDel => Some (set_g (set_table s false) GCtxFin)
  | GCtxFin => fin s GDone
  (* case <-job.cancelCh: finaliseJob(job) *)
  | GCanFin => fin s GDone
  (* case <-job.runCh: jobFunc(ctx); [one-off: finaliseJob(job);] job.active.Store(false) *)
  | GRunCall => Some (set_g (call_job s) GRunBusy)
  | GRunFin => fin s GRunClr
  | GRunClr => Some (set_g (set_active s false) (match k_kind cf with OneOff => GDone | Periodic => GRt end))
  (* case <-time.After(...): if job.active.Load() {...} *)
  | GTimChk =>
      if active s then
        Some (set_g s (match k_kind cf, k_variant cf with
                       | Periodic, _ => GRt            (* continue *)
                       | OneOff, Pinned => GDone       (* break: the goroutine returns *)
                       | OneOff, Fixed => GTimRecv
                       end))
      else Some (set_g s (match k_kind cf with OneOff => GTimDel | Periodic => GTimSet end))
  | GTimRecv => if runq s || run_closed s then Some (set_g (set_runq s false) GRunCall) else None
  | GTimDel => Some (set_g (set_table s false) GTimSet)
  | GTimSet => Some (set_g (set_active s true) GTimCall)
  | GTimCall => Some (set_g (call_job s) GTimBusy)
  | GTimClr => Some (set_g (set_active s false) (match k_kind cf with OneOff => GTimFin | Periodic => GRt end))
  | GTimFin => fin s GDone
  (* periodic, runtimeFunc failed: delete; finaliseJob; return *)
  | GEndDel => Some (set_g (set_table s false) GEndFin)
  | GEndFin => fin s GDone
  end.

Definition g_return (cf : config) (s : jstate) : option jstate :=
  match g_pc s with
  | GRunBusy => Some (set_g (return_job s) (match k_kind cf with OneOff => GRunFin | Periodic => GRunClr end))
  | GTimBusy => Some (set_g (return_job s) GTimClr)
  | _ => None
  end.

Definition g_rt (cf : config) (s : jstate) (o : rtout) : option jstate :=
  match g_pc s with
  | GRt => Some (match o with
                 | RtNext => set_g (set_timer s false) GSel    (* a new time.After for this select *)
                 | RtStop => set_g s GEndDel
                 end)
  | _ => None
  end.

(* --- RunJob -------------------------------------------------------------------------------- *)

(* jobsMutex section of RunJob: found? (one-off: delete).  Not found = ErrNoSuchJob, no effect. *)
Definition run_lookup (cf : config) (s : jstate) : option jstate :=
  if in_table s then
    match k_kind cf with
    | OneOff => match r_pc s, c_pc s with
                | RNone, CNone => Some (set_r (set_table s false) RHave)
                | _, _ => None      (* unreachable: in_table implies nobody has claimed *)
                end
    | Periodic => Some s            (* the caller now holds the pointer; not tracked *)
    end
  else Some s.

Definition r_enter (cf : config) (s : jstate) : option jstate :=
  if lock_free s then
    match k_kind cf, r_pc s with
    | OneOff, RHave => Some (set_r s RLocked)
    | Periodic, RNone => Some (set_r s RLocked)
    | _, _ => None
    end
  else None.

Definition r_step (cf : config) (s : jstate) : option jstate :=
  match r_pc s with
  | RLocked =>
      if active s then Some (set_r s (RDone ErrJobRunning))
      else if finalised s then Some (set_r s (RDone ErrJobFinalised))
      else Some (set_r s RSet)
  | RSet => Some (set_r (set_active s true) RSend)
  | RSend =>
      if run_closed s then Some (set_r (set_panic s) (RDone Nil))
      else if runq s then None                      (* buffer full: the send blocks, lock held *)
      else Some (set_r (set_runq s true) RUnl)
  | RUnl => Some (set_r (set_run_ok s) (RDone Nil))
  | _ => None
  end.

Definition r_reset (cf : config) (s : jstate) : option jstate :=
  match k_kind cf, r_pc s with
  | Periodic, RDone _ => Some (set_r s RNone)
  | _, _ => None
  end.

(* --- CancelJob ----------------------------------------------------------------------------- *)

Definition cancel_lookup (cf : config) (s : jstate) : option jstate :=
  if in_table s then
    match c_pc s with
    | CNone => Some (set_c (set_table s false) CHave)
    | _ => None                     (* unreachable: in_table implies no canceller has claimed *)
    end
  else Some s.

Definition c_step (cf : config) (s : jstate) : option jstate :=
  match c_pc s with
  | CHave => if lock_free s then Some (set_c s CLocked) else None
  | CLocked =>
      if finalised s then Some (set_c (set_cancel_ok s) (CDone Nil))
      else Some (set_c (set_finalised s true) CSend)
  | CSend =>
      if cancel_closed s then Some (set_c (set_panic s) (CDone Nil))
      else if cancelq s then None
      else Some (set_c (set_cancelq s true) CUnl)
  | CUnl => Some (set_c (set_cancel_ok s) (CDone Nil))
  | _ => None
  end.

(* --- the transition function ---------------------------------------------------------------- *)

Definition step (cf : config) (s : jstate) (a : act) : option jstate :=
  match a with
  | TimerFire => match g_pc s with
                 | GSel => if timer_due s then None else Some (set_timer s true)
                 | _ => None
                 end
  | CtxCancel => if ctx_done s then None else Some (set_ctx s true)
  | JobReturn => g_return cf s
  | ExtDelete => if in_table s then Some (set_table s false) else None
  | RunLookup => run_lookup cf s
  | CancelLookup => cancel_lookup cf s
  | REnter => r_enter cf s
  | RStep => r_step cf s
  | RReset => r_reset cf s
  | CStep => c_step cf s
  | GPick b => g_pick cf s b
  | GRtOut o => g_rt cf s o
  | GStep => g_step cf s
  end.

(* no thread action is enabled: everything that can happen without a new external event has happened *)
Definition thread_acts : list act := filter thread_act all_acts.
Definition quiescent (cf : config) (s : jstate) : bool :=
  forallb (fun a => match step cf s a with None => true | Some _ => false end) thread_acts.

(* --- equality and hashing (for the reflective closure and for outcome sets) ----------------- *)

Definition code_eqb (a b : code) : bool :=
  match a, b with
  | Nil, Nil | ErrNoSuchJob, ErrNoSuchJob | ErrJobRunning, ErrJobRunning
  | ErrJobFinalised, ErrJobFinalised | ErrJobAlreadyExists, ErrJobAlreadyExists => true
  | _, _ => false
  end.

Definition code_n (c : code) : N :=
  match c with Nil => 0 | ErrNoSuchJob => 1 | ErrJobRunning => 2 | ErrJobFinalised => 3 | ErrJobAlreadyExists => 4 end.

Definition gpc_n (g : gpc) : N :=
  match g with
  | GRt => 0 | GSel => 1 | GCtxDel => 2 | GCtxFin => 3 | GCanFin => 4 | GRunCall => 5 | GRunBusy => 6
  | GRunFin => 7 | GRunClr => 8 | GTimChk => 9 | GTimRecv => 10 | GTimDel => 11 | GTimSet => 12
  | GTimCall => 13 | GTimBusy => 14 | GTimClr => 15 | GTimFin => 16 | GEndDel => 17 | GEndFin => 18 | GDone => 19
  end.
Definition rpc_n (r : rpc) : N :=
  match r with RNone => 0 | RHave => 1 | RLocked => 2 | RSet => 3 | RSend => 4 | RUnl => 5 | RDone c => 6 + code_n c end.
Definition cpc_n (c : cpc) : N :=
  match c with CNone => 0 | CHave => 1 | CLocked => 2 | CSend => 3 | CUnl => 4 | CDone c => 5 + code_n c end.

Definition gpc_eqb (a b : gpc) : bool := gpc_n a =? gpc_n b.
Definition rpc_eqb (a b : rpc) : bool := rpc_n a =? rpc_n b.
Definition cpc_eqb (a b : cpc) : bool := cpc_n a =? cpc_n b.

Definition jstate_eqb (a b : jstate) : bool :=
  Bool.eqb (in_table a) (in_table b) && Bool.eqb (active a) (active b) && Bool.eqb (finalised a) (finalised b)
  && Bool.eqb (runq a) (runq b) && Bool.eqb (run_closed a) (run_closed b)
  && Bool.eqb (cancelq a) (cancelq b) && Bool.eqb (cancel_closed a) (cancel_closed b)
  && Bool.eqb (timer_due a) (timer_due b) && Bool.eqb (ctx_done a) (ctx_done b)
  && gpc_eqb (g_pc a) (g_pc b) && rpc_eqb (r_pc a) (r_pc b) && cpc_eqb (c_pc a) (c_pc b)
  && (runs a =? runs b) && (running a =? running b)
  && Bool.eqb (run_ok a) (run_ok b) && Bool.eqb (cancel_ok a) (cancel_ok b) && Bool.eqb (panicked a) (panicked b).

Definition bN (b : bool) : N := if b then 1 else 0.

(* mixed-radix hash (injective on the reachable states, which is not needed for soundness) *)
Definition jkey_n (s : jstate) : N :=
  let d (acc base x : N) := acc * base + x in
  d (d (d (d (d (d (d (d (d (d (d (d (d (d (d (d (d 0
    2 (bN (in_table s))) 2 (bN (active s))) 2 (bN (finalised s))) 2 (bN (runq s))) 2 (bN (run_closed s)))
    2 (bN (cancelq s))) 2 (bN (cancel_closed s))) 2 (bN (timer_due s))) 2 (bN (ctx_done s)))
    20 (gpc_n (g_pc s))) 11 (rpc_n (r_pc s))) 10 (cpc_n (c_pc s))) 3 (sat2 (runs s))) 3 (sat2 (running s)))
    2 (bN (run_ok s))) 2 (bN (cancel_ok s))) 2 (bN (panicked s)).
Definition jkey (s : jstate) : positive := N.succ_pos (jkey_n s).
