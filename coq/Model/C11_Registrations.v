(* C11: what relays and beacon nodes are told.
   Transcribed from
     services/blockrelay/standard/submitvalidatorregistrations.go
       (submitValidatorRegistrations, SubmitValidatorRegistrations,
        submitValidatorRegistrationsForAccounts, generateValidatorRegistrationsForAccount,
        generateValidatorRegistrationForRelay, submitRelayRegistrations, submitConsensusRegistrations),
     services/blockrelay/standard/validatorregistrations.go (ValidatorRegistrations),
     services/blockrelay/standard/proposerconfig.go (ProposerConfig),
     services/proposalpreparer/standard/updatepreparations.go (UpdatePreparations, updateProposalPreparations).
   The resolution of a validator's proposer settings (C10) is an input: [v_res].
   Definitions only. *)
From Verif Require Import Lib.Base.

(* ------------------------------------------------------------------------------------------- *)
(* Data. *)

(* the triple whose hash tree root (timestamp zeroed) keys the signature cache *)
Record content := { ct_fee : N; ct_gas : N; ct_pub : N }.

Definition content_eqb (a b : content) : bool :=
  (ct_fee a =? ct_fee b) && (ct_gas a =? ct_gas b) && (ct_pub a =? ct_pub b).

(* A signature is identified with the signing request that produced it: which account was asked
   to sign which (content, timestamp).  (BLS and the signing root are C06's subject.) *)
Record sig := { sg_acct : N; sg_content : content; sg_stamp : N }.

Definition sig_eqb (a b : sig) : bool :=
  (sg_acct a =? sg_acct b) && content_eqb (sg_content a) (sg_content b) && (sg_stamp a =? sg_stamp b).

(* a signed validator registration: message (content + timestamp) and signature *)
Record sreg := { sr_content : content; sr_stamp : N; sr_sig : sig }.

Definition sreg_eqb (a b : sreg) : bool :=
  content_eqb (sr_content a) (sr_content b) && (sr_stamp a =? sr_stamp b) && sig_eqb (sr_sig a) (sr_sig b).

(* beaconblockproposer.RelayConfig / ProposerConfig, as far as this property looks *)
Record rcfg := { rc_addr : N; rc_fee : N; rc_gas : N }.
Record resolved := { rs_fee : N; rs_relays : list rcfg }.

(* One validating account in one round: its index, its account, its public key, what
   ExecutionConfigurator.ProposerConfig answers for it now (None = error), and the outcomes of the
   successive signing requests made for it in this round (missing = success). *)
Record validator := {
  v_index : N;
  v_acct : N;
  v_pub : N;
  v_res : option resolved;
  v_sign : list bool
}.

(* a call of SignValidatorRegistration *)
Record sigreq := { q_acct : N; q_content : content; q_stamp : N; q_ok : bool }.

Definition sigreq_eqb (a b : sigreq) : bool :=
  (q_acct a =? q_acct b) && content_eqb (q_content a) (q_content b) && (q_stamp a =? q_stamp b)
  && Bool.eqb (q_ok a) (q_ok b).

(* ------------------------------------------------------------------------------------------- *)
(* Service state: the two caches and the controlled-validators set. *)

Record state := {
  signed : list (content * sreg);      (* signedValidatorRegistrations, keyed by content (root) *)
  latest : list (N * content);         (* latestValidatorRegistrations, keyed by public key *)
  controlled : list N                  (* controlledValidators *)
}.

Definition init : state := {| signed := []; latest := []; controlled := [] |}.

Fixpoint get_signed (m : list (content * sreg)) (c : content) : option sreg :=
  match m with
  | [] => None
  | (c', sr) :: m' => if content_eqb c' c then Some sr else get_signed m' c
  end.

Fixpoint get_latest (m : list (N * content)) (p : N) : option content :=
  match m with
  | [] => None
  | (p', c) :: m' => if p' =? p then Some c else get_latest m' p
  end.

(* Go map assignment: the new binding shadows the old one *)
Definition set_signed (m : list (content * sreg)) (c : content) (sr : sreg) := (c, sr) :: m.
Definition set_latest (m : list (N * content)) (p : N) (c : content) := (p, c) :: m.

Definition mk_sig (a : N) (c : content) (t : N) : sig := {| sg_acct := a; sg_content := c; sg_stamp := t |}.

Definition content_of (pub : N) (rc : rcfg) : content :=
  {| ct_fee := rc_fee rc; ct_gas := rc_gas rc; ct_pub := pub |}.

(* the cache test of generateValidatorRegistrationForRelay:
   exists && bytes.Equal(latestRoot, registrationRoot) *)
Definition cached (st : state) (c : content) : option sreg :=
  match get_signed (signed st) c, get_latest (latest st) (ct_pub c) with
  | Some sr, Some c' => if content_eqb c' c then Some sr else None
  | _, _ => None
  end.

(* generateValidatorRegistrationForRelay.  [signs] = outcomes still to come for this validator.
   Returns the new state, the outcomes left, the signing request made (if any) and the
   registration (None = error). *)
Definition gen_relay (st : state) (now a : N) (c : content) (signs : list bool)
  : state * list bool * option sigreq * option sreg :=
  match cached st c with
  | Some sr => (st, signs, None, Some sr)
  | None =>
      let ok := hd true signs in
      let rq := {| q_acct := a; q_content := c; q_stamp := now; q_ok := ok |} in
      if ok then
        let sr := {| sr_content := c; sr_stamp := now; sr_sig := mk_sig a c now |} in
        ({| signed := set_signed (signed st) c sr;
            latest := set_latest (latest st) (ct_pub c) c;
            controlled := controlled st |},
         tl signs, Some rq, Some sr)
      else (st, tl signs, Some rq, None)
  end.

(* relayRegistrations: map address -> registrations, in order of first use *)
Definition relaymap := list (N * list sreg).

Fixpoint add_reg (m : relaymap) (addr : N) (sr : sreg) : relaymap :=
  match m with
  | [] => [(addr, [sr])]
  | (a, l) :: m' => if a =? addr then (a, l ++ [sr]) :: m' else (a, l) :: add_reg m' addr sr
  end.

(* what the generation phase accumulates *)
Record acc := {
  a_st : state;
  a_reqs : list sigreq;        (* signing requests, in order *)
  a_relays : relaymap;
  a_cons : list sreg           (* consensusRegistrations *)
}.

(* the loop over proposerConfig.Relays of generateValidatorRegistrationsForAccount;
   [first] = (index == 0) *)
Fixpoint gen_relays (ac : acc) (now a pub : N) (rcs : list rcfg) (first : bool) (signs : list bool) : acc :=
  match rcs with
  | [] => ac
  | rc :: rcs' =>
      let '(st1, signs1, orq, osr) := gen_relay (a_st ac) now a (content_of pub rc) signs in
      let reqs1 := match orq with Some rq => a_reqs ac ++ [rq] | None => a_reqs ac end in
      let ac1 :=
        match osr with
        | None => {| a_st := st1; a_reqs := reqs1; a_relays := a_relays ac; a_cons := a_cons ac |}
        | Some sr =>
            {| a_st := st1; a_reqs := reqs1;
               a_relays := add_reg (a_relays ac) (rc_addr rc) sr;
               a_cons := if first then a_cons ac ++ [sr] else a_cons ac |}
        end in
      gen_relays ac1 now a pub rcs' false signs1
  end.

(* generateValidatorRegistrationsForAccount, and the body of the accounts loop of
   submitValidatorRegistrationsForAccounts: an account whose settings cannot be resolved is
   logged and skipped. *)
Definition gen_account (ac : acc) (now : N) (v : validator) : acc :=
  match v_res v with
  | None => ac
  | Some res => gen_relays ac now (v_acct v) (v_pub v) (rs_relays res) true (v_sign v)
  end.

Definition gen_accounts (st : state) (now : N) (vals : list validator) : acc :=
  fold_left (fun ac v => gen_account ac now v) vals
            {| a_st := st; a_reqs := []; a_relays := []; a_cons := [] |}.

(* how a relay behaves when the round reaches it *)
Inductive rkind :=
| ROk            (* accepts *)
| RErr           (* SubmitValidatorRegistrations returns an error *)
| RNoSubmitter   (* the client does not implement ValidatorRegistrationsSubmitter *)
| RNoClient.     (* util.FetchBuilderClient fails *)

Fixpoint kind_of (ks : list (N * rkind)) (addr : N) : rkind :=
  match ks with
  | [] => ROk
  | (a, k) :: ks' => if a =? addr then k else kind_of ks' addr
  end.

Definition reached (k : rkind) : bool :=
  match k with ROk | RErr => true | _ => false end.

(* submitRelayRegistrations: one goroutine per address; what reaches a relay's
   SubmitValidatorRegistrations (whether or not it then fails), by ascending address *)
Definition relay_sends (ks : list (N * rkind)) (m : relaymap) : relaymap :=
  filter (fun e => reached (kind_of ks (fst e))) (sort_by fst m).

(* submitConsensusRegistrations: every secondary node is called with the whole list when it is
   not empty; [nodes] = their outcomes (not looked at: nobody waits for anybody) *)
Definition node_sends {A B} (nodes : list A) (l : list B) : list (option (list B)) :=
  map (fun _ => match l with [] => None | _ => Some l end) nodes.

(* ------------------------------------------------------------------------------------------- *)
(* Operations. *)

Inductive pkind := POk | PErr | PNotActive.

Record round_in := {
  r_now : N;                         (* time.Now().Round(time.Second) during the round *)
  r_cfg : bool;                      (* s.executionConfig != nil *)
  r_api : bool;                      (* SubmitValidatorRegistrations(accounts) rather than the job *)
  r_acct_err : bool;                 (* job: ValidatingAccountsForEpoch fails *)
  r_vals : list validator;           (* the accounts, in the order the map iteration visits them *)
  r_relays : list (N * rkind);
  r_nodes : list bool                (* secondary beacon nodes: accepts? *)
}.

Record forward_in := {
  f_cfg : bool;
  f_incoming : list sreg;                    (* registrations received over REST *)
  f_resolve : list (N * option (list N));    (* public key -> relay addresses of its settings (None = error) *)
  f_relays : list (N * rkind)
}.

Record prepare_in := {
  p_cfg : bool;
  p_fallback : N;                    (* fallback fee recipient *)
  p_acct_err : bool;
  p_vals : list validator;           (* in map iteration order; v_index and v_res matter *)
  p_nodes : list pkind
}.

Inductive op :=
| ORound (r : round_in)
| OForward (f : forward_in)
| OPrepare (p : prepare_in).

Inductive out :=
| OutRound (err : bool) (reqs : list sigreq) (relays : relaymap) (nodes : list (option (list sreg)))
| OutForward (relays : relaymap)
| OutPrepare (err : bool) (nodes : list (option (list (N * N)))).

Definition no_round (r : round_in) (err : bool) : out :=
  OutRound err [] [] (map (fun _ => None) (r_nodes r)).

(* submitValidatorRegistrationsForAccounts after the nil check *)
Definition do_round (st : state) (r : round_in) : state * out :=
  let ac := gen_accounts st (r_now r) (r_vals r) in
  let st' := {| signed := signed (a_st ac); latest := latest (a_st ac);
                controlled := map v_pub (r_vals r) |} in
  (st', OutRound false (a_reqs ac) (relay_sends (r_relays r) (a_relays ac))
                 (node_sends (r_nodes r) (a_cons ac))).

Definition step_round (st : state) (r : round_in) : state * out :=
  if r_api r then
    (* SubmitValidatorRegistrations: error without configuration *)
    if r_cfg r then do_round st r else (st, no_round r true)
  else
    (* submitValidatorRegistrations (the job) *)
    if r_acct_err r then (st, no_round r false)
    else match r_vals r with
         | [] => (st, no_round r false)
         | _ => if r_cfg r then do_round st r else (st, no_round r false)
         end.

(* ValidatorRegistrations (REST): registrations of validators Vouch does not control are
   forwarded unchanged to the relays of their settings, the others dropped *)
Fixpoint lookup_resolve (t : list (N * option (list N))) (pub : N) : option (list N) :=
  match t with
  | [] => None
  | (p, r) :: t' => if p =? pub then r else lookup_resolve t' pub
  end.

Definition forward_one (st : state) (f : forward_in) (m : relaymap) (sr : sreg) : relaymap :=
  let pub := ct_pub (sr_content sr) in
  if memb N.eqb pub (controlled st) then m
  else
    (* Service.ProposerConfig: without configuration, fallback settings with no relay *)
    let addrs := if f_cfg f then lookup_resolve (f_resolve f) pub else Some [] in
    match addrs with
    | None => m
    | Some l => fold_left (fun m a => add_reg m a sr) l m
    end.

Definition step_forward (st : state) (f : forward_in) : out :=
  OutForward (relay_sends (f_relays f) (fold_left (forward_one st f) (f_incoming f) [])).

(* UpdatePreparations *)
Definition prep_fee (p : prepare_in) (v : validator) : option N :=
  if p_cfg p then option_map rs_fee (v_res v) else Some (p_fallback p).

Fixpoint preparations (p : prepare_in) (vals : list validator) : list (N * N) :=
  match vals with
  | [] => []
  | v :: vals' =>
      match prep_fee p v with
      | None => preparations p vals'
      | Some fee => (v_index v, fee) :: preparations p vals'
      end
  end.

Definition step_prepare (p : prepare_in) : out :=
  if p_acct_err p then OutPrepare true (map (fun _ => None) (p_nodes p))
  else match p_vals p with
       | [] => OutPrepare false (map (fun _ => None) (p_nodes p))
       | _ => let l := preparations p (p_vals p) in
              (* every node is called, with the whole list, whatever the others answered *)
              OutPrepare false (map (fun _ => Some l) (p_nodes p))
       end.

Definition step (st : state) (o : op) : state * out :=
  match o with
  | ORound r => step_round st r
  | OForward f => (st, step_forward st f)
  | OPrepare p => (st, step_prepare p)
  end.

Fixpoint run (st : state) (ops : list op) : state * list out :=
  match ops with
  | [] => (st, [])
  | o :: ops' =>
      let '(s1, x) := step st o in
      let '(s2, xs) := run s1 ops' in
      (s2, x :: xs)
  end.
