(* C09 — the declarative side: what the property statement talks about, written without the
   collector.  Definitions only; the lemmas are in Proofs/C09.v and Proofs/C09_Spec.v.

   The statement speaks of "the bids that arrived before the strategy's deadline and are
   eligible".  [answered s r] lists what relay [r] (the mock) answered and when the answer reached
   vouch, with no classification by vouch; [acceptable s rs i b] says that relay [i] answered the
   bid [b] before the cut-off and that [b] is eligible at that relay. *)
From Verif Require Import Lib.Base Model.C09_Auction.
Open Scope N_scope.

(* best: one call per relay after the grace sleep *)
Definition best_calls (r : relay) : list (Z * N * resp) :=
  match r_script r with
  | (lat, x) :: _ =>
      match x with
      | RHang => []
      | _ => [((r_grace r + lat)%Z, 0, x)]
      end
  | [] => []
  end.

(* deadline: call k starts at t and is answered at t + latency; an answer at or after the deadline
   instant D is not an answer any more; after an answer at e with D - e <= gap the relay is not
   asked again, otherwise it is asked again at e + gap.  (The timing skeleton of
   deadline_attempts, without anything vouch decides about the content.) *)
Fixpoint deadline_calls (D gap : Z) (k : N) (t : Z) (script : list (Z * resp)) : list (Z * N * resp) :=
  match script with
  | [] => []
  | (lat, x) :: rest =>
      match x with
      | RHang => []
      | _ =>
          let e := (t + lat)%Z in
          if (e <? D)%Z
          then (e, k, x) :: (if (D - e <=? gap)%Z then [] else deadline_calls D gap (k + 1) (e + gap)%Z rest)
          else []
      end
  end.

Definition answered (s : strategy) (r : relay) : list (Z * N * resp) :=
  match s with
  | Best _ => best_calls r
  | Deadline D gap => deadline_calls D gap 0 (r_grace r) (r_script r)
  end.

(* relay [i] is configured, is asked by the strategy, and answered the bid [b] at instant [t] *)
Definition offered (s : strategy) (rs : list relay) (i : N) (t : Z) (b : bid) : Prop :=
  exists r k, In r rs /\ r_idx r = i /\ queried s r = true /\ In (t, k, RBid b) (answered s r).

(* ... before the cut-off, and the bid is eligible at that relay *)
Definition acceptable_at (s : strategy) (rs : list relay) (i : N) (t : Z) (b : bid) : Prop :=
  exists r k, In r rs /\ r_idx r = i /\ queried s r = true /\ In (t, k, RBid b) (answered s r)
              /\ (t < cutoff s)%Z /\ eligible r b = true.

Definition acceptable (s : strategy) (rs : list relay) (i : N) (b : bid) : Prop :=
  exists t, acceptable_at s rs i t b.

(* [w] is a best-scoring member of the family [P] of (relay, bid) pairs, reported with its own
   score and category; zero scores do not take part *)
Definition best_of (cfgs : bconfs) (P : N -> bid -> Prop) (w : part) : Prop :=
  (exists i, P i (p_bid w))
  /\ p_score w = score cfgs (p_bid w)
  /\ p_cat w = cat_of cfgs (p_bid w)
  /\ p_score w <> 0%Z
  /\ forall j b, P j b -> score cfgs b <> 0%Z -> (score cfgs b <= p_score w)%Z.

(* the winner of a result is a best-scoring acceptable bid; no winner only if every acceptable
   bid scores zero *)
Definition winner_is_max (cfgs : bconfs) (P : N -> bid -> Prop) (win : option part) : Prop :=
  match win with
  | Some w => best_of cfgs P w
  | None => forall i b, P i b -> score cfgs b = 0%Z
  end.

(* an arrival order of the answers: any arrangement of the events of the relays' goroutines (the
   time-sorted one, every order of simultaneous answers, and all others) *)
Definition arrival_order (s : strategy) (rs : list relay) (ord : list event) : Prop :=
  forall e, In e ord <-> In e (all_events s rs).

(* ------------------------------------------------------------------------------------------ *)
(* The deadline strategy's relay goroutine, as a run over the answered calls. *)

Definition mk_event (r : relay) (t : Z) (k : N) (d : delivery) : event :=
  {| e_time := t; e_relay := r_idx r; e_call := k; e_del := d |}.

Fixpoint classify_run (r : relay) (last : option bid) (calls : list (Z * N * resp)) : list event :=
  match calls with
  | [] => []
  | (t, k, x) :: rest =>
      let '(d, last') := classify_deadline r last x in
      mk_event r t k d :: classify_run r last' rest
  end.

(* The known finding.  [no_suppressed cfgs r last calls]: whenever the goroutine keeps an
   eligible bid back because its VALUE does not exceed the relay's previously forwarded bid [l],
   that bid would not have beaten [l] on SCORE either (it scores zero, or [l] scores non-zero and
   at least as much).  This is the negation of the harness tag deadline-suppressed-better-bid,
   restricted to the calls answered before the deadline. *)
Fixpoint no_suppressed (cfgs : bconfs) (r : relay) (last : option bid) (calls : list (Z * N * resp)) : bool :=
  match calls with
  | [] => true
  | (_, _, RBid b) :: rest =>
      if eligible r b then
        match last with
        | None => no_suppressed cfgs r (Some b) rest
        | Some l =>
            if b_value l <? b_value b then no_suppressed cfgs r (Some b) rest
            else ((score cfgs b =? 0)%Z || (negb (score cfgs l =? 0)%Z && (score cfgs b <=? score cfgs l)%Z))
                 && no_suppressed cfgs r last rest
        end
      else no_suppressed cfgs r last rest
  | _ :: rest => no_suppressed cfgs r last rest
  end.

Definition no_suppressed_better (cfgs : bconfs) (s : strategy) (rs : list relay) : Prop :=
  forall r, In r rs -> queried s r = true -> no_suppressed cfgs r None (answered s r) = true.

(* What the deadline goroutine does forward: the relay's value records.  [b] is a record of the
   calls when it is eligible and its value exceeds that of every earlier eligible bid of the
   relay. *)
Definition value_record (r : relay) (calls : list (Z * N * resp)) (t : Z) (b : bid) : Prop :=
  exists c1 k c2, calls = c1 ++ (t, k, RBid b) :: c2 /\ eligible r b = true
                  /\ forall t' k' b', In (t', k', RBid b') c1 -> eligible r b' = true -> b_value b' < b_value b.

Definition record_offer (s : strategy) (rs : list relay) (i : N) (b : bid) : Prop :=
  exists r t, In r rs /\ r_idx r = i /\ queried s r = true /\ value_record r (answered s r) t b.

(* ------------------------------------------------------------------------------------------ *)
(* The statement on an OBSERVED result (what the harness reads off blockauctioneer.Results and off
   the BuilderBid answers): the winner as (score, category, bid identity), the provider list, a
   served bid identity.  [P] is the family of acceptable (relay, bid) pairs. *)

Definition obs_winner_is_max (cfgs : bconfs) (P : N -> bid -> Prop) (win : option (Z * N * N)) : Prop :=
  match win with
  | None => forall i b, P i b -> score cfgs b = 0%Z
  | Some (sc, cat, uid) =>
      (exists i b, P i b /\ b_uid b = uid /\ score cfgs b = sc /\ cat_of cfgs b = cat /\ sc <> 0%Z)
      /\ forall j b, P j b -> score cfgs b <> 0%Z -> (score cfgs b <= sc)%Z
  end.

Definition obs_providers_ok (P : N -> bid -> Prop) (win : option (Z * N * N)) (providers : list N) : Prop :=
  match win with
  | None => providers = []
  | Some (_, _, uid) =>
      exists i b, P i b /\ b_uid b = uid /\ In i providers
                  /\ forall j, In j providers -> exists b', P j b' /\ b_header b' = b_header b
  end.

Definition obs_served_ok (cfgs : bconfs) (P : N -> bid -> Prop) (s : option N) : Prop :=
  match s with
  | None => forall i b, P i b -> score cfgs b = 0%Z
  | Some uid =>
      exists i b, P i b /\ b_uid b = uid /\ score cfgs b <> 0%Z
                  /\ forall j b', P j b' -> score cfgs b' <> 0%Z -> (score cfgs b' <= score cfgs b)%Z
  end.
