(* C10 — the block relay service in front of the execution configuration
   (services/blockrelay/standard: Service.ProposerConfig, fetchExecutionConfig, AuctionBlock).
   Definitions only.

   The service holds ONE piece of state that matters to a proposer configuration lookup: the
   current execution configuration (s.executionConfig; nil until the first successful fetch).
   Every lookup — whoever makes it: the proposal preparer and --proposer-config-check (account and
   public key), AuctionBlock (account and public key), UnblindBlock and ValidatorRegistrations
   (public key only: a nil account, named <unknown>/<unknown>) — goes through
   Service.ProposerConfig, which reads that configuration under the read lock and delegates to
   ExecutionConfigurator.ProposerConfig with the service's fallback fee recipient and gas limit.
   Nothing else is remembered between two lookups. *)
From Verif Require Import Lib.Base Model.C10_ExecConfig.

(* What a periodic refresh (fetchExecutionConfig) got from the configuration source. *)
Inductive fetched :=
| FDoc (j : json)      (* the source served this document *)
| FNothing.            (* nothing usable: the source failed, the accounts provider failed, or
                          there are no validating accounts (nothing is fetched at all) *)

(* Who asks. *)
Inductive asker :=
| ADirect              (* Service.ProposerConfig called from outside: the answer is returned *)
| AAuction.            (* AuctionBlock: the answer is handed to the builder bid provider, unless it
                          has no relays (then no bid is asked for and nothing is handed over) *)

Inductive sop :=
| SLookup (a : asker) (v : validator)   (* [v]: the public key and the account patterns that match the
                                           name of the account that was PASSED (none for a nil account
                                           unless a pattern matches <unknown>/<unknown>) *)
| SRefresh (f : fetched).

Definition svc_state := option config.        (* s.executionConfig *)

Definition fallback_cfg (fbfee : N) : prop_cfg := {| pc_fee := fbfee; pc_relays := [] |}.

(* Service.ProposerConfig *)
Definition svc_lookup (st : svc_state) (v : validator) (fbfee fbgas : N) : outcome :=
  match st with
  | None => OOk (fallback_cfg fbfee)           (* "No execution configuration available; using fallback" *)
  | Some c => lookup c v fbfee fbgas
  end.

(* what of an answer an asker lets us see: an auction without relays never reaches the builder bid
   provider, so only "no relays" is visible (fee recipient projected to 0) *)
Definition view (a : asker) (o : outcome) : outcome :=
  match a, o with
  | AAuction, OOk p => match pc_relays p with
                       | [] => OOk (fallback_cfg 0)
                       | _ => o
                       end
  | _, _ => o
  end.

(* fetchExecutionConfig: a document that unmarshals replaces the configuration; anything else
   ("Failed to obtain execution configuration" ...) restores the current one *)
Definition svc_refresh (st : svc_state) (f : fetched) : svc_state :=
  match f with
  | FNothing => st
  | FDoc j => match unmarshal j with
              | Some c => Some c
              | None => st
              end
  end.

(* a history on one service instance: the answers of its lookups, in order *)
Fixpoint svc_run (st : svc_state) (ops : list sop) (fbfee fbgas : N) : list outcome :=
  match ops with
  | [] => []
  | SLookup a v :: r => view a (svc_lookup st v fbfee fbgas) :: svc_run st r fbfee fbgas
  | SRefresh f :: r => svc_run (svc_refresh st f) r fbfee fbgas
  end.

Fixpoint svc_state_after (st : svc_state) (ops : list sop) : svc_state :=
  match ops with
  | [] => st
  | SLookup _ _ :: r => svc_state_after st r
  | SRefresh f :: r => svc_state_after (svc_refresh st f) r
  end.

(* ---- the specification of a history: no state but "the last document that was accepted" ---- *)

(* the configuration in force after a history, read from its END: the latest refresh that served
   an acceptable document; lookups, failed refreshes and refused documents do not count *)
Fixpoint latest (rev_ops : list sop) (st0 : svc_state) : svc_state :=
  match rev_ops with
  | [] => st0
  | SRefresh (FDoc j) :: r => match unmarshal j with
                              | Some c => Some c
                              | None => latest r st0
                              end
  | _ :: r => latest r st0
  end.

Definition svc_spec_lookup (spec : config -> validator -> N -> N -> outcome)
           (st : svc_state) (v : validator) (fbfee fbgas : N) : outcome :=
  match st with
  | None => OOk (fallback_cfg fbfee)
  | Some c => spec c v fbfee fbgas
  end.

(* the answers a history must give: each lookup judged on its own, with its own arguments, against
   the configuration in force at that point ([done]: the operations before it, latest first) *)
Fixpoint svc_spec_run (spec : config -> validator -> N -> N -> outcome)
         (done : list sop) (st0 : svc_state) (ops : list sop) (fbfee fbgas : N) : list outcome :=
  match ops with
  | [] => []
  | SLookup a v :: r =>
      view a (svc_spec_lookup spec (latest done st0) v fbfee fbgas)
      :: svc_spec_run spec (SLookup a v :: done) st0 r fbfee fbgas
  | SRefresh f :: r => svc_spec_run spec (SRefresh f :: done) st0 r fbfee fbgas
  end.

Fixpoint count_lookups (ops : list sop) : nat :=
  match ops with
  | [] => 0
  | SLookup _ _ :: r => S (count_lookups r)
  | SRefresh _ :: r => count_lookups r
  end.

Definition is_refresh (o : sop) : bool := match o with SRefresh _ => true | _ => false end.
