(* C15: sync committee messages for every slot of the period, independent members.
   Transcribed from
     services/controller/standard/synccommitteemessenger.go
        (scheduleSyncCommitteeMessages, prepareMessageSyncCommittee, messageSyncCommittee,
         firstEpochOfSyncPeriod),
     services/synccommitteemessenger/service.go (Duty) and standard/service.go
        (Prepare, Message, getAggregatorsSignatureData),
     services/synccommitteeaggregator/standard/service.go (SetBeaconBlockRoot, Aggregate),
     services/synccommitteesubscriber/standard/service.go (Subscribe, calculateSubscriptions).
   Definitions only.

   Conventions.  Slots, epochs, validator indices, committee positions, roots are N.  Times are Z
   nanoseconds after genesis.  Every uint64 operation of the window computation is written with the
   wrapping operators of Lib.Base.  Go maps are key-unique association lists kept sorted by key;
   everything the implementation emits in map order is compared sorted (Check/C15.v), and the
   theorems characterise outputs by membership, so no iteration order is assumed.

   The signer, the submitters and the beacon node are scripted environments: their behaviour is an
   input ([fire_in], [agg_in]); the mock signer of the harness answers like
   services/signer/standard does for local accounts: any nil account in the batch fails the whole
   batch ("unknown signer type; cannot sign"), a per-account failure is a zero signature (what
   signRootsMulti leaves for a nil signature of a multi-signer); the mock submitters reject an
   empty list like services/submitter/{immediate,multinode} do. *)
From Verif Require Import Lib.Base.

(* ------------------------------------------------------------------------------------------ *)
(* Parameters of the chain and of the controller.                                               *)

Record params := {
  spe : N;          (* SLOTS_PER_EPOCH (chain time service) *)
  epp : N;          (* s.epochsPerSyncCommitteePeriod *)
  fork : N;         (* s.altairForkEpoch *)
  slot_ns : Z;      (* s.slotDuration and the chain time's slot duration, ns *)
  msg_delay : Z;    (* s.maxSyncCommitteeMessageDelay, ns *)
  agg_delay : Z;    (* s.syncCommitteeAggregationDelay, ns *)
  csize : N;        (* SYNC_COMMITTEE_SIZE *)
  subnets : N;      (* SYNC_COMMITTEE_SUBNET_COUNT *)
  target : N        (* TARGET_AGGREGATORS_PER_SYNC_SUBCOMMITTEE *)
}.

(* ------------------------------------------------------------------------------------------ *)
(* The slot window (scheduleSyncCommitteeMessages, lines "period := ..." to "lastSlot := ...").  *)

Definition first_slot_of_epoch (p : params) (e : N) : N := mul64 e (spe p).
Definition epoch_of_slot (p : params) (s : N) : N := s / spe p.

(* firstEpochOfSyncPeriod *)
Definition first_epoch_of_period (p : params) (period : N) : N :=
  let e := mul64 period (epp p) in
  if e <? fork p then fork p else e.

Record window := {
  w_first_epoch : N;   (* firstEpoch: the epoch the duties and accounts are asked for *)
  w_first : N;         (* firstSlot *)
  w_last : N;          (* lastSlot *)
  w_until : N          (* lastEpoch+1: the subscriptions' until epoch *)
}.

(* [guarded = true] is the code as it stands (after "fix: ... underflow"):
       firstSlot := FirstSlotOfEpoch(firstEpoch); if firstSlot > 0 { firstSlot-- }
   [guarded = false] is the arithmetic before the repair: FirstSlotOfEpoch(firstEpoch) - 1 in uint64. *)
Definition window_of (guarded : bool) (p : params) (epoch cur : N) : window :=
  let ce := epoch_of_slot p cur in
  let period := epoch / epp p in
  let fe0 := first_epoch_of_period p period in
  let fe := if fe0 <? ce then ce else fe0 in
  let fs0 := first_slot_of_epoch p fe in
  let fs1 := if guarded then (if 0 <? fs0 then fs0 - 1 else fs0) else sub64 fs0 1 in
  let fs := if fs1 <? cur then cur else fs1 in
  let le := sub64 (first_epoch_of_period p (add64 period 1)) 1 in
  let ls := sub64 (first_slot_of_epoch p (add64 le 1)) 2 in
  {| w_first_epoch := fe; w_first := fs; w_last := ls; w_until := add64 le 1 |}.

(* for slot := firstSlot; slot <= lastSlot; slot++   (lastSlot < 2^64-1 in every use) *)
Definition range (lo hi : N) : list N :=
  if hi <? lo then [] else map (fun i => lo + N.of_nat i) (seq 0 (N.to_nat (hi - lo + 1))).

Definition window_slots (guarded : bool) (p : params) (epoch cur : N) (notcur : bool) : list N :=
  let w := window_of guarded p epoch cur in
  filter (fun s => negb ((s =? cur) && notcur)) (range (w_first w) (w_last w)).

(* ------------------------------------------------------------------------------------------ *)
(* Jobs of the abstract scheduler: (kind, slot) stands for the job name, e.g.
   (JPrepare, 7) = "Prepare sync committee messages for slot 7".                               *)

Definition JPrepare : N := 0.     (* "Prepare sync committee messages for slot %d" *)
Definition JMessage : N := 1.     (* "Sync committee messages for slot %d" *)
Definition JAggregate : N := 2.   (* "Sync committee aggregation for slot %d" *)

Definition job := (N * N * Z)%type.   (* kind, slot, time *)

Definition start_of_slot (p : params) (s : N) : Z := (Z.of_N s * slot_ns p)%Z.
(* StartOfSlot(slot).Add(-s.slotDuration * 6 / 4): Go parses ((-d)*6)/4, truncating *)
Definition prepare_time (p : params) (s : N) : Z := (start_of_slot p s + Z.quot (- slot_ns p * 6) 4)%Z.
Definition message_time (p : params) (s : N) : Z := (start_of_slot p s + msg_delay p)%Z.
Definition aggregate_time (p : params) (s : N) : Z := (start_of_slot p s + agg_delay p)%Z.

(* ------------------------------------------------------------------------------------------ *)
(* Duties and accounts.                                                                         *)

Definition duty := (N * list N)%type.          (* validator index, positions in the committee *)

Fixpoint put (k : N) (v : list N) (m : list duty) : list duty :=
  match m with
  | [] => [(k, v)]
  | (k', v') :: m' => if k' =? k then (k, v) :: m' else (k', v') :: put k v m'
  end.

(* messageIndices[duty.ValidatorIndex] = duty.ValidatorSyncCommitteeIndices  (later duties win);
   canonical order: by validator index *)
Definition message_indices (duties : list duty) : list duty :=
  sort_by fst (fold_left (fun m d => put (fst d) (snd d) m) duties []).

Definition memN (x : N) (l : list N) : bool := memb N.eqb x l.

Record sched_in := {
  si_epoch : N;                      (* the epoch argument *)
  si_cur : N;                        (* chain time: current slot *)
  si_notcur : bool;                  (* notCurrentSlot *)
  si_indices : list N;               (* validatorIndices *)
  si_duties : option (list duty);    (* answer of the duties provider; None = error *)
  si_accts : option (list N)         (* validators the account manager holds; None = error *)
}.

Record sched_out := {
  so_query : option N;               (* epoch the duties were requested for; None = no request *)
  so_jobs : list job;                (* the job table afterwards *)
  so_sub : option (N * list duty)    (* Subscribe(until epoch, duties) *)
}.

(* accounts[validatorIndex] exists: the account manager returns the requested indices it holds *)
Definition has_account (i : sched_in) (v : N) : bool :=
  match si_accts i with
  | Some a => memN v a && memN v (si_indices i)
  | None => false
  end.

Definition nothing (q : option N) : sched_out := {| so_query := q; so_jobs := []; so_sub := None |}.

Definition schedule (p : params) (i : sched_in) : sched_out :=
  match si_indices i with
  | [] => nothing None
  | _ :: _ =>
      if epoch_of_slot p (si_cur i) <? fork p then nothing None
      else
        let w := window_of true p (si_epoch i) (si_cur i) in
        let q := Some (w_first_epoch w) in
        match si_duties i with
        | None => nothing q
        | Some [] => nothing q
        | Some ds =>
            match si_accts i with
            | None => nothing q
            | Some _ =>
                {| so_query := q;
                   so_jobs := map (fun s => (JPrepare, s, prepare_time p s))
                                  (window_slots true p (si_epoch i) (si_cur i) (si_notcur i));
                   so_sub := Some (w_until w, ds) |}
            end
        end
  end.

(* the members of every duty of the window, and which of them got an account (SetAccount) *)
Definition members (i : sched_in) : list duty :=
  match si_duties i with Some ds => message_indices ds | None => [] end.

(* ------------------------------------------------------------------------------------------ *)
(* Signatures, as the harness's signer encodes them.                                            *)

Inductive sg :=
| SgZero                                  (* the all-zero signature *)
| SgRoot (v e r : N)                      (* validator v's account over root r, sync committee domain of epoch e *)
| SgSel (v s c : N)                       (* selection proof of v for slot s, subcommittee c *)
| SgCP (v s c : N)                        (* v's account over the contribution-and-proof (slot s, subcommittee c) *)
| SgBad.                                  (* anything else (never produced by the scripted signer) *)

Definition is_zero (x : sg) : bool := match x with SgZero => true | _ => false end.

(* ------------------------------------------------------------------------------------------ *)
(* Subcommittees and aggregator selection (Prepare, getAggregatorsSignatureData).               *)

Definition subcommittee (p : params) (pos : N) : N := pos / (csize p / subnets p).
Definition modulo (p : params) : N := N.max 1 (csize p / subnets p / target p).
(* binary.LittleEndian.Uint64(sha256(signature)[:8]) % modulo == 0 *)
Definition is_aggregator (p : params) (hash8 : N) : bool := hash8 mod modulo p =? 0.

Definition pair_key (x : N * N) : N := fst x * two64 + snd x.

Fixpoint lookup3 (t : list (N * N * N)) (v c : N) : option N :=
  match t with
  | [] => None
  | (v', c', h) :: t' => if (v' =? v) && (c' =? c) then Some h else lookup3 t' v c
  end.

(* ------------------------------------------------------------------------------------------ *)
(* One slot's chain: prepare job -> message job -> aggregation job.                             *)

Record fire_in := {
  f_slot : N;
  f_root : option N;            (* head root the node serves during this slot ("head"); None = every root request fails *)
  f_slot_root : option N;       (* root the node serves for this slot's NUMBER as block id: the block proposed in the slot, if it
                                   has one by now; None = no block (yet) in this slot, the node answers 404.  The code asks for
                                   "head" only, so nothing below depends on it: an empty slot costs no message. *)
  f_sel_slow : bool;            (* the selection signer answers only after the slot's message time has come: whatever message
                                   job exists by then runs first.  prepareMessageSyncCommittee schedules the message job after
                                   Prepare has returned, so none exists and the chain below is unchanged (Model/C15_Slow.v) *)
  f_sel_err : bool;             (* SignSyncCommitteeSelections fails as a whole *)
  f_sel_zero : list N;          (* validators whose selection proof comes back zero *)
  f_hash8 : list (N * N * N);   (* (validator, subcommittee, LE64 of sha256(selection proof)), computed by the harness *)
  f_root_err : bool;            (* SignSyncCommitteeRoots fails as a whole *)
  f_root_zero : list N;         (* validators whose message signature comes back zero *)
  f_submit_err : bool;          (* SubmitSyncCommitteeMessages fails *)
  f_contrib_err : list N;       (* subcommittees whose contribution cannot be fetched *)
  f_cp_err : bool               (* SignContributionAndProofs fails as a whole *)
}.

Definition msg := (N * N * N * sg)%type.                 (* slot, beacon block root, validator index, signature *)
Record contrib := {
  cp_agg : N; cp_slot : N; cp_subc : N; cp_root : N; cp_proof : sg; cp_sig : sg
}.

Record fire_out := {
  o_sel_call : option (list (N * N));               (* SignSyncCommitteeSelections: (validator of the account, subcommittee), sorted *)
  o_msg_job : option Z;                             (* time of the message job scheduled by the prepare job *)
  o_root_call : option (list (option N) * N * N);   (* SignSyncCommitteeRoots: accounts (None = nil), epoch, root *)
  o_submitted : option (list msg);                  (* SubmitSyncCommitteeMessages payload, sorted by validator *)
  o_agg_job : option Z;                             (* time of the aggregation job scheduled by the message job *)
  o_contribs : option (list contrib)                (* SubmitSyncCommitteeContributions payload, sorted *)
}.

(* the payload of an optional submission, [] when nothing was submitted *)
Definition opt_list {A} (o : option (list A)) : list A := match o with Some l => l | None => [] end.

Definition no_fire : fire_out :=
  {| o_sel_call := None; o_msg_job := None; o_root_call := None; o_submitted := None;
     o_agg_job := None; o_contribs := None |}.

(* Prepare: (validator, subcommittee) per position of every member that has an account *)
Definition sel_pairs (p : params) (mem : list duty) (acct : N -> bool) : list (N * N) :=
  flat_map (fun m => if acct (fst m) then map (fun pos => (fst m, subcommittee p pos)) (snd m) else []) mem.

Definition sel_sig (f : fire_in) (x : N * N) : sg :=
  if memN (fst x) (f_sel_zero f) then SgZero else SgSel (fst x) (f_slot f) (snd x).

Definition selected (p : params) (f : fire_in) (x : N * N) : bool :=
  match lookup3 (f_hash8 f) (fst x) (snd x) with
  | Some h => is_aggregator p h
  | None => false
  end.

Fixpoint dedup_pairs (l : list (N * N)) : list (N * N) :=
  match l with
  | [] => []
  | x :: l' => if memb (prod_eqb N.eqb N.eqb) x l' then dedup_pairs l' else x :: dedup_pairs l'
  end.

(* duty.aggregatorSubcommittees after Prepare, flattened and sorted: the (validator, subcommittee)
   pairs for which the validator aggregates *)
Definition aggregators (p : params) (mem : list duty) (acct : N -> bool) (f : fire_in) : list (N * N) :=
  sort_by pair_key (dedup_pairs (filter (selected p f) (sel_pairs p mem acct))).

(* Message (as repaired): only the accounts held are passed to the signer, in member order; a zero
   signature skips that member only *)
Definition signers (mem : list duty) (acct : N -> bool) : list N :=
  filter acct (map fst mem).

Definition root_sig (p : params) (f : fire_in) (r v : N) : sg :=
  if memN v (f_root_zero f) then SgZero else SgRoot v (epoch_of_slot p (f_slot f)) r.

Definition messages (p : params) (mem : list duty) (acct : N -> bool) (f : fire_in) (r : N) : list msg :=
  flat_map (fun v => let s := root_sig p f r v in
                     if is_zero s then [] else [(f_slot f, r, v, s)])
           (signers mem acct).

Definition mk_contrib (f : fire_in) (r : N) (x : N * N) : contrib :=
  {| cp_agg := fst x; cp_slot := f_slot f; cp_subc := snd x; cp_root := r;
     cp_proof := sel_sig f x; cp_sig := SgCP (fst x) (f_slot f) (snd x) |}.

(* Aggregate, for the duty built by messageSyncCommittee: every aggregator has its account *)
Definition contributions (f : fire_in) (r : N) (aggs : list (N * N)) : option (list contrib) :=
  if existsb (fun x => memN (snd x) (f_contrib_err f)) aggs then None
  else if f_cp_err f then None
  else Some (map (mk_contrib f r) aggs).

(* The chain of one slot whose prepare job exists and whose three jobs are fired in turn. *)
Definition fire (p : params) (mem : list duty) (acct : N -> bool) (f : fire_in) : fire_out :=
  let pairs := sel_pairs p mem acct in
  let sel_call := match pairs with [] => None | _ => Some (sort_by pair_key pairs) end in
  if (match pairs with [] => false | _ => f_sel_err f end) then
    (* Prepare failed: prepareMessageSyncCommittee returns before scheduling the message job *)
    {| o_sel_call := sel_call; o_msg_job := None; o_root_call := None; o_submitted := None;
       o_agg_job := None; o_contribs := None |}
  else
    let mj := Some (message_time p (f_slot f)) in
    match f_root f with
    | None => {| o_sel_call := sel_call; o_msg_job := mj; o_root_call := None; o_submitted := None;
                 o_agg_job := None; o_contribs := None |}
    | Some r =>
        match signers mem acct with
        | [] => (* "Return early if we have no active accounts": Message succeeds with no message;
                   no member can be an aggregator *)
            {| o_sel_call := sel_call; o_msg_job := mj; o_root_call := None; o_submitted := None;
               o_agg_job := None; o_contribs := None |}
        | sgn =>
            let call := Some (map Some sgn, epoch_of_slot p (f_slot f), r) in
            if f_root_err f then
              {| o_sel_call := sel_call; o_msg_job := mj; o_root_call := call; o_submitted := None;
                 o_agg_job := None; o_contribs := None |}
            else
              let ms := messages p mem acct f r in
              let submit_ok := negb (f_submit_err f) && negb (match ms with [] => true | _ => false end) in
              if negb submit_ok then
                {| o_sel_call := sel_call; o_msg_job := mj; o_root_call := call; o_submitted := Some ms;
                   o_agg_job := None; o_contribs := None |}
              else
                match aggregators p mem acct f with
                | [] => {| o_sel_call := sel_call; o_msg_job := mj; o_root_call := call; o_submitted := Some ms;
                           o_agg_job := None; o_contribs := None |}
                | aggs =>
                    {| o_sel_call := sel_call; o_msg_job := mj; o_root_call := call; o_submitted := Some ms;
                       o_agg_job := Some (aggregate_time p (f_slot f));
                       o_contribs := contributions f r aggs |}
                end
        end
    end.

(* A fired slot: nothing happens unless the schedule holds its prepare job. *)
Definition has_prepare (jobs : list job) (s : N) : bool :=
  existsb (fun j => (fst (fst j) =? JPrepare) && (snd (fst j) =? s)) jobs.

Definition fire_scheduled (p : params) (i : sched_in) (f : fire_in) : fire_out :=
  if has_prepare (so_jobs (schedule p i)) (f_slot f) then fire p (members i) (has_account i) f else no_fire.

(* ------------------------------------------------------------------------------------------ *)
(* Aggregate called on its own (any duty, accounts possibly missing).                           *)

Record agg_in := {
  a_slot : N;
  a_aggs : list (N * list N);   (* duty.ValidatorIndices with the subcommittees of duty.SelectionProofs, sorted *)
  a_accts : list N;             (* keys of duty.Accounts *)
  a_cached : option N;          (* root stored by SetBeaconBlockRoot for the slot, if any *)
  a_head : option N;            (* what the node answers for "head"; None = request fails *)
  a_slot_root : option N;       (* what it answers for the slot's number; None = no block in the slot (404); never asked *)
  a_contrib_err : list N;
  a_cp_err : bool
}.

Definition agg_items (a : agg_in) : list (N * N) :=
  flat_map (fun m => if memN (fst m) (a_accts a) then map (fun c => (fst m, c)) (snd m) else []) (a_aggs a).

Definition agg_contrib (a : agg_in) (r : N) (x : N * N) : contrib :=
  {| cp_agg := fst x; cp_slot := a_slot a; cp_subc := snd x; cp_root := r;
     cp_proof := SgSel (fst x) (a_slot a) (snd x); cp_sig := SgCP (fst x) (a_slot a) (snd x) |}.

(* as repaired: an aggregator without account is skipped (before its contribution is fetched);
   nothing is signed when nobody is left *)
Definition aggregate (a : agg_in) : option (list contrib) :=
  match (match a_cached a with Some r => Some r | None => a_head a end) with
  | None => None
  | Some r =>
      let items := agg_items a in
      if existsb (fun x => memN (snd x) (a_contrib_err a)) items then None
      else match items with
           | [] => None
           | _ => if a_cp_err a then None else Some (map (agg_contrib a r) (sort_by pair_key items))
           end
  end.
