(* C02 -- bursts: several goroutines operating on ONE job name of one scheduler at the same moment.
   Definitions only.

   What the harness runs (harness/c02/burst_test.go): some operations one after the other ([bu_pre]),
   then one goroutine per lane, all released together, each performing its operations back to back
   (ScheduleJob or SchedulePeriodicJob / CancelJob / RunJob of the same name; every job far enough
   in the future), rest, a follow-up operation, rest, the jobs' time passes, rest.

   What the code does: each of these calls reads and updates s.jobs inside ONE section of jobsMutex
   (t_schedule: check for the name AND insert; t_run: look up AND delete a one-off entry; t_cancel:
   look up AND delete), so the calls of a burst take effect in some total order -- an interleaving
   of the lanes -- and what each returns is a function of the table it finds:
     ScheduleJob  : the name is taken -> ErrJobAlreadyExists, else the job is entered, nil;
     RunJob       : no entry -> ErrNoSuchJob; else the job is fresh (neither active nor finalised:
                    an entry is removed from the table before its job is claimed), so runJob
                    returns nil and jobFunc is called once (C02_run_success_runs);
     CancelJob    : no entry -> ErrNoSuchJob; else nil and jobFunc is never called
                    (C02_cancel_before_due).
   When its time comes the job still in the table runs once and leaves the table.
   Every ScheduleJob of a burst carries its own job function: job id = number of the ScheduleJob
   operation ([number]: the sequential ones first, then lane by lane). *)
From Verif Require Import Lib.Base Model.C02_Scheduler Model.C02_Script Model.C02_TableOps.

Inductive bop :=
| BoSched | BoCancel | BoRun
| BoCtx                   (* the context under which the jobs with ids below some bound were scheduled is cancelled *)
| BoRelease (below : N).  (* ... and, any time later, the goroutine of such a job leaves through its
                             context branch: removeJob, i.e. the name is removed if it still refers
                             to that job (t_release) *)

Definition bop_eqb (a b : bop) : bool :=
  match a, b with
  | BoSched, BoSched | BoCancel, BoCancel | BoRun, BoRun | BoCtx, BoCtx => true
  | BoRelease x, BoRelease y => x =? y
  | _, _ => false
  end.

Definition bname : name := 0.

Record bstate := {
  bs_table : table;           (* s.jobs: name -> job id *)
  bs_runs : list (N * N)      (* job id -> calls of its function *)
}.

Definition bs_init : bstate := {| bs_table := []; bs_runs := [] |}.

Definition holder (s : bstate) : option N := t_get (bs_table s) bname.
Definition held (s : bstate) : bool := t_exists (bs_table s) bname.

(* one call, taking effect on the table it finds *)
Definition b_step (per : bool) (s : bstate) (o : bop) (id : N) : bstate * code :=
  match o with
  | BoSched =>
      let '(t', c) := t_schedule (bs_table s) bname id in
      ({| bs_table := t'; bs_runs := bs_runs s |}, c)
  | BoRun =>
      match t_run (bs_table s) bname per with
      | (t', Some j) => ({| bs_table := t'; bs_runs := bump (bs_runs s) j |}, Nil)
      | (_, None) => (s, ErrNoSuchJob)
      end
  | BoCancel =>
      match t_cancel (bs_table s) bname with
      | (t', Some _) => ({| bs_table := t'; bs_runs := bs_runs s |}, Nil)
      | (_, None) => (s, ErrNoSuchJob)
      end
  | BoCtx => (s, Nil)
  | BoRelease below =>
      (match holder s with
       | Some j => if j <? below then {| bs_table := t_release (bs_table s) bname j; bs_runs := bs_runs s |} else s
       | None => s
       end, Nil)
  end.

(* the jobs' time passes: the job in the table runs and leaves the table (one-off: timer branch;
   periodic: its one instance, then runtimeFunc reports that there are no more) *)
Definition b_fire (s : bstate) : bstate :=
  match holder s with
  | Some j => {| bs_table := t_del (bs_table s) bname; bs_runs := bump (bs_runs s) j |}
  | None => s
  end.

Definition runs_of (s : bstate) (id : N) : N :=
  match assoc_get (bs_runs s) id with Some n => n | None => 0 end.

Fixpoint total_runs (l : list (N * N)) : N :=
  match l with [] => 0 | (_, n) :: l' => n + total_runs l' end.

(* a sequence of calls, each with its job id and the code it returns *)
Definition bcall := (bop * N)%type.

Fixpoint b_run (per : bool) (s : bstate) (l : list bcall) : bstate * list code :=
  match l with
  | [] => (s, [])
  | (o, id) :: l' =>
      let '(s1, c) := b_step per s o id in
      let '(s2, cs) := b_run per s1 l' in
      (s2, c :: cs)
  end.

(* numbering of the ScheduleJob operations *)
Fixpoint number (next : N) (l : list bop) : list bcall * N :=
  match l with
  | [] => ([], next)
  | BoSched :: l' => let '(r, n) := number (next + 1) l' in ((BoSched, next) :: r, n)
  | o :: l' => let '(r, n) := number next l' in ((o, 0) :: r, n)
  end.

Fixpoint number_lanes (next : N) (ls : list (list bop)) : list (list bcall) * N :=
  match ls with
  | [] => ([], next)
  | l :: ls' =>
      let '(r, n) := number next l in
      let '(rs, n') := number_lanes n ls' in
      (r :: rs, n')
  end.

Record burst := {
  bu_periodic : bool;
  bu_pre : list bop;
  bu_lanes : list (list bop);
  bu_follow : option bop
}.

(* --- linearisation search ----------------------------------------------------------------------
   a lane = its remaining calls, each with the code that was OBSERVED; [lin] looks for an order of
   the calls (an interleaving of the lanes) in which the model returns exactly the observed codes
   and whose final state satisfies [k]. *)
Definition ocall := (bop * N * code)%type.

Definition all_done (lanes : list (list ocall)) : bool :=
  forallb (fun l => match l with [] => true | _ => false end) lanes.

(* some lane has a next call [x] (rest of the lane [l'], the lanes without that call [lanes']) on
   which [step] succeeds; the lanes keep their positions *)
Fixpoint try_lanes (step : ocall -> list (list ocall) -> bool) (before after : list (list ocall)) : bool :=
  match after with
  | [] => false
  | l :: after' =>
      if match l with
         | [] => false
         | x :: l' => step x (rev before ++ l' :: after')
         end
      then true
      else try_lanes step (l :: before) after'
  end.

Fixpoint lin (fuel : nat) (per : bool) (s : bstate) (lanes : list (list ocall)) (k : bstate -> bool) : bool :=
  match fuel with
  | O => false
  | Datatypes.S f =>
      if all_done lanes then k s
      else
        try_lanes (fun x lanes' =>
                     let '(o, id, c) := x in
                     let '(s', c') := b_step per s o id in
                     if code_eqb c c' then lin f per s' lanes' k else false)
                  [] lanes
  end.

Fixpoint zip_codes (l : list bcall) (cs : list code) : option (list ocall) :=
  match l, cs with
  | [], [] => Some []
  | (o, id) :: l', c :: cs' =>
      match zip_codes l' cs' with Some r => Some ((o, id, c) :: r) | None => None end
  | _, _ => None
  end.

Fixpoint zip_lanes (ls : list (list bcall)) (css : list (list code)) : option (list (list ocall)) :=
  match ls, css with
  | [], [] => Some []
  | l :: ls', cs :: css' =>
      match zip_codes l cs, zip_lanes ls' css' with
      | Some r, Some rs => Some (r :: rs)
      | _, _ => None
      end
  | _, _ => None
  end.

Definition ops_count (lanes : list (list ocall)) : nat :=
  fold_right (fun l n => (length l + n)%nat) O lanes.

(* the runs of the jobs 0 .. n-1 *)
Fixpoint runs_upto (s : bstate) (n : nat) : list N :=
  match n with O => [] | Datatypes.S n' => runs_upto s n' ++ [runs_of s (N.of_nat n')] end.
