(* C02 -- timed scripts over the job machine of Model/C02_Scheduler.v, and the table of names.
   Definitions only.

   A script is what the harness runs against the real scheduler inside a synctest bubble: one job
   (one-off at time T, or periodic with a period), a duration of jobFunc, and calls
   (RunJob / CancelJob / cancel of the parent context / duplicate ScheduleJob / JobExists) issued
   from their own goroutines at given instants (milliseconds of fake time after ScheduleJob).
   Bubble semantics: the clock advances only when every goroutine is durably blocked, so between
   two instants the system runs to quiescence; everything that becomes enabled at the SAME instant
   interleaves arbitrarily.  [outcomes] computes the set of observable results over all those
   interleavings, using only [C02_Scheduler.step] to change the job's state. *)
From Coq Require Import PArith FMapPositive.
From Verif Require Import Lib.Base Lib.Reach Model.C02_Scheduler.

Inductive ckind := KRun | KCancel | KCtx | KDup | KExists.

Record call := { cl_at : N; cl_kind : ckind }.

Record script := {
  sc_kind : kind;
  sc_variant : variant;
  sc_due : N;       (* one-off: T; periodic: the period (runtimeFunc returns now+period) *)
  sc_dur : N;       (* how long jobFunc takes *)
  sc_ticks : N;     (* periodic: how many times runtimeFunc returns a time before ErrNoMoreInstances *)
  sc_calls : list call;
  sc_end : N;       (* last simulated instant; observations are taken after it *)
  sc_behind : option N
                    (* periodic, what runtimeFunc returns.  None: a time relative to the moment it is asked
                       (now + period; period 0 = "now": every instance is due the moment it is handed out).
                       Some b: a FIXED-RATE schedule whose origin lies b instants before the script's start:
                       the k-th instance (k = 1, 2, ...) is at k*period - b, whatever the moment it is asked
                       for -- an instance whose time has passed (the job overran its period, or the schedule
                       started behind: a catch-up) is due at once *)
}.

Definition sc_cfg (sc : script) : config := {| k_kind := sc_kind sc; k_variant := sc_variant sc |}.

(* status / result of a call *)
Inductive cst :=
| Waiting            (* not yet issued, or issued and not yet through its jobsMutex section *)
| HasPtr             (* periodic RunJob: holds the job pointer, waiting for stateLock *)
| InSlot             (* occupies the R or C slot of the machine *)
| Ret (c : code)     (* returned this error code (Nil = nil) *)
| RetB (b : bool)    (* JobExists returned b *)
| Silent             (* observed side only: RunJobIfExists / CancelJobIfExists return nothing *)
| Hung.              (* observed side only: the call never returned *)

Record tstate := {
  t_core : jstate;
  t_calls : list cst;
  t_busy_until : N;   (* when the running jobFunc returns *)
  t_deadline : N;     (* when the current select's timer fires *)
  t_rt_left : N;      (* remaining runtimeFunc successes *)
  t_starts : list N   (* instants at which jobFunc was called, latest first *)
}.

Definition t_init (sc : script) : tstate :=
  {| t_core := init (sc_cfg sc);
     t_calls := map (fun _ => Waiting) (sc_calls sc);
     t_busy_until := 0;
     t_deadline := match sc_kind sc with OneOff => sc_due sc | Periodic => 0 end;
     t_rt_left := sc_ticks sc;
     t_starts := [] |}.

(* the time runtimeFunc returns when asked at instant [now] (a time that has passed reads as "due at once":
   time.After of a non-positive duration fires immediately; the subtraction of N truncates at 0) *)
Definition next_deadline (sc : script) (now : N) (t : tstate) : N :=
  match sc_behind sc with
  | None => now + sc_due sc
  | Some b => (sc_ticks sc - N.pred (t_rt_left t)) * sc_due sc - b
  end.

Definition with_core (t : tstate) (c : jstate) : tstate :=
  {| t_core := c; t_calls := t_calls t; t_busy_until := t_busy_until t; t_deadline := t_deadline t;
     t_rt_left := t_rt_left t; t_starts := t_starts t |}.
Definition with_call (t : tstate) (i : nat) (st : cst) (c : jstate) : tstate :=
  {| t_core := c;
     t_calls := firstn i (t_calls t) ++ st :: skipn (Datatypes.S i) (t_calls t);
     t_busy_until := t_busy_until t; t_deadline := t_deadline t;
     t_rt_left := t_rt_left t; t_starts := t_starts t |}.

Definition opt_list {X} (o : option X) : list X := match o with Some x => [x] | None => [] end.

(* the moves of call number i at instant [now] *)
Definition call_moves (sc : script) (now : N) (t : tstate) (i : nat) (cl : call) (st : cst) : list tstate :=
  let cf := sc_cfg sc in
  let c := t_core t in
  match st with
  | Waiting =>
      if cl_at cl <=? now then
        match cl_kind cl with
        | KRun =>
            if in_table c then
              match step cf c RunLookup with
              | Some c' => [with_call t i (match sc_kind sc with OneOff => InSlot | Periodic => HasPtr end) c']
              | None => []
              end
            else [with_call t i (Ret ErrNoSuchJob) c]
        | KCancel =>
            if in_table c then
              match step cf c CancelLookup with
              | Some c' => [with_call t i InSlot c']
              | None => []
              end
            else [with_call t i (Ret ErrNoSuchJob) c]
        | KCtx => [with_call t i (Ret Nil) (match step cf c CtxCancel with Some c' => c' | None => c end)]
        | KDup => [with_call t i (Ret (if in_table c then ErrJobAlreadyExists else Nil)) c]
        | KExists => [with_call t i (RetB (in_table c)) c]
        end
      else []
  | HasPtr =>
      match step cf c REnter with
      | Some c' => [with_call t i InSlot c']
      | None => []
      end
  | InSlot =>
      match cl_kind cl with
      | KRun =>
          let next := match r_pc c with RHave => step cf c REnter | _ => step cf c RStep end in
          match next with
          | Some c' =>
              match r_pc c' with
              | RDone code => [with_call t i (Ret code) (match step cf c' RReset with Some c'' => c'' | None => c' end)]
              | _ => [with_call t i InSlot c']
              end
          | None => []
          end
      | KCancel =>
          match step cf c CStep with
          | Some c' =>
              match c_pc c' with
              | CDone code => [with_call t i (Ret code) c']
              | _ => [with_call t i InSlot c']
              end
          | None => []
          end
      | _ => []
      end
  | _ => []
  end.

Fixpoint all_call_moves (sc : script) (now : N) (t : tstate) (i : nat) (cls : list call) (sts : list cst) : list tstate :=
  match cls, sts with
  | cl :: cls', st :: sts' => call_moves sc now t i cl st ++ all_call_moves sc now t (Datatypes.S i) cls' sts'
  | _, _ => []
  end.

(* the moves of the goroutine and of its environment (timer, jobFunc returning, runtimeFunc) *)
Definition g_moves (sc : script) (now : N) (t : tstate) : list tstate :=
  let cf := sc_cfg sc in
  let c := t_core t in
  let core a := map (with_core t) (opt_list (step cf c a)) in
  match g_pc c with
  | GSel =>
      (if t_deadline t <=? now then core TimerFire else [])
      ++ core (GPick BCtx) ++ core (GPick BCancel) ++ core (GPick BRun) ++ core (GPick BTimer)
  | GRt =>
      if 0 <? t_rt_left t then
        map (fun c' => {| t_core := c'; t_calls := t_calls t; t_busy_until := t_busy_until t;
                          t_deadline := next_deadline sc now t; t_rt_left := N.pred (t_rt_left t); t_starts := t_starts t |})
            (opt_list (step cf c (GRtOut RtNext)))
      else core (GRtOut RtStop)
  | GRunBusy | GTimBusy => if t_busy_until t <=? now then core JobReturn else []
  | GRunCall | GTimCall =>
      map (fun c' => {| t_core := c'; t_calls := t_calls t; t_busy_until := now + sc_dur sc;
                        t_deadline := t_deadline t; t_rt_left := t_rt_left t; t_starts := now :: t_starts t |})
          (opt_list (step cf c GStep))
  | _ => core GStep
  end.

Definition moves (sc : script) (now : N) (t : tstate) : list tstate :=
  g_moves sc now t ++ all_call_moves sc now t 0 (sc_calls sc) (t_calls t).

(* equality and hashing of script states *)
Definition cst_n (s : cst) : N :=
  match s with
  | Waiting => 0 | HasPtr => 1 | InSlot => 2 | Ret c => 3 + code_n c | RetB b => 8 + bN b | Silent => 10 | Hung => 11
  end.
Definition cst_eqb (a b : cst) : bool := cst_n a =? cst_n b.

Definition tstate_eqb (a b : tstate) : bool :=
  jstate_eqb (t_core a) (t_core b) && list_eqb cst_eqb (t_calls a) (t_calls b)
  && (t_busy_until a =? t_busy_until b) && (t_deadline a =? t_deadline b)
  && (t_rt_left a =? t_rt_left b) && list_eqb N.eqb (t_starts a) (t_starts b).

Definition tkey (t : tstate) : positive :=
  N.succ_pos (fold_left (fun acc x => acc * 64 + x) (t_starts t)
               (fold_left (fun acc s => acc * 12 + cst_n s) (t_calls t)
                  (((jkey_n (t_core t) * 64 + t_busy_until t) * 64 + t_deadline t) * 64 + t_rt_left t))).

(* all states reachable at instant [now] from [ts]; the quiescent ones are carried to the next instant *)
Definition fuel : nat := Nat.mul 1000 1000.

Definition settle (sc : script) (now : N) (ts : list tstate) : list tstate :=
  let all := fst (reach_from (moves sc now) tstate_eqb tkey fuel ts) in
  filter (fun t => match moves sc now t with [] => true | _ => false end) all.

Fixpoint instants (n : nat) (from : N) : list N :=
  match n with O => [] | Datatypes.S n' => from :: instants n' (from + 1) end.

Definition finals (sc : script) : list tstate :=
  fold_left (fun ts now => settle sc now ts) (instants (Datatypes.S (N.to_nat (sc_end sc))) 0) [t_init sc].

(* what is observed of one run of a script *)
Record outcome := {
  o_calls : list cst;     (* per call, in script order *)
  o_starts : list N;      (* instants at which jobFunc was called, in order *)
  o_overlap : N;          (* maximal number of simultaneous executions of jobFunc *)
  o_exists : bool;        (* JobExists(name) after sc_end *)
  o_reuse : code;         (* ScheduleJob(name) after sc_end *)
  o_reuse_runs : N;       (* how often that second job ran (it is left alone until after its time) *)
  o_panic : bool          (* a panic was caught, or the bubble deadlocked *)
}.

Definition final_status (s : cst) : cst :=
  match s with Ret c => Ret c | RetB b => RetB b | _ => Hung end.

Definition outcome_of (t : tstate) : outcome :=
  {| o_calls := map final_status (t_calls t);
     o_starts := rev (t_starts t);
     o_overlap := match t_starts t with [] => 0 | _ => 1 end;
     o_exists := in_table (t_core t);
     o_reuse := if in_table (t_core t) then ErrJobAlreadyExists else Nil;
     o_reuse_runs := if in_table (t_core t) then 0 else 1;
     o_panic := panicked (t_core t) |}.

Definition outcomes (sc : script) : list outcome := map outcome_of (finals sc).

(* observed status [o] is compatible with the model's [m] *)
Definition cst_match (o m : cst) : bool :=
  match o with
  | Silent => match m with Ret _ => true | _ => false end
  | _ => cst_eqb o m
  end.

Fixpoint list_match {X} (f : X -> X -> bool) (a b : list X) : bool :=
  match a, b with
  | [], [] => true
  | x :: a', y :: b' => f x y && list_match f a' b'
  | _, _ => false
  end.

Definition outcome_match (o m : outcome) : bool :=
  list_match cst_match (o_calls o) (o_calls m)
  && list_eqb N.eqb (o_starts o) (o_starts m)
  && (o_overlap o =? o_overlap m)
  && Bool.eqb (o_exists o) (o_exists m)
  && code_eqb (o_reuse o) (o_reuse m)
  && (o_reuse_runs o =? o_reuse_runs m)
  && Bool.eqb (o_panic o) (o_panic m).

(* --- the table of names ---------------------------------------------------------------------
   s.jobs as an association list name -> job id (the pointer).  ScheduleJob / SchedulePeriodicJob
   check-and-insert under jobsMutex; RunJob looks up (and deletes a one-off entry); CancelJob looks
   up and deletes; the goroutines delete BY NAME. *)
Definition name := N.
Definition table := list (name * N).

Fixpoint t_get (t : table) (n : name) : option N :=
  match t with
  | [] => None
  | (n', j) :: t' => if n =? n' then Some j else t_get t' n
  end.
Definition t_del (t : table) (n : name) : table := filter (fun e => negb (fst e =? n)) t.
Definition t_exists (t : table) (n : name) : bool := match t_get t n with Some _ => true | None => false end.
Definition t_list (t : table) : list name := map fst t.

(* ScheduleJob's table section: (table afterwards, result) *)
Definition t_schedule (t : table) (n : name) (j : N) : table * code :=
  if t_exists t n then (t, ErrJobAlreadyExists) else ((n, j) :: t, Nil).
(* RunJob's table section: the pointer, if any *)
Definition t_run (t : table) (n : name) (periodic : bool) : table * option N :=
  match t_get t n with
  | Some j => (if periodic then t else t_del t n, Some j)
  | None => (t, None)
  end.
Definition t_cancel (t : table) (n : name) : table * option N :=
  match t_get t n with
  | Some j => (t_del t n, Some j)
  | None => (t, None)
  end.
