(* C03 — chain time: the slot / epoch / wall-clock conversions of
   services/chaintime/standard/service.go, statement by statement.

   Times are integer nanoseconds since the Unix epoch (Z); slots and epochs are uint64 values (N).
   Go's [time.Duration] is an int64 number of nanoseconds: the product
   [time.Duration(slot) * s.slotDuration] wraps modulo 2^64 (two's complement) and is written
   that way here ([to_i64]); [time.Time.Add] is exact over the range used.  Definitions only. *)
From Verif Require Import Lib.Base.
Open Scope Z_scope.

Definition two63z : Z := 9223372036854775808.
Definition two64z : Z := 18446744073709551616.
Definition ns_per_s : Z := 1000000000.

(* int64(x) for any integer x: two's-complement wrap-around *)
Definition to_i64 (x : Z) : Z :=
  let m := x mod two64z in if m <? two63z then m else m - two64z.
(* uint64(x) *)
Definition to_u64 (x : Z) : N := Z.to_N (x mod two64z).

Record ctparams := {
  ct_genesis : Z;      (* genesisTime, ns since the Unix epoch *)
  ct_dur : Z;          (* slotDuration, ns (SECONDS_PER_SLOT as a time.Duration) *)
  ct_spe : N           (* slotsPerEpoch *)
}.

(* StartOfSlot: s.genesisTime.Add(time.Duration(slot) * s.slotDuration) *)
Definition start_of_slot (p : ctparams) (slot : N) : Z :=
  ct_genesis p + to_i64 (to_i64 (Z.of_N slot) * ct_dur p).

(* FirstSlotOfEpoch: phase0.Slot(uint64(epoch) * s.slotsPerEpoch) *)
Definition first_slot_of_epoch (p : ctparams) (epoch : N) : N := mul64 epoch (ct_spe p).

(* StartOfEpoch: s.genesisTime.Add(time.Duration(uint64(epoch)*s.slotsPerEpoch) * s.slotDuration) *)
Definition start_of_epoch (p : ctparams) (epoch : N) : Z :=
  ct_genesis p + to_i64 (to_i64 (Z.of_N (mul64 epoch (ct_spe p))) * ct_dur p).

(* SlotToEpoch: phase0.Epoch(uint64(slot) / s.slotsPerEpoch)   (Go panics when spe = 0; N division yields 0) *)
Definition slot_to_epoch (p : ctparams) (slot : N) : N := (slot / ct_spe p)%N.

(* uint64(d.Seconds()) for a non-negative duration d: whole seconds, truncated.
   (The pinned tree went through float64: see [seconds_f64_trunc] below.) *)
Definition whole_seconds (d : Z) : Z := d / ns_per_s.

(* uint64(s.slotDuration.Seconds()) *)
Definition slot_secs (p : ctparams) : Z := whole_seconds (ct_dur p).

(* CurrentSlot at wall-clock instant [now]:
     if s.genesisTime.After(time.Now()) { return 0 }
     return uint64(<whole seconds since genesis>) / uint64(s.slotDuration.Seconds())
   [secs] abstracts how the whole seconds are obtained from the elapsed duration: [whole_seconds]
   after the repair, [seconds_f64_trunc] on the pinned tree. *)
Definition current_slot_with (secs : Z -> Z) (p : ctparams) (now : Z) : N :=
  if ct_genesis p >? now then 0%N
  else Z.to_N (secs (now - ct_genesis p) / slot_secs p).

(* CurrentEpoch: ... / (uint64(s.slotDuration.Seconds()) * s.slotsPerEpoch), the product in uint64 *)
Definition current_epoch_with (secs : Z -> Z) (p : ctparams) (now : Z) : N :=
  if ct_genesis p >? now then 0%N
  else Z.to_N (secs (now - ct_genesis p) / Z.of_N (mul64 (Z.to_N (slot_secs p)) (ct_spe p))).

Definition current_slot := current_slot_with whole_seconds.
Definition current_epoch := current_epoch_with whole_seconds.

(* ------------------------------------------------------------------------------------------- *)
(* The pinned tree computed the elapsed whole seconds as uint64(time.Since(genesis).Seconds()),
   and Duration.Seconds() is   float64(d / 1e9) + float64(d % 1e9) / 1e9   in IEEE-754 binary64
   (round to nearest, ties to even).  Exact model of that expression for 0 <= d < 2^63, by
   integer arithmetic: a positive rational n/m is rounded to 53 significant bits. *)

(* round-half-even of n / m (m > 0) to an integer *)
Definition div_rne (n m : Z) : Z :=
  let q := n / m in let r := n mod m in
  if 2 * r <? m then q else if m <? 2 * r then q + 1 else if Z.even q then q else q + 1.

(* binary64 rounding of the positive rational n/m (subnormals and overflow cannot occur in the
   range used): result as (mantissa, exponent) meaning mantissa * 2^exponent, with
   2^52 <= mantissa <= 2^53. *)
Definition round53 (n m : Z) : Z * Z :=
  (* e := floor(log2(n/m)); scale so that the quotient has 53 bits *)
  let e0 := Z.log2 n - Z.log2 m in
  let e := if n * 2 ^ (Z.max 0 (- e0)) <? m * 2 ^ (Z.max 0 e0) then e0 - 1 else e0 in
  let sh := 52 - e in   (* quotient * 2^sh in [2^52, 2^53) *)
  let n' := if 0 <=? sh then n * 2 ^ sh else n in
  let m' := if 0 <=? sh then m else m * 2 ^ (- sh) in
  (div_rne n' m', - sh).

(* value of a (mantissa, exponent) pair as a rational numerator over [2^k] denominator *)
Definition seconds_f64_trunc (d : Z) : Z :=
  let sec := d / ns_per_s in
  let nsec := d mod ns_per_s in
  if nsec =? 0 then sec else
  let '(mq, eq) := round53 nsec ns_per_s in          (* float64(nsec)/1e9 : mq * 2^eq, eq < 0 *)
  (* sum = sec + mq * 2^eq = (sec * 2^(-eq) + mq) / 2^(-eq), rounded to 53 bits, then truncated *)
  let den := 2 ^ (- eq) in
  let num := sec * den + mq in
  let '(ms, es) := round53 num den in
  if 0 <=? es then ms * 2 ^ es else ms / 2 ^ (- es).

Definition current_slot_f64 := current_slot_with seconds_f64_trunc.
Definition current_epoch_f64 := current_epoch_with seconds_f64_trunc.
