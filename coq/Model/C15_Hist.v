(* C15: histories on ONE controller and ONE scheduler: several calls of
   scheduleSyncCommitteeMessages (start-up for this period, epoch ticker for the next one), the
   refresh of a period's duties after a reorganisation
     services/controller/standard/events.go: refreshSyncCommitteeDutiesForEpochPeriod
     (run by handleCurrentDependentRootChanged in the first epoch of a period, for the NEXT period),
   and the per-slot job chains fired in between.  Definitions only.

   The state is the table of pending prepare jobs: slot -> the call that scheduled it (the job's
   closure holds that call's duty and accounts).  A fired slot runs prepare -> message ->
   aggregation at once (the harness fires the three jobs in turn), so only prepare jobs are pending
   between two operations.  ScheduleJob of a name that exists fails and the goroutine returns: the
   first job stays (Lib/JobTab.v). *)
From Verif Require Import Lib.Base Lib.JobTab Model.C15_Sync.

Inductive hop :=
| HSched (i : sched_in)                 (* scheduleSyncCommitteeMessages(si_epoch, si_indices, si_notcur) at clock si_cur *)
| HRefresh (epoch : N) (i : sched_in)   (* refreshSyncCommitteeDutiesForEpochPeriod(epoch) at clock si_cur i; [i] is the
                                           call it ends with: si_epoch = epoch, si_indices = the sync committee
                                           eligible accounts ([] when that request fails), si_notcur = false *)
| HFire (f : fire_in).                  (* the jobs of slot f_slot run: prepare, message, aggregation *)

(* refreshSyncCommitteeDutiesForEpochPeriod, "period := ..." to "lastSlot := ...": the slots whose
   three jobs are cancelled by exact name; every uint64 operation written out (the decrement of
   firstSlot is not guarded here) *)
Definition refresh_range (p : params) (epoch : N) : N * N :=
  let period := epoch / epp p in
  let fe := first_epoch_of_period p period in
  let fs := sub64 (first_slot_of_epoch p fe) 1 in
  let le := sub64 (first_epoch_of_period p (add64 period 1)) 1 in
  let ls := sub64 (first_slot_of_epoch p (add64 le 1)) 2 in
  (fs, ls).

(* for slot := firstSlot; slot <= lastSlot; slot++ { CancelJob(...) x 3 } *)
Definition in_rangeb (lo hi s : N) : bool := (lo <=? s) && (s <=? hi).

(* the slots for which the call schedules a prepare job *)
Definition sched_slots (p : params) (i : sched_in) : list N :=
  map (fun j => snd (fst j)) (so_jobs (schedule p i)).

Definition jtab := @jobtab sched_in.

Definition hstep (p : params) (t : jtab) (o : hop) : jtab * option fire_out :=
  match o with
  | HSched i => (tab_add t (sched_slots p i) i, None)
  | HRefresh e i =>
      let r := refresh_range p e in
      (tab_add (tab_del t (in_rangeb (fst r) (snd r))) (sched_slots p i) i, None)
  | HFire f =>
      match tab_get t (f_slot f) with
      | Some i => (tab_del t (N.eqb (f_slot f)), Some (fire_scheduled p i f))
      | None => (t, Some no_fire)
      end
  end.

(* the scheduler's job list, by slot *)
Definition tab_jobs (p : params) (t : jtab) : list job :=
  map (fun e => (JPrepare, fst e, prepare_time p (fst e))) (sort_by fst t).

(* what is observed after each operation: the job list, and what a fired slot did *)
Fixpoint hrun (p : params) (t : jtab) (ops : list hop) : list (list job * option fire_out) :=
  match ops with
  | [] => []
  | o :: ops' => let r := hstep p t o in (tab_jobs p (fst r), snd r) :: hrun p (fst r) ops'
  end.

(* the table after a history *)
Definition hfinal (p : params) (t : jtab) (ops : list hop) : jtab :=
  fold_left (fun t o => fst (hstep p t o)) ops t.
