(* C19: hierarchical settings lookup.
   Transcribed from util/beaconnodeaddresses.go (BeaconNodeAddresses), util/timeout.go (Timeout),
   util/logging.go (LogLevel, stringToLevel), util/concurrency.go (ProcessConcurrency) and
   util/config.go (HierarchicalBool).  All five have one shape:

       func F(path string) T {
           if path == "" { return <top-level reading> }
           key := path + "." + <setting>
           if <viper value at key "has a value"> { return <viper value at key, converted> }
           lastPeriod := strings.LastIndex(path, ".")
           if lastPeriod == -1 { return F("") }
           return F(path[0:lastPeriod])
       }

   Three layers, definitions only:
   1. the configuration as viper presents it: a finite map from component lists to raw values
      ([config], [get]) and the conversions of github.com/spf13/cast that the five functions use
      ([to_slice], [to_duration], [str_nonempty], [to_int64], [to_bool], [level_of]);
   2. the code-shaped lookup on the dotted path *string* ([lookup_s]: cut at the last '.'), and the
      same on component lists ([lookup]: recursion on the reversed path);
   3. the reference [longest_prefix_value]: of all prefixes of the path that have a value, the
      longest; the top-level reading if there is none. *)
From Verif Require Import Lib.Base.
From Coq Require Export String Ascii.
From Coq Require Import DecimalString.
Local Open Scope string_scope.
Local Open Scope N_scope.
Local Open Scope list_scope.

Definition comp := string.
Definition path := list comp.          (* most significant component first; [] is the top level *)

(* What viper.Get returns for a key, by dynamic type. *)
Inductive raw :=
| RNil                       (* key absent, or present with a null value: Get returns nil *)
| RStr (s : string)
| RInt (z : Z)               (* int from YAML / Set, float64 with integral value from JSON *)
| RBool (b : bool)
| RList (l : list string)    (* []interface{} of strings *)
| RMap.                      (* the key names an inner node (a map) *)

(* The leaves of the configuration tree.  (In a tree no leaf key is a prefix of another.) *)
Definition config := list (path * raw).

Definition path_eqb : path -> path -> bool := list_eqb String.eqb.

(* p is a prefix of q *)
Fixpoint prefixb (p q : path) : bool :=
  match p, q with
  | [], _ => true
  | x :: p', y :: q' => String.eqb x y && prefixb p' q'
  | _ :: _, [] => false
  end.

Fixpoint find_exact (c : config) (k : path) : option raw :=
  match c with
  | [] => None
  | (k', r) :: c' => if path_eqb k' k then Some r else find_exact c' k
  end.

(* viper.Get(key) after the key has been split at '.': descend the nested maps. *)
Definition get (c : config) (k : path) : raw :=
  match find_exact c k with
  | Some r => r
  | None => if existsb (fun e => prefixb k (fst e)) c then RMap else RNil
  end.

(* ------------------------------------------------------------------------------------------- *)
(* Characters and small parsers (ASCII). *)

Definition dot : ascii := "."%char.
Definition is_dot (a : ascii) : bool := Ascii.eqb a dot.

Definition digit_of (a : ascii) : option Z :=
  let n := N_of_ascii a in
  if (48 <=? n) && (n <=? 57) then Some (Z.of_N (n - 48)) else None.

(* unicode.IsSpace restricted to ASCII: \t \n \v \f \r and space *)
Definition is_space (a : ascii) : bool :=
  let n := N_of_ascii a in ((9 <=? n) && (n <=? 13)) || (n =? 32).

Definition lower_ascii (a : ascii) : ascii :=
  let n := N_of_ascii a in
  if (65 <=? n) && (n <=? 90) then ascii_of_N (n + 32) else a.

Fixpoint lower (s : string) : string :=
  match s with
  | EmptyString => EmptyString
  | String a s' => String (lower_ascii a) (lower s')
  end.

(* maximal run of leading decimal digits: (value, number of digits, rest) *)
Fixpoint leading_digits (s : string) (acc : Z) (n : nat) : Z * nat * string :=
  match s with
  | EmptyString => (acc, n, s)
  | String a s' =>
      match digit_of a with
      | Some d => leading_digits s' (acc * 10 + d)%Z (S n)
      | None => (acc, n, s)
      end
  end.

(* optional sign: (is negative, rest) *)
Definition take_sign (s : string) : bool * string :=
  match s with
  | String a s' =>
      if Ascii.eqb a "-"%char then (true, s')
      else if Ascii.eqb a "+"%char then (false, s')
      else (false, s)
  | EmptyString => (false, s)
  end.

Definition signed (neg : bool) (z : Z) : Z := if neg then (- z)%Z else z.

(* strconv.ParseInt(s, 0, 0) on the canonical decimal family [+-]?[0-9]+ ; anything else is the
   error case (cast then yields 0).  Exact on that family except for a leading zero followed by more
   digits (Go reads octal there); the generators do not produce those. *)
Definition parse_int (s : string) : option Z :=
  let '(neg, s1) := take_sign s in
  let '(v, n, rest) := leading_digits s1 0%Z 0%nat in
  match n, rest with
  | S _, EmptyString => Some (signed neg v)
  | _, _ => None
  end.

(* nanoseconds per unit of time.ParseDuration (the ASCII units) *)
Definition unit_ns (u : string) : option Z :=
  if String.eqb u "ns" then Some 1%Z
  else if String.eqb u "us" then Some 1000%Z
  else if String.eqb u "ms" then Some 1000000%Z
  else if String.eqb u "s" then Some 1000000000%Z
  else if String.eqb u "m" then Some 60000000000%Z
  else if String.eqb u "h" then Some 3600000000000%Z
  else None.

(* cast.ToDurationE on a string: time.ParseDuration(s), with "ns" appended when s contains none of
   the letters n s u m h.  Modelled on the family [+-]?[0-9]+(ns|us|ms|s|m|h)? (one term, no
   fraction); everything else the generators produce is a Go parse error (0). *)
Definition parse_duration (s : string) : option Z :=
  let '(neg, s1) := take_sign s in
  let '(v, n, rest) := leading_digits s1 0%Z 0%nat in
  match n with
  | O => None
  | S _ =>
      match rest with
      | EmptyString => Some (signed neg v)                 (* no unit letter: "ns" is appended *)
      | _ => match unit_ns rest with
             | Some m => Some (signed neg (v * m))
             | None => None
             end
      end
  end.

(* strconv.ParseBool *)
Definition parse_bool (s : string) : option bool :=
  if String.eqb s "1" || String.eqb s "t" || String.eqb s "T" || String.eqb s "TRUE"
     || String.eqb s "true" || String.eqb s "True" then Some true
  else if String.eqb s "0" || String.eqb s "f" || String.eqb s "F" || String.eqb s "FALSE"
     || String.eqb s "false" || String.eqb s "False" then Some false
  else None.

(* strings.Fields *)
Fixpoint fields_aux (s : string) (cur : string) (* current field, reversed *) : list string :=
  match s with
  | EmptyString => match cur with EmptyString => [] | _ => [cur] end
  | String a s' =>
      if is_space a
      then match cur with EmptyString => fields_aux s' EmptyString | _ => cur :: fields_aux s' EmptyString end
      else fields_aux s' (String a cur)
  end.
Fixpoint rev_string (s acc : string) : string :=
  match s with EmptyString => acc | String a s' => rev_string s' (String a acc) end.
Definition fields (s : string) : list string := map (fun f => rev_string f EmptyString) (fields_aux s EmptyString).

Definition dec (z : Z) : string := NilZero.string_of_int (Z.to_int z).

(* ------------------------------------------------------------------------------------------- *)
(* The conversions of spf13/cast v1.7.0 that the five functions reach through viper.Get*. *)

(* viper.GetStringSlice: None is Go's nil slice *)
Definition to_slice (r : raw) : option (list string) :=
  match r with
  | RList [] => None                       (* append never ran: nil *)
  | RList l => Some l
  | RStr s => Some (fields s)              (* non-nil even when empty *)
  | RInt z => Some [dec z]
  | RBool b => Some [if b then "true" else "false"]
  | RNil | RMap => None
  end.

Definition slice_len (o : option (list string)) : nat :=
  match o with Some l => List.length l | None => O end.

(* viper.GetDuration, in nanoseconds *)
Definition to_duration (r : raw) : Z :=
  match r with
  | RInt z => z
  | RStr s => match parse_duration s with Some d => d | None => 0%Z end
  | _ => 0%Z
  end.

(* viper.GetString(key) != "" *)
Definition str_nonempty (r : raw) : bool :=
  match r with
  | RStr EmptyString => false
  | RStr _ | RInt _ | RBool _ => true
  | RNil | RList _ | RMap => false
  end.

(* viper.GetInt64 *)
Definition to_int64 (r : raw) : Z :=
  match r with
  | RInt z => z
  | RStr s => match parse_int s with Some z => z | None => 0%Z end
  | RBool b => if b then 1%Z else 0%Z
  | _ => 0%Z
  end.

(* viper.GetBool *)
Definition to_bool (r : raw) : bool :=
  match r with
  | RBool b => b
  | RStr s => match parse_bool s with Some b => b | None => false end
  | RInt z => negb (z =? 0)%Z
  | _ => false
  end.

(* zerolog levels *)
Definition lvl_trace : Z := (-1)%Z.
Definition lvl_debug : Z := 0%Z.
Definition lvl_info : Z := 1%Z.
Definition lvl_warn : Z := 2%Z.
Definition lvl_error : Z := 3%Z.
Definition lvl_fatal : Z := 4%Z.
Definition lvl_disabled : Z := 7%Z.

(* stringToLevel; [def] is the level of the global logger at the time of the call *)
Definition string_to_level (def : Z) (s : string) : Z :=
  let l := lower s in
  if String.eqb l "none" then lvl_disabled
  else if String.eqb l "trace" then lvl_trace
  else if String.eqb l "debug" then lvl_debug
  else if String.eqb l "warn" || String.eqb l "warning" then lvl_warn
  else if String.eqb l "info" || String.eqb l "information" then lvl_info
  else if String.eqb l "err" || String.eqb l "error" then lvl_error
  else if String.eqb l "fatal" then lvl_fatal
  else def.

(* stringToLevel(viper.GetString(key)): the text of a non-string scalar ("5", "true") is never a
   level name, and GetString of nil / list / map is "" *)
Definition level_of (def : Z) (r : raw) : Z :=
  match r with
  | RStr s => string_to_level def s
  | _ => def
  end.

(* ------------------------------------------------------------------------------------------- *)
(* Dotted strings. *)

(* strings.Split(s, ".") *)
Fixpoint split_dots (s : string) : list string :=
  match s with
  | EmptyString => [EmptyString]
  | String a s' =>
      if is_dot a then EmptyString :: split_dots s'
      else match split_dots s' with
           | x :: l => String a x :: l
           | [] => [String a EmptyString]          (* not reached: split_dots is never empty *)
           end
  end.

(* strings.Join(p, ".") *)
Fixpoint join_dots (p : list string) : string :=
  match p with
  | [] => EmptyString
  | [x] => x
  | x :: p' => String.append x (String dot (join_dots p'))
  end.

(* path[0:strings.LastIndex(path, ".")], None when there is no '.' *)
Fixpoint lop (s : string) : option string :=
  match s with
  | EmptyString => None
  | String a s' =>
      match lop s' with
      | Some t => Some (String a t)
      | None => if is_dot a then Some EmptyString else None
      end
  end.

(* viper.Get(path + "." + setting): viper splits the key at '.' *)
Definition key_of (p : string) (setting : comp) : path :=
  split_dots (String.append p (String dot setting)).

(* The path a caller means by a dotted string: "" is the top level. *)
Definition path_of_string (s : string) : path :=
  match s with EmptyString => [] | _ => split_dots s end.

(* ------------------------------------------------------------------------------------------- *)
(* The lookup, generic in: "has a value" test, conversion, top-level reading, setting name. *)

Section Lookup.
  Context {V : Type}.
  Variable has : raw -> bool.
  Variable conv : raw -> V.
  Variable top : config -> V.
  Variable setting : comp.

  (* the Go function, on the path string; fuel = S (length path) always suffices *)
  Fixpoint lookup_s_fuel (fuel : nat) (c : config) (p : string) : V :=
    match fuel with
    | O => top c
    | S fuel' =>
        match p with
        | EmptyString => top c
        | _ =>
            let r := get c (key_of p setting) in
            if has r then conv r
            else match lop p with
                 | None => top c                       (* F("") *)
                 | Some p' => lookup_s_fuel fuel' c p'
                 end
        end
    end.
  Definition lookup_s (c : config) (p : string) : V := lookup_s_fuel (S (String.length p)) c p.

  (* the same on components, by recursion on the reversed path *)
  Fixpoint lookup_rev (c : config) (rp : list comp) : V :=
    match rp with
    | [] => top c
    | _ :: rp' =>
        let r := get c (rev rp ++ [setting]) in
        if has r then conv r else lookup_rev c rp'
    end.
  Definition lookup (c : config) (p : path) : V := lookup_rev c (rev p).

  (* the reference: all non-empty prefixes, shortest first; keep those with a value; take the last *)
  Definition prefixes (p : path) : list path := map (fun k => firstn k p) (seq 1%nat (List.length p)).
  Definition valued (c : config) (q : path) : bool := has (get c (q ++ [setting])).
  Definition longest_prefix_value (c : config) (p : path) : V :=
    match rev (filter (valued c) (prefixes p)) with
    | q :: _ => conv (get c (q ++ [setting]))
    | [] => top c
    end.

  (* the property as a relation: [v] is the value at the longest non-empty prefix of [p] that has
     a value; the top-level reading when no prefix has one *)
  Definition resolves (c : config) (p : path) (v : V) : Prop :=
    (exists k, (1 <= k <= List.length p)%nat /\
               valued c (firstn k p) = true /\
               (forall j, (k < j <= List.length p)%nat -> valued c (firstn j p) = false) /\
               v = conv (get c (firstn k p ++ [setting])))
    \/ ((forall j, (1 <= j <= List.length p)%nat -> valued c (firstn j p) = false) /\ v = top c).
End Lookup.

(* Paths on which the dotted string and the component list say the same thing: no component
   contains a '.', and the first component is not empty (the Go functions read "" as the top
   level).  Every path vouch passes is of this kind. *)
Fixpoint dot_free (s : string) : bool :=
  match s with
  | EmptyString => true
  | String a s' => negb (is_dot a) && dot_free s'
  end.
(* the same on the string: it does not start with a '.' ("" is the top level) *)
Definition proper_path (s : string) : Prop :=
  match s with String a _ => is_dot a = false | EmptyString => True end.
Definition wf_path (p : path) : Prop :=
  Forall (fun x => dot_free x = true) p /\ (match p with x :: _ => x <> EmptyString | [] => True end).

(* ------------------------------------------------------------------------------------------- *)
(* The five settings. *)

Definition k_addresses : comp := "beacon-node-addresses".
Definition k_address : comp := "beacon-node-address".
Definition k_timeout : comp := "timeout".
Definition k_loglevel : comp := "log-level".
Definition k_concurrency : comp := "process-concurrency".

(* len(viper.GetStringSlice(key)) > 0 *)
Definition addr_has (r : raw) : bool := negb (Nat.eqb (slice_len (to_slice r)) 0%nat).
(* top level: beacon-node-addresses unless it is nil, then beacon-node-address *)
Definition addr_top (c : config) : option (list string) :=
  match to_slice (get c [k_addresses]) with
  | Some l => Some l
  | None => to_slice (get c [k_address])
  end.

Definition dur_has (r : raw) : bool := negb (to_duration r =? 0)%Z.
Definition dur_top (c : config) : Z := to_duration (get c [k_timeout]).

Definition level_top (def : Z) (c : config) : Z := level_of def (get c [k_loglevel]).
Definition conc_top (c : config) : Z := to_int64 (get c [k_concurrency]).
Definition bool_top (var : comp) (c : config) : bool := to_bool (get c [var]).

(* the Go functions (path string in, value out) *)
Definition beacon_node_addresses := lookup_s addr_has to_slice addr_top k_addresses.
Definition timeout := lookup_s dur_has to_duration dur_top k_timeout.
Definition log_level (def : Z) := lookup_s str_nonempty (level_of def) (level_top def) k_loglevel.
Definition process_concurrency := lookup_s str_nonempty to_int64 conc_top k_concurrency.
Definition hierarchical_bool (var : comp) := lookup_s str_nonempty to_bool (bool_top var) var.

(* the same on component paths *)
Definition addresses_p := lookup addr_has to_slice addr_top k_addresses.
Definition timeout_p := lookup dur_has to_duration dur_top k_timeout.
Definition log_level_p (def : Z) := lookup str_nonempty (level_of def) (level_top def) k_loglevel.
Definition concurrency_p := lookup str_nonempty to_int64 conc_top k_concurrency.
Definition bool_p (var : comp) := lookup str_nonempty to_bool (bool_top var) var.

(* and the references *)
Definition addresses_ref := longest_prefix_value addr_has to_slice addr_top k_addresses.
Definition timeout_ref := longest_prefix_value dur_has to_duration dur_top k_timeout.
Definition log_level_ref (def : Z) := longest_prefix_value str_nonempty (level_of def) (level_top def) k_loglevel.
Definition concurrency_ref := longest_prefix_value str_nonempty to_int64 conc_top k_concurrency.
Definition bool_ref (var : comp) := longest_prefix_value str_nonempty to_bool (bool_top var) var.

(* ------------------------------------------------------------------------------------------- *)
(* The configuration over time.  The five functions keep nothing between calls: every call reads
   the configuration as it stands (and, for the unrecognised-level fallback, the level of the global
   logger as it stands).  A running process sees its configuration change on ONE viper instance:
   viper.Set / SetDefault of a key, a merged document (MergeConfigMap / MergeConfig), an
   environment variable appearing or disappearing under AutomaticEnv, a reloaded file (ReadConfig,
   WatchConfig).  A change is what it does to what viper presents. *)
Inductive change :=
| ChSet (k : path) (r : raw)      (* the key now reads r (RNil: an explicit null) *)
| ChDel (k : path)                (* the key is gone (environment variable unset) *)
| ChReload (c : config)           (* the whole tree replaced by a re-read document *)
| ChDefLevel (z : Z).             (* the level of the global logger changed *)

(* [get] takes the first leaf with the key, so the new leaf in front shadows the old one *)
Definition set_leaf (k : path) (r : raw) (c : config) : config := (k, r) :: c.
Definition del_leaf (k : path) (c : config) : config :=
  filter (fun e => negb (path_eqb (fst e) k)) c.

(* configuration and level of the global logger *)
Definition world := (config * Z)%type.

Definition apply_change (w : world) (ch : change) : world :=
  match ch with
  | ChSet k r => (set_leaf k r (fst w), snd w)
  | ChDel k => (del_leaf k (fst w), snd w)
  | ChReload c => (c, snd w)
  | ChDefLevel z => (fst w, z)
  end.

Definition apply_changes (w : world) (chs : list change) : world := fold_left apply_change chs w.
