(* C16 — sessions of the builder-bid strategy (strategies/builderbid/best): one strategy instance,
   several auctions one after the other, every relay with a public key of its own (from the
   execution configuration, or reported by the relay client) and a bid scripted per auction.
   Definitions only.

   The strategy keeps one piece of state between auctions: [s.relayPubkeys], the deserialized BLS
   public keys, by key bytes.  A key is 48 bytes (the decoders of the execution configuration and
   of the relay URL check the length and nothing else); whether it is a public key at all is found
   out by [e2types.BLSPublicKeyFromBytes] when the first bid of the relay is verified.

   Keys and signatures are abstract: [KValid n] is the public key of signer [n] (any 48 bytes that
   deserialize: a key nobody signs with is [KValid] of a signer that signs nothing), [KInvalid _]
   is 48 bytes that are not a public key; [SigBy n] is a signature (96 bytes that deserialize)
   that verifies under the key of signer [n] and under no other, [SigMalformed] is 96 bytes that
   are not a signature. *)
From Verif Require Import Lib.Base Model.C16_Paths.

Inductive bkey :=
| KValid (signer : N)
| KInvalid (n : N).

Definition bkey_eqb (a b : bkey) : bool :=
  match a, b with
  | KValid x, KValid y => x =? y
  | KInvalid x, KInvalid y => x =? y
  | _, _ => false
  end.

Inductive bsig :=
| SigBy (signer : N)
| SigMalformed.

(* what a relay answers to BuilderBid in one auction *)
Inductive bid_answer :=
| BdErr                           (* the call fails *)
| BdHang                          (* no answer until the auction's context ends, then the context's error *)
| BdNoData                        (* a response without data: the relay has no bid *)
| BdEmpty                         (* a bid of a known version without content (a bid with content has
                                     message, header, value and signature: the decoders refuse anything less) *)
| BdBid (value header : N) (fee_zero time_ok : bool) (sg : bsig).

Record bid_relay := {
  br_client : fetch_res;          (* what util.FetchBuilderClient makes of the relay's address *)
  br_cfg_key : option bkey;       (* relayConfig.PublicKey *)
  br_prov_key : option bkey;      (* provider.Pubkey(): the key embedded in the relay's URL *)
  br_min : N;                     (* relayConfig.MinValue *)
  br_answer : bid_answer
}.

(* s.relayPubkeys: key bytes -> *e2types.BLSPublicKey; [None] = a nil pointer *)
Definition cache := list (bkey * option N).

Fixpoint cache_find (k : bkey) (c : cache) : option (option N) :=
  match c with
  | [] => None
  | (k', e) :: c' => if bkey_eqb k k' then Some e else cache_find k c'
  end.

(* e2types.BLSPublicKeyFromBytes: (key, nil) or (nil, err) *)
Definition deserialize (k : bkey) : option N :=
  match k with KValid n => Some n | KInvalid _ => None end.

(*   relayPubkey := relayConfig.PublicKey
     if relayPubkey == nil { relayPubkey = provider.Pubkey(); if relayPubkey == nil { return true, nil } } *)
Definition effective_key (r : bid_relay) : option bkey :=
  match br_cfg_key r with Some k => Some k | None => br_prov_key r end.

(*   pubkey, exists := s.relayPubkeys[*relayPubkey]
     if !exists {
       pubkey, err = e2types.BLSPublicKeyFromBytes(relayPubkey[:])
       if err != nil { return false, errors.Wrap(err, "invalid public key supplied with bid") }
       s.relayPubkeys[*relayPubkey] = pubkey
     }
   [err_first] = the error is looked at before the result is remembered (the code as it is);
   without it whatever the library returned is stored first, and a later bid finds the nil key
   with a nil error. *)
Definition relay_pubkey (err_first : bool) (c : cache) (k : bkey) : outcome (option N) unit * cache :=
  match cache_find k c with
  | Some e => (Ok e, c)
  | None =>
      match deserialize k with
      | Some n => (Ok (Some n), (k, Some n) :: c)
      | None => (Err tt, if err_first then c else (k, None) :: c)
      end
  end.

(* verifyBidSignature: no key anywhere -> verified without looking at the signature; the key; the
   roots; BLSSignatureFromBytes ("invalid signature"); sig.Verify(root, pubkey), which dereferences
   the key *)
Definition verify_sig (g : bool) (c : cache) (r : bid_relay) (sg : bsig) : outcome bool unit * cache :=
  match effective_key r with
  | None => (Ok true, c)
  | Some k =>
      match relay_pubkey g c k with
      | (Ok e, c') =>
          match sg with
          | SigMalformed => (Err tt, c')
          | SigBy m => match e with Some n => (Ok (n =? m), c') | None => (Panic, c') end
          end
      | (_, c') => (Err tt, c')
      end
  end.

(* what the relay's goroutine (builderBid) sends back *)
Inductive relay_res :=
| RErr                            (* on errCh *)
| RNoBid                          (* on respCh without bid: no bid, or a value below the relay's minimum *)
| RBid (value header : N)         (* on respCh *)
| RPanic.                         (* the goroutine panics: the process is gone *)

(* builderBid: obtainBid, getBidValue, the minimum value, verifyBidDetails (fee recipient,
   timestamp, signature) *)
Definition relay_step (g : bool) (c : cache) (r : bid_relay) : relay_res * cache :=
  match br_answer r with
  | BdErr | BdHang | BdEmpty => (RErr, c)
  | BdNoData => (RNoBid, c)
  | BdBid v h fz tok sg =>
      if v =? 0 then (RErr, c)
      else if v <? br_min r then (RNoBid, c)
      else if fz then (RErr, c)
      else if negb tok then (RErr, c)
      else match verify_sig g c r sg with
           | (Ok true, c') => (RBid v h, c')
           | (Ok false, c') => (RErr, c')
           | (Err _, c') => (RErr, c')
           | (Panic, c') => (RPanic, c')
           end
  end.

(* the relays of an auction that are asked (a usable client that bids and unblinds), one after the
   other; the first panic ends everything *)
Fixpoint run_relays (g : bool) (c : cache) (rs : list bid_relay) : outcome (list (N * relay_res)) unit * cache :=
  match rs with
  | [] => (Ok [], c)
  | r :: rs' =>
      match br_client r with
      | FClient id true true =>
          match relay_step g c r with
          | (RPanic, c') => (Panic, c')
          | (x, c') =>
              match run_relays g c' rs' with
              | (Ok l, c'') => (Ok ((id, x) :: l), c'')
              | (o, c'') => (o, c'')
              end
          end
      | _ => run_relays g c rs'
      end
  end.

(* setBuilderBid over the answers that carry a bid, in the order they are taken off the channel
   (no builder configurations: the score is the value).
     win == nil || score > win.Score       -> new winner, Providers = [provider]
     bidsEqual(bid, win.Bid) (same header) -> Providers = append(Providers, provider)
     otherwise                             -> low or slow bid
   and Participation[provider.Address()] in every case. *)
Record auction_res := {
  ar_all : list N;                (* AllProviders, in configuration order *)
  ar_winners : list N;            (* Providers *)
  ar_score : N;                   (* WinningParticipation.Score, 0 without winner *)
  ar_participants : list N        (* keys of Participation *)
}.

Definition set_bid (st : option (N * N * list N)) (id v h : N) : option (N * N * list N) :=
  match st with
  | None => Some (v, h, [id])
  | Some (ws, wh, ps) =>
      if ws <? v then Some (v, h, [id])
      else if h =? wh then Some (ws, wh, ps ++ [id])
      else st
  end.

Fixpoint set_bids (st : option (N * N * list N)) (l : list (N * relay_res)) : option (N * N * list N) :=
  match l with
  | [] => st
  | (id, RBid v h) :: l' => set_bids (set_bid st id v h) l'
  | _ :: l' => set_bids st l'
  end.

Definition bidders (l : list (N * relay_res)) : list N :=
  flat_map (fun x => match snd x with RBid _ _ => [fst x] | _ => [] end) l.

Definition auction (g : bool) (c : cache) (rs : list bid_relay) : outcome auction_res unit * cache :=
  match issue_now (map br_client rs) with
  | Ok all =>
      match run_relays g c rs with
      | (Ok l, c') =>
          let w := set_bids None l in
          (Ok {| ar_all := all;
                 ar_winners := match w with Some (_, _, ps) => ps | None => [] end;
                 ar_score := match w with Some (s, _, _) => s | None => 0 end;
                 ar_participants := bidders l |}, c')
      | (Err e, c') => (Err e, c')
      | (Panic, c') => (Panic, c')
      end
  | Err e => (Err e, c)
  | Panic => (Panic, c)
  end.

(* one strategy instance, the auctions one after the other; the list ends at the first panic *)
Fixpoint bid_session (g : bool) (c : cache) (s : list (list bid_relay)) : list (outcome auction_res unit) :=
  match s with
  | [] => []
  | a :: s' =>
      match auction g c a with
      | (Ok r, c') => Ok r :: bid_session g c' s'
      | (o, _) => [o]
      end
  end.
Definition bid_session_now := bid_session true [].

(* ------------------------------------------------------------------------------------------- *)
(* specification side: which relays of an auction make an offer that counts, written without the
   cache: each auction on its own *)

Definition key_accepts (k : option bkey) (sg : bsig) : bool :=
  match k with
  | None => true                  (* no key to check against: the bid is taken as it is *)
  | Some (KValid n) => match sg with SigBy m => n =? m | SigMalformed => false end
  | Some (KInvalid _) => false    (* a key that is no key verifies nothing: the relay is ignored *)
  end.

Definition offer (r : bid_relay) : option (N * N * N) :=        (* relay, value, header *)
  match br_client r, br_answer r with
  | FClient id true true, BdBid v h fz tok sg =>
      if negb (v =? 0) && (br_min r <=? v) && negb fz && tok && key_accepts (effective_key r) sg
      then Some (id, v, h) else None
  | _, _ => None
  end.

Definition offers (rs : list bid_relay) : list (N * N * N) :=
  flat_map (fun r => match offer r with Some x => [x] | None => [] end) rs.

Definition of_id (x : N * N * N) : N := fst (fst x).
Definition of_value (x : N * N * N) : N := snd (fst x).
Definition of_header (x : N * N * N) : N := snd x.

Definition best_value (os : list (N * N * N)) : N := fold_right N.max 0 (map of_value os).

Definition best_offers (os : list (N * N * N)) : list N :=
  map of_id (filter (fun x => of_value x =? best_value os) os).

(* the order in which the answers arrive does not matter when equal headers carry equal values and
   the best value is offered with one header only *)
Definition tie_free (os : list (N * N * N)) : bool :=
  forallb (fun x => forallb (fun y => Bool.eqb (of_value x =? of_value y) (of_header x =? of_header y)) os) os.

(* the auction on a fresh strategy *)
Definition auction_alone (rs : list bid_relay) : outcome auction_res unit := fst (auction true [] rs).
