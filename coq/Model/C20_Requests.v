(* C20 (goroutines): the provider REQUESTS of the fan-out and the context they carry.
   Layer on top of Model/C20_Fanout.v (whose state, steps and theorems are unchanged).

   The seven `first` strategies:

       ctx, cancel := context.WithTimeout(ctx, s.timeout)     // a context of THIS call
       for ... { go func(ctx, ...) { resp, err := provider.Call(ctx, ...) ... }(ctx, ...) }
       select {
       case <-ctx.Done(): cancel(); return error
       case r := <-respCh: cancel(); return r
       }

   every request carries the call's own context, which ends when the collector returns (first
   answer, deadline) or when the caller's context ends: [RqCall].  A request to a node that never
   answers but honours its context ends with the call.

   unblindProposal hands the relays the context it was given ("We do not create a cancelable
   context ..."): [RqCaller]; a relay request that never answers lives until the caller's context
   ends, by design; once that has ended nothing may be left.

   A provider either returns by itself ([RBase (Return i ok)], the harness releases it) or, if it
   honours its context ([r_hon]), returns the context's error once that context has ended
   ([RAbort i]).  A provider that neither answers nor honours its context keeps its goroutine
   whatever the code does: those are not counted against the code.
   Definitions only. *)
From Verif Require Import Lib.Base Model.C20_Fanout.

Inductive reqctx :=
| RqCall       (* requests carry a context of the call: ended by the collector's return *)
| RqCaller.    (* requests carry the caller's context *)

Record rstate := {
  r_f : fstate;
  r_hon : list bool;        (* provider i returns once its request context has ended *)
  r_req : reqctx;
  r_caller_done : bool      (* the caller's context has ended *)
}.

Definition with_f (s : rstate) (f : fstate) : rstate :=
  {| r_f := f; r_hon := r_hon s; r_req := r_req s; r_caller_done := r_caller_done s |}.

(* the collector's `case <-ctx.Done()` *)
Definition coll_end (f : fstate) : fstate :=
  {| f_snd := f_snd f; f_cap := f_cap f; f_buf := f_buf f; f_k := f_k f; f_recvd := f_recvd f;
     f_coll_done := true; f_has_timeout := f_has_timeout f; f_detect := f_detect f; f_succ := f_succ f |}.

Definition req_done (s : rstate) : bool :=
  match r_req s with
  | RqCall => f_coll_done (r_f s) || r_caller_done s
  | RqCaller => r_caller_done s
  end.

Definition honours (s : rstate) (i : nat) : bool := nth i (r_hon s) false.

Inductive ract :=
| RBase (a : fact)     (* a step of the fan-out itself: Return / Send / Recv / Timeout (the call's deadline) / GiveUp *)
| RCallerEnd           (* the caller's context ends: a collector that is still waiting returns *)
| RAbort (i : nat).    (* request i, whose context has ended, comes back with the context's error *)

Definition rstep (s : rstate) (a : ract) : option rstate :=
  match a with
  | RBase b => match fstep (r_f s) b with Some f' => Some (with_f s f') | None => None end
  | RCallerEnd =>
      if r_caller_done s then None
      else Some {| r_f := coll_end (r_f s); r_hon := r_hon s; r_req := r_req s; r_caller_done := true |}
  | RAbort i =>
      if honours s i && req_done s then
        match fstep (r_f s) (Return i false) with Some f' => Some (with_f s f') | None => None end
      else None
  end.

Definition rexec (s : rstate) (a : ract) : rstate :=
  match rstep s a with Some s' => s' | None => s end.

Definition rrun (sch : list ract) (s : rstate) : rstate := fold_left rexec sch s.

Definition rinit (n : nat) (cap k : N) (has_timeout detect : bool) (hon : list bool) (rq : reqctx) : rstate :=
  {| r_f := finit n cap k has_timeout detect; r_hon := hon; r_req := rq; r_caller_done := false |}.

(* --- what is observed ------------------------------------------------------------------------- *)
Definition stat_at (s : rstate) (i : nat) : option sstat := nth_error (f_snd (r_f s)) i.

(* request i is outstanding at a provider that honours its context *)
Definition inflight_at (s : rstate) (i : nat) : bool :=
  match stat_at s i with Some SCall => honours s i | _ => false end.

(* ... and its context has ended: it is about to come back *)
Definition stale_at (s : rstate) (i : nat) : bool := inflight_at s i && req_done s.

Definition indices (s : rstate) : list nat := seq 0 (length (f_snd (r_f s))).

Definition inflight_hon (s : rstate) : N := N.of_nat (length (filter (inflight_at s) (indices s))).

(* requests outstanding at providers that do NOT honour their context: the node's doing *)
Definition deaf_at (s : rstate) (i : nat) : bool :=
  match stat_at s i with Some SCall => negb (honours s i) | _ => false end.

(* goroutines of the call that still exist *)
Definition alive (s : rstate) : N := calling (r_f s) + blocked (r_f s).

(* nothing moves by itself any more: no request is about to be aborted, no sender can send, the
   collector cannot receive nor be told that everybody failed.  (What can still happen comes from
   outside: a provider answers, the deadline passes, the caller's context ends.) *)
Definition rquiet (s : rstate) : bool :=
  let f := r_f s in
  forallb (fun i => negb (stale_at s i)) (indices s) &&
  ((blocked f =? 0) || (f_cap f <=? f_buf f)) &&
  (f_coll_done f || (f_buf f =? 0) || (f_k f <=? f_recvd f)) &&
  negb (negb (f_coll_done f) && f_detect f && (calling f =? 0) && (f_succ f =? 0)).

(* --- the scripted scenario of the harness ----------------------------------------------------- *)
Inductive rev :=
| RvRelease (i : nat) (ok : bool)   (* provider i returns by itself *)
| RvDeadline                        (* the call's own deadline passes *)
| RvCallerEnd.                      (* the caller's context ends *)

Definition aborts (s : rstate) : rstate := fold_left (fun s i => rexec s (RAbort i)) (indices s) s.

Fixpoint rsettle_sends (n : nat) (i : nat) (s : rstate) : rstate :=
  match n with
  | O => s
  | S n' => rsettle_sends n' (S i) (rexec (rexec s (RBase (Send i))) (RBase Recv))
  end.

(* requests whose context has ended come back; answers are sent and taken; the collector's return
   ends the call's context: again *)
Definition rsettle (s : rstate) : rstate :=
  let s1 := aborts s in
  let s2 := rexec (rsettle_sends (length (f_snd (r_f s1))) 0 s1) (RBase GiveUp) in
  aborts s2.

Definition rev_apply (s : rstate) (e : rev) : rstate :=
  match e with
  | RvRelease i ok => rsettle (rexec s (RBase (Return i ok)))
  | RvDeadline => rsettle (rexec s (RBase Timeout))
  | RvCallerEnd => rsettle (rexec s RCallerEnd)
  end.

(* the states after each event *)
Fixpoint rtrace (s : rstate) (evs : list rev) : list rstate :=
  match evs with
  | [] => []
  | e :: evs' => let s' := rev_apply s e in s' :: rtrace s' evs'
  end.

Definition rscenario (s : rstate) (evs : list rev) : rstate := fold_left rev_apply evs s.
